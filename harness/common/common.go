// Package common: result file, PRNG and Coq term emission shared by all property harnesses.
package common

import (
	"encoding/json"
	"flag"
	"fmt"
	"math/big"
	"math/rand"
	"os"
	"path/filepath"
	"sort"
	"strings"
)

type Failure struct {
	Canonical string      `json:"canonical"` // canonical rendering used to match known findings
	Detail    string      `json:"detail"`
	Case      interface{} `json:"case"`
}

type Result struct {
	Property           string         `json:"property"`
	Seed               int64          `json:"seed"`
	Tier               string         `json:"tier"`
	Evaluations        int            `json:"evaluations"`
	DistinctNontrivial int            `json:"distinct_nontrivial"`
	Rule               string         `json:"rule"`
	Samples            []interface{}  `json:"samples"`
	Distribution       map[string]int `json:"distribution"`
	Failures           []Failure      `json:"failures"`
	InfraErrors        []string       `json:"infra_errors"`
	ModelCases         int            `json:"model_cases"`
	Notes              []string       `json:"notes,omitempty"`
	distinct           map[string]bool
}

func NewResult(prop string, seed int64, tier string) *Result {
	return &Result{Property: prop, Seed: seed, Tier: tier, Distribution: map[string]int{}, distinct: map[string]bool{}}
}

func (r *Result) Count(key string) { r.Distribution[key]++ }

// Nontrivial records a canonical non-trivial case (deduplicated).
func (r *Result) Nontrivial(canon string) {
	if !r.distinct[canon] {
		r.distinct[canon] = true
		r.DistinctNontrivial = len(r.distinct)
	}
}

func (r *Result) Sample(x interface{}) {
	if len(r.Samples) < 8 {
		r.Samples = append(r.Samples, x)
	}
}

func (r *Result) Fail(canon, detail string, c interface{}) {
	r.Failures = append(r.Failures, Failure{Canonical: canon, Detail: detail, Case: c})
}

// Current records the case that is about to run (so that a crash of the process can be attributed to it).
func (r *Result) Current(dir, canon string, c interface{}) {
	b, _ := json.Marshal(map[string]interface{}{"canonical": canon, "case": c})
	_ = os.WriteFile(filepath.Join(dir, "current.json"), b, 0o644)
}

func (r *Result) Infra(format string, a ...interface{}) {
	r.InfraErrors = append(r.InfraErrors, fmt.Sprintf(format, a...))
}

func (r *Result) Write(dir string) error {
	if r.Samples == nil {
		r.Samples = []interface{}{}
	}
	if r.Failures == nil {
		r.Failures = []Failure{}
	}
	if r.InfraErrors == nil {
		r.InfraErrors = []string{}
	}
	b, err := json.MarshalIndent(r, "", " ")
	if err != nil {
		return err
	}
	return os.WriteFile(filepath.Join(dir, "result.json"), b, 0o644)
}

// ---- PRNG ----
type Rng struct{ *rand.Rand }

func NewRng(seed int64) *Rng { return &Rng{rand.New(rand.NewSource(seed))} }

func (r *Rng) Pick(n int) int {
	if n <= 0 {
		return 0
	}
	return r.Intn(n)
}
func (r *Rng) Chance(p float64) bool { return r.Float64() < p }
func (r *Rng) Range(lo, hi int) int  { return lo + r.Intn(hi-lo+1) }

// ---- Coq emission ----
func CoqN(n *big.Int) string { return n.String() }

func CoqNList(xs []int) string {
	s := make([]string, len(xs))
	for i, x := range xs {
		s[i] = fmt.Sprint(x)
	}
	return "[" + strings.Join(s, "; ") + "]"
}

func CoqList(items []string) string { return "[" + strings.Join(items, ";\n  ") + "]" }

func CoqBool(b bool) string {
	if b {
		return "true"
	}
	return "false"
}

// CoqBytes renders bytes as a list of N.
func CoqBytes(b []byte) string {
	s := make([]string, len(b))
	for i, x := range b {
		s[i] = fmt.Sprint(int(x))
	}
	return "[" + strings.Join(s, ";") + "]"
}

// CoqHex renders bytes as a list of the per-byte constants x00..xff of Base/ImapHex.v: a reference to a constant is
// elaborated far faster than a numeral.
func CoqHex(b []byte) string {
	const d = "0123456789abcdef"
	out := make([]byte, 0, 4*len(b)+2)
	out = append(out, '[')
	for i, x := range b {
		if i > 0 {
			out = append(out, ';')
		}
		out = append(out, 'x', d[x>>4], d[x&15])
	}
	out = append(out, ']')
	return string(out)
}

// WriteCases writes <dir>/cases.v importing the run module and printing mismatches.
func WriteCases(dir, runModule, caseType string, cases []string, extra string) error {
	var sb strings.Builder
	sb.WriteString("From Coq Require Import List NArith ZArith String Bool.\n")
	sb.WriteString("From Gluon Require Import " + runModule + ".\n")
	sb.WriteString("Import ListNotations.\nOpen Scope N_scope.\n")
	sb.WriteString(extra)
	// split in chunks to keep terms small
	const chunk = 200
	var names []string
	for i := 0; i < len(cases); i += chunk {
		j := i + chunk
		if j > len(cases) {
			j = len(cases)
		}
		name := fmt.Sprintf("cases_%d", i/chunk)
		names = append(names, name)
		sb.WriteString(fmt.Sprintf("Definition %s : list %s :=\n  %s.\n", name, caseType, CoqList(cases[i:j])))
	}
	if len(names) == 0 {
		sb.WriteString(fmt.Sprintf("Definition cases_0 : list %s := [].\n", caseType))
		names = []string{"cases_0"}
	}
	sb.WriteString("Definition M := Eval vm_compute in (" + strings.Join(mapStr(names, func(n string) string { return "mismatches " + n }), " ++ ") + ").\n")
	sb.WriteString("Print M.\n")
	return os.WriteFile(filepath.Join(dir, "cases.v"), []byte(sb.String()), 0o644)
}

func mapStr(xs []string, f func(string) string) []string {
	r := make([]string, len(xs))
	for i, x := range xs {
		r[i] = f(x)
	}
	return r
}

func SortedInts(xs []int) []int {
	r := append([]int{}, xs...)
	sort.Ints(r)
	return r
}

func DedupSorted(xs []int) []int {
	var r []int
	for i, x := range xs {
		if i == 0 || x != xs[i-1] {
			r = append(r, x)
		}
	}
	return r
}

// ---- harness entry point shared by the per-property commands ----

type Ctx struct {
	Prop   string
	Out    string
	Seed   int64
	Tier   string
	Replay string
	Rng    *Rng
	Res    *Result
	N      int // optional explicit budget
}

// Main parses the flags (-out DIR -seed N -tier quick|thorough [-replay FILE] [-n BUDGET]), runs the property
// harness, writes <out>/result.json and exits (0 = completed, 3 = infrastructure error).
func Main(prop string, run func(ctx *Ctx) error) {
	fs := flag.NewFlagSet(prop, flag.ExitOnError)
	out := fs.String("out", ".", "output directory")
	seed := fs.Int64("seed", 1, "seed")
	tier := fs.String("tier", "quick", "quick|thorough")
	replay := fs.String("replay", "", "replay file")
	n := fs.Int("n", 0, "budget override")
	fs.Parse(os.Args[1:])
	os.MkdirAll(*out, 0o755)
	ctx := &Ctx{Prop: prop, Out: *out, Seed: *seed, Tier: *tier, Replay: *replay, Rng: NewRng(*seed), Res: NewResult(prop, *seed, *tier), N: *n}
	err := run(ctx)
	if err != nil {
		ctx.Res.Infra("fatal: %v", err)
	}
	if werr := ctx.Res.Write(*out); werr != nil {
		fmt.Fprintln(os.Stderr, "write result:", werr)
		os.Exit(3)
	}
	if err != nil {
		fmt.Fprintln(os.Stderr, "harness error:", err)
		os.Exit(3)
	}
}

func (c *Ctx) Budget(quick, thorough int) int {
	if c.N > 0 {
		return c.N
	}
	if c.Tier == "thorough" {
		return thorough
	}
	return quick
}

// Current records the case about to run (crash attribution).
func (c *Ctx) Current(canon string, cs interface{}) { c.Res.Current(c.Out, canon, cs) }

// Message builds a small valid RFC 5322 message with a marker (APPEND requires Date and From).
func Message(marker string, body string) []byte {
	return []byte("Date: Mon, 01 Jan 2024 10:00:00 +0000\r\nFrom: a@example.com\r\nTo: b@example.com\r\nSubject: " + marker + "\r\nX-Marker: " + marker + "\r\n\r\n" + body + "\r\n")
}
