(* C14 — RENAME: the sequence of UPDATEs under the UNIQUE(name) constraint, in the order the code uses, against
   the reference (one simultaneous substitution, refused iff two mailboxes would get the same name). *)
From Coq Require Import List NArith Bool Lia PeanoNat Arith.
From Gluon Require Import Model.MboxNames Model.WildcardSpec Model.MboxNamespace Model.MboxMatch.
From Gluon Require Import Proofs.MboxNamesProofs Proofs.MboxListProofs Proofs.MboxNamespaceProofs Proofs.MboxRefineProofs.
Import ListNotations.
Open Scope N_scope.

Lemma nodup_names_spec : forall l, nodup_names l = true <-> NoDup l.
Proof.
  induction l as [|x l IH]; simpl.
  - split; auto. intros _. constructor.
  - rewrite andb_true_iff, negb_true_iff, mb_contains_false, IH. split.
    + intros [H1 H2]. constructor; auto.
    + intro H. inversion H; subst. auto.
Qed.

Lemma not_nodup_map : forall (A B : Type) (f : A -> B) (l : list A) a b,
  In a l -> In b l -> a <> b -> f a = f b -> ~ NoDup (map f l).
Proof.
  intros A B f l a b Ia Ib Ne E N. apply Ne. apply (nodup_map_inj A B f l); auto.
Qed.

Lemma by_name_of : forall rows x, In x (names_of rows) -> exists r, db_by_name rows x = Some r /\ In r rows /\ m_name r = x.
Proof.
  intros rows x H. destruct (db_by_name rows x) as [r|] eqn:B.
  - exists r. split; auto. apply db_by_name_some. auto.
  - exfalso. apply (db_by_name_none rows x B). auto.
Qed.

Section MoveSeq.
Variable tg : name -> name.

Definition mv (L : list name) (r : mrow) : mrow :=
  if mb_contains L (m_name r) then mkRow (m_id r) (tg (m_name r)) (m_sub r) else r.
Definition mv_dsubs (L : list name) (ds : list name) : list name :=
  fold_left (fun ds y => remove_name (tg y) ds) L ds.
Definition move_seq (L : list name) (st : nstate) : option nstate :=
  fold_left (fun acc inf =>
               match acc with
               | None => None
               | Some s => match db_by_name (st_rows s) inf with
                           | None => None
                           | Some r => db_rename s (m_id r) (tg inf)
                           end
               end) L (Some st).

Lemma move_seq_cons : forall x L st, move_seq (x :: L) st =
  match db_by_name (st_rows st) x with
  | None => None
  | Some r => match db_rename st (m_id r) (tg x) with None => None | Some s => move_seq L s end
  end.
Proof.
  intros x L st. unfold move_seq. simpl.
  destruct (db_by_name (st_rows st) x) as [r|]; [|apply fold_none].
  destruct (db_rename st (m_id r) (tg x)); [reflexivity|apply fold_none].
Qed.

Lemma names_map : forall (g : mrow -> mrow) rows, names_of (map g rows) = map (fun r => m_name (g r)) rows.
Proof. intros. unfold names_of. apply map_map. Qed.

Lemma move_seq_spec : forall L st, ns_wf st -> NoDup L ->
  (forall x, In x L -> In x (names_of (st_rows st))) ->
  (forall x, In x L -> tg x <> x) ->
  (forall a x b, L = a ++ x :: b -> ~ In (tg x) b) ->
  move_seq L st =
  if nodup_names (names_of (map (mv L) (st_rows st)))
  then Some (mkSt (map (mv L) (st_rows st)) (mv_dsubs L (st_dsubs st)) (st_next st)) else None.
Proof.
  induction L as [|x L IH]; intros st W N Hin Hne Hord.
  - assert (E : map (mv []) (st_rows st) = st_rows st).
    { rewrite <- (map_id (st_rows st)) at 2. apply map_ext. intro r. reflexivity. }
    rewrite E. destruct W as [W1 _]. apply nodup_names_spec in W1. rewrite W1.
    unfold move_seq, mv_dsubs. simpl. destruct st; reflexivity.
  - rewrite move_seq_cons.
    assert (W' := W). destruct W' as [W1 [W2 [W3 [W4 W5]]]].
    destruct (by_name_of (st_rows st) x (Hin x (or_introl eq_refl))) as [r [B [R1 R2]]].
    rewrite B. inversion N as [|? ? N1 N2]; subst.
    assert (Tx : tg (m_name r) <> m_name r) by (apply Hne; left; auto).
    assert (TL : ~ In (tg (m_name r)) L) by (apply (Hord [] (m_name r) L); auto).
    unfold db_rename. rewrite (by_id_of_row _ r W2 R1).
    destruct (existsb (fun q => name_eqb (m_name q) (tg (m_name r)) && negb (m_id q =? m_id r)) (st_rows st)) eqn:C.
    + (* the new name is taken: the UPDATE fails; in the reference two mailboxes get that name *)
      apply existsb_exists in C. destruct C as [q [Q1 Q2]]. apply andb_true_iff in Q2 as [Q2 Q3].
      apply name_eqb_eq in Q2.
      assert (D : nodup_names (names_of (map (mv (m_name r :: L)) (st_rows st))) = false).
      { destruct (nodup_names (names_of (map (mv (m_name r :: L)) (st_rows st)))) eqn:X; auto. exfalso.
        apply nodup_names_spec in X. rewrite names_map in X. revert X.
        apply (not_nodup_map _ _ _ (st_rows st) r q); auto.
        - intro E. subst q. auto.
        - unfold mv. cbn [mb_contains existsb]. rewrite name_eqb_refl. cbn [orb m_name].
          assert (Y : mb_contains (m_name r :: L) (m_name q) = false).
          { apply mb_contains_false. rewrite Q2. intros [Z|Z]; auto. }
          unfold mb_contains in Y. cbn [existsb] in Y. rewrite Y. auto. }
      rewrite D. reflexivity.
    + (* the UPDATE succeeds *)
      set (st1 := mkSt (map (set_name (m_id r) (tg (m_name r))) (st_rows st)) (remove_name (tg (m_name r)) (st_dsubs st)) (st_next st)).
      assert (R : db_rename st (m_id r) (tg (m_name r)) = Some st1).
      { unfold db_rename. rewrite (by_id_of_row _ r W2 R1), C. reflexivity. }
      assert (Wx := wf_rename st (m_id r) (tg (m_name r)) st1 W R).
      assert (Other : forall q, In q (st_rows st) -> m_name q <> m_name r -> (m_id q =? m_id r) = false).
      { intros q Q Ne. apply N.eqb_neq. intro E. apply Ne. f_equal. apply (nodup_map_inj _ _ m_id (st_rows st)); auto. }
      rewrite (IH st1); auto.
      * assert (E1 : map (mv L) (st_rows st1) = map (mv (m_name r :: L)) (st_rows st)).
        { unfold st1. cbn [st_rows]. rewrite map_map. apply map_ext_in. intros q Q.
          unfold set_name. destruct (m_id q =? m_id r) eqn:I.
          - apply N.eqb_eq in I. assert (q = r) by (apply (nodup_map_inj _ _ m_id (st_rows st)); auto). subst q.
            unfold mv. cbn [m_name m_id m_sub].
            assert (Y : mb_contains L (tg (m_name r)) = false) by (apply mb_contains_false; auto).
            rewrite Y. cbn [mb_contains existsb]. rewrite name_eqb_refl. reflexivity.
          - unfold mv. cbn [mb_contains existsb].
            assert (Y : name_eqb (m_name q) (m_name r) = false).
            { apply name_eqb_neq. intro E. apply N.eqb_neq in I. apply I. f_equal.
              apply (nodup_map_inj _ _ m_name (st_rows st)); auto. }
            rewrite Y. reflexivity. }
        rewrite E1. reflexivity.
      * intros y Y. unfold st1. cbn [st_rows].
        destruct (by_name_of (st_rows st) y (Hin y (or_intror Y))) as [q [_ [Q1 Q2]]].
        assert (Ny : m_name q <> m_name r) by (rewrite Q2; intro E; apply N1; rewrite <- E; exact Y).
        unfold names_of. apply in_map_iff. exists (set_name (m_id r) (tg (m_name r)) q). split.
        -- unfold set_name. rewrite (Other q Q1 Ny). auto.
        -- apply in_map. auto.
      * intros y Y. apply Hne. right. auto.
      * intros a y b E. apply (Hord (m_name r :: a) y b). rewrite E. reflexivity.
Qed.

Lemma filter_remove : forall (p : name -> bool) t ds,
  filter p (remove_name t ds) = filter (fun x => negb (name_eqb x t) && p x) ds.
Proof.
  intros p t ds. unfold remove_name. induction ds as [|x ds IH]; simpl; auto.
  destruct (negb (name_eqb x t)); simpl; rewrite IH; auto.
Qed.

Lemma mv_dsubs_filter : forall L ds, mv_dsubs L ds = filter (fun x => negb (mb_contains (map tg L) x)) ds.
Proof.
  unfold mv_dsubs. induction L as [|y L IH]; intro ds; simpl.
  - induction ds as [|x ds IHd]; simpl; auto. f_equal. auto.
  - rewrite IH. rewrite filter_remove. apply filter_ext. intro x.
    unfold mb_contains. cbn [existsb]. rewrite negb_orb. reflexivity.
Qed.
End MoveSeq.

(* ---------- the order of the inferiors is a rearrangement of the inferiors ---------- *)
From Coq Require Import Permutation.

Lemma lex_insert_perm : forall x l, Permutation (lex_insert x l) (x :: l).
Proof.
  induction l as [|y l IH]; simpl; auto.
  destruct (lex_leb x y); auto. apply perm_trans with (y :: x :: l); [constructor; auto | constructor].
Qed.
Lemma lex_sort_perm : forall l, Permutation (lex_sort l) l.
Proof.
  induction l as [|x l IH]; simpl; auto. unfold lex_sort in *. simpl.
  apply perm_trans with (x :: fold_right lex_insert [] l); [apply lex_insert_perm | constructor; auto].
Qed.
Lemma len_insert_perm : forall x l, Permutation (len_insert x l) (x :: l).
Proof.
  induction l as [|y l IH]; simpl; auto.
  destruct (Nat.leb (length x) (length y)); auto. apply perm_trans with (y :: x :: l); [constructor; auto | constructor].
Qed.
Lemma len_sort_perm : forall l, Permutation (len_sort l) l.
Proof.
  induction l as [|x l IH]; simpl; auto. unfold len_sort in *. simpl.
  apply perm_trans with (x :: fold_right len_insert [] l); [apply len_insert_perm | constructor; auto].
Qed.

Lemma rename_order_NoDup : forall d o names, NoDup names -> NoDup (rename_order d o names).
Proof.
  intros d o names N. unfold rename_order, list_inferiors.
  apply (Permutation_NoDup (l := filter (fun n => mb_contains (list_superiors d n) o) names)).
  - apply Permutation_sym. apply perm_trans with (rev (lex_sort (filter (fun n => mb_contains (list_superiors d n) o) names))).
    + apply len_sort_perm.
    + apply perm_trans with (lex_sort (filter (fun n => mb_contains (list_superiors d n) o) names)).
      * apply Permutation_sym. apply Permutation_rev.
      * apply lex_sort_perm.
  - apply NoDup_filter. auto.
Qed.

(* ---------- names ---------- *)
Lemma mb_prefixb_app : forall o s, mb_prefixb o (o ++ s) = true.
Proof. intros o s. apply mb_prefixb_spec. exists s. auto. Qed.

Lemma trim_prefix_app : forall o s, trim_prefix o (o ++ s) = s.
Proof.
  intros o s. unfold trim_prefix. rewrite mb_prefixb_app.
  rewrite skipn_app, skipn_all, Nat.sub_diag. reflexivity.
Qed.

Lemma skipn_superior : forall (o s : name), skipn (length o) (o ++ s) = s.
Proof. intros o s. rewrite skipn_app, skipn_all, Nat.sub_diag. reflexivity. Qed.

Lemma app_split_le' : forall (A : Type) (a b c e : list A),
  a ++ b = c ++ e -> (length a <= length c)%nat -> exists w, c = a ++ w /\ b = w ++ e.
Proof.
  induction a as [|x a IH]; intros b c e H L.
  - exists c. split; auto.
  - destruct c as [|y c]; [simpl in L; lia|].
    simpl in H. injection H as Hx Ht. subst y.
    destruct (IH b c e Ht) as [w [H1 H2]]; [simpl in L; lia|].
    exists w. subst c. split; auto.
Qed.

(* the new name of an inferior is not again an inferior of the old name, unless the mailbox moves up or down its own branch *)
Lemma target_not_inferior : forall d o n x, n <> o -> ~ is_superior d o n -> ~ is_superior d n o ->
  is_superior d o x -> ~ is_superior d o (n ++ trim_prefix o x).
Proof.
  intros d o n x Ne H1 H2 [rest E] [rest2 E2]. subst x. rewrite trim_prefix_app in E2.
  destruct (Nat.le_ge_cases (length n) (length o)) as [L|L].
  - destruct (app_split_le' _ _ _ _ _ E2 L) as [w [W1 W2]].
    destruct w as [|c w].
    + rewrite app_nil_r in W1. auto.
    + simpl in W2. injection W2 as W2 W3. subst c. apply H2. exists w. auto.
  - symmetry in E2. destruct (app_split_le' _ _ _ _ _ E2 L) as [w [W1 W2]].
    destruct w as [|c w].
    + rewrite app_nil_r in W1. auto.
    + simpl in W2. injection W2 as W2 W3. subst c. apply H1. exists w. auto.
Qed.

Lemma target_neq : forall d o n x, n <> o -> is_superior d o x -> n ++ trim_prefix o x <> x.
Proof.
  intros d o n x Ne [rest E] H. subst x. rewrite trim_prefix_app in H. apply app_inv_tail in H. auto.
Qed.

Lemma superior_check_eq : forall d rows o n, db_exists rows o = true ->
  existsb (fun s => db_exists rows s && name_eqb s o) (list_superiors d n) = is_superior_b d o n.
Proof.
  intros d rows o n Ex. destruct (is_superior_b d o n) eqn:S.
  - apply is_superior_b_spec in S. apply existsb_exists. exists o. split.
    + apply list_superiors_spec. auto.
    + rewrite Ex, name_eqb_refl. auto.
  - destruct (existsb (fun s => db_exists rows s && name_eqb s o) (list_superiors d n)) eqn:X; auto.
    apply existsb_exists in X. destruct X as [s [X1 X2]]. apply andb_true_iff in X2 as [_ X2].
    apply name_eqb_eq in X2. subst s. apply list_superiors_spec in X1. apply is_superior_b_spec in X1.
    rewrite X1 in S. discriminate.
Qed.

Lemma missing_ok' : forall d rows n,
  NoDup (missing_superiors d rows n) /\ (forall x, In x (missing_superiors d rows n) -> ~ In x (names_of rows)).
Proof.
  intros d rows n. unfold missing_superiors. split.
  - apply NoDup_filter. apply prefixes_at_NoDup.
  - intros x X. apply filter_In in X. destruct X as [_ X]. apply negb_true_iff in X. apply db_exists_false. auto.
Qed.

Lemma contains_ext : forall A B x, (In x A <-> In x B) -> mb_contains A x = mb_contains B x.
Proof.
  intros A B x H. destruct (mb_contains A x) eqn:E1; destruct (mb_contains B x) eqn:E2; auto.
  - apply mb_contains_In in E1. apply H in E1. apply mb_contains_In in E1. rewrite E1 in E2. discriminate.
  - apply mb_contains_In in E2. apply H in E2. apply mb_contains_In in E2. rewrite E2 in E1. discriminate.
Qed.

(* ---------- RENAME against the reference ---------- *)
Lemma no_conflict : forall rows i n, ~ In n (names_of rows) ->
  existsb (fun r => name_eqb (m_name r) n && negb (m_id r =? i)) rows = false.
Proof.
  intros rows i n H. destruct (existsb _ rows) eqn:X; auto. exfalso.
  apply existsb_exists in X. destruct X as [r [R1 R2]]. apply andb_true_iff in R2 as [R2 _].
  apply name_eqb_eq in R2. apply H. rewrite <- R2. unfold names_of. apply in_map. auto.
Qed.

Lemma rename_refines_gen : forall d st rawo rawn, delim_ok d -> ns_wf st ->
  (let o := canon_first d rawo in
   let n := trim_suffix d (canon_first d rawn) in
   n <> o -> ~ is_superior d o n ->
   forall names a x b, rename_order d o names = a ++ x :: b -> ~ In (n ++ trim_prefix o x) b) ->
  impl_rename d st rawo rawn = spec_rename d st rawo rawn.
Proof.
  intros d st rawo rawn D W Hord. unfold impl_rename, spec_rename.
  set (o := canon_first d rawo) in *. set (n0 := canon_first d rawn) in *.
  destruct (mb_eqfold o RECOVERY); [reflexivity|]. cbn [orb].
  destruct (bad_new_name d n0); [reflexivity|].
  set (n := trim_suffix d n0) in *.
  destruct (db_by_name (st_rows st) o) as [mb|] eqn:B.
  2: { assert (X : db_exists (st_rows st) o = false) by (apply db_exists_false; apply db_by_name_none; auto).
       rewrite X. reflexivity. }
  apply db_by_name_some in B. destruct B as [B1 B2].
  assert (Eo : db_exists (st_rows st) o = true).
  { apply db_exists_In. rewrite <- B2. unfold names_of. apply in_map. auto. }
  rewrite Eo. cbn [negb orb].
  destruct (db_exists (st_rows st) n) eqn:En; [reflexivity|]. cbn [orb].
  rewrite (superior_check_eq d (st_rows st) o n Eo).
  destruct (is_superior_b d o n) eqn:S; [reflexivity|].
  rewrite list_superiors_prefixes. fold (missing_superiors d (st_rows st) n).
  destruct (missing_ok' d (st_rows st) n) as [M1 M2].
  assert (C := create_all_spec _ st M1 M2). rewrite C.
  set (st1 := spec_add st (missing_superiors d (st_rows st) n)) in *.
  assert (W1 := wf_create_all _ _ _ W C).
  assert (Nn : ~ In n (names_of (st_rows st1))).
  { unfold st1. rewrite spec_add_rows, in_app_iff. intros [X|X].
    - apply db_exists_false in En. auto.
    - unfold missing_superiors in X. apply filter_In in X. destruct X as [X _].
      apply prefixes_at_spec in X. apply is_superior_neq in X. auto. }
  assert (Mb1 : In mb (st_rows st1)) by (apply spec_add_keeps; auto).
  assert (Neq : n <> o).
  { intro E. apply db_exists_false in En. apply En. rewrite E. apply db_exists_In. auto. }
  assert (NS : ~ is_superior d o n).
  { intro X. apply is_superior_b_spec in X. rewrite X in S. discriminate. }
  destruct (name_eqb o INBOX).
  - (* INBOX *)
    unfold db_create. assert (X : db_exists (st_rows st1) n = false) by (apply db_exists_false; auto).
    rewrite X. reflexivity.
  - assert (W1' := W1). destruct W1' as [V1 [V2 [V3 [V4 V5]]]].
    unfold db_rename. rewrite (by_id_of_row _ mb V2 Mb1). rewrite (no_conflict _ _ _ Nn).
    set (st2 := mkSt (map (set_name (m_id mb) n) (st_rows st1)) (remove_name n (st_dsubs st1)) (st_next st1)).
    assert (R : db_rename st1 (m_id mb) n = Some st2).
    { unfold db_rename. rewrite (by_id_of_row _ mb V2 Mb1). rewrite (no_conflict _ _ _ Nn). reflexivity. }
    assert (W2 := wf_rename _ _ _ _ W1 R).
    set (tg := fun x => n ++ trim_prefix o x).
    set (L := rename_order d o (names_of (st_rows st2))).
    change (move_inferiors o n L st2) with (move_seq tg L st2).
    assert (LI : forall x, In x L -> In x (names_of (st_rows st2)) /\ is_superior d o x).
    { intros x X. apply rename_order_In. auto. }
    rewrite (move_seq_spec tg L st2 W2).
    + (* the rows and the outlived subscriptions are those of the reference *)
      assert (Other : forall q, In q (st_rows st1) -> m_name q <> o -> (m_id q =? m_id mb) = false).
      { intros q Q Ne. apply N.eqb_neq. intro E. apply Ne. rewrite <- B2. f_equal.
        apply (nodup_map_inj _ _ m_id (st_rows st1)); auto. }
      assert (InL : forall q, In q (st_rows st1) -> m_name q <> o ->
                    mb_contains L (m_name q) = is_superior_b d o (m_name q)).
      { intros q Q Ne. destruct (is_superior_b d o (m_name q)) eqn:X.
        - apply mb_contains_In. apply rename_order_In. split; [|apply is_superior_b_spec; auto].
          unfold st2. cbn [st_rows]. unfold names_of. apply in_map_iff.
          exists (set_name (m_id mb) n q). split; [|apply in_map; auto].
          unfold set_name. rewrite (Other q Q Ne). auto.
        - apply mb_contains_false. intro Y. apply LI in Y. destruct Y as [_ Y].
          apply is_superior_b_spec in Y. rewrite Y in X. discriminate. }
      assert (E2 : map (mv tg L) (st_rows st2) = map (spec_move_row d o n) (st_rows st1)).
      { unfold st2. cbn [st_rows]. rewrite map_map. apply map_ext_in. intros q Q.
        unfold set_name. destruct (m_id q =? m_id mb) eqn:I.
        - apply N.eqb_eq in I. assert (q = mb) by (apply (nodup_map_inj _ _ m_id (st_rows st1)); auto). subst q.
          unfold mv, spec_move_row, spec_moved. cbn [m_name m_id m_sub].
          assert (Y : mb_contains L n = false).
          { apply mb_contains_false. intro Y. apply LI in Y. tauto. }
          rewrite Y, B2, name_eqb_refl. reflexivity.
        - assert (Ne : m_name q <> o).
          { intro E. apply N.eqb_neq in I. apply I. f_equal. apply (nodup_map_inj _ _ m_name (st_rows st1)); auto.
            rewrite E, B2. auto. }
          unfold mv, spec_move_row, spec_moved. rewrite (InL q Q Ne).
          assert (Y : name_eqb (m_name q) o = false) by (apply name_eqb_neq; auto). rewrite Y.
          destruct (is_superior_b d o (m_name q)) eqn:X.
          + unfold tg, trim_prefix. apply is_superior_b_spec in X. destruct X as [rest X].
            rewrite X, mb_prefixb_app. reflexivity.
          + destruct q; reflexivity. }
      assert (E3 : mv_dsubs tg L (st_dsubs st2) =
                   filter (fun x => negb (mb_contains (map (spec_moved d o n) (filter (is_moved d o) (names_of (st_rows st1)))) x))
                          (st_dsubs st1)).
      { rewrite mv_dsubs_filter. unfold st2. cbn [st_dsubs]. rewrite filter_remove. apply filter_ext. intro x.
        rewrite <- negb_orb. f_equal.
        rewrite (contains_ext (map (spec_moved d o n) (filter (is_moved d o) (names_of (st_rows st1)))) (n :: map tg L) x).
        - unfold mb_contains. cbn [existsb]. reflexivity.
        - rewrite in_map_iff. simpl. rewrite in_map_iff. split.
          + intros [y [Y1 Y2]]. apply filter_In in Y2. destruct Y2 as [Y2 Y3].
            unfold is_moved in Y3. apply orb_true_iff in Y3. destruct Y3 as [Y3|Y3].
            * apply name_eqb_eq in Y3. subst y. left. rewrite <- Y1. unfold spec_moved. rewrite name_eqb_refl. auto.
            * right. exists y. assert (Ny : y <> o) by (apply is_superior_b_spec in Y3; apply not_eq_sym; apply (is_superior_neq d); auto).
              unfold names_of in Y2. apply in_map_iff in Y2. destruct Y2 as [q [Q1 Q2]]. subst y.
              split.
              -- rewrite <- Y1. unfold spec_moved, tg.
                 assert (Z : name_eqb (m_name q) o = false) by (apply name_eqb_neq; auto). rewrite Z, Y3.
                 apply is_superior_b_spec in Y3. destruct Y3 as [rest Y3]. rewrite Y3, trim_prefix_app, skipn_superior. auto.
              -- apply mb_contains_In. rewrite (InL q Q2 Ny). auto.
          + intros [Y|[y [Y1 Y2]]].
            * exists o. split; [unfold spec_moved; rewrite name_eqb_refl; auto|].
              apply filter_In. split; [rewrite <- B2; unfold names_of; apply in_map; auto|].
              unfold is_moved. rewrite name_eqb_refl. auto.
            * destruct (LI y Y2) as [Z1 Z2]. exists y.
              assert (Ny : y <> o) by (apply not_eq_sym; apply (is_superior_neq d); auto).
              assert (Sb : is_superior_b d o y = true) by (apply is_superior_b_spec; auto).
              split.
              -- rewrite <- Y1. unfold spec_moved, tg.
                 assert (Z : name_eqb y o = false) by (apply name_eqb_neq; auto). rewrite Z, Sb.
                 destruct Z2 as [rest Z2]. rewrite Z2, trim_prefix_app, skipn_superior. auto.
              -- apply filter_In. split; [|unfold is_moved; rewrite Sb; apply orb_true_r].
                 unfold st2 in Z1. cbn [st_rows] in Z1. apply names_set_name_In in Z1. destruct Z1 as [Z1|Z1]; auto.
                 exfalso. subst y. auto. }
      rewrite E2, E3. unfold st2. cbn [st_next].
      destruct (nodup_names (names_of (map (spec_move_row d o n) (st_rows st1)))); reflexivity.
    + apply rename_order_NoDup. destruct W2 as [X _]. auto.
    + intros x X. apply LI. auto.
    + intros x X. apply (target_neq d); auto. apply LI. auto.
    + intros a x b E. apply (Hord Neq NS (names_of (st_rows st2)) a x b). auto.
Qed.

(* ---------- the order: shortest name first ---------- *)
From Coq Require Import Sorted.

Definition len_le (a b : name) : Prop := (length a <= length b)%nat.

Lemma len_insert_sorted : forall x l, StronglySorted len_le l -> StronglySorted len_le (len_insert x l).
Proof.
  induction l as [|y l IH]; intro S; simpl.
  - constructor; constructor.
  - inversion S as [|? ? S1 S2]; subst. destruct (Nat.leb (length x) (length y)) eqn:C.
    + apply Nat.leb_le in C. constructor; auto. constructor; auto.
      apply Forall_forall. intros z Z. rewrite Forall_forall in S2. specialize (S2 z Z). unfold len_le in *. lia.
    + apply Nat.leb_gt in C. constructor; auto.
      apply Forall_forall. intros z Z. apply len_insert_In in Z. destruct Z as [Z|Z].
      * subst. unfold len_le. lia.
      * rewrite Forall_forall in S2. auto.
Qed.

Lemma len_sort_sorted : forall l, StronglySorted len_le (len_sort l).
Proof.
  induction l as [|x l IH]; simpl; [constructor|]. unfold len_sort in *. simpl. apply len_insert_sorted. auto.
Qed.

Lemma sorted_split : forall l a x b, StronglySorted len_le l -> l = a ++ x :: b ->
  forall y, In y b -> (length x <= length y)%nat.
Proof.
  intros l a. revert l. induction a as [|z a IH]; intros l x b S E y Y.
  - simpl in E. subst l. inversion S as [|? ? S1 S2]; subst. rewrite Forall_forall in S2. apply S2. auto.
  - simpl in E. subst l. inversion S as [|? ? S1 S2]; subst. apply (IH (a ++ x :: b) x b); auto.
Qed.

(* ---------- RENAME = the reference RENAME, in every state and for every pair of names ---------- *)
Lemma rename_refines : forall d st rawo rawn, delim_ok d -> ns_wf st ->
  impl_rename d st rawo rawn = spec_rename d st rawo rawn.
Proof.
  intros d st rawo rawn D W. apply rename_refines_gen; auto.
  intros o n Neq NS names a x b E Y.
  assert (Lx : In x (rename_order d o names)) by (rewrite E; apply in_app_iff; right; left; auto).
  assert (Ly : In (n ++ trim_prefix o x) (rename_order d o names)) by (rewrite E; apply in_app_iff; right; right; auto).
  apply rename_order_In in Lx. destruct Lx as [_ Sx].
  apply rename_order_In in Ly. destruct Ly as [_ Sy].
  destruct (is_superior_b d n o) eqn:Up.
  - (* the mailbox moves up its own branch: the new name is shorter than every name still to be moved *)
    apply is_superior_b_spec in Up.
    assert (Len := sorted_split (rename_order d o names) a x b (len_sort_sorted _) E _ Y).
    destruct Sx as [rest Ex]. subst x. rewrite trim_prefix_app in Len.
    apply is_superior_length in Up. rewrite !app_length in Len. simpl in Len. lia.
  - apply (target_not_inferior d o n x); auto.
    intro X. apply is_superior_b_spec in X. rewrite X in Up. discriminate.
Qed.

(* ---------- every step, every history ---------- *)
Lemma step_refines : forall d st op, delim_ok d -> ns_wf st -> impl_step d st op = spec_step d st op.
Proof.
  intros d st op D W. destruct op; cbn [impl_step spec_step]; auto.
  - apply create_refines; auto.
  - apply delete_refines; auto.
  - apply rename_refines; auto.
Qed.

Lemma run_refines_from : forall d ops st, delim_ok d -> ns_wf st -> impl_run d st ops = spec_run d st ops.
Proof.
  induction ops as [|op ops IH]; intros st D W; simpl; auto.
  rewrite <- (step_refines d st op D W).
  assert (W1 := wf_step d st op W). destruct (impl_step d st op) as [st1 r]. cbn [fst] in W1.
  rewrite (IH st1 D W1). reflexivity.
Qed.

Lemma run_refines : forall d ops, delim_ok d -> impl_run d ns_init ops = spec_run d ns_init ops.
Proof. intros d ops D. apply run_refines_from; auto. apply wf_init. Qed.

(* RENAME carries the inferiors along (the implementation model itself) *)
Lemma rename_carries_inferiors : forall d st rawo rawn st', delim_ok d -> ns_wf st ->
  impl_rename d st rawo rawn = (st', ROk) ->
  let o := canon_first d rawo in
  let n := trim_suffix d (canon_first d rawn) in
  name_eqb o INBOX = false ->
  forall r, In r (st_rows st) -> In (mkRow (m_id r) (spec_moved d o n (m_name r)) (m_sub r)) (st_rows st').
Proof.
  intros d st rawo rawn st' D W H. rewrite rename_refines in H; auto.
  apply (spec_rename_carries d st rawo rawn st' H).
Qed.
