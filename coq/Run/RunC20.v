(* Correspondence runner for C20: see Run/RunMailStore.v (shared by C04, C17, C20). *)
From Gluon Require Export Run.RunMailStore.
