(* C15 — SEARCH: what the key expression denotes (RFC 3501 section 6.4.4), over per-message data.
   Spec only: `eval` says, for one message of the session's view, whether a key tree is satisfied.
   The per-message data is what the session holds (sequence number, UID, the flags of its own snapshot) and
   what the server itself reports about the message (RFC822.SIZE, the date of INTERNALDATE as FETCH prints it,
   the date written in the Date: header, the unfolded header fields, body, full text).  Parsing message bytes
   into these fields (rfc822.NewHeader, rfc822.Split, rfc5322.ParseDateTime, SQLite date round trip) is INPUT
   to this model, not part of it.  No proofs in this file. *)
From Coq Require Import List NArith Bool String Ascii.
From Gluon Require Import Model.SeqSet Gen.FactsCharset.
Import ListNotations.
Open Scope N_scope.

Definition bytes := list N.

Fixpoint bs (s : string) : bytes :=
  match s with EmptyString => [] | String a t => N_of_ascii a :: bs t end.

(* ASCII lower-casing (strings.ToLower / bytes.ToLower restricted to ASCII data) *)
Definition lower_byte (b : N) : N := if (65 <=? b) && (b <=? 90) then b + 32 else b.
Definition lower (s : bytes) : bytes := map lower_byte s.

Fixpoint bytes_eqb (a b : bytes) : bool :=
  match a, b with
  | [], [] => true
  | x :: a', y :: b' => (x =? y) && bytes_eqb a' b'
  | _, _ => false
  end.

Fixpoint prefixb (p s : bytes) : bool :=
  match p, s with
  | [], _ => true
  | x :: p', y :: s' => (x =? y) && prefixb p' s'
  | _ :: _, [] => false
  end.

(* strings.Contains / bytes.Contains: the empty needle is contained in everything *)
Fixpoint containsb (needle hay : bytes) : bool :=
  prefixb needle hay || match hay with [] => false | _ :: t => containsb needle t end.

(* ---------- text: UTF-8, SEARCH CHARSET decoders, Unicode lower-casing ----------
   The per-byte tables of the single-byte charsets and the pairs of unicode.ToLower come from Gen/FactsCharset.v
   (obtained by executing the decoders / unicode.ToLower the server uses). *)
Definition is_cont (b : N) : bool := (128 <=? b) && (b <? 192).

(* utf8.DecodeRune, rune by rune: an invalid byte yields U+FFFD and is skipped alone (overlong forms and surrogates are
   not told apart from valid sequences: the texts of the harness are valid UTF-8) *)
Fixpoint utf8_decode (l : list N) : list N :=
  match l with
  | [] => []
  | b0 :: t0 =>
      if b0 <? 128 then b0 :: utf8_decode t0
      else if (194 <=? b0) && (b0 <? 224) then
        match t0 with
        | b1 :: t1 => if is_cont b1 then ((b0 - 192) * 64 + (b1 - 128)) :: utf8_decode t1
                      else 65533 :: utf8_decode t0
        | [] => [65533]
        end
      else if (224 <=? b0) && (b0 <? 240) then
        match t0 with
        | b1 :: (b2 :: t2) as t1 =>
            if is_cont b1 && is_cont b2 then ((b0 - 224) * 4096 + (b1 - 128) * 64 + (b2 - 128)) :: utf8_decode t2
            else 65533 :: utf8_decode t0
        | _ => 65533 :: utf8_decode t0
        end
      else if (240 <=? b0) && (b0 <? 245) then
        match t0 with
        | b1 :: (b2 :: (b3 :: t3) as t2) as t1 =>
            if is_cont b1 && is_cont b2 && is_cont b3
            then ((b0 - 240) * 262144 + (b1 - 128) * 4096 + (b2 - 128) * 64 + (b3 - 128)) :: utf8_decode t3
            else 65533 :: utf8_decode t0
        | _ => 65533 :: utf8_decode t0
        end
      else 65533 :: utf8_decode t0
  end.

Definition utf8_enc1 (c : N) : bytes :=
  if c <? 128 then [c]
  else if c <? 2048 then [192 + c / 64; 128 + c mod 64]
  else if c <? 65536 then [224 + c / 4096; 128 + (c / 64) mod 64; 128 + c mod 64]
  else [240 + c / 262144; 128 + (c / 4096) mod 64; 128 + (c / 64) mod 64; 128 + c mod 64].
Definition utf8_encode (l : list N) : bytes := flat_map utf8_enc1 l.

Fixpoint assoc_n (c : N) (t : list (N * N)) : option N :=
  match t with [] => None | (k, v) :: r => if c =? k then Some v else assoc_n c r end.

(* unicode.ToLower on the blocks tabulated in FactsCharset.lower_pairs; other code points are left alone *)
Definition lower_cp (c : N) : N :=
  if c <? 128 then lower_byte c
  else if lower_pairs_limit <? c then c
  else match assoc_n c lower_pairs with Some v => v | None => c end.

(* strings.ToLower / bytes.ToLower on UTF-8 text *)
Definition ufold (s : bytes) : bytes := utf8_encode (map lower_cp (utf8_decode s)).

(* the CHARSET of the SEARCH command (handle_search.go: none = encoding.Nop) *)
Inductive charset := CsNone | CsAscii | CsUtf8 | CsLatin1 | CsCp1252 | CsLatin9 | CsKoi8r.

Definition dec_byte (tbl : list N) (b : N) : N :=
  if b <? 128 then b else nth (N.to_nat (b - 128)) tbl 65533.

(* decoder.Bytes(key): the key as UTF-8 *)
Definition decode (cs : charset) (s : bytes) : bytes :=
  match cs with
  | CsNone | CsAscii => s
  | CsUtf8 => utf8_encode (utf8_decode s)
  | CsLatin1 => utf8_encode (map (dec_byte tbl_latin1) s)
  | CsCp1252 => utf8_encode (map (dec_byte tbl_cp1252) s)
  | CsLatin9 => utf8_encode (map (dec_byte tbl_latin9) s)
  | CsKoi8r => utf8_encode (map (dec_byte tbl_koi8r) s)
  end.

(* a string key is decoded with the charset FIRST and then folded; the message text is folded *)
Definition keynorm (cs : charset) (s : bytes) : bytes := ufold (decode cs s).
Definition ci_contains (cs : charset) (needle hay : bytes) : bool := containsb (keynorm cs needle) (ufold hay).

Record msgdata := mkMsg {
  m_seq : N;                       (* position in the session's view, 1-based *)
  m_uid : N;
  m_flags : list bytes;            (* flags of the session's own snapshot, lower-case (incl. \recent) *)
  m_size : N;                      (* RFC822.SIZE *)
  m_iday : N;                      (* day number of the INTERNALDATE the server reports (UTC date) *)
  m_sent : option N;               (* day number of the date written in Date:, None = absent / not a date *)
  m_hdrs : list (bytes * bytes);   (* header fields in order of appearance: name, unfolded value *)
  m_body : bytes;
  m_text : bytes;                  (* the whole literal *)
  m_db_ok : bool;                  (* date and size can be read from the index *)
  m_lit_ok : bool;                 (* the literal can be read from the store *)
  m_hdr_ok : bool                  (* the header block parses (rfc822.NewHeader) *)
}.

(* leaf keys (no sub-keys) *)
Inductive leaf :=
| LAll | LAnswered | LDeleted | LDraft | LFlagged | LNew | LOld | LRecent | LSeen
| LUnanswered | LUndeleted | LUndraft | LUnflagged | LUnseen
| LKeyword (f : bytes) | LUnkeyword (f : bytes)
| LBcc (s : bytes) | LCc (s : bytes) | LFrom (s : bytes) | LSubject (s : bytes) | LTo (s : bytes)
| LBody (s : bytes) | LText (s : bytes) | LHeader (f s : bytes)
| LBefore (d : N) | LOn (d : N) | LSince (d : N)
| LSentBefore (d : N) | LSentOn (d : N) | LSentSince (d : N)
| LLarger (n : N) | LSmaller (n : N)            (* the number as written, any magnitude *)
| LUid (s : wset) | LSeqSet (s : wset).

Inductive key :=
| KLeaf (l : leaf)
| KNot (k : key)
| KOr (a b : key)
| KList (l : list key).          (* parenthesised list; the top level of SEARCH is such a list too *)

Definition f_answered := bs "\answered".
Definition f_deleted := bs "\deleted".
Definition f_draft := bs "\draft".
Definition f_flagged := bs "\flagged".
Definition f_recent := bs "\recent".
Definition f_seen := bs "\seen".

Definition has_flag (f : bytes) (m : msgdata) : bool := existsb (bytes_eqb f) (m_flags m).

Definition name_eqb (a b : bytes) : bool := bytes_eqb (lower a) (lower b).

(* value of the first field with the given name ("" when there is none): envelope-style keys *)
Fixpoint hdr_first (f : bytes) (h : list (bytes * bytes)) : bytes :=
  match h with
  | [] => []
  | (n, v) :: t => if name_eqb f n then v else hdr_first f t
  end.

Section WithCharset.
(* the charset of the SEARCH command: a parameter of everything below *)
Variable cs : charset.

(* HEADER: some field with that name contains the string (the empty string: the field exists) *)
Definition hdr_any (f s : bytes) (h : list (bytes * bytes)) : bool :=
  existsb (fun nv => name_eqb f (fst nv) && ci_contains cs s (snd nv)) h.

(* sequence-set denotation (RFC 3501 seq-range: the order of the two ends is irrelevant) *)
Definition range_memb (star : N) (r : wrange) (p : N) : bool :=
  (w_lo star r <=? p) && (p <=? w_hi star r).
Definition seq_memb (cnt : N) (s : wset) (p : N) : bool := existsb (fun r => range_memb cnt r p) s.
(* UID sets; n:* with n above the highest UID is the case C16 leaves open: here it selects nothing *)
Definition uid_memb (uids : list N) (s : wset) (u : N) : bool :=
  existsb (fun r => negb (exempt_range uids r) && range_memb (last_uid uids) r u) s.

Definition eval_leaf (cnt : N) (uids : list N) (l : leaf) (m : msgdata) : bool :=
  match l with
  | LAll => true
  | LAnswered => has_flag f_answered m
  | LDeleted => has_flag f_deleted m
  | LDraft => has_flag f_draft m
  | LFlagged => has_flag f_flagged m
  | LNew => has_flag f_recent m && negb (has_flag f_seen m)
  | LOld => negb (has_flag f_recent m)
  | LRecent => has_flag f_recent m
  | LSeen => has_flag f_seen m
  | LUnanswered => negb (has_flag f_answered m)
  | LUndeleted => negb (has_flag f_deleted m)
  | LUndraft => negb (has_flag f_draft m)
  | LUnflagged => negb (has_flag f_flagged m)
  | LUnseen => negb (has_flag f_seen m)
  | LKeyword f => has_flag (lower f) m
  | LUnkeyword f => negb (has_flag (lower f) m)
  | LBcc s => ci_contains cs s (hdr_first (bs "bcc") (m_hdrs m))
  | LCc s => ci_contains cs s (hdr_first (bs "cc") (m_hdrs m))
  | LFrom s => ci_contains cs s (hdr_first (bs "from") (m_hdrs m))
  | LSubject s => ci_contains cs s (hdr_first (bs "subject") (m_hdrs m))
  | LTo s => ci_contains cs s (hdr_first (bs "to") (m_hdrs m))
  | LBody s => ci_contains cs s (m_body m)
  | LText s => ci_contains cs s (m_text m)
  | LHeader f s => hdr_any f s (m_hdrs m)
  | LBefore d => m_iday m <? d
  | LOn d => m_iday m =? d
  | LSince d => d <=? m_iday m
  | LSentBefore d => match m_sent m with Some x => x <? d | None => false end
  | LSentOn d => match m_sent m with Some x => x =? d | None => false end
  | LSentSince d => match m_sent m with Some x => d <=? x | None => false end
  | LLarger n => n <? m_size m
  | LSmaller n => m_size m <? n
  | LUid s => uid_memb uids s (m_uid m)
  | LSeqSet s => seq_memb cnt s (m_seq m)
  end.

(* NOT = complement, OR = union, list = intersection *)
Fixpoint eval (cnt : N) (uids : list N) (k : key) (m : msgdata) : bool :=
  match k with
  | KLeaf l => eval_leaf cnt uids l m
  | KNot a => negb (eval cnt uids a m)
  | KOr a b => eval cnt uids a m || eval cnt uids b m
  | KList l => forallb (fun a => eval cnt uids a m) l
  end.

End WithCharset.

(* the keys for which the command as a whole must be refused (BAD): a sequence number outside the view, a
   number that is not a valid nz-number / number *)
Definition leaf_bad (cnt : N) (l : leaf) : bool :=
  match l with
  | LSeqSet s => negb (set_ok cnt s)
  | LUid s => negb (set32 s)
  | LLarger n | LSmaller n => negb (n <? two63)
  | _ => false
  end.

Fixpoint key_bad (cnt : N) (k : key) : bool :=
  match k with
  | KLeaf l => leaf_bad cnt l
  | KNot a => key_bad cnt a
  | KOr a b => key_bad cnt a || key_bad cnt b
  | KList l => existsb (key_bad cnt) l
  end.

(* what the key tree needs to read, beyond the snapshot *)
Definition leaf_needs_db (l : leaf) : bool :=
  match l with LBefore _ | LOn _ | LSince _ | LLarger _ | LSmaller _ => true | _ => false end.
Definition leaf_needs_hdr (l : leaf) : bool :=
  match l with
  | LBcc _ | LCc _ | LFrom _ | LSubject _ | LTo _ | LHeader _ _
  | LSentBefore _ | LSentOn _ | LSentSince _ => true
  | _ => false end.
Definition leaf_needs_lit (l : leaf) : bool :=
  leaf_needs_hdr l || match l with LBody _ | LText _ => true | _ => false end.

Fixpoint key_any (p : leaf -> bool) (k : key) : bool :=
  match k with
  | KLeaf l => p l
  | KNot a => key_any p a
  | KOr a b => key_any p a || key_any p b
  | KList l => existsb (key_any p) l
  end.

(* the message's data cannot be loaded for this key tree (the SEARCH then answers NO) *)
Definition msg_unreadable (k : key) (m : msgdata) : bool :=
  (key_any leaf_needs_db k && negb (m_db_ok m)) ||
  (key_any leaf_needs_lit k && negb (m_lit_ok m)) ||
  (key_any leaf_needs_hdr k && negb (m_hdr_ok m)).

(* well-formed view: positions 1..n, UIDs strictly ascending and non-zero, fewer than 2^32 messages *)
Fixpoint all_gtb (u : N) (l : list N) : bool :=
  match l with [] => true | y :: r => (u <? y) && all_gtb u r end.
Fixpoint srtb (l : list N) : bool :=
  match l with [] => true | x :: r => all_gtb x r && srtb r end.
Definition wf_snapb (snap : list msgdata) : bool :=
  bytes_eqb (map m_seq snap) (nseq 1 (List.length snap)) && srtb (0 :: map m_uid snap) && (N.of_nat (List.length snap) <? two32).
