(* Commutation of responders on snapshots: the ground for "a flush that holds back removals gives the same view in the
   end as handling everything in order" (Proofs/InterleaveProofs.v). *)
From Coq Require Import List NArith Bool Lia Arith.
From Gluon Require Import Model.Responders Model.Session Proofs.PopProofs Proofs.MirrorProofs Proofs.MembershipProofs
  Proofs.ViewProofs Proofs.StoreViewProofs.
Import ListNotations.
Open Scope N_scope.

(* ---------- snapshots: unique ids ---------- *)
Fixpoint uniq (s : snap) : Prop := match s with [] => True | x :: r => snap_has (sm_id x) r = false /\ uniq r end.

Lemma has_insert m x s : snap_has m (snap_insert_by_uid x s) = (sm_id x =? m) || snap_has m s.
Proof.
  induction s as [|y r IH]; cbn [snap_insert_by_uid snap_has existsb]; [reflexivity|].
  destruct (sm_uid x <? sm_uid y); cbn [existsb]; [reflexivity|]. fold (snap_has m (snap_insert_by_uid x r)). rewrite IH.
  fold (snap_has m r). destruct (sm_id y =? m), (sm_id x =? m); reflexivity.
Qed.

Lemma has_remove_other m m' s : m' <> m -> snap_has m' (snap_remove m s) = snap_has m' s.
Proof.
  intros Hne. induction s as [|y r IH]; [reflexivity|]. cbn [snap_remove snap_has existsb].
  destruct (N.eqb_spec (sm_id y) m) as [E|E].
  - fold (snap_has m' r). destruct (N.eqb_spec (sm_id y) m'); [congruence|reflexivity].
  - cbn [snap_has existsb]. fold (snap_has m' (snap_remove m r)) (snap_has m' r). rewrite IH. reflexivity.
Qed.

Lemma has_remove_same m s : uniq s -> snap_has m (snap_remove m s) = false.
Proof.
  induction s as [|y r IH]; [reflexivity|]. cbn [uniq snap_remove]. intros [H1 H2].
  destruct (N.eqb_spec (sm_id y) m) as [E|E].
  - subst m. exact H1.
  - cbn [snap_has existsb]. fold (snap_has m (snap_remove m r)). rewrite (IH H2). apply N.eqb_neq in E. rewrite E. reflexivity.
Qed.

Lemma uniq_remove m s : uniq s -> uniq (snap_remove m s).
Proof.
  induction s as [|y r IH]; [auto|]. cbn [uniq snap_remove]. intros [H1 H2].
  destruct (N.eqb_spec (sm_id y) m) as [E|E]; [exact H2|]. cbn [uniq]. split; [|apply IH; exact H2].
  destruct (N.eqb_spec (sm_id y) m); [congruence|]. rewrite has_remove_other by congruence. exact H1.
Qed.

Lemma uniq_set_flags m F s : uniq s -> uniq (snap_set_flags m F s).
Proof.
  induction s as [|y r IH]; [auto|]. cbn [uniq snap_set_flags]. intros [H1 H2].
  destruct (N.eqb_spec (sm_id y) m) as [E|E]; cbn [uniq sm_id].
  - subst m. split; [exact H1|exact H2].
  - split; [rewrite snap_has_set_flags; exact H1|apply IH; exact H2].
Qed.

Lemma uniq_insert x s : uniq s -> snap_has (sm_id x) s = false -> uniq (snap_insert_by_uid x s).
Proof.
  induction s as [|y r IH]; cbn [uniq snap_insert_by_uid snap_has existsb]; [auto|]. intros [H1 H2] Hx.
  apply orb_false_iff in Hx as [Hxy Hxr]. fold (snap_has (sm_id x) r) in Hxr.
  destruct (sm_uid x <? sm_uid y); cbn [uniq].
  - split; [|split; assumption]. cbn [snap_has existsb]. rewrite Hxy. exact Hxr.
  - split; [|apply IH; assumption]. rewrite has_insert, H1. rewrite N.eqb_sym in Hxy. rewrite Hxy. reflexivity.
Qed.

(* ---------- insert / insert ---------- *)
Lemma insert_insert_comm x y s : sm_uid x <> sm_uid y ->
  snap_insert_by_uid x (snap_insert_by_uid y s) = snap_insert_by_uid y (snap_insert_by_uid x s).
Proof.
  intros Hne. induction s as [|z r IH]; cbn [snap_insert_by_uid].
  - destruct (N.ltb_spec (sm_uid x) (sm_uid y)), (N.ltb_spec (sm_uid y) (sm_uid x)); try lia; reflexivity.
  - destruct (N.ltb_spec (sm_uid y) (sm_uid z)) as [Hyz|Hyz], (N.ltb_spec (sm_uid x) (sm_uid z)) as [Hxz|Hxz]; cbn [snap_insert_by_uid].
    + destruct (N.ltb_spec (sm_uid x) (sm_uid y)), (N.ltb_spec (sm_uid y) (sm_uid x)); try lia.
      * destruct (N.ltb_spec (sm_uid y) (sm_uid z)); [reflexivity|lia].
      * destruct (N.ltb_spec (sm_uid x) (sm_uid z)); [reflexivity|lia].
    + destruct (N.ltb_spec (sm_uid x) (sm_uid y)); [lia|]. destruct (N.ltb_spec (sm_uid x) (sm_uid z)); [lia|].
      destruct (N.ltb_spec (sm_uid y) (sm_uid z)); [reflexivity|lia].
    + destruct (N.ltb_spec (sm_uid y) (sm_uid x)); [lia|]. destruct (N.ltb_spec (sm_uid y) (sm_uid z)); [lia|].
      destruct (N.ltb_spec (sm_uid x) (sm_uid z)); [reflexivity|lia].
    + destruct (N.ltb_spec (sm_uid x) (sm_uid z)); [lia|]. destruct (N.ltb_spec (sm_uid y) (sm_uid z)); [lia|].
      f_equal. exact IH.
Qed.

(* ---------- insert / remove (sorted snapshot) ---------- *)
Lemma insert_below_all x r : all_gt (sm_uid x) r -> snap_insert_by_uid x r = x :: r.
Proof. destruct r as [|y r]; cbn [all_gt snap_insert_by_uid]; [reflexivity|]. intros [H _].
  destruct (N.ltb_spec (sm_uid x) (sm_uid y)); [reflexivity|lia]. Qed.

Lemma all_gt_weaken u v s : u < v -> all_gt v s -> all_gt u s.
Proof. intros Huv. induction s as [|y r IH]; cbn [all_gt]; [auto|]. intros [H1 H2]. split; [lia|auto]. Qed.

Lemma remove_insert_comm m x s : srt s -> sm_id x <> m ->
  snap_remove m (snap_insert_by_uid x s) = snap_insert_by_uid x (snap_remove m s).
Proof.
  intros Hs Hne. induction s as [|y r IH]; cbn [snap_insert_by_uid snap_remove].
  - destruct (N.eqb_spec (sm_id x) m); [congruence|reflexivity].
  - cbn [srt] in Hs. destruct Hs as [Hg Hs].
    destruct (N.ltb_spec (sm_uid x) (sm_uid y)) as [Hxy|Hxy]; cbn [snap_remove].
    + destruct (N.eqb_spec (sm_id x) m); [congruence|].
      destruct (N.eqb_spec (sm_id y) m).
      * symmetry. apply insert_below_all. eapply all_gt_weaken; eauto.
      * cbn [snap_insert_by_uid]. destruct (N.ltb_spec (sm_uid x) (sm_uid y)); [reflexivity|lia].
    + destruct (N.eqb_spec (sm_id y) m); [reflexivity|]. cbn [snap_insert_by_uid].
      destruct (N.ltb_spec (sm_uid x) (sm_uid y)); [lia|]. f_equal. apply IH. exact Hs.
Qed.

Lemma all_gt_insert u x s : all_gt u s -> u < sm_uid x -> all_gt u (snap_insert_by_uid x s).
Proof. induction s as [|y r IH]; cbn [all_gt snap_insert_by_uid]; [auto|]. intros [H1 H2] Hx.
  destruct (sm_uid x <? sm_uid y); cbn [all_gt]; auto. Qed.

Fixpoint uid_absent (u : uid) (s : snap) : Prop := match s with [] => True | y :: r => sm_uid y <> u /\ uid_absent u r end.

Lemma srt_insert x s : srt s -> uid_absent (sm_uid x) s -> srt (snap_insert_by_uid x s).
Proof.
  induction s as [|y r IH]; cbn [srt uid_absent snap_insert_by_uid]; [auto|]. intros [Hg Hs] [Hne Ha].
  destruct (N.ltb_spec (sm_uid x) (sm_uid y)) as [Hxy|Hxy]; cbn [srt all_gt].
  - split; [split; [exact Hxy|eapply all_gt_weaken; eauto]|split; assumption].
  - split; [apply all_gt_insert; [exact Hg|lia]|apply IH; assumption].
Qed.

Lemma uid_absent_insert u x s : uid_absent u s -> sm_uid x <> u -> uid_absent u (snap_insert_by_uid x s).
Proof. induction s as [|y r IH]; cbn [uid_absent snap_insert_by_uid]; [auto|]. intros [H1 H2] Hx.
  destruct (sm_uid x <? sm_uid y); cbn [uid_absent]; auto. Qed.
Lemma uid_absent_remove u m s : uid_absent u s -> uid_absent u (snap_remove m s).
Proof. induction s as [|y r IH]; cbn [uid_absent snap_remove]; [auto|]. intros [H1 H2].
  destruct (sm_id y =? m); cbn [uid_absent]; auto. Qed.
Lemma uid_absent_set_flags u m F s : uid_absent u s -> uid_absent u (snap_set_flags m F s).
Proof. induction s as [|y r IH]; cbn [uid_absent snap_set_flags]; [auto|]. intros [H1 H2].
  destruct (sm_id y =? m); cbn [uid_absent sm_uid]; auto. Qed.

(* ---------- set_flags against insert / remove / set_flags ---------- *)
Lemma set_flags_insert_comm m F x s : sm_id x <> m ->
  snap_set_flags m F (snap_insert_by_uid x s) = snap_insert_by_uid x (snap_set_flags m F s).
Proof.
  intros Hne. induction s as [|y r IH]; cbn [snap_insert_by_uid snap_set_flags].
  - destruct (N.eqb_spec (sm_id x) m); [congruence|reflexivity].
  - destruct (N.ltb_spec (sm_uid x) (sm_uid y)) as [Hxy|Hxy]; cbn [snap_set_flags].
    + destruct (N.eqb_spec (sm_id x) m); [congruence|].
      destruct (N.eqb_spec (sm_id y) m); cbn [snap_insert_by_uid sm_uid];
        (destruct (N.ltb_spec (sm_uid x) (sm_uid y)); [reflexivity|lia]).
    + destruct (N.eqb_spec (sm_id y) m); cbn [snap_insert_by_uid sm_uid].
      * destruct (N.ltb_spec (sm_uid x) (sm_uid y)); [lia|reflexivity].
      * destruct (N.ltb_spec (sm_uid x) (sm_uid y)); [lia|]. f_equal. exact IH.
Qed.

Lemma get_flags_insert m x s : sm_id x <> m -> snap_get_flags m (snap_insert_by_uid x s) = snap_get_flags m s.
Proof.
  intros Hne. induction s as [|y r IH]; cbn [snap_insert_by_uid snap_get_flags].
  - destruct (N.eqb_spec (sm_id x) m); [congruence|reflexivity].
  - destruct (sm_uid x <? sm_uid y); cbn [snap_get_flags].
    + destruct (N.eqb_spec (sm_id x) m); [congruence|reflexivity].
    + destruct (sm_id y =? m); [reflexivity|exact IH].
Qed.

Lemma get_flags_remove_other m m' s : m' <> m -> snap_get_flags m' (snap_remove m s) = snap_get_flags m' s.
Proof.
  intros Hne. induction s as [|y r IH]; [reflexivity|]. cbn [snap_remove snap_get_flags].
  destruct (N.eqb_spec (sm_id y) m) as [E|E].
  - destruct (N.eqb_spec (sm_id y) m'); [congruence|reflexivity].
  - cbn [snap_get_flags]. destruct (sm_id y =? m'); [reflexivity|exact IH].
Qed.

Lemma remove_set_flags_other m m' F s : m' <> m ->
  snap_remove m (snap_set_flags m' F s) = snap_set_flags m' F (snap_remove m s).
Proof.
  intros Hne. induction s as [|y r IH]; [reflexivity|]. cbn [snap_set_flags snap_remove].
  destruct (N.eqb_spec (sm_id y) m') as [E|E]; cbn [snap_remove sm_id].
  - destruct (N.eqb_spec m' m); [congruence|]. destruct (N.eqb_spec (sm_id y) m); [congruence|].
    cbn [snap_set_flags]. destruct (N.eqb_spec (sm_id y) m'); [reflexivity|congruence].
  - destruct (N.eqb_spec (sm_id y) m); [reflexivity|]. cbn [snap_set_flags].
    destruct (N.eqb_spec (sm_id y) m'); [congruence|]. f_equal. exact IH.
Qed.

Lemma remove_set_flags_same m F s : snap_remove m (snap_set_flags m F s) = snap_remove m s.
Proof.
  induction s as [|y r IH]; [reflexivity|]. cbn [snap_set_flags snap_remove].
  destruct (N.eqb_spec (sm_id y) m) as [E|E]; cbn [snap_remove sm_id].
  - rewrite N.eqb_refl. reflexivity.
  - destruct (N.eqb_spec (sm_id y) m); [congruence|]. f_equal. exact IH.
Qed.

Lemma get_flags_set_other m m' F s : m' <> m -> snap_get_flags m' (snap_set_flags m F s) = snap_get_flags m' s.
Proof.
  intros Hne. induction s as [|y r IH]; [reflexivity|]. cbn [snap_set_flags snap_get_flags].
  destruct (N.eqb_spec (sm_id y) m) as [E|E]; cbn [snap_get_flags sm_id].
  - destruct (N.eqb_spec m m'); [congruence|]. destruct (N.eqb_spec (sm_id y) m'); [congruence|reflexivity].
  - destruct (sm_id y =? m'); [reflexivity|exact IH].
Qed.

Lemma set_flags_set_flags_comm m m' F F' s : m <> m' ->
  snap_set_flags m F (snap_set_flags m' F' s) = snap_set_flags m' F' (snap_set_flags m F s).
Proof.
  intros Hne. induction s as [|y r IH]; [reflexivity|]. cbn [snap_set_flags].
  destruct (N.eqb_spec (sm_id y) m') as [E|E], (N.eqb_spec (sm_id y) m) as [E2|E2]; try congruence; cbn [snap_set_flags sm_id].
  - destruct (N.eqb_spec m' m); [congruence|]. rewrite E, N.eqb_refl. reflexivity.
  - destruct (N.eqb_spec m m'); [congruence|]. rewrite E2, N.eqb_refl. reflexivity.
  - destruct (N.eqb_spec (sm_id y) m); [congruence|]. destruct (N.eqb_spec (sm_id y) m'); [congruence|]. f_equal. exact IH.
Qed.

(* ---------- responders ---------- *)
Definition ex_msg (m : msgid) (u : uid) (f : flagset) (tg : bool) : smsg :=
  mkSmsg m u (if tg then f else fl_rem f [fl_recent]).

Lemma resp_view_exists_gen m u f tg s :
  resp_view (RExists m u f tg false) s = if snap_has m s then s else snap_insert_by_uid (ex_msg m u f tg) s.
Proof. unfold resp_view, ex_msg. cbn [handle]. destruct (snap_has m s); reflexivity. Qed.

(* r (held back) and r' (handled before it) may be swapped unless they concern the same message in one of these ways *)
Definition conflict (r r' : responder) : bool :=
  match r with
  | RExpunge m => about m r'
  | RExists m _ _ _ _ => about m r' || is_fetch_of m r'
  | RFetch m _ _ _ _ _ => about m r' || is_fetch_of m r'
  end.

Definition ex_uid (r : responder) : option uid := match r with RExists _ u _ _ _ => Some u | _ => None end.
Definition uids_differ (r r' : responder) : Prop :=
  match ex_uid r, ex_uid r' with Some u, Some u' => u <> u' | _, _ => True end.

Definition good (s : snap) : Prop := srt s /\ uniq s.

Lemma set_flags_absent_uniq m F s : uniq s -> snap_set_flags m F (snap_remove m s) = snap_remove m s.
Proof. intros Hu. apply snap_set_flags_absent. apply has_remove_same. exact Hu. Qed.

Lemma commute r r' s :
  foreign_resp r -> foreign_resp r' -> conflict r r' = false -> is_rexpunge r' = false -> uids_differ r r' -> good s ->
  resp_view r' (resp_view r s) = resp_view r (resp_view r' s).
Proof.
  intros Hf Hf' Hc He Hu [Hs Hq].
  destruct r as [m u f tg og | m | m f op au si fo]; destruct r' as [m' u' f' tg' og' | m' | m' f' op' au' si' fo'];
    try discriminate He; cbn [foreign_resp] in Hf, Hf'; subst; cbn [conflict about is_fetch_of orb] in Hc.
  - (* exists / exists *)
    rewrite orb_false_r in Hc. apply N.eqb_neq in Hc.
    unfold uids_differ in Hu. cbn [ex_uid] in Hu.
    rewrite !resp_view_exists_gen.
    assert (Hmm' : (m =? m') = false) by (apply N.eqb_neq; congruence).
    assert (Hm'm : (m' =? m) = false) by (apply N.eqb_neq; congruence).
    destruct (snap_has m s) eqn:Hm; destruct (snap_has m' s) eqn:Hm';
      rewrite ?has_insert, ?Hm, ?Hm'; cbn [ex_msg sm_id]; rewrite ?Hmm', ?Hm'm, ?Hm, ?Hm'; cbn [orb]; try reflexivity.
    apply insert_insert_comm. unfold ex_msg. cbn [sm_uid]. congruence.
  - (* exists held, fetch handled *)
    apply N.eqb_neq in Hc.
    rewrite resp_view_exists_gen, !resp_view_fetch, resp_view_exists_gen. unfold view_set. rewrite snap_has_set_flags.
    destruct (snap_has m s); [reflexivity|].
    rewrite get_flags_insert by (cbn [ex_msg sm_id]; congruence).
    apply set_flags_insert_comm. cbn [ex_msg sm_id]. congruence.
  - (* expunge held, exists handled *)
    apply N.eqb_neq in Hc. rewrite resp_view_expunge, !resp_view_exists_gen, resp_view_expunge.
    rewrite has_remove_other by congruence. destruct (snap_has m' s); [reflexivity|].
    symmetry. apply remove_insert_comm; [exact Hs|cbn [ex_msg sm_id]; congruence].
  - (* expunge held, fetch handled *)
    rewrite resp_view_expunge, !resp_view_fetch, resp_view_expunge. unfold view_set.
    destruct (N.eqb_spec m' m) as [->|Hne].
    + rewrite remove_set_flags_same. apply set_flags_absent_uniq. exact Hq.
    + rewrite get_flags_remove_other by exact Hne. symmetry. apply remove_set_flags_other. exact Hne.
  - (* fetch held, exists handled *)
    rewrite orb_false_r in Hc. apply N.eqb_neq in Hc.
    rewrite resp_view_exists_gen, !resp_view_fetch, resp_view_exists_gen. unfold view_set. rewrite snap_has_set_flags.
    destruct (snap_has m' s); [reflexivity|].
    rewrite get_flags_insert by (cbn [ex_msg sm_id]; congruence).
    symmetry. apply set_flags_insert_comm. cbn [ex_msg sm_id]. congruence.
  - (* fetch / fetch *)
    apply N.eqb_neq in Hc. rewrite !resp_view_fetch. unfold view_set.
    rewrite !get_flags_set_other by congruence. apply set_flags_set_flags_comm. congruence.
Qed.

(* ---------- well-formed (snapshot, queue) pairs ---------- *)
Definition ex_uids (rs : list responder) : list uid :=
  flat_map (fun r => match ex_uid r with Some u => [u] | None => [] end) rs.

Definition wf (s : snap) (rs : list responder) : Prop :=
  good s /\ NoDup (ex_uids rs) /\ Forall (fun u => uid_absent u s) (ex_uids rs) /\ Forall foreign_resp rs.

Lemma good_resp_view r s : foreign_resp r -> good s ->
  (match ex_uid r with Some u => uid_absent u s | None => True end) -> good (resp_view r s).
Proof.
  intros Hf [Hs Hq] Hu. destruct r as [m u f tg og | m | m f op au si fo]; cbn [foreign_resp] in Hf; subst.
  - rewrite resp_view_exists_gen. destruct (snap_has m s) eqn:Hm; [split; assumption|].
    split; [apply srt_insert; [exact Hs|exact Hu]|apply uniq_insert; [exact Hq|exact Hm]].
  - rewrite resp_view_expunge. split; [apply srt_remove; exact Hs|apply uniq_remove; exact Hq].
  - rewrite resp_view_fetch. unfold view_set. split; [apply srt_setflags; exact Hs|apply uniq_set_flags; exact Hq].
Qed.

Lemma uid_absent_resp_view v r s : foreign_resp r -> uid_absent v s ->
  (match ex_uid r with Some u => u <> v | None => True end) -> uid_absent v (resp_view r s).
Proof.
  intros Hf Ha Hu. destruct r as [m u f tg og | m | m f op au si fo]; cbn [foreign_resp] in Hf; subst.
  - rewrite resp_view_exists_gen. destruct (snap_has m s); [exact Ha|]. apply uid_absent_insert; [exact Ha|exact Hu].
  - rewrite resp_view_expunge. apply uid_absent_remove. exact Ha.
  - rewrite resp_view_fetch. unfold view_set. apply uid_absent_set_flags. exact Ha.
Qed.

Lemma wf_step r t s : wf s (r :: t) -> wf (resp_view r s) t.
Proof.
  intros (Hg & Hn & Ha & Hf). inversion Hf as [|? ? Hr Ht]; subst. unfold ex_uids in *. cbn [flat_map] in Hn, Ha.
  destruct (ex_uid r) as [u|] eqn:Eu; cbn [app] in Hn, Ha.
  - inversion Hn as [|? ? Hnotin Hn']; subst. inversion Ha as [|? ? Hau Ha']; subst.
    split; [apply good_resp_view; [exact Hr|exact Hg|rewrite Eu; exact Hau]|].
    split; [exact Hn'|]. split; [|exact Ht].
    apply Forall_forall. intros v Hv. rewrite Forall_forall in Ha'. apply uid_absent_resp_view; [exact Hr|apply Ha'; exact Hv|].
    rewrite Eu. intros ->. contradiction.
  - split; [apply good_resp_view; [exact Hr|exact Hg|rewrite Eu; exact I]|].
    split; [exact Hn|]. split; [|exact Ht].
    apply Forall_forall. intros v Hv. rewrite Forall_forall in Ha. apply uid_absent_resp_view; [exact Hr|apply Ha; exact Hv|].
    rewrite Eu. exact I.
Qed.
