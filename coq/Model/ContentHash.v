(* ContentHash - the two places of rfc822.GetMessageHash (rfc822/hash.go) on which "once per distinct message" of the
   recovery mailbox depends beyond what Model.MailStore abstracts as `hash : literal -> option hash`:
     1. per leaf part the Content-Type parameters are written into the hash in the order of the SORTED parameter names
        (keys := maps.Keys(values); slices.Sort(keys)) - Go iterates a map in an order that differs from call to call, so
        without the sort the hash is not a function of the bytes;
     2. hashBody writes the body of a text part after removing the transfer encoding: base64 and quoted-printable are
        decoded, EVERY other encoding (7bit, 8bit, binary, x-tokens, none) takes the body as it is (default arm of the
        switch) - if an encoding falls through without a value nothing of the body reaches the hash and messages that
        differ only there collide.
   Both are structural facts T1 extracts (fact_hash_params_sorted, fact_hash_body_default_raw).
   Bytes and names are numbers; removal of CR / trimming is not modelled (bodies are taken as already normalised). *)
From Coq Require Import List NArith Bool.
From Gluon Require Import Gen.FactsLimits.
Import ListNotations.

Record hashfacts := mkHashFacts {
  hf_sorted : bool;       (* the parameter names are sorted before they are written *)
  hf_default_raw : bool   (* the switch over the transfer encoding has a default arm `decoded = body` *)
}.
Definition hashfacts_now : hashfacts := mkHashFacts fact_hash_params_sorted fact_hash_body_default_raw.

(* ---- Content-Type parameters ---- *)
Definition param := (N * N)%type.   (* name, value *)
Fixpoint kins (x : param) (l : list param) : list param :=
  match l with
  | [] => [x]
  | y :: t => if N.leb (fst x) (fst y) then x :: l else y :: kins x t
  end.
Definition ksort (l : list param) : list param := fold_right kins [] l.
(* `order` = the parameters in the order in which this call happens to get them out of the map *)
Definition param_input (f : hashfacts) (order : list param) : list param :=
  if hf_sorted f then ksort order else order.

(* ---- body of a text part ---- *)
Inductive cte := Enc7bit | Enc8bit | EncBinary | EncToken (t : N) | EncAbsent | EncBase64 | EncQP.
Section Body.
Variable b64 qp : list N -> option (list N).   (* the decoders (partial) *)
(* what hashBody writes: None = error *)
Definition body_input (f : hashfacts) (e : cte) (body : list N) : option (list N) :=
  match e with
  | EncBase64 => b64 body
  | EncQP => qp body
  | Enc7bit | Enc8bit | EncAbsent => Some body
  | EncBinary | EncToken _ => if hf_default_raw f then Some body else Some []
  end.
Definition identity_encoding (e : cte) : bool :=
  match e with EncBase64 | EncQP => false | _ => true end.
End Body.
