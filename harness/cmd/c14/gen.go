package main

import (
	"strings"

	"verifharness/common"
)

// components: plain, regex metacharacters, spaces, non-ASCII (2-, 3- and 4-byte UTF-8), characters that need
// escaping in modified UTF-7 or in a quoted string, a line feed, wildcard characters, INBOX / recovery look-alikes
var masterComps = []string{
	"a", "b", "c", "ab", "a", "b",
	"a.b", "x+y", "(p)", "[q]", "r^s", "t$", "u|v", "w?", "{z}", `b\s`, `\`, ".", "^", "$", "]", "[", "|",
	"a b", " lead", "trail ",
	"é", "€uro", "😀", "añb",
	"a&b", `q"t`, "n\nl", "~", "#news",
	"inbox", "INBOX", "Inbox", "Recovered Messages", "recovered messages", "Recovered Messages2", "Recover",
	"p%t", "s*r",
}

type gen struct {
	rng  *common.Rng
	d    string
	pool []string
}

func newGen(rng *common.Rng, d string) *gen {
	g := &gen{rng: rng, d: d}
	n := rng.Range(4, 7)
	for len(g.pool) < n {
		c := masterComps[rng.Pick(len(masterComps))]
		if d != "" && strings.Contains(c, d) {
			c = strings.ReplaceAll(c, d, "_")
		}
		if (c == "p%t" || c == "s*r") && !rng.Chance(0.3) {
			continue
		}
		g.pool = append(g.pool, c)
	}
	return g
}

func (g *gen) comp() string { return g.pool[g.rng.Pick(len(g.pool))] }

func (g *gen) depth() int {
	switch x := g.rng.Pick(100); {
	case x < 30:
		return 1
	case x < 60:
		return 2
	case x < 82:
		return 3
	case x < 93:
		return 4
	default:
		return 5
	}
}

func (g *gen) fresh() string {
	n := g.depth()
	p := make([]string, n)
	for i := range p {
		p[i] = g.comp()
	}
	return strings.Join(p, g.d)
}

// every name the state knows: mailboxes, outlived subscriptions and their superiors
func known(st *refState) []string {
	if st == nil {
		return nil
	}
	seen := map[string]bool{}
	var out []string
	add := func(n string) {
		if !seen[n] {
			seen[n] = true
			out = append(out, n)
		}
	}
	for _, r := range st.Rows {
		add(r.Name)
		for _, s := range superiors(st.D, r.Name) {
			add(s)
		}
	}
	for _, n := range st.DSubs {
		add(n)
	}
	return out
}

func flipCase(s string, rng *common.Rng) string {
	b := []byte(s)
	for i, c := range b {
		if rng.Chance(0.5) {
			if 'a' <= c && c <= 'z' {
				b[i] = c - 32
			} else if 'A' <= c && c <= 'Z' {
				b[i] = c + 32
			}
		}
	}
	return string(b)
}

// flipSome changes the case of at least one ASCII letter (if there is one)
func flipSome(s string, rng *common.Rng) string {
	var pos []int
	for i := 0; i < len(s); i++ {
		if c := s[i] | 0x20; 'a' <= c && c <= 'z' {
			pos = append(pos, i)
		}
	}
	if len(pos) == 0 {
		return s
	}
	b := []byte(flipCase(s, rng))
	if string(b) == s {
		i := pos[rng.Pick(len(pos))]
		b[i] ^= 0x20
	}
	return string(b)
}

// a name for a command: often one the state knows (or near it), sometimes malformed
func (g *gen) name(st *refState) string {
	ks := known(st)
	x := g.rng.Pick(100)
	switch {
	case x < 38 && len(ks) > 0:
		return ks[g.rng.Pick(len(ks))]
	case x < 50 && len(ks) > 0: // inferior of a known name
		return ks[g.rng.Pick(len(ks))] + g.d + g.fresh()
	case x < 56 && len(ks) > 0:
		return g.mutateName(ks[g.rng.Pick(len(ks))])
	case x < 60:
		return flipCase("INBOX", g.rng)
	case x < 64:
		return flipCase("INBOX", g.rng) + g.d + g.fresh()
	case x < 67:
		return flipCase(recoveryName, g.rng)
	case x < 69:
		return flipCase(recoveryName, g.rng) + g.d + g.comp()
	case x < 72:
		return g.fresh() + g.d // trailing delimiter
	case x < 74:
		return g.d + g.fresh() // leading delimiter
	case x < 76:
		return g.comp() + g.d + g.d + g.comp() // adjacent delimiters
	case x < 77:
		return ""
	case x < 78:
		return g.d
	default:
		return g.fresh()
	}
}

func (g *gen) mutateName(n string) string {
	switch g.rng.Pick(6) {
	case 0:
		return flipCase(n, g.rng)
	case 1:
		return n + g.d
	case 2:
		if i := strings.LastIndex(n, g.d); i > 0 {
			return n[:i]
		}
		return n + "x"
	case 3:
		return n + g.comp()
	case 4:
		if ru := []rune(n); len(ru) > 1 {
			return string(ru[:len(ru)-1])
		}
		return n + n
	default:
		return g.comp() + g.d + n
	}
}

// splitLevels: the levels a connector would announce for the name (flat namespace: the name is its only level)
func (g *gen) splitLevels(n string) ([]string, bool) {
	if n == "" {
		return nil, false
	}
	if g.d == "" {
		return []string{n}, true
	}
	if strings.HasPrefix(n, g.d) || strings.HasSuffix(n, g.d) || strings.Contains(n, g.d+g.d) {
		return nil, false
	}
	return strings.Split(n, g.d), true
}

func (g *gen) levels() []string {
	if g.d == "" { // flat namespace: a connector announces single-level names
		if g.rng.Chance(0.08) {
			return []string{flipCase("INBOX", g.rng)}
		}
		return []string{g.fresh()}
	}
	n := g.depth()
	if n > 3 && g.rng.Chance(0.5) {
		n = 2
	}
	p := make([]string, n)
	for i := range p {
		p[i] = g.comp()
	}
	if g.rng.Chance(0.08) {
		p[0] = flipCase("INBOX", g.rng)
	}
	return p
}

func (g *gen) levelsNear(st *refState) []string {
	ks := known(st)
	if len(ks) > 0 && g.rng.Chance(0.45) {
		n := ks[g.rng.Pick(len(ks))]
		if g.rng.Chance(0.4) {
			n += g.d + g.comp()
		}
		if lv, ok := g.splitLevels(n); ok {
			return lv
		}
	}
	return g.levels()
}

func (g *gen) rowName(st *refState, withInbox bool) (string, bool) {
	var c []string
	for _, r := range st.Rows {
		if r.ID == 1 || (r.ID == 0 && !withInbox) {
			continue
		}
		c = append(c, r.Name)
	}
	if len(c) == 0 {
		return "", false
	}
	return c[g.rng.Pick(len(c))], true
}

func (g *gen) mutation(st *refState) op {
	x := g.rng.Pick(100)
	switch {
	case x < 30:
		o := op{Kind: "CREATE", A: g.name(st)}
		if ks := known(st); g.rng.Chance(0.55) {
			o.A = g.fresh()
			if len(ks) > 0 && g.rng.Chance(0.45) {
				o.A = ks[g.rng.Pick(len(ks))] + g.d + g.fresh()
			}
			if g.rng.Chance(0.1) {
				o.A += g.d
			}
		} else if n, ok := g.rowName(st, true); ok && g.rng.Chance(0.3) {
			// a sibling whose name merely begins with the characters of an existing name ("a" and "ab", "a" and "a.b")
			o.A = n + []string{"b", "x", " ", ".", "-"}[g.rng.Pick(5)]
			if g.d != "" && strings.Contains(o.A, g.d) {
				o.A = n + "b"
			}
		}
		return o
	case x < 41:
		return op{Kind: "DELETE", A: g.name(st)}
	case x < 60:
		o := op{Kind: "RENAME", A: g.name(st), B: g.name(st)}
		if n, ok := g.rowName(st, g.rng.Chance(0.15)); ok && g.rng.Chance(0.75) {
			o.A = n
			switch g.rng.Pick(8) {
			case 0: // move up: the new name is a superior of the old one
				if sp := superiors(g.d, n); len(sp) > 0 {
					o.B = sp[g.rng.Pick(len(sp))]
				}
			case 1: // onto an own inferior
				o.B = n + g.d + g.comp()
			case 2, 3, 4, 5:
				o.B = g.fresh()
			}
		}
		return o
	case x < 67:
		o := op{Kind: "SUB", A: g.name(st)}
		if g.rng.Chance(0.6) { // a mailbox that is not subscribed
			var c []string
			for _, r := range st.Rows {
				if !r.Sub {
					c = append(c, r.Name)
				}
			}
			if len(c) > 0 {
				o.A = c[g.rng.Pick(len(c))]
			}
		}
		return o
	case x < 76:
		o := op{Kind: "UNSUB", A: g.name(st)}
		if g.rng.Chance(0.3) && len(st.DSubs) > 0 { // a subscription that outlived its mailbox
			o.A = st.DSubs[g.rng.Pick(len(st.DSubs))]
		}
		return o
	case x < 84:
		return op{Kind: "CCREATE", Levels: g.levelsNear(st)}
	case x < 86:
		if n, ok := g.rowName(st, true); ok {
			return op{Kind: "CDUP", Target: n, Levels: g.levels()}
		}
		return op{Kind: "CCREATE", Levels: g.levels()}
	case x < 93:
		o := op{Kind: "CRENAME", Levels: g.levelsNear(st)}
		g.target(st, &o)
		if o.Target == "" {
			return o
		}
		switch y := g.rng.Pick(100); {
		case y < 30: // nothing but the case of some letters changes (names are case-sensitive, only a byte-equal name is a no-op)
			if lv, ok := g.splitLevels(flipSome(o.Target, g.rng)); ok {
				o.Levels = lv
			}
		case y < 40: // onto a spelling of INBOX at the first level
			o.Levels = []string{flipCase("INBOX", g.rng)}
			if g.rng.Chance(0.6) && g.d != "" {
				o.Levels = append(o.Levels, g.comp())
			}
		case y < 60: // a mailbox that has inferiors (a connector update moves that one mailbox only)
			var c []string
			for _, r := range st.Rows {
				if r.ID <= 1 {
					continue
				}
				for _, q := range st.Rows {
					if isSuperior(g.d, r.Name, q.Name) {
						c = append(c, r.Name)
						break
					}
				}
			}
			if len(c) > 0 {
				o.Target = c[g.rng.Pick(len(c))]
				if lv, ok := g.splitLevels(flipSome(o.Target, g.rng)); g.rng.Chance(0.4) && ok {
					o.Levels = lv
				}
			}
		}
		return o
	default:
		o := op{Kind: "CDELETE"}
		g.target(st, &o)
		return o
	}
}

func (g *gen) target(st *refState, o *op) {
	x := g.rng.Pick(100)
	switch {
	case x < 6:
		o.Rec = true
	case x < 12:
		o.Dead = true
	default:
		n, ok := g.rowName(st, g.rng.Chance(0.04))
		if !ok {
			o.Dead = true
			return
		}
		o.Target = n
	}
}

// ---------- reference / pattern ----------
var wild = []string{"%", "*"}

func (g *gen) w() string { return wild[g.rng.Pick(2)] }

// pattern derives reference+pattern from a base name: wildcards replace levels, parts of levels, single characters,
// are inserted at every position, stand next to delimiters; the split between reference and pattern is anywhere.
func (g *gen) pattern(base string, st *refState) (string, string) {
	f := base
	x := g.rng.Pick(100)
	switch {
	case x < 6:
		f = g.w()
	case x < 10:
		f = g.w() + g.w()
	case x < 14:
		f = "%" + g.d + "%"
	case x < 17:
		f = g.w() + g.d + g.w() + g.d + g.w()
	case x < 19:
		f = ""
	case x < 21:
		f = base // exact name
	default:
		lv := []string{base}
		if g.d != "" {
			lv = strings.Split(base, g.d)
		} else if ru := []rune(base); len(ru) > 2 { // flat: cut the name into pieces so that wildcards land anywhere
			k := g.rng.Range(1, len(ru)-1)
			lv = []string{string(ru[:k]), string(ru[k:])}
		}
		for i := range lv {
			// positions are counted in characters: a wildcard never lands inside a UTF-8 sequence (a pattern arrives in
			// modified UTF-7, its decoding is always valid UTF-8)
			ru := []rune(lv[i])
			switch y := g.rng.Pick(100); {
			case y < 22:
				lv[i] = g.w()
			case y < 32 && len(ru) > 0:
				k := g.rng.Pick(len(ru) + 1)
				lv[i] = string(ru[:k]) + g.w()
			case y < 40 && len(ru) > 0:
				k := g.rng.Pick(len(ru) + 1)
				lv[i] = g.w() + string(ru[k:])
			case y < 46 && len(ru) > 0:
				k := g.rng.Pick(len(ru) + 1)
				lv[i] = string(ru[:k]) + g.w() + string(ru[k:])
			case y < 50 && len(ru) > 1:
				k := g.rng.Pick(len(ru))
				l := g.rng.Pick(len(ru) - k)
				lv[i] = string(ru[:k]) + g.w() + string(ru[k+l+1:])
			}
		}
		if g.rng.Chance(0.25) && len(lv) > 1 {
			lv = lv[:g.rng.Range(1, len(lv)-1)]
			if g.rng.Chance(0.6) {
				lv = append(lv, g.w())
			}
		}
		f = strings.Join(lv, g.d)
		if g.rng.Chance(0.12) {
			f += g.w()
		}
		if g.rng.Chance(0.08) {
			f += g.d + g.w()
		}
		if g.rng.Chance(0.05) {
			f = g.w() + f
		}
		if g.rng.Chance(0.04) {
			f += g.d
		}
		if g.rng.Chance(0.06) {
			f = flipCase(f, g.rng)
		}
	}
	// keep the backtracking cost of the matchers small: at most 4 wildcards
	cnt := 0
	b := []byte(f)
	for i, c := range b {
		if c == '%' || c == '*' {
			cnt++
			if cnt > 4 {
				b[i] = 'w'
			}
		}
	}
	f = string(b)
	// a spelling of INBOX cut anywhere into reference and pattern (canon() has to put it together again)
	if g.rng.Chance(0.03) {
		n := flipCase("INBOX", g.rng)
		k := g.rng.Pick(len(n))
		return n[:k], n[k:]
	}
	// a reference that is INBOX in some spelling, with and without the delimiter
	if g.rng.Chance(0.04) {
		tail := []string{"%", "*", g.d + "%", g.d + "*", "", g.d}[g.rng.Pick(6)]
		return flipCase("INBOX", g.rng), tail
	}
	// split into reference and pattern
	switch y := g.rng.Pick(100); {
	case y < 45 || f == "":
		return "", f
	case y < 70: // at a delimiter: reference with or without the trailing delimiter
		var pos []int
		for i := 0; i < len(f); i++ {
			if g.d != "" && f[i] == g.d[0] {
				pos = append(pos, i)
			}
		}
		if len(pos) == 0 {
			return "", f
		}
		i := pos[g.rng.Pick(len(pos))]
		if g.rng.Chance(0.5) {
			return f[:i+1], f[i+1:]
		}
		return f[:i], f[i:]
	case y < 74:
		return f, ""
	default:
		i := g.rng.Pick(len(f) + 1)
		// do not split inside a UTF-8 sequence
		for i < len(f) && f[i]&0xC0 == 0x80 {
			i++
		}
		return f[:i], f[i:]
	}
}

func (g *gen) query(st *refState) op {
	kind := "LIST"
	if g.rng.Chance(0.45) {
		kind = "LSUB"
	}
	base := g.name(st)
	if g.rng.Chance(0.7) {
		if ks := known(st); len(ks) > 0 {
			base = ks[g.rng.Pick(len(ks))]
		}
	}
	ref, pat := g.pattern(base, st)
	return op{Kind: kind, A: ref, B: pat}
}

// script: a fixed history that visits the corner cases by construction (written with "/" for the delimiter)
func script(d string) []op {
	x := func(s string) string { return strings.ReplaceAll(s, "/", d) }
	mk := func(kind string, a ...string) op {
		o := op{Kind: kind}
		if len(a) > 0 {
			o.A = x(a[0])
		}
		if len(a) > 1 {
			o.B = x(a[1])
		}
		return o
	}
	lv := func(l ...string) []string {
		if d == "" { // flat namespace: single-level connector names
			return []string{strings.Join(l, "")}
		}
		return l
	}
	return []op{
		// INBOX in any spelling, in the pattern, split over reference and pattern, as the reference (before any "%")
		mk("LIST", "", "inbox"), mk("LIST", "inb", "OX"), mk("LSUB", "", "iNbOx"), mk("LIST", "iNBox", ""), mk("LIST", "", "InBo*"),
		// siblings that share leading characters must not move with the renamed mailbox
		mk("CREATE", "a/b/c"), mk("CREATE", "ab"), mk("CREATE", "a b"), mk("CREATE", "a/bc"), mk("UNSUB", "a/b"),
		mk("RENAME", "a", "x/y"), mk("LIST", "", "x/%"), mk("LSUB", "", "x/y/%"), mk("LIST", "x", "/y/*"), mk("LIST", "", "a%"),
		// moving up in the own hierarchy
		mk("CREATE", "p/z/z/b"), mk("CREATE", "p/z/b"), mk("DELETE", "p"), mk("LIST", "", "%"), mk("RENAME", "p/z", "p"),
		mk("LIST", "", "p/%"), mk("RENAME", "p", "p/q"), mk("RENAME", "p/z", "p/z"),
		// subscriptions that outlive the mailbox
		mk("CREATE", "s/t"), mk("DELETE", "s/t"), mk("LSUB", "", "s/%"), mk("CREATE", "s/t"), mk("LSUB", "", "s/*"),
		mk("UNSUB", "s/t"), mk("UNSUB", "s/t"), mk("DELETE", "s/t"), mk("LSUB", "", "*"), mk("UNSUB", "s/t"),
		mk("DELETE", "s"), mk("UNSUB", "s"), mk("UNSUB", "s"), mk("SUB", "s"),
		// INBOX: case-insensitive at the first level only
		mk("CREATE", "foo/inbox"), mk("CREATE", "foo/Inbox/k"), mk("CREATE", "inBox/sub"), mk("LIST", "", "foo/inbox"),
		mk("LIST", "foo/", "inbox"), mk("LIST", "", "%/inbox"), mk("LSUB", "", "foo/Inbox/*"), mk("LIST", "", "iNbOx/%"),
		mk("LIST", "inbox/", "%"), mk("LIST", "", "inbox"), mk("DELETE", "inbox"), mk("CREATE", "InBox"), mk("SUB", "inbox"),
		mk("UNSUB", "iNBOX"), mk("RENAME", "inbox", "old/mail"), mk("LIST", "", "*"), mk("DELETE", "INBOX/sub"),
		// characters
		mk("CREATE", "n\nl/é/😀"), mk("LIST", "", "*"), mk("LIST", "", "n*"), mk("LIST", "n\nl/é", "/%"), mk("LIST", "n\nl/é/", "%"),
		mk("CREATE", "r.+(x)[y]^$|?{z}\\"), mk("LIST", "", "r.+(x)[y]^$|?{z}\\"), mk("LIST", "", "r.%"), mk("LIST", "", "%x%y%"),
		// name rules for the target of RENAME and for CREATE
		mk("RENAME", "ab", "/lead"), mk("RENAME", "ab", "t//u"), mk("RENAME", "ab", ""), mk("RENAME", "ab", "t/"),
		mk("CREATE", ""), mk("CREATE", "/"), mk("CREATE", "w/"), mk("CREATE", "w"), mk("DELETE", "w/"),
		// the recovery mailbox
		mk("RENAME", "t", "Recovered Messages/x"), mk("RENAME", "t", "recovered MESSAGES"), mk("CREATE", "Recovered Messages/y"),
		mk("DELETE", "recovered messages"), mk("RENAME", "Recovered Messages", "z"), mk("UNSUB", "Recovered Messages"), mk("LSUB", "", "*"),
		{Kind: "CDELETE", Rec: true}, {Kind: "CRENAME", Rec: true, Levels: lv("z")},
		// connector updates
		{Kind: "CCREATE", Levels: lv("c1", "c2", "c3")}, mk("LIST", "", "%"), mk("LIST", "", "c1/%"), mk("LSUB", "", "c1/%"), mk("LSUB", "", "c1/*"),
		{Kind: "CCREATE", Levels: lv("c1", "c2", "c3")}, {Kind: "CCREATE", Levels: lv("iNbOx", "cc")}, mk("LIST", "", "inbox/*"),
		{Kind: "CRENAME", Target: x("c1/c2/c3"), Levels: lv("InBoX")}, {Kind: "CRENAME", Target: x("c1/c2/c3"), Levels: lv("c9")},
		{Kind: "CDELETE", Target: "c9"}, mk("LSUB", "", "*"), {Kind: "CDELETE", Dead: true}, {Kind: "CDUP", Target: "INBOX", Levels: lv("dup")},
		// connector renames that change nothing but the case; a mailbox with inferiors; onto INBOX at the first level
		{Kind: "CCREATE", Levels: lv("Projects")}, {Kind: "CRENAME", Target: "Projects", Levels: lv("projects")}, mk("LIST", "", "%rojects"),
		mk("LSUB", "", "*"), mk("CREATE", "Projects"), {Kind: "CRENAME", Target: "projects", Levels: lv("projects")},
		{Kind: "CRENAME", Target: "projects", Levels: lv("Projects")},
		{Kind: "CCREATE", Levels: lv("Par", "kid")}, {Kind: "CCREATE", Levels: lv("Par")}, {Kind: "CRENAME", Target: "Par", Levels: lv("par")},
		mk("LIST", "", "%ar/%"), mk("LIST", "", "%ar"), {Kind: "CRENAME", Target: x("Par/kid"), Levels: lv("par", "Kid")}, mk("LSUB", "", "par/%"),
		{Kind: "CRENAME", Target: "par", Levels: lv("iNbOx", "deep")}, mk("LIST", "", "inbox/%"),
		{Kind: "CRENAME", Target: x("INBOX/deep"), Levels: lv("InBoX", "Deep")}, mk("LIST", "inbox/", "%"),
		mk("LIST", "", ""), mk("LIST", "x/y", ""), mk("LIST", "/x", ""), mk("LSUB", "x/", ""), mk("LIST", "", "%/%"), mk("LIST", "", "*%"), mk("LSUB", "", "%*"),
	}
}
