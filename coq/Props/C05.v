(* C05 — No EXPUNGE during FETCH, STORE or SEARCH; removals are announced in order.
   Property theorems only. Flush permissions come from Gen/FactsFlush.v (regenerated from /repo on every run). *)
From Coq Require Import List NArith Bool String.
From Gluon Require Import Gen.FactsFlush Model.Responders Model.FlushPolicy Proofs.PopProofs.
Import ListNotations.

(* (1) Whatever responders are pushed (by the command's own work, by updates applied before it) at whatever point,
   a FETCH / STORE / SEARCH (plain or UID) — whose flushes are the ones the source performs — emits no EXPUNGE. *)
Theorem C05_no_expunge_in_restricted :
  forall uid c ps (pushes : list (list responder)) st st' out,
    In c restricted_cmds -> handler_permits uid c = Some ps ->
    run_script (combine pushes ps) st = Some (st', out) ->
    forall x, In x out -> is_pexpunge x = false.
Proof. exact restricted_command_no_expunge. Qed.
Print Assumptions C05_no_expunge_in_restricted.

(* the table is total on the restricted commands: FETCH/STORE/SEARCH and their UID forms are known, with known literals *)
Theorem C05_restricted_table_known : restricted_ok = true.
Proof. exact restricted_permits_false. Qed.
Print Assumptions C05_restricted_table_known.

(* only Mailbox.Flush (forwarding its parameter) and beginIdle reach flushResponses; only flushResponses pops *)
Theorem C05_flush_call_sites :
  state_flush_calls = [("Flush", "flushResponses", None); ("beginIdle", "flushResponses", Some true);
                       ("flushResponses", "popResponders", None)]%string.
Proof. exact eq_refl. Qed.
Print Assumptions C05_flush_call_sites.

(* (1') the same for the merged responses that are actually written to the wire *)
Theorem C05_flush_false_no_expunge : forall st st' out,
  flush false st = FOk st' out -> forall x, In x out -> is_pexpunge x = false.
Proof. exact flush_false_no_expunge. Qed.
Print Assumptions C05_flush_false_no_expunge.

(* (2) every removal is announced by the next command that permits it: a permitting flush leaves nothing pending,
   and NOOP, CHECK, CLOSE, EXPUNGE, UID EXPUNGE, MOVE and the start of IDLE perform a permitting flush *)
Theorem C05_permitting_flush_announces_everything : forall st st' out,
  flush true st = FOk st' out -> s_res st' = [].
Proof. exact flush_true_empties. Qed.
Print Assumptions C05_permitting_flush_announces_everything.

(* UID FETCH / UID STORE / UID SEARCH / UID COPY / UID MOVE perform exactly the flushes of the sequence-number forms *)
Theorem C05_uid_forms_flush_alike :
  map (handler_permits true) uid_twins = map (handler_permits false) uid_twins /\
  forallb (fun c => match handler_permits true c with Some _ => true | None => false end) uid_twins = true.
Proof. exact uid_forms_flush_alike. Qed.
Print Assumptions C05_uid_forms_flush_alike.

Theorem C05_permitting_commands : permitting_ok = true.
Proof. exact permitting_ok_true. Qed.
Print Assumptions C05_permitting_commands.

(* ... and those flushes are unconditional: performed whenever control reaches the handler body (a MOVE that moves
   nothing, a CHECK/NOOP/EXPUNGE with nothing to do still announce what is held back) *)
Theorem C05_permitting_flushes_unconditional : guards_ok = true.
Proof. exact guards_ok_true. Qed.
Print Assumptions C05_permitting_flushes_unconditional.

(* nothing is lost by a non-permitting pop: every responder is either handled now or kept *)
Theorem C05_pop_partition : forall permit rs skip readd p q, pop_go permit skip readd rs = (p, q) ->
  forall r, In r rs <-> In r p \/ In r q.
Proof. exact pop_go_partition. Qed.
Print Assumptions C05_pop_partition.

(* (3) a message that was removed and put back is never announced as present before its removal: per message, what a
   non-permitting pop handles is a prefix of that message's exists/expunge sequence which stops before the first expunge *)
Theorem C05_readd_not_before_removal : forall m rs skip readd p q,
  existsb (N.eqb m) skip = false -> alt m rs ->
  pop_go false skip readd rs = (p, q) ->
  filter (about m) p ++ filter (about m) q = filter (about m) rs /\
  (forall r, In r (filter (about m) p) -> is_rexpunge r = false).
Proof. exact pop_prefix. Qed.
Print Assumptions C05_readd_not_before_removal.

(* ... and what is said about the message after it was put back (flag changes of the new instance) is not handled before
   the held exists either: it stays queued behind it, in order (repaired defect: it used to be applied to the instance
   that the next permitting command removes, and was lost for the new one — C02_old_policy_loses_flag_change) *)
Theorem C05_changes_of_readded_message_wait : forall pre m u f tg og post p q,
  pop_responders false (pre ++ RExists m u f tg og :: post) = (p, q) ->
  existsb (N.eqb m) (fst (pop_state [] [] pre)) = true ->
  exists p1 q1 p2 q2,
    pop_responders false pre = (p1, q1) /\ p = p1 ++ p2 /\ q = q1 ++ RExists m u f tg og :: q2 /\
    (forall r, In r p2 -> is_fetch_of m r = false) /\
    filter (is_fetch_of m) q2 = filter (is_fetch_of m) post.
Proof. exact held_readd_holds_later_fetches. Qed.
Print Assumptions C05_changes_of_readded_message_wait.

Example C05_changes_wait_example :
  pop_responders false [RExpunge 1; RExists 1 3 [] false false; RFetch 1 [5] FAdd false false false; RFetch 2 [5] FAdd false false false]
  = ([RFetch 2 [5] FAdd false false false], [RExpunge 1; RExists 1 3 [] false false; RFetch 1 [5] FAdd false false false])
  /\ existsb (N.eqb 1) (fst (pop_state [] [] [RExpunge 1])) = true.
Proof. split; reflexivity. Qed.

(* (4) [EXPUNGEISSUED]: the flag the three handlers consult is true exactly when a removal is (still) held back *)
Theorem C05_expungeissued_iff_held : forall st st' out,
  flush false st = FOk st' out -> expunge_issued st' = expunge_issued st.
Proof. exact flush_false_expunge_issued. Qed.
Print Assumptions C05_expungeissued_iff_held.

Theorem C05_expungeissued_consulted : issued_ok = true.
Proof. exact issued_ok_true. Qed.
Print Assumptions C05_expungeissued_consulted.

(* non-vacuity: message 7 expunged and re-added elsewhere while the observer runs FETCH: nothing about 7 is announced,
   both responders stay queued, [EXPUNGEISSUED] is set; the following NOOP announces EXPUNGE then EXISTS *)
Example C05_example :
  let st := mkS [mkSmsg 7 1 []; mkSmsg 8 2 []] [RExpunge 7; RExists 7 3 [] false false; RFetch 8 [5] FAdd false false false] in
  match flush false st with
  | FOk st1 out1 =>
      out1 = [PFetch 2 [5] None] /\ expunge_issued st1 = true /\
      match flush true st1 with
      | FOk st2 out2 => out2 = [PExpunge 1; PExists 2] /\ s_res st2 = [] /\ alt 7 (s_res st)
      | _ => False end
  | _ => False end.
Proof. vm_compute. repeat split; intros; discriminate. Qed.
