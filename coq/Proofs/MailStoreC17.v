(* Lemmas behind the theorems of Props/C17.v: the limits invariant, refusals without effect, fitting operations. *)
From Coq Require Import List ZArith NArith Bool Lia.
From Gluon Require Import Gen.FactsLimits Model.UidValidityGen Model.MailStore Proofs.MailStoreBase Proofs.MailStoreWf.
Import ListNotations.
Open Scope Z_scope.

Definition mb_ok (c : cfg) (m : mbox) : Prop :=
  zlen (mb_rows m) <= c_max_msgs c /\ (mb_seq m = 0 \/ mb_seq m + 1 <= c_max_uid c).
(* the recovery mailbox (C20) is judged separately: it is filled without checks when the remote rejects a message *)
Definition within_limits (c : cfg) (s : store) : Prop :=
  zlen (s_mboxes s) <= c_max_mbox c /\ forall m, In m (s_mboxes s) -> mb_id m <> recov_id -> mb_ok c m.
Definition inv17 (c : cfg) (s : store) : Prop := wf s /\ within_limits c s.

Definition op_small (o : op) : Prop :=
  match o with
  | OCreate n _ => zlen n < two62
  | ORename _ n _ => zlen n < two62
  | OCopy _ u _ _ _ => zlen u < two62
  | OMove _ u _ _ _ => zlen u < two62
  | OConnMsgs b => zlen b < two62
  | _ => True
  end.

Lemma assign_zlen : forall ms q, zlen (assign q ms) = zlen ms.
Proof. intros. unfold zlen. rewrite assign_length. reflexivity. Qed.

Lemma lim_mem : forall c x y, within_limits c x -> s_mboxes y = s_mboxes x -> within_limits c y.
Proof. intros c x y H E. unfold within_limits in *. rewrite E. assumption. Qed.

Lemma lim_upd : forall c x i f, within_limits c x -> (forall m, mb_id (f m) = mb_id m) ->
  (forall m, In m (s_mboxes x) -> mb_id m = i -> i <> recov_id -> mb_ok c (f m)) ->
  within_limits c (set_mboxes (upd i f (s_mboxes x)) x).
Proof.
  intros c x i f [A B] Fi Fo. split; cbn [set_mboxes s_mboxes].
  - unfold zlen in *. rewrite upd_length. assumption.
  - intros m' H Hid. apply in_upd in H. destruct H as (m & Hm & ->).
    destruct (N.eqb (mb_id m) i) eqn:E; [|apply B; assumption].
    apply N.eqb_eq in E. rewrite Fi in Hid. apply Fo; [assumption | assumption | congruence].
Qed.

Lemma lim_del_msgs : forall c x i ids, within_limits c x -> within_limits c (del_msgs i ids x).
Proof.
  intros c x i ids H. unfold del_msgs. apply lim_upd; [assumption | reflexivity|].
  intros m Hm E Hi. destruct H as [_ B]. destruct (B m Hm) as [B1 B2]; [congruence|].
  split; cbn [mb_del mb_rows mb_seq]; [|assumption]. eapply Z.le_trans; [apply zlen_filter_le | assumption].
Qed.

Lemma mb_ok_ins : forall c m ms, cfg_ok c -> mb_ok c m -> 0 <= mb_seq m -> zlen ms < two62 -> room c m (zlen ms) = true -> mb_ok c (mb_ins ms m).
Proof.
  intros c m ms Hc [A B] Hs Hk R. pose proof (zlen_nonneg _ ms) as K0. pose proof Hc as (_ & C1 & _ & C2).
  assert (E1 : zlen (mb_rows m) < two62) by lia.
  assert (E2 : mb_seq m + 1 < two62) by (destruct B; unfold two62 in *; lia).
  assert (E3 : 0 <= zlen ms < two62) by lia.
  pose proof (room_true c m (zlen ms) Hc E3 E1 Hs E2 R) as [R1 R2].
  split; cbn [mb_ins mb_rows mb_seq]; [rewrite zlen_app, assign_zlen; lia|].
  destruct (Z.eq_dec (zlen ms) 0) as [Z|Z]; [rewrite Z, Z.add_0_r; assumption | right; lia].
Qed.

Lemma lim_ins : forall c x i m0 ms, cfg_ok c -> wf x -> within_limits c x -> find_id i (s_mboxes x) = Some m0 ->
  (i = recov_id \/ room c m0 (zlen ms) = true) -> zlen ms < two62 -> within_limits c (ins_msgs i ms x).
Proof.
  intros c x i m0 ms Hc W L F R K. unfold ins_msgs. rewrite F.
  apply (lim_mem c (set_mboxes (upd i (mb_ins ms) (s_mboxes x)) x)); [|reflexivity].
  apply lim_upd; [assumption | reflexivity|].
  intros m Hm E Hi. destruct R as [R|R]; [contradiction|].
  destruct (find_id_in _ _ _ F) as [Hin0 Hid0].
  assert (m = m0) by (apply (nodup_same_id (s_mboxes x)); [apply W | assumption | assumption | congruence]). subst m0.
  destruct L as [_ B]. apply mb_ok_ins; try assumption; [apply B; [assumption | congruence] | apply (wf_seq _ _ _ W); assumption].
Qed.
Lemma lim_ins_recov : forall c x ms, within_limits c x -> within_limits c (ins_msgs recov_id ms x).
Proof.
  intros c x ms L. unfold ins_msgs. destruct (find_id recov_id (s_mboxes x)); [|assumption].
  apply (lim_mem c (set_mboxes (upd recov_id (mb_ins ms) (s_mboxes x)) x)); [|reflexivity].
  apply lim_upd; [assumption | reflexivity|]. intros m1 _ _ H. contradiction.
Qed.
Lemma lim_db_add : forall c x i ms y, cfg_ok c -> wf x -> within_limits c x -> db_add c i ms x = Some y -> zlen ms < two62 ->
  within_limits c y.
Proof.
  intros c x i ms y Hc W L D K. unfold db_add in D. destruct (find_id i (s_mboxes x)) as [m|] eqn:F; [|discriminate].
  destruct (room c m (zlen ms)) eqn:R; [|discriminate]. inversion D; subst.
  eapply lim_ins; try eassumption. right. assumption.
Qed.
Lemma lim_add_mbox : forall c x p v, cfg_ok c -> within_limits c x -> zlen (s_mboxes x) + 1 <= c_max_mbox c -> within_limits c (add_mbox p v x).
Proof.
  intros c x p v Hc [A B] H. split; cbn [add_mbox s_mboxes].
  - rewrite zlen_app, zlen_cons. unfold zlen at 2. cbn [length]. lia.
  - intros m Hm Hi. apply in_app_or in Hm. destruct Hm as [Hm|[<-|[]]]; [apply B; assumption|].
    split; cbn [mb_rows mb_seq]; [unfold zlen; cbn [length]; destruct Hc as (_ & ? & _); lia | left; reflexivity].
Qed.
Lemma add_mbox_count : forall p v x, zlen (s_mboxes (add_mbox p v x)) = zlen (s_mboxes x) + 1.
Proof. intros. cbn [add_mbox s_mboxes]. rewrite zlen_app. unfold zlen at 2. cbn [length]. lia. Qed.
Lemma lim_add_all : forall c ps v x, cfg_ok c -> within_limits c x -> zlen (s_mboxes x) + zlen ps <= c_max_mbox c ->
  within_limits c (add_all ps v x).
Proof.
  intros c ps. induction ps as [|p t IH]; intros v x Hc L H; unfold add_all; cbn [fold_left]; [assumption|].
  rewrite zlen_cons in H. pose proof (zlen_nonneg _ t). apply IH; [assumption | apply lim_add_mbox; [assumption | assumption | lia]|].
  rewrite add_mbox_count. lia.
Qed.
Lemma lim_del_mbox : forall c x i, within_limits c x -> within_limits c (set_mboxes (del i (s_mboxes x)) x).
Proof.
  intros c x i [A B]. split; cbn [set_mboxes s_mboxes].
  - unfold del. eapply Z.le_trans; [apply zlen_filter_le | assumption].
  - intros m Hm Hi. apply in_del in Hm. destruct Hm. apply B; assumption.
Qed.
Lemma lim_map : forall c x g, within_limits c x -> (forall m, mb_id (g m) = mb_id m) -> (forall m, mb_seq (g m) = mb_seq m) ->
  (forall m, mb_rows (g m) = mb_rows m) -> within_limits c (set_mboxes (map g (s_mboxes x)) x).
Proof.
  intros c x g [A B] Gi Gs Gr. split; cbn [set_mboxes s_mboxes].
  - rewrite zlen_map. assumption.
  - intros m' H Hi. apply in_map_iff in H. destruct H as (m & <- & Hm). rewrite Gi in Hi. destruct (B m Hm Hi) as [B1 B2].
    split; [rewrite Gr | rewrite Gs]; assumption.
Qed.

Section C17.
Variable hash : N -> option N.
Variable fx : codefacts.
Variable c : cfg.
Variable clock : nat -> Z.
Hypothesis Hc : cfg_ok c.
Notation step' := (step hash fx c clock).

Lemma gen_next_mboxes : forall s g s1, gen_next clock s = (g, s1) -> s_mboxes s1 = s_mboxes s.
Proof. intros s g s1 H. apply gen_next_db in H. apply H. Qed.

Lemma lim_recover : forall s lit, within_limits c s -> within_limits c (fst (recover hash fx s lit)).
Proof.
  intros s lit L. unfold recover. destruct (lit_known hash fx lit s); cbn [fst]; [assumption|].
  apply lim_ins_recov. apply (lim_mem c s); [assumption | reflexivity].
Qed.
Lemma lim_recover_res : forall s lit, within_limits c s -> within_limits c (fst (recover_res hash fx s lit)).
Proof.
  intros s lit L. unfold recover_res. pose proof (lim_recover s lit L) as H. destruct (recover hash fx s lit). cbn [fst] in *. assumption.
Qed.
Lemma lim_limit_refuse : forall s lit, within_limits c s -> within_limits c (fst (limit_refuse hash fx s lit)).
Proof. intros s lit L. unfold limit_refuse. destruct (cf_limit_norecover fx); cbn [fst]; [assumption | apply lim_recover; assumption]. Qed.

Lemma zlen_one : forall A (x : A), zlen [x] = 1.
Proof. reflexivity. Qed.

Lemma lim_append_write : forall s i lit r, inv17 c s -> i <> recov_id ->
  (cf_recheck fx = true \/ forall m, find_id i (s_mboxes s) = Some m -> room c m 1 = true) ->
  within_limits c (fst (append_write hash fx c s i lit r)).
Proof.
  intros s i lit r [W L] Hi R. unfold append_write. destruct (find_id i (s_mboxes s)) as [m|] eqn:F; [|apply lim_recover_res; assumption].
  destruct (cf_recheck fx && negb (room c m 1)) eqn:E; [apply lim_limit_refuse; assumption|].
  assert (Rm : room c m 1 = true).
  { destruct R as [R|R]; [|apply R; reflexivity]. rewrite R in E. cbn [andb] in E. apply negb_false_iff in E. assumption. }
  destruct r; cbn [fst]; [|apply lim_recover_res; assumption | assumption].
  apply (lim_ins c (bump_msg 1 s) i m); try assumption.
  - right. rewrite zlen_one. assumption.
  - rewrite zlen_one. unfold two62. lia.
Qed.
Lemma lim_append : forall s n lit r, inv17 c s -> within_limits c (fst (op_append hash fx c s n lit r)).
Proof.
  intros s n lit r [W L]. unfold op_append. destruct (is_recov n) eqn:Rn; [assumption|].
  destruct (find_name n (s_mboxes s)) as [m|] eqn:F; [|assumption].
  destruct (append_check c m) eqn:A; [|apply lim_limit_refuse; assumption].
  apply lim_append_write; [split; assumption | apply (not_recov_id s W n m F Rn)|].
  right. intros m0 F0. rewrite (find_id_of_name s W n m F) in F0. inversion F0; subst. assumption.
Qed.

Lemma selection_small : forall m u, zlen u < two62 -> zlen (map snd (selection m u)) < two62.
Proof. intros m u H. rewrite zlen_map. eapply Z.le_lt_trans; [apply selection_length | assumption]. Qed.

Lemma lim_add_messages : forall s d m u lab, inv17 c s -> zlen u < two62 ->
  within_limits c (fst (add_messages c s d (selection m u) lab)).
Proof.
  intros s d m u lab [W L] K. unfold add_messages. destruct (negb lab); cbn [fst]; [assumption|].
  match goal with |- context[db_add c ?i ?ms ?x] => destruct (db_add c i ms x) as [s2|] eqn:D end; cbn [fst]; [|assumption].
  eapply lim_db_add; [assumption | | | exact D | apply selection_small; assumption].
  - apply (good_del_msgs s W).
  - apply lim_del_msgs. assumption.
Qed.

Lemma fresh_msgs_zlen : forall sel id, zlen (fresh_msgs id sel) = zlen sel.
Proof. unfold zlen. induction sel as [|r t IH]; intro id; cbn [fresh_msgs length]; [reflexivity|]. specialize (IH (id + 1)%N). lia. Qed.

Lemma lim_out_of_recovery : forall s d m u mv cr lab, inv17 c s -> zlen u < two62 ->
  within_limits c (fst (out_of_recovery fx c s d (selection m u) mv cr lab)).
Proof.
  intros s d m u mv cr lab [W L] K. unfold out_of_recovery. destruct (negb cr); cbn [fst]; [assumption|]. cbv zeta.
  destruct (negb lab); cbn [fst]; [apply (lim_mem c s); [assumption | reflexivity]|].
  match goal with |- context[db_add c ?i ?ms ?x] =>
    assert (G1 : good s x /\ within_limits c x);
    [| destruct (db_add c i ms x) as [s2|] eqn:D; cbn [fst]; [|apply (lim_mem c s); [assumption | reflexivity]]] end.
  - destruct mv, (cf_erase_late fx); cbn [andb negb]; (split; [peel|]);
      repeat first [ apply (fun x h => lim_mem c x (erase_hashes h x)); [|reflexivity]
                   | apply lim_del_msgs
                   | apply (fun x k => lim_mem c x (bump_msg k x)); [|reflexivity] ]; assumption.
  - destruct G1 as [[W1 _] L1].
    assert (L2 : within_limits c s2).
    { eapply lim_db_add; [assumption | exact W1 | exact L1 | exact D|]. rewrite fresh_msgs_zlen. pose proof (selection_length m u). lia. }
    destruct (mv && cf_erase_late fx); [apply (lim_mem c s2); [assumption | reflexivity] | assumption].
Qed.

Lemma lim_copy : forall s a u b cr lab, inv17 c s -> zlen u < two62 -> within_limits c (fst (op_copy fx c s a u b cr lab)).
Proof.
  intros s a u b cr lab I K. pose proof I as [W L]. unfold op_copy. destruct (is_recov b); [assumption|].
  destruct (find_name b (s_mboxes s)) as [d|]; [|assumption]. destruct (find_name a (s_mboxes s)) as [m|]; [|assumption].
  destruct (N.eqb (mb_id m) recov_id); [apply lim_out_of_recovery | apply lim_add_messages]; assumption.
Qed.

Lemma lim_move : forall s a u b cr lab, inv17 c s -> zlen u < two62 -> within_limits c (fst (op_move fx c s a u b cr lab)).
Proof.
  intros s a u b cr lab I K. pose proof I as [W L]. unfold op_move. destruct (is_recov b) eqn:Rb; [assumption|].
  destruct (find_name b (s_mboxes s)) as [d|] eqn:Fb; [|assumption]. destruct (find_name a (s_mboxes s)) as [m|] eqn:Fa; [|assumption].
  cbv zeta. destruct (N.eqb (mb_id m) recov_id); [apply lim_out_of_recovery; assumption|].
  destruct (N.eqb (mb_id m) (mb_id d)) eqn:Emd.
  - destruct (negb lab); cbn [fst]; [assumption|].
    match goal with |- context[db_add c ?i ?ms ?x] => destruct (db_add c i ms x) as [s2|] eqn:D end; cbn [fst]; [|assumption].
    eapply lim_db_add; [assumption | | | exact D | apply selection_small; assumption].
    + apply (good_del_msgs s W).
    + apply lim_del_msgs. assumption.
  - destruct (negb lab); cbn [fst]; [assumption|].
    match goal with |- context[find_id ?i ?l] => destruct (find_id i l) as [d1|] eqn:Fi end; cbn [fst]; [|assumption].
    match goal with |- context[room c d1 ?k] => destruct (room c d1 k) eqn:R end; cbn [fst]; [|assumption].
    match goal with |- within_limits c (ins_msgs _ _ (del_msgs ?j2 ?ids2 ?x1)) =>
      assert (W1 : wf x1) by (apply good_del_msgs; assumption);
      assert (L1 : within_limits c x1) by (apply lim_del_msgs; assumption);
      assert (W2 : wf (del_msgs j2 ids2 x1)) by (apply good_del_msgs; assumption);
      assert (L2 : within_limits c (del_msgs j2 ids2 x1)) by (apply lim_del_msgs; assumption);
      assert (F2 : find_id (mb_id d) (s_mboxes (del_msgs j2 ids2 x1)) = Some d1)
    end.
    { unfold del_msgs at 1. cbn [set_mboxes s_mboxes]. rewrite find_id_upd by reflexivity. rewrite Fi.
      destruct (find_id_in _ _ _ Fi) as [_ E1]. rewrite E1, N.eqb_sym, Emd. reflexivity. }
    eapply lim_ins; [assumption | exact W2 | exact L2 | exact F2 | | apply selection_small; assumption].
    right. rewrite zlen_map. assumption.
Qed.

Lemma lim_expunge : forall s n u r, within_limits c s -> within_limits c (fst (op_expunge s n u r)).
Proof.
  intros s n u r L. unfold op_expunge. destruct (find_name n (s_mboxes s)) as [m|]; [|assumption]. cbv zeta.
  match goal with |- context[map ?f (selection m u)] => destruct (map f (selection m u)) end; cbn [fst]; [assumption|].
  destruct (N.eqb (mb_id m) recov_id); cbn [fst].
  - apply lim_del_msgs. apply (lim_mem c s); [assumption | reflexivity].
  - destruct (negb r); cbn [fst]; [assumption | apply lim_del_msgs; assumption].
Qed.

Lemma prefixes_length : forall p, length (prefixes p) = length p.
Proof. induction p as [|x t IH]; cbn [prefixes length]; [reflexivity|]. f_equal. rewrite map_length. exact IH. Qed.
Lemma superiors_zlen : forall p, zlen (superiors p) <= zlen p.
Proof.
  intro p. unfold superiors, zlen. pose proof (prefixes_length p) as E.
  destruct (prefixes p) as [|x t] eqn:P; [cbn; lia|].
  assert (length (removelast (x :: t)) <= length (x :: t))%nat.
  { generalize (x :: t). induction l as [|y l IH]; cbn [removelast length]; [lia|]. destruct l; cbn [length] in *; lia. }
  lia.
Qed.
Lemma missing_zlen : forall l ps, zlen (missing l ps) <= zlen ps.
Proof. intros. unfold missing. apply zlen_filter_le. Qed.

Lemma lim_create : forall s n r, cf_create_sum fx = true -> within_limits c s -> zlen n < two62 ->
  within_limits c (fst (op_create fx c clock s n r)).
Proof.
  intros s n r Fc L K. unfold op_create. destruct (cf_create_gen_in_tx fx && bad_create_name n); [assumption|].
  destruct (gen_next clock s) as [g s1] eqn:G.
  pose proof (gen_next_mboxes _ _ _ G) as M. assert (L1 : within_limits c s1) by (apply (lim_mem c s); assumption).
  destruct g as [v|]; [|assumption]. rewrite Fc. cbn [negb andb].
  repeat match goal with |- within_limits c (fst (if ?b then _ else _)) => destruct b eqn:?; cbn [fst]; [assumption|] end.
  apply lim_add_all; [assumption | assumption|].
  match goal with H : lim_count c ?k = false |- _ => rewrite lim_count_spec in H; [apply Z.leb_gt in H|] end.
  - lia.
  - rewrite zlen_app, zlen_one. pose proof (missing_zlen (s_mboxes s1) (superiors n)). pose proof (superiors_zlen n).
    pose proof (zlen_nonneg _ (s_mboxes s1)). pose proof (zlen_nonneg _ (missing (s_mboxes s1) (superiors n))).
    destruct L1 as [A _]. destruct Hc as (C1 & _). unfold two62 in *. lia.
Qed.

Lemma lim_delete : forall s n r, within_limits c s -> within_limits c (fst (op_delete s n r)).
Proof.
  intros s n r L. unfold op_delete. destruct (is_recov n || is_inbox n); [assumption|].
  destruct (find_name n (s_mboxes s)) as [m|]; [|assumption]. destruct r; cbn [fst]; [apply lim_del_mbox|]; assumption.
Qed.

Lemma add_each_count : forall ps s s', add_each clock ps s = Some s' -> zlen (s_mboxes s') = zlen (s_mboxes s) + zlen ps.
Proof.
  induction ps as [|p t IH]; intros s s' H; cbn [add_each] in H; [inversion H; subst; unfold zlen at 3; cbn; lia|].
  destruct (gen_next clock s) as [[v|] s1] eqn:G; [|discriminate]. apply IH in H. rewrite H, add_mbox_count, zlen_cons.
  rewrite (gen_next_mboxes _ _ _ G). lia.
Qed.
Lemma lim_add_each : forall ps s s', within_limits c s -> add_each clock ps s = Some s' ->
  zlen (s_mboxes s) + zlen ps <= c_max_mbox c -> within_limits c s'.
Proof.
  induction ps as [|p t IH]; intros s s' L H K; cbn [add_each] in H; [inversion H; subst; assumption|].
  destruct (gen_next clock s) as [[v|] s1] eqn:G; [|discriminate]. pose proof (gen_next_mboxes _ _ _ G) as M.
  rewrite zlen_cons in K. pose proof (zlen_nonneg _ t).
  apply (IH (add_mbox p v s1) s'); [|assumption|].
  - apply lim_add_mbox; [assumption | apply (lim_mem c s); assumption | rewrite M; lia].
  - rewrite add_mbox_count, M. lia.
Qed.

Lemma lim_rename : forall s a b r, cf_rename_check fx = true -> inv17 c s -> zlen b < two62 ->
  within_limits c (fst (op_rename fx c clock s a b r)).
Proof.
  intros s a b r Fr [W L] K. unfold op_rename.
  destruct (is_recov a || is_recov b || match b with [] => true | _ => false end) eqn:E; [assumption|].
  apply orb_false_iff in E. destruct E as [E _]. apply orb_false_iff in E. destruct E as [Ea _].
  destruct (find_name a (s_mboxes s)) as [m|] eqn:F; [|assumption].
  match goal with |- within_limits c (fst (if ?x then _ else _)) => destruct x; [assumption|] end.
  rewrite Fr. cbn [andb].
  set (todo := missing (s_mboxes s) (superiors b)).
  match goal with |- within_limits c (fst (if ?x then _ else _)) => destruct x eqn:Chk; [assumption|] end.
  destruct (negb r); [assumption|].
  destruct (add_each clock todo s) as [s1|] eqn:A; [|assumption].
  assert (T : zlen todo <= zlen b) by (pose proof (missing_zlen (s_mboxes s) (superiors b)); pose proof (superiors_zlen b); unfold todo; lia).
  pose proof (zlen_nonneg _ todo) as T0. pose proof (zlen_nonneg _ (s_mboxes s)) as S0.
  assert (Cnt : zlen (s_mboxes s) + (zlen todo + (if is_inbox a then 1 else 0)) <= c_max_mbox c).
  { destruct (0 <? zlen todo + (if is_inbox a then 1 else 0)) eqn:P; cbn [andb] in Chk.
    - rewrite lim_count_spec in Chk; [apply Z.leb_gt in Chk; lia|].
      destruct L as [A0 _]. destruct Hc as (C1 & _). unfold two62 in *. destruct (is_inbox a); lia.
    - apply Z.ltb_ge in P. destruct L as [A0 _]. destruct (is_inbox a); lia. }
  pose proof (good_add_each clock todo s s1 W A) as [W1 _].
  assert (L1 : within_limits c s1) by (apply (lim_add_each todo s s1 L A); destruct (is_inbox a); lia).
  pose proof (add_each_count _ _ _ A) as C1.
  destruct (is_inbox a) eqn:Ib.
  - destruct (gen_next clock s1) as [[v|] s2] eqn:G; [|apply (lim_mem c s); [assumption | reflexivity]].
    pose proof (gen_next_mboxes _ _ _ G) as M2.
    match goal with |- context[db_add c ?i ?ms ?x] => destruct (db_add c i ms x) as [s4|] eqn:D end; cbn [fst];
      [|apply (lim_mem c s); [assumption | reflexivity]].
    assert (W2 : wf s2) by (apply (good_gen_next clock s1 _ s2 W1 G)).
    assert (L2 : within_limits c s2) by (apply (lim_mem c s1); assumption).
    eapply lim_db_add; [assumption | | | exact D|].
    + eapply good_step; [apply good_add_mbox; exact W2|]. intro. apply good_del_msgs. assumption.
    + apply lim_del_msgs. apply lim_add_mbox; [assumption | assumption | rewrite M2, C1; lia].
    + rewrite zlen_map. destruct (find_name_in _ _ _ F) as [Hin _]. destruct L as [_ B].
      destruct (B m Hin (not_recov_id s W a m F Ea)) as [B1 _]. destruct Hc as (_ & ? & _). eapply Z.le_lt_trans; [exact B1 | lia].
  - cbv zeta. match goal with |- within_limits c (fst (if ?x then _ else _)) => destruct x end; cbn [fst];
      [|apply (lim_mem c s); [assumption | reflexivity]].
    unfold rename_inferiors.
    replace (set_mboxes (map (rename_one a b) (upd (mb_id m) (mb_set_name b) (s_mboxes s1))) s1)
      with (set_mboxes (map (rename_one a b) (s_mboxes (set_mboxes (upd (mb_id m) (mb_set_name b) (s_mboxes s1)) s1)))
                       (set_mboxes (upd (mb_id m) (mb_set_name b) (s_mboxes s1)) s1)) by reflexivity.
    apply lim_map.
    + unfold upd. apply lim_map; [assumption | | |]; intro x; destruct (N.eqb (mb_id x) (mb_id m)); reflexivity.
    + intro x. unfold rename_one. destruct a; [reflexivity|]. destruct (strip_prefix _ _) as [[|? ?]|]; reflexivity.
    + intro x. unfold rename_one. destruct a; [reflexivity|]. destruct (strip_prefix _ _) as [[|? ?]|]; reflexivity.
    + intro x. unfold rename_one. destruct a; [reflexivity|]. destruct (strip_prefix _ _) as [[|? ?]|]; reflexivity.
Qed.

Lemma lim_conn_create : forall s n, within_limits c s -> within_limits c (fst (op_conn_create c clock s n)).
Proof.
  intros s n L. unfold op_conn_create. destruct (gen_next clock s) as [g s1] eqn:G.
  pose proof (gen_next_mboxes _ _ _ G) as M. assert (L1 : within_limits c s1) by (apply (lim_mem c s); assumption).
  destruct g as [v|]; [|assumption].
  destruct (lim_uidv c v); cbn [fst]; [assumption|]. destruct (lim_count c (zlen (s_mboxes s1))) eqn:Chk; cbn [fst]; [assumption|].
  destruct (exists_name n (s_mboxes s1)); cbn [fst]; [assumption|].
  apply lim_add_mbox; [assumption | assumption|].
  rewrite lim_count_spec in Chk; [apply Z.leb_gt in Chk; lia|].
  destruct L1 as [A _]. pose proof (zlen_nonneg _ (s_mboxes s1)). destruct Hc as (C1 & _). unfold two62 in *. lia.
Qed.

Lemma for_mbox_zlen : forall p bm, zlen (for_mbox p bm) <= zlen bm.
Proof. intros. unfold for_mbox. rewrite zlen_map. apply zlen_filter_le. Qed.
Lemma batch_msgs_zlen : forall b id, zlen (batch_msgs id b) = zlen b.
Proof.
  unfold zlen. induction b as [|[l ps] t IH]; intro id; cbn [batch_msgs length]; [reflexivity|]. specialize (IH (id + 1)%N). lia.
Qed.
Lemma lim_add_per_mbox : forall ps bm s s' b, inv17 c s -> zlen bm < two62 -> add_per_mbox c ps bm s = Some (s', b) -> within_limits c s'.
Proof.
  induction ps as [|p t IH]; intros bm s s' b [W L] K H; cbn [add_per_mbox] in H; [inversion H; subst; assumption|].
  destruct (find_name p (s_mboxes s)) as [m|]; [|inversion H; subst; assumption].
  destruct (db_add c (mb_id m) (for_mbox p bm) s) as [s1|] eqn:D; [|discriminate].
  apply (IH bm s1 s' b); [|assumption | assumption]. split.
  - apply (good_db_add c _ _ s s1 W D).
  - eapply lim_db_add; [assumption | exact W | exact L | exact D|]. pose proof (for_mbox_zlen p bm). lia.
Qed.
Lemma lim_conn_msgs : forall s b, inv17 c s -> zlen b < two62 -> within_limits c (fst (op_conn_msgs c s b)).
Proof.
  intros s b [W L] K. unfold op_conn_msgs. cbv zeta.
  match goal with |- context[add_per_mbox c ?ps ?bm ?x] => destruct (add_per_mbox c ps bm x) as [[s1 [|]]|] eqn:A end; cbn [fst];
    try assumption.
  eapply lim_add_per_mbox; [| |exact A].
  - split; [apply (good_bump_msg s _ W) | apply (lim_mem c s); [assumption | reflexivity]].
  - rewrite batch_msgs_zlen. pose proof (zlen_filter_le _ (fun e : N * list path => negb (existsb is_recov (snd e))) b). lia.
Qed.

Lemma lim_bump_all : forall ids s s', within_limits c s -> bump_all clock ids s = Some s' -> within_limits c s'.
Proof.
  induction ids as [|i t IH]; intros s s' L H; cbn [bump_all] in H; [inversion H; subst; assumption|].
  destruct (gen_next clock s) as [[v|] s1] eqn:G; [|discriminate]. pose proof (gen_next_mboxes _ _ _ G) as M.
  apply (IH _ s') in H; [assumption|]. unfold upd. apply lim_map; [apply (lim_mem c s); assumption | | |];
    intro x; destruct (N.eqb (mb_id x) i); reflexivity.
Qed.
Lemma lim_conn_bump : forall s, within_limits c s -> within_limits c (fst (op_conn_bump clock s)).
Proof.
  intros s L. unfold op_conn_bump. destruct (bump_all clock (map mb_id (s_mboxes s)) s) as [s1|] eqn:B; cbn [fst]; [|assumption].
  eapply lim_bump_all; eassumption.
Qed.
Lemma lim_restart : forall s, within_limits c s -> within_limits c (fst (op_restart hash fx clock s)).
Proof.
  intros s L. unfold op_restart. cbv zeta. cbn [fst].
  match goal with |- context[gen_next clock ?x] => destruct (gen_next clock x) as [g s1] eqn:G end.
  apply gen_next_mboxes in G. cbn [snd]. apply (lim_mem c s); [assumption|]. cbn [set_hashes s_mboxes]. rewrite G. reflexivity.
Qed.

Definition facts17 : Prop := cf_create_sum fx = true /\ cf_rename_check fx = true.

Theorem inv17_step : forall s o, facts17 -> op_small o -> inv17 c s -> inv17 c (fst (step' s o)).
Proof.
  intros s o [F1 F2] Sm I. pose proof I as [W L]. split; [apply (good_step_op hash fx c clock s o W)|].
  destruct o; cbn [step]; cbn [op_small] in Sm.
  - apply lim_create; assumption.
  - apply lim_delete; assumption.
  - apply lim_rename; assumption.
  - apply lim_append; assumption.
  - apply lim_copy; assumption.
  - apply lim_move; assumption.
  - apply lim_expunge; assumption.
  - apply lim_conn_create; assumption.
  - apply lim_conn_msgs; assumption.
  - apply lim_conn_bump; assumption.
  - apply lim_restart; assumption.
Qed.
Theorem inv17_run : forall h s, facts17 -> Forall op_small h -> inv17 c s -> inv17 c (run hash fx c clock s h).
Proof.
  induction h as [|o t IH]; intros s F Sm I; cbn [run]; [assumption|].
  inversion Sm; subst. apply IH; [assumption | assumption | apply inv17_step; assumption].
Qed.

(* every UID in a (non-recovery) mailbox is within the configured maximum *)
Lemma uids_within_max : forall s m r, inv17 c s -> In m (s_mboxes s) -> mb_id m <> recov_id -> In r (mb_rows m) -> fst r <= c_max_uid c.
Proof.
  intros s m r [W [_ B]] Hm Hi Hr. destruct (B m Hm Hi) as [_ B2].
  destruct (wf_rows _ _ _ W m r Hm Hr) as (v & Hv). destruct (wf_log _ _ _ W _ Hv) as (_ & A1 & A2).
  specialize (A2 m Hm eq_refl). cbn in A1, A2. destruct B2; lia.
Qed.

(* ---------- a refused operation changes no mailbox (the recovery mailbox aside: C20) ---------- *)
Definition nonrec (l : list mbox) : list mbox := filter (fun m => negb (N.eqb (mb_id m) recov_id)) l.
Lemma nonrec_upd_recov : forall f l, (forall m, mb_id (f m) = mb_id m) -> nonrec (upd recov_id f l) = nonrec l.
Proof.
  intros f l Fi. unfold nonrec, upd. induction l as [|x t IH]; cbn [map filter]; [reflexivity|].
  destruct (N.eqb (mb_id x) recov_id) eqn:E.
  - rewrite Fi, E. cbn [negb]. exact IH.
  - rewrite E. cbn [negb]. rewrite IH. reflexivity.
Qed.
Lemma nonrec_recover : forall s lit, nonrec (s_mboxes (fst (recover hash fx s lit))) = nonrec (s_mboxes s).
Proof.
  intros s lit. unfold recover. destruct (lit_known hash fx lit s); cbn [fst]; [reflexivity|].
  unfold ins_msgs. cbn [set_hashes bump_msg s_mboxes].
  destruct (find_id recov_id (s_mboxes s)); [|reflexivity]. cbn [add_log set_mboxes s_mboxes].
  apply nonrec_upd_recov. reflexivity.
Qed.
Lemma nonrec_recover_res : forall s lit, nonrec (s_mboxes (fst (recover_res hash fx s lit))) = nonrec (s_mboxes s).
Proof. intros s lit. unfold recover_res. pose proof (nonrec_recover s lit) as H. destruct (recover hash fx s lit). exact H. Qed.
Lemma nonrec_limit_refuse : forall s lit, nonrec (s_mboxes (fst (limit_refuse hash fx s lit))) = nonrec (s_mboxes s).
Proof. intros s lit. unfold limit_refuse. destruct (cf_limit_norecover fx); cbn [fst]; [reflexivity | apply nonrec_recover]. Qed.
Lemma limit_refuse_same : forall s lit, cf_limit_norecover fx = true -> fst (limit_refuse hash fx s lit) = s.
Proof. intros s lit H. unfold limit_refuse. rewrite H. reflexivity. Qed.

Ltac notok H := exfalso; eapply H; reflexivity.

Theorem refusal_no_effect : forall s o, (forall a, snd (step' s o) <> ResOk a) ->
  nonrec (s_mboxes (fst (step' s o))) = nonrec (s_mboxes s).
Proof.
  intros s o H. destruct o; cbn [step] in *.
  - unfold op_create in *. destruct (cf_create_gen_in_tx fx && bad_create_name name); [reflexivity|].
    destruct (gen_next clock s) as [g s1] eqn:G. pose proof (gen_next_mboxes _ _ _ G) as M.
    destruct g as [v|]; [|cbn [fst]; rewrite M; reflexivity].
    repeat match goal with |- context[if ?b then _ else _] => destruct b; cbn [fst snd] in *; [rewrite M; reflexivity|] end.
    notok H.
  - unfold op_delete in *. destruct (is_recov name || is_inbox name); [reflexivity|].
    destruct (find_name name (s_mboxes s)); [|reflexivity]. destruct remote_ok; cbn [fst snd] in *; [notok H | reflexivity].
  - unfold op_rename in *.
    repeat match goal with
           | |- context[if ?b then _ else _] => destruct b; cbn [fst snd] in *; try reflexivity
           | |- context[match find_name ?a ?l with _ => _ end] => destruct (find_name a l); cbn [fst snd] in *; try reflexivity
           | |- context[match add_each ?a ?b ?d with _ => _ end] => destruct (add_each a b d); cbn [fst snd] in *; try reflexivity
           | |- context[match gen_next ?a ?b with _ => _ end] => destruct (gen_next a b) as [[?|] ?]; cbn [fst snd] in *; try reflexivity
           | |- context[match db_add ?a ?b ?d ?e with _ => _ end] => destruct (db_add a b d e); cbn [fst snd] in *; try reflexivity
           end; try (notok H).
  - unfold op_append in *. destruct (is_recov name); [reflexivity|]. destruct (find_name name (s_mboxes s)) as [m|]; [|reflexivity].
    destruct (append_check c m); [|apply nonrec_limit_refuse].
    unfold append_write in *. destruct (find_id (mb_id m) (s_mboxes s)) as [m0|]; [|apply nonrec_recover_res].
    destruct (cf_recheck fx && negb (room c m0 1)); [apply nonrec_limit_refuse|].
    destruct r; cbn [fst snd] in *; [notok H | apply nonrec_recover_res | reflexivity].
  - unfold op_copy, add_messages, out_of_recovery in *. cbv zeta in *.
    repeat match goal with
           | |- context[if ?b then _ else _] => destruct b; cbn [fst snd] in *; try reflexivity
           | |- context[match find_name ?a ?l with _ => _ end] => destruct (find_name a l); cbn [fst snd] in *; try reflexivity
           | |- context[match db_add ?a ?b ?d ?e with _ => _ end] => destruct (db_add a b d e); cbn [fst snd] in *; try reflexivity
           end; try (notok H).
  - unfold op_move, out_of_recovery in *. cbv zeta in *.
    repeat match goal with
           | |- context[if ?b then _ else _] => destruct b; cbn [fst snd] in *; try reflexivity
           | |- context[match find_name ?a ?l with _ => _ end] => destruct (find_name a l); cbn [fst snd] in *; try reflexivity
           | |- context[match find_id ?a ?l with _ => _ end] => destruct (find_id a l); cbn [fst snd] in *; try reflexivity
           | |- context[match db_add ?a ?b ?d ?e with _ => _ end] => destruct (db_add a b d e); cbn [fst snd] in *; try reflexivity
           end; try (notok H).
  - unfold op_expunge in *. cbv zeta in *. destruct (find_name name (s_mboxes s)) as [m|]; [|reflexivity].
    match goal with |- context[map ?f (selection m uids)] => destruct (map f (selection m uids)) end; cbn [fst snd] in *; [reflexivity|].
    destruct (N.eqb (mb_id m) recov_id); cbn [fst snd] in *; [notok H|]. destruct (negb remote_ok); cbn [fst snd] in *; [reflexivity | notok H].
  - unfold op_conn_create in *. destruct (gen_next clock s) as [g s1] eqn:G. pose proof (gen_next_mboxes _ _ _ G) as M.
    destruct g as [v|]; [|cbn [fst]; rewrite M; reflexivity].
    repeat match goal with |- context[if ?b then _ else _] => destruct b; cbn [fst snd] in *; [rewrite M; reflexivity|] end.
    notok H.
  - unfold op_conn_msgs in *. cbv zeta in *.
    match goal with |- context[add_per_mbox c ?ps ?bm ?x] => destruct (add_per_mbox c ps bm x) as [[s1 [|]]|] end; cbn [fst snd] in *;
      try reflexivity. notok H.
  - unfold op_conn_bump in *. destruct (bump_all clock (map mb_id (s_mboxes s)) s); cbn [fst snd] in *; [notok H | reflexivity].
  - unfold op_restart in *. cbv zeta in *. cbn [fst snd] in *. notok H.
Qed.

(* with the recovery fallback disabled for limit errors, an operation refused by a limit leaves every mailbox untouched *)
Theorem limit_refusal_no_effect : forall s o, cf_limit_norecover fx = true -> snd (step' s o) = ResNoLimit ->
  s_mboxes (fst (step' s o)) = s_mboxes s.
Proof.
  intros s o Fl H. destruct o; cbn [step] in *.
  - unfold op_create in *. destruct (cf_create_gen_in_tx fx && bad_create_name name); [reflexivity|].
    destruct (gen_next clock s) as [g s1] eqn:G. pose proof (gen_next_mboxes _ _ _ G) as M.
    destruct g as [v|]; [|cbn [fst]; assumption].
    repeat match goal with |- context[if ?b then _ else _] => destruct b; cbn [fst snd] in *; [assumption|] end. discriminate.
  - unfold op_delete in *. destruct (is_recov name || is_inbox name); [reflexivity|].
    destruct (find_name name (s_mboxes s)); [|reflexivity]. destruct remote_ok; cbn [fst snd] in *; [discriminate | reflexivity].
  - unfold op_rename in *.
    repeat match goal with
           | |- context[if ?b then _ else _] => destruct b; cbn [fst snd] in *; try reflexivity
           | |- context[match find_name ?a ?l with _ => _ end] => destruct (find_name a l); cbn [fst snd] in *; try reflexivity
           | |- context[match add_each ?a ?b ?d with _ => _ end] => destruct (add_each a b d); cbn [fst snd] in *; try reflexivity
           | |- context[match gen_next ?a ?b with _ => _ end] => destruct (gen_next a b) as [[?|] ?]; cbn [fst snd] in *; try reflexivity
           | |- context[match db_add ?a ?b ?d ?e with _ => _ end] => destruct (db_add a b d e); cbn [fst snd] in *; try reflexivity
           end; try discriminate.
  - unfold op_append in *. destruct (is_recov name); [reflexivity|]. destruct (find_name name (s_mboxes s)) as [m|]; [|reflexivity].
    destruct (append_check c m); [|rewrite limit_refuse_same by assumption; reflexivity].
    unfold append_write in *. unfold recover_res in *.
    destruct (find_id (mb_id m) (s_mboxes s)) as [m0|]; [|destruct (recover hash fx s lit) as [? [|]]; cbn [snd] in H; discriminate].
    destruct (cf_recheck fx && negb (room c m0 1)); [rewrite limit_refuse_same by assumption; reflexivity|].
    destruct r; cbn [fst snd] in *; try discriminate. destruct (recover hash fx s lit) as [? [|]]; cbn [snd] in H; discriminate.
  - unfold op_copy, add_messages, out_of_recovery in *. cbv zeta in *.
    repeat match goal with
           | |- context[if ?b then _ else _] => destruct b; cbn [fst snd] in *; try reflexivity
           | |- context[match find_name ?a ?l with _ => _ end] => destruct (find_name a l); cbn [fst snd] in *; try reflexivity
           | |- context[match db_add ?a ?b ?d ?e with _ => _ end] => destruct (db_add a b d e); cbn [fst snd] in *; try reflexivity
           end; try discriminate.
  - unfold op_move, out_of_recovery in *. cbv zeta in *.
    repeat match goal with
           | |- context[if ?b then _ else _] => destruct b; cbn [fst snd] in *; try reflexivity
           | |- context[match find_name ?a ?l with _ => _ end] => destruct (find_name a l); cbn [fst snd] in *; try reflexivity
           | |- context[match find_id ?a ?l with _ => _ end] => destruct (find_id a l); cbn [fst snd] in *; try reflexivity
           | |- context[match db_add ?a ?b ?d ?e with _ => _ end] => destruct (db_add a b d e); cbn [fst snd] in *; try reflexivity
           end; try discriminate.
  - unfold op_expunge in *. cbv zeta in *. destruct (find_name name (s_mboxes s)) as [m|]; [|reflexivity].
    match goal with |- context[map ?f (selection m uids)] => destruct (map f (selection m uids)) end; cbn [fst snd] in *; [reflexivity|].
    destruct (N.eqb (mb_id m) recov_id); cbn [fst snd] in *; [discriminate|]. destruct (negb remote_ok); cbn [fst snd] in *; [reflexivity | discriminate].
  - unfold op_conn_create in *. destruct (gen_next clock s) as [g s1] eqn:G. pose proof (gen_next_mboxes _ _ _ G) as M.
    destruct g as [v|]; [|cbn [fst]; assumption].
    repeat match goal with |- context[if ?b then _ else _] => destruct b; cbn [fst snd] in *; [assumption|] end. discriminate.
  - unfold op_conn_msgs in *. cbv zeta in *.
    match goal with |- context[add_per_mbox c ?ps ?bm ?x] => destruct (add_per_mbox c ps bm x) as [[s1 [|]]|] end; cbn [fst snd] in *;
      try reflexivity. discriminate.
  - unfold op_conn_bump in *. destruct (bump_all clock (map mb_id (s_mboxes s)) s); cbn [fst snd] in *; [discriminate | reflexivity].
  - unfold op_restart in *. cbv zeta in *. cbn [fst snd] in *. discriminate.
Qed.

(* ---------- operations that fit are accepted ---------- *)
Theorem fitting_append_accepted : forall s n lit m, wf s -> find_name n (s_mboxes s) = Some m -> is_recov n = false ->
  zlen (mb_rows m) + 1 <= c_max_msgs c -> mb_seq m + 1 + 1 <= c_max_uid c ->
  snd (op_append hash fx c s n lit RemOk) = ResOk [(0, mb_seq m + 1)].
Proof.
  intros s n lit m W F R A B. unfold op_append. rewrite R, F.
  assert (Rm : room c m 1 = true) by (apply room_fits; [assumption | lia | apply (wf_seq _ _ _ W); apply (find_name_in _ _ _ F) | assumption | assumption]).
  unfold append_check. rewrite Rm. unfold append_write. rewrite (find_id_of_name s W n m F). rewrite Rm.
  cbn [negb]. rewrite andb_false_r. reflexivity.
Qed.

Theorem fitting_add_accepted : forall s i m ms, find_id i (s_mboxes s) = Some m -> 0 <= mb_seq m ->
  zlen (mb_rows m) + zlen ms <= c_max_msgs c -> mb_seq m + 1 + zlen ms <= c_max_uid c ->
  db_add c i ms s = Some (ins_msgs i ms s).
Proof.
  intros s i m ms F S0 A B. unfold db_add. rewrite F.
  rewrite room_fits; [reflexivity | assumption | apply zlen_nonneg | assumption | assumption | assumption].
Qed.

(* multi-message COPY between ordinary mailboxes: all selected messages fit => accepted, all announced *)
Theorem fitting_copy_accepted : forall s a u b m d, wf s -> find_name a (s_mboxes s) = Some m -> find_name b (s_mboxes s) = Some d ->
  is_recov b = false -> mb_id m <> recov_id ->
  let sel := selection m u in
  let d1 := mb_del (filter (fun id => has_msg d id) (map (fun r : row => fst (snd r)) sel)) d in
  zlen (mb_rows d1) + zlen sel <= c_max_msgs c -> mb_seq d + 1 + zlen sel <= c_max_uid c ->
  snd (op_copy fx c s a u b true true) = ResOk (zip_uids sel (mb_seq d)).
Proof.
  intros s a u b m d W Fa Fb Rb Hm sel d1 A B. unfold op_copy. rewrite Rb, Fb, Fa.
  destruct (N.eqb (mb_id m) recov_id) eqn:E; [apply N.eqb_eq in E; contradiction|].
  unfold add_messages. cbn [negb]. fold sel.
  match goal with |- context[db_add c ?i ?ms ?x] => rewrite (fitting_add_accepted x i d1 ms) end; [reflexivity | | | |].
  - unfold del_msgs. cbn [set_mboxes s_mboxes]. rewrite find_id_upd by reflexivity. rewrite (find_id_of_name s W b d Fb).
    rewrite N.eqb_refl. reflexivity.
  - cbn [d1 mb_del mb_seq]. apply (wf_seq _ _ _ W). apply (find_name_in _ _ _ Fb).
  - rewrite zlen_map. assumption.
  - rewrite zlen_map. cbn [d1 mb_del mb_seq]. assumption.
Qed.

Theorem fitting_create_accepted : forall s n v s1, cf_create_sum fx = true -> gen_next clock s = (Some v, s1) ->
  lim_uidv c v = false -> recov_prefixed n = false -> is_inbox n = false -> n <> [] -> exists_name n (s_mboxes s) = false ->
  zlen n < two62 -> zlen (s_mboxes s) < two62 ->
  zlen (s_mboxes s) + zlen (missing (s_mboxes s) (superiors n) ++ [n]) <= c_max_mbox c ->
  snd (op_create fx c clock s n true) = ResOk [].
Proof.
  intros s n v s1 Fc G Lv Rp Ib Ne Ex K K2 Cnt. unfold op_create.
  assert (Bn : bad_create_name n = false) by (unfold bad_create_name; rewrite Rp, Ib; destruct n; [congruence | reflexivity]).
  rewrite Bn, andb_false_r. rewrite G. pose proof (gen_next_mboxes _ _ _ G) as M.
  rewrite Lv, Rp, Ib, Fc. cbn [orb negb andb]. destruct n as [|x t]; [congruence|]. rewrite M, Ex.
  rewrite lim_count_spec.
  - match goal with |- context[?a <=? ?b] => destruct (a <=? b) eqn:E end; [apply Z.leb_le in E; lia | reflexivity].
  - rewrite zlen_app, zlen_one in *. pose proof (missing_zlen (s_mboxes s) (superiors (x :: t))). pose proof (superiors_zlen (x :: t)).
    pose proof (zlen_nonneg _ (s_mboxes s)). pose proof (zlen_nonneg _ (missing (s_mboxes s) (superiors (x :: t)))). unfold two62 in *. lia.
Qed.

(* ---------- interleaved sessions ---------- *)
Definition pend_ok (p : pending) : Prop := forall sid i b, In (sid, (i, b)) p -> i <> recov_id.
Definition iinv (st : store * pending) : Prop := inv17 c (fst st) /\ pend_ok (snd st).

Lemma pend_get_in : forall sid p v, pend_get sid p = Some v -> In (sid, v) p.
Proof.
  induction p as [|[x w] t IH]; cbn [pend_get]; intros v H; [discriminate|].
  destruct (N.eqb x sid) eqn:E; [apply N.eqb_eq in E; inversion H; subst; left; reflexivity | right; apply IH; assumption].
Qed.
Lemma pend_del_ok : forall sid p, pend_ok p -> pend_ok (pend_del sid p).
Proof. intros sid p H x i b Hin. unfold pend_del in Hin. apply filter_In in Hin. destruct Hin. eapply H; eassumption. Qed.

Theorem iinv_step : forall st o, facts17 -> cf_recheck fx = true ->
  match o with IAtomic x => op_small x | _ => True end -> iinv st -> iinv (istep hash fx c clock st o).
Proof.
  intros [s p] o F R Sm [I P]. cbn [fst snd] in *. destruct o as [x|sid name|sid lit r]; cbn [istep].
  - split; cbn [fst snd]; [apply inv17_step; assumption | assumption].
  - destruct (is_recov name) eqn:Rn; [split; assumption|].
    destruct (find_name name (s_mboxes s)) as [m|] eqn:Fn; [|split; assumption].
    split; cbn [fst snd]; [assumption|]. intros x i b [H|H].
    + inversion H; subst. destruct I as [W _]. apply (not_recov_id s W name m Fn Rn).
    + apply (pend_del_ok sid p P x i b H).
  - destruct (pend_get sid p) as [[i [|]]|] eqn:G; [| |split; assumption].
    + split; cbn [fst snd]; [|apply pend_del_ok; assumption]. pose proof I as [W L]. split.
      * apply (good_append_write hash fx c s i lit r W).
      * apply lim_append_write; [assumption | | left; assumption]. apply pend_get_in in G. eapply P; eassumption.
    + split; cbn [fst snd]; [|apply pend_del_ok; assumption]. pose proof I as [W L]. split.
      * apply (good_limit_refuse hash fx s lit W).
      * apply lim_limit_refuse. assumption.
Qed.
Fixpoint iops_small (h : list iop) : Prop :=
  match h with [] => True | IAtomic x :: t => op_small x /\ iops_small t | _ :: t => iops_small t end.
Theorem iinv_run : forall h st, facts17 -> cf_recheck fx = true -> iops_small h -> iinv st -> iinv (irun hash fx c clock st h).
Proof.
  induction h as [|o t IH]; intros st F R Sm I; cbn [irun]; [assumption|].
  apply IH; try assumption.
  - destruct o; cbn [iops_small] in Sm; [destruct Sm|..]; assumption.
  - apply iinv_step; try assumption. destruct o; cbn [iops_small] in Sm; [destruct Sm; assumption | exact Logic.I | exact Logic.I].
Qed.
End C17.
