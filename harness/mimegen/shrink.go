package mimegen

import (
	"fmt"
	"strings"
)

// Clone copies a tree (positions are not copied; re-render to fill them).
func (n *Node) Clone() *Node {
	if n == nil {
		return nil
	}
	c := *n
	c.Params = append([]Param{}, n.Params...)
	c.DispParams = append([]Param{}, n.DispParams...)
	c.Extra = append([]string{}, n.Extra...)
	c.RawLines = append([]string{}, n.RawLines...)
	c.Body = append([]byte{}, n.Body...)
	if n.Env != nil {
		e := *n.Env
		c.Env = &e
	}
	c.Children = nil
	for _, x := range n.Children {
		c.Children = append(c.Children, x.Clone())
	}
	c.Embedded = n.Embedded.Clone()
	return &c
}

func leaf() *Node { return &Node{Type: "text", Sub: "plain", Body: []byte("x")} }

// candidates returns trees that are one simplification step away from n (the root keeps its envelope).
func candidates(n *Node) []*Node {
	var out []*Node
	if n.Bare {
		return []*Node{leaf()}
	}
	with := func(f func(c *Node)) {
		c := n.Clone()
		f(c)
		out = append(out, c)
	}
	// drop optional header material
	if n.ID != "" || n.Desc != "" || n.Enc != "" || n.MD5 != "" || n.Disp != "" || n.Lang != "" || n.Loc != "" || len(n.Extra) > 0 || len(n.RawLines) > 0 || n.Prelude != "" {
		with(func(c *Node) {
			c.ID, c.Desc, c.Enc, c.MD5, c.Disp, c.Lang, c.Loc, c.Extra, c.DispParams, c.Prelude, c.RawLines = "", "", "", "", "", "", "", nil, nil, "", nil
		})
	}
	if n.NoClose {
		with(func(c *Node) { c.NoClose = false })
	}
	if len(n.Preamble) > 0 || len(n.Epilogue) > 0 {
		with(func(c *Node) { c.Preamble, c.Epilogue = nil, nil })
	}
	if n.Env != nil && (n.Env.Subject != "" || n.Env.To != nil || n.Env.Cc != nil || n.Env.Bcc != nil || n.Env.Sender != nil || n.Env.ReplyTo != nil || n.Env.InReplyTo != "" || n.Env.MsgID != "") {
		with(func(c *Node) {
			c.Env.Subject, c.Env.To, c.Env.Cc, c.Env.Bcc, c.Env.Sender, c.Env.ReplyTo, c.Env.InReplyTo, c.Env.MsgID = "", nil, nil, nil, nil, nil, "", ""
		})
	}
	if len(n.Children) == 0 && n.Embedded == nil && string(n.Body) != "x" {
		with(func(c *Node) { c.Body = []byte("x") })
	}
	if len(n.Children) == 0 && n.Embedded == nil && n.HasCT && (n.Type != "text" || n.Sub != "plain" || len(n.Params) > 0) {
		with(func(c *Node) { c.Type, c.Sub, c.Params, c.HasCT = "text", "plain", nil, false })
	}
	// structure: hoist a child / the embedded message, normalise the multipart subtype
	hoist := func(sub *Node) {
		c := sub.Clone()
		if n.Env != nil {
			c.Env = n.Env
		}
		c.Prelude = n.Prelude
		out = append(out, c)
	}
	for _, ch := range n.Children {
		if !ch.Bare {
			hoist(ch)
		}
	}
	if n.Embedded != nil {
		hoist(n.Embedded)
	}
	if len(n.Children) > 0 && n.Type == "multipart" && n.Sub != "mixed" {
		with(func(c *Node) { c.Sub = "mixed" })
	}
	if len(n.Children) > 0 && len(n.Params) > 1 {
		with(func(c *Node) { c.Params = []Param{{"boundary", c.Boundary}} })
	}
	if len(n.Children) > 0 || n.Embedded != nil {
		with(func(c *Node) {
			env := c.Env
			*c = *leaf()
			c.Env = env
		})
	}
	for i := range n.Children {
		if len(n.Children) > 1 {
			i := i
			with(func(c *Node) { c.Children = append(c.Children[:i:i], c.Children[i+1:]...) })
		}
		for _, sub := range candidates(n.Children[i]) {
			i, sub := i, sub
			with(func(c *Node) { c.Children[i] = sub })
		}
	}
	if n.Embedded != nil {
		for _, sub := range candidates(n.Embedded) {
			sub := sub
			with(func(c *Node) { c.Embedded = sub })
		}
	}
	return out
}

// Shrink greedily simplifies the tree while fails(tree) stays true (bounded number of evaluations).
func Shrink(n *Node, fails func(*Node) bool, budget int) *Node {
	cur := n
	for budget > 0 {
		progress := false
		for _, c := range candidates(cur) {
			budget--
			if budget <= 0 {
				break
			}
			if fails(c) {
				cur = c
				progress = true
				break
			}
		}
		if !progress {
			break
		}
	}
	return cur
}

// Normalize renames boundaries to B1, B2, ... in tree order (canonical rendering of a shrunk case).
func Normalize(n *Node) {
	k := 0
	n.Walk(func(x *Node) {
		if x.Type == "multipart" && len(x.Children) > 0 {
			k++
			x.Boundary = fmt.Sprintf("B%d", k)
			for i := range x.Params {
				if x.Params[i].K == "boundary" {
					x.Params[i].V = x.Boundary
				}
			}
		}
	})
}

// Shape is a short deterministic description of a tree: types and nesting.
func Shape(n *Node) string {
	var sb strings.Builder
	var rec func(x *Node)
	rec = func(x *Node) {
		if x.Bare {
			sb.WriteString("(bare)")
		} else if !x.HasCT {
			sb.WriteString("(default)")
		} else {
			sb.WriteString(x.Type + "/" + x.Sub)
		}
		if x.Embedded != nil {
			sb.WriteString("{")
			rec(x.Embedded)
			sb.WriteString("}")
		}
		if len(x.Children) > 0 {
			sb.WriteString("[")
			for i, c := range x.Children {
				if i > 0 {
					sb.WriteString(",")
				}
				rec(c)
			}
			sb.WriteString("]")
			if x.NoClose {
				sb.WriteString("!noclose")
			}
		}
	}
	rec(n)
	return sb.String()
}
