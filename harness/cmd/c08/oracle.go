package main

// The property oracle of C08: a plain in-memory relational model of the db interface (tables as slices, every
// bulk operation acts on its whole argument list). It is written independently of the Coq model; the Coq model
// is compared separately through cases.v.

import (
	"sort"
	"strings"
)

type oMbox struct {
	ID, Remote, Name, UIDV int
	Sub                    bool
}
type oRow struct {
	UID, Msg, Remote int
	Deleted, Recent  bool
}
type oTab struct {
	Box, Seq int
	Rows     []oRow
}
type oMsg struct {
	ID, Remote int
	Deleted    bool
}
type oFlag struct {
	M int
	F string
}
type oBFlag struct {
	B int
	F string
}

type oDB struct {
	Mboxes   []oMbox
	MboxSeq  int
	BFlags   []oBFlag
	BPFlags  []oBFlag
	BAttrs   []oBFlag
	Msgs     []oMsg
	Flags    []oFlag
	M2M      [][2]int // (msg, box)
	Tabs     []*oTab
	Subs     [][2]int // (name, remote)
	Settings *int
}

func (d *oDB) clone() *oDB {
	c := &oDB{MboxSeq: d.MboxSeq}
	c.Mboxes = append([]oMbox{}, d.Mboxes...)
	c.BFlags = append([]oBFlag{}, d.BFlags...)
	c.BPFlags = append([]oBFlag{}, d.BPFlags...)
	c.BAttrs = append([]oBFlag{}, d.BAttrs...)
	c.Msgs = append([]oMsg{}, d.Msgs...)
	c.Flags = append([]oFlag{}, d.Flags...)
	c.M2M = append([][2]int{}, d.M2M...)
	for _, t := range d.Tabs {
		c.Tabs = append(c.Tabs, &oTab{Box: t.Box, Seq: t.Seq, Rows: append([]oRow{}, t.Rows...)})
	}
	c.Subs = append([][2]int{}, d.Subs...)
	if d.Settings != nil {
		v := *d.Settings
		c.Settings = &v
	}
	return c
}

func (d *oDB) tab(b int) *oTab {
	for _, t := range d.Tabs {
		if t.Box == b {
			return t
		}
	}
	return nil
}
func (d *oDB) mboxByID(b int) *oMbox {
	for i := range d.Mboxes {
		if d.Mboxes[i].ID == b {
			return &d.Mboxes[i]
		}
	}
	return nil
}
func (d *oDB) mboxByRemote(r int) *oMbox {
	for i := range d.Mboxes {
		if d.Mboxes[i].Remote == r {
			return &d.Mboxes[i]
		}
	}
	return nil
}
func (d *oDB) mboxByName(n int) *oMbox {
	for i := range d.Mboxes {
		if d.Mboxes[i].Name == n {
			return &d.Mboxes[i]
		}
	}
	return nil
}
func (d *oDB) msg(m int) *oMsg {
	for i := range d.Msgs {
		if d.Msgs[i].ID == m {
			return &d.Msgs[i]
		}
	}
	return nil
}
func (d *oDB) msgByRemote(r int) *oMsg {
	for i := range d.Msgs {
		if d.Msgs[i].Remote == r {
			return &d.Msgs[i]
		}
	}
	return nil
}
func (d *oDB) hasFlagExact(m int, f string) bool {
	for _, x := range d.Flags {
		if x.M == m && x.F == f {
			return true
		}
	}
	return false
}
func (d *oDB) flagsOf(m int) []string {
	var r []string
	for _, x := range d.Flags {
		if x.M == m {
			r = append(r, x.F)
		}
	}
	return r
}
func (d *oDB) inM2M(m, b int) bool {
	for _, p := range d.M2M {
		if p[0] == m && p[1] == b {
			return true
		}
	}
	return false
}

func inInts(x int, l []int) bool {
	for _, y := range l {
		if x == y {
			return true
		}
	}
	return false
}

func intSet(l []int) map[int]bool {
	m := make(map[int]bool, len(l))
	for _, x := range l {
		m[x] = true
	}
	return m
}

func hasCI(f string, l []string) bool {
	for _, x := range l {
		if strings.EqualFold(x, f) {
			return true
		}
	}
	return false
}
func hasExact(f string, l []string) bool {
	for _, x := range l {
		if x == f {
			return true
		}
	}
	return false
}

// ---- results ----
type res struct {
	K      string // unit bool num nums pairs mbox flags snap msgflags countuid optnum str strs mboxattrs msg namerem
	B      bool
	N, N2  int
	Ns     []int
	Ps     [][2]int
	Mb     oMbox
	Fl     []string
	Snap   []snapRow
	MF     []msgFlags
	Opt    *int
	Attrs  [][]string // per mailbox attrs (mboxattrs)
	Mbs    []oMbox
	NameRs [][2]int
}
type snapRow struct {
	UID, Msg, Remote int
	Deleted, Recent  bool
	Flags            []string
}
type msgFlags struct {
	ID, Remote int
	Flags      []string
}

const (
	errNone = ""
	errNF   = "notfound"
	errOth  = "error"
)

func rUnit() res            { return res{K: "unit"} }
func rBool(b bool) res      { return res{K: "bool", B: b} }
func rNum(n int) res        { return res{K: "num", N: n} }
func rNums(l []int) res     { return res{K: "nums", Ns: append([]int{}, l...)} }
func rFlags(l []string) res { return res{K: "flags", Fl: append([]string{}, l...)} }

const sqliteMaxVars = 32766

// apply runs one operation on the oracle state (mutating it) and returns the expected result and error class.
// On error the state may be partially modified: the caller discards it (the transaction is rolled back).
func (d *oDB) apply(o *op) (res, string) {
	switch o.K {
	case "AddMessages":
		if len(o.Pairs) == 0 {
			return res{K: "snap"}, errNone
		}
		t := d.tab(o.Box)
		if t == nil {
			return res{}, errOth
		}
		for _, p := range o.Pairs {
			for _, r := range t.Rows {
				if r.Msg == p[0] || r.Remote == p[1] {
					return res{}, errOth
				}
			}
			if d.msg(p[0]) == nil {
				return res{}, errOth
			}
			t.Seq++
			t.Rows = append(t.Rows, oRow{UID: t.Seq, Msg: p[0], Remote: p[1], Deleted: false, Recent: true})
		}
		for _, p := range o.Pairs {
			if d.inM2M(p[0], o.Box) || d.msg(p[0]) == nil || d.mboxByID(o.Box) == nil {
				return res{}, errOth
			}
			d.M2M = append(d.M2M, [2]int{p[0], o.Box})
		}
		ids := map[int]bool{}
		for _, p := range o.Pairs {
			ids[p[0]] = true
		}
		out := res{K: "snap"}
		for _, r := range t.Rows {
			if ids[r.Msg] {
				out.Snap = append(out.Snap, snapRow{r.UID, r.Msg, r.Remote, r.Deleted, r.Recent, d.flagsOf(r.Msg)})
			}
		}
		return out, errNone
	case "RemoveMessages":
		if len(o.Ids) == 0 {
			return rUnit(), errNone
		}
		t := d.tab(o.Box)
		if t == nil {
			return res{}, errOth
		}
		ids := intSet(o.Ids)
		var rows []oRow
		for _, r := range t.Rows {
			if !ids[r.Msg] {
				rows = append(rows, r)
			}
		}
		t.Rows = rows
		var m2m [][2]int
		for _, p := range d.M2M {
			if !(ids[p[0]] && p[1] == o.Box) {
				m2m = append(m2m, p)
			}
		}
		d.M2M = m2m
		return rUnit(), errNone
	case "SetDeleted":
		if len(o.Ids) == 0 {
			return rUnit(), errNone
		}
		t := d.tab(o.Box)
		if t == nil {
			return res{}, errOth
		}
		ids := intSet(o.Ids)
		for i := range t.Rows {
			if ids[t.Rows[i].Msg] {
				t.Rows[i].Deleted = o.B
			}
		}
		return rUnit(), errNone
	case "CreateMessages":
		for _, q := range o.Reqs {
			if d.msg(q.ID) != nil || d.msgByRemote(q.Remote) != nil {
				return res{}, errOth
			}
			d.Msgs = append(d.Msgs, oMsg{ID: q.ID, Remote: q.Remote})
		}
		for _, q := range o.Reqs {
			for _, f := range q.Flags {
				if d.hasFlagExact(q.ID, f) {
					return res{}, errOth
				}
				d.Flags = append(d.Flags, oFlag{q.ID, f})
			}
		}
		return rUnit(), errNone
	case "DeleteMessages":
		ids := intSet(o.Ids)
		for _, t := range d.Tabs {
			for _, r := range t.Rows {
				if ids[r.Msg] {
					return res{}, errOth // a mailbox row still references the message (ON DELETE SET NULL on NOT NULL)
				}
			}
		}
		var msgs []oMsg
		for _, m := range d.Msgs {
			if !ids[m.ID] {
				msgs = append(msgs, m)
			}
		}
		d.Msgs = msgs
		var fl []oFlag
		for _, f := range d.Flags {
			if !ids[f.M] {
				fl = append(fl, f)
			}
		}
		d.Flags = fl
		var m2m [][2]int
		for _, p := range d.M2M {
			if !ids[p[0]] {
				m2m = append(m2m, p)
			}
		}
		d.M2M = m2m
		return rUnit(), errNone
	case "AddFlag":
		for _, m := range o.Ids {
			if d.msg(m) == nil {
				return res{}, errOth
			}
			if !d.hasFlagExact(m, o.Flag) {
				d.Flags = append(d.Flags, oFlag{m, o.Flag})
			}
		}
		return rUnit(), errNone
	case "RemoveFlag":
		ids := intSet(o.Ids)
		var fl []oFlag
		for _, f := range d.Flags {
			if !(ids[f.M] && strings.EqualFold(f.F, o.Flag)) {
				fl = append(fl, f)
			}
		}
		d.Flags = fl
		return rUnit(), errNone
	case "SetFlags":
		// the statement of one chunk of 500 ids carries 2*500*len(flags) bind variables: SQLite refuses more than 32766
		n := len(o.Ids)
		if n > chunkLimit/2 {
			n = chunkLimit / 2
		}
		if 2*n*len(o.Flags) > sqliteMaxVars {
			return res{}, errOth
		}
		ids := intSet(o.Ids)
		var fl []oFlag
		for _, f := range d.Flags {
			if !(ids[f.M] && !hasExact(f.F, o.Flags)) {
				fl = append(fl, f)
			}
		}
		d.Flags = fl
		for _, m := range o.Ids {
			for _, f := range o.Flags {
				if d.msg(m) == nil {
					return res{}, errOth
				}
				if !d.hasFlagExact(m, f) {
					d.Flags = append(d.Flags, oFlag{m, f})
				}
			}
		}
		return rUnit(), errNone
	case "FilterContains":
		if len(o.Ids) == 0 {
			return res{K: "nums"}, errNone
		}
		t := d.tab(o.Box)
		if t == nil {
			return res{}, errOth
		}
		ids := intSet(o.Ids)
		out := res{K: "nums"}
		for _, r := range t.Rows {
			if ids[r.Msg] {
				out.Ns = append(out.Ns, r.Msg)
			}
		}
		return out, errNone
	case "GetMessagesFlags":
		ids := intSet(o.Ids)
		out := res{K: "msgflags"}
		for _, m := range d.Msgs {
			if ids[m.ID] {
				out.MF = append(out.MF, msgFlags{m.ID, m.Remote, d.flagsOf(m.ID)})
			}
		}
		return out, errNone
	case "Translate":
		ids := intSet(o.Ids)
		out := res{K: "nums"}
		for _, m := range d.Mboxes {
			if ids[m.Remote] {
				out.Ns = append(out.Ns, m.ID)
			}
		}
		return out, errNone
	case "CreateMailbox", "GetOrCreateMailbox", "GetOrCreateMailboxAlt", "CreateMailboxIfNotExists":
		if o.K != "CreateMailbox" {
			if m := d.mboxByRemote(o.N1); m != nil {
				if o.K == "CreateMailboxIfNotExists" {
					return rUnit(), errNone
				}
				return res{K: "mbox", Mb: *m}, errNone
			}
		}
		if d.mboxByRemote(o.N1) != nil || d.mboxByName(o.N2) != nil {
			return res{}, errOth
		}
		d.MboxSeq++
		m := oMbox{ID: d.MboxSeq, Remote: o.N1, Name: o.N2, UIDV: o.N3, Sub: true}
		d.Mboxes = append(d.Mboxes, m)
		d.subsDropName(o.N2) // the name exists again: an entry that outlived an earlier mailbox of this name goes
		for _, f := range o.Flags {
			d.BFlags = append(d.BFlags, oBFlag{m.ID, f})
		}
		for _, f := range o.Flags2 {
			d.BPFlags = append(d.BPFlags, oBFlag{m.ID, f})
		}
		for _, f := range o.Flags3 {
			d.BAttrs = append(d.BAttrs, oBFlag{m.ID, f})
		}
		d.Tabs = append(d.Tabs, &oTab{Box: m.ID})
		if o.K == "CreateMailboxIfNotExists" {
			return rUnit(), errNone
		}
		return res{K: "mbox", Mb: m}, errNone
	case "DeleteMailbox":
		m := d.mboxByRemote(o.N1)
		if m == nil {
			return rUnit(), errNone
		}
		if m.Sub {
			if !d.subsAdd(m.Name, o.N1) {
				return res{}, errOth
			}
		}
		id := m.ID
		var mb []oMbox
		for _, x := range d.Mboxes {
			if x.ID != id {
				mb = append(mb, x)
			}
		}
		d.Mboxes = mb
		filt := func(l []oBFlag) []oBFlag {
			var r []oBFlag
			for _, x := range l {
				if x.B != id {
					r = append(r, x)
				}
			}
			return r
		}
		d.BFlags, d.BPFlags, d.BAttrs = filt(d.BFlags), filt(d.BPFlags), filt(d.BAttrs)
		var m2m [][2]int
		for _, p := range d.M2M {
			if p[1] != id {
				m2m = append(m2m, p)
			}
		}
		d.M2M = m2m
		var tabs []*oTab
		for _, t := range d.Tabs {
			if t.Box != id {
				tabs = append(tabs, t)
			}
		}
		d.Tabs = tabs
		return rUnit(), errNone
	case "RenameMailbox":
		m := d.mboxByRemote(o.N1)
		if m == nil {
			return res{}, errOth
		}
		if x := d.mboxByName(o.N2); x != nil && x.ID != m.ID {
			return res{}, errOth
		}
		m.Name = o.N2
		d.subsDropName(o.N2)
		return rUnit(), errNone
	case "SetSubscribed":
		if m := d.mboxByID(o.Box); m != nil {
			m.Sub = o.B
		}
		return rUnit(), errNone
	case "SetUIDValidity":
		m := d.mboxByID(o.Box)
		if m == nil {
			return res{}, errOth
		}
		m.UIDV = o.N1
		return rUnit(), errNone
	case "UpdateRemoteMailboxID":
		m := d.mboxByID(o.Box)
		if m == nil {
			return res{}, errOth
		}
		if x := d.mboxByRemote(o.N1); x != nil && x.ID != m.ID {
			return res{}, errOth
		}
		m.Remote = o.N1
		return rUnit(), errNone
	case "CreateMessageAndAdd":
		q := o.Reqs[0]
		if d.msg(q.ID) != nil || d.msgByRemote(q.Remote) != nil {
			return res{}, errOth
		}
		d.Msgs = append(d.Msgs, oMsg{ID: q.ID, Remote: q.Remote})
		deleted := false
		for _, f := range q.Flags {
			if strings.EqualFold(f, `\Deleted`) {
				deleted = true // per-mailbox flag, not stored with the message flags
				continue
			}
			if d.hasFlagExact(q.ID, f) {
				return res{}, errOth
			}
			d.Flags = append(d.Flags, oFlag{q.ID, f})
		}
		if d.mboxByID(o.Box) == nil {
			return res{}, errOth
		}
		d.M2M = append(d.M2M, [2]int{q.ID, o.Box})
		t := d.tab(o.Box)
		if t == nil {
			return res{}, errOth
		}
		for _, r := range t.Rows {
			if r.Msg == q.ID || r.Remote == q.Remote {
				return res{}, errOth
			}
		}
		t.Seq++
		t.Rows = append(t.Rows, oRow{UID: t.Seq, Msg: q.ID, Remote: q.Remote, Deleted: deleted, Recent: true})
		// the operation answers the UID and the flags the new entry shows in this mailbox: the request's flags
		// (with \Deleted if it was named) and \Recent
		return res{K: "uidflags", N: t.Seq, Fl: append(append([]string{}, q.Flags...), `\Recent`)}, errNone
	case "MarkDeleted":
		if m := d.msg(o.N1); m != nil {
			m.Deleted = true
		}
		return rUnit(), errNone
	case "MarkDeletedRemote":
		if m := d.msgByRemote(o.N1); m != nil {
			m.Deleted = true
		}
		return rUnit(), errNone
	case "MarkDeletedRandomRemote":
		if m := d.msg(o.N1); m != nil {
			m.Deleted = true
			m.Remote = o.N2 // the harness learns the random remote id from the dump and renames it to N2
		}
		return rUnit(), errNone
	case "UpdateRemoteMessageID":
		m := d.msg(o.N1)
		if m == nil {
			return res{}, errOth
		}
		if x := d.msgByRemote(o.N2); x != nil && x.ID != m.ID {
			return res{}, errOth
		}
		m.Remote = o.N2
		// every mailbox row of the message carries a copy of the remote id
		for _, p := range d.M2M {
			if p[0] != m.ID {
				continue
			}
			t := d.tab(p[1])
			if t == nil {
				return res{}, errOth
			}
			has := false
			for _, r := range t.Rows {
				if r.Msg == m.ID {
					has = true
				}
			}
			for i := range t.Rows {
				if has && t.Rows[i].Remote == o.N2 && t.Rows[i].Msg != m.ID {
					return res{}, errOth
				}
			}
			for i := range t.Rows {
				if t.Rows[i].Msg == m.ID {
					t.Rows[i].Remote = o.N2
				}
			}
		}
		return rUnit(), errNone
	case "ClearRecentOne":
		t := d.tab(o.Box)
		if t == nil {
			return res{}, errOth
		}
		for i := range t.Rows {
			if t.Rows[i].Msg == o.N1 {
				t.Rows[i].Recent = false
			}
		}
		return rUnit(), errNone
	case "ClearRecentAll":
		t := d.tab(o.Box)
		if t == nil {
			return res{}, errOth
		}
		for i := range t.Rows {
			t.Rows[i].Recent = false
		}
		return rUnit(), errNone
	case "AddDeletedSubscription":
		if !d.subsAdd(o.N1, o.N2) {
			return res{}, errOth
		}
		return rUnit(), errNone
	case "RemoveDeletedSubscription":
		n := 0
		var s [][2]int
		for _, p := range d.Subs {
			if p[0] == o.N1 {
				n++
			} else {
				s = append(s, p)
			}
		}
		d.Subs = s
		return rNum(n), errNone
	case "GetDeletedSubscriptions":
		return res{K: "pairs", Ps: append([][2]int{}, d.Subs...)}, errNone
	case "StoreSettings":
		v := o.N1
		d.Settings = &v
		return rUnit(), errNone
	case "GetSettings":
		return res{K: "optnum", Opt: d.Settings}, errNone
	case "AddFlagsToAllMailboxes", "AddPermFlagsToAllMailboxes":
		for _, m := range d.Mboxes {
			for _, f := range o.Flags {
				l := &d.BFlags
				if o.K == "AddPermFlagsToAllMailboxes" {
					l = &d.BPFlags
				}
				has := false
				for _, x := range *l {
					if x.B == m.ID && x.F == f {
						has = true
					}
				}
				if !has {
					*l = append(*l, oBFlag{m.ID, f})
				}
			}
		}
		return rUnit(), errNone
	// ---- reads ----
	case "MailboxExistsID":
		return rBool(d.mboxByID(o.Box) != nil), errNone
	case "MailboxExistsRemote":
		return rBool(d.mboxByRemote(o.N1) != nil), errNone
	case "MailboxExistsName":
		return rBool(d.mboxByName(o.N1) != nil), errNone
	case "GetMailboxByID":
		if m := d.mboxByID(o.Box); m != nil {
			return res{K: "mbox", Mb: *m}, errNone
		}
		return res{}, errNF
	case "GetMailboxByRemote":
		if m := d.mboxByRemote(o.N1); m != nil {
			return res{K: "mbox", Mb: *m}, errNone
		}
		return res{}, errNF
	case "GetMailboxByName":
		if m := d.mboxByName(o.N1); m != nil {
			return res{K: "mbox", Mb: *m}, errNone
		}
		return res{}, errNF
	case "GetMailboxIDFromRemote":
		if m := d.mboxByRemote(o.N1); m != nil {
			return rNum(m.ID), errNone
		}
		return res{}, errNF
	case "GetMailboxName":
		if m := d.mboxByID(o.Box); m != nil {
			return rNum(m.Name), errNone
		}
		return res{}, errNF
	case "GetMailboxNameWithRemoteID":
		if m := d.mboxByRemote(o.N1); m != nil {
			return rNum(m.Name), errNone
		}
		return res{}, errNF
	case "GetMailboxCount":
		return rNum(len(d.Mboxes)), errNone
	case "GetAllMailboxRemoteIDs":
		out := res{K: "nums"}
		for _, m := range d.Mboxes {
			out.Ns = append(out.Ns, m.Remote)
		}
		return out, errNone
	case "GetAllMailboxesNameAndRemoteID":
		out := res{K: "pairs"}
		for _, m := range d.Mboxes {
			out.Ps = append(out.Ps, [2]int{m.Name, m.Remote})
		}
		return out, errNone
	case "GetAllMailboxesWithAttr":
		out := res{K: "mboxattrs"}
		for _, m := range d.Mboxes {
			out.Mbs = append(out.Mbs, m)
			var at []string
			for _, x := range d.BAttrs {
				if x.B == m.ID {
					at = append(at, x.F)
				}
			}
			out.Attrs = append(out.Attrs, at)
		}
		return out, errNone
	case "GetMailboxFlags":
		l := d.BFlags
		if o.N1 == 1 {
			l = d.BPFlags
		} else if o.N1 == 2 {
			l = d.BAttrs
		}
		out := res{K: "flags"}
		for _, x := range l {
			if x.B == o.Box {
				out.Fl = append(out.Fl, x.F)
			}
		}
		return out, errNone
	case "GetMessageCount":
		if t := d.tab(o.Box); t != nil {
			return rNum(len(t.Rows)), errNone
		}
		return res{}, errOth
	case "GetMessageCountWithRemoteID":
		m := d.mboxByRemote(o.N1)
		if m == nil {
			return res{}, errNF
		}
		return rNum(len(d.tab(m.ID).Rows)), errNone
	case "GetRecentCount":
		if t := d.tab(o.Box); t != nil {
			n := 0
			for _, r := range t.Rows {
				if r.Recent {
					n++
				}
			}
			return rNum(n), errNone
		}
		return res{}, errOth
	case "GetMailboxUID":
		if t := d.tab(o.Box); t != nil {
			return rNum(t.Seq + 1), errNone
		}
		return rNum(1), errNone
	case "GetCountAndUID":
		if t := d.tab(o.Box); t != nil {
			return res{K: "countuid", N: len(t.Rows), N2: t.Seq + 1}, errNone
		}
		return res{}, errOth
	case "GetIDPairs":
		if t := d.tab(o.Box); t != nil {
			out := res{K: "pairs"}
			for _, r := range t.Rows {
				out.Ps = append(out.Ps, [2]int{r.Msg, r.Remote})
			}
			return out, errNone
		}
		return res{}, errOth
	case "Snapshot":
		if t := d.tab(o.Box); t != nil {
			out := res{K: "snap"}
			for _, r := range t.Rows {
				out.Snap = append(out.Snap, snapRow{r.UID, r.Msg, r.Remote, r.Deleted, r.Recent, d.flagsOf(r.Msg)})
			}
			return out, errNone
		}
		return res{}, errOth
	case "MessageExists":
		return rBool(d.msg(o.N1) != nil), errNone
	case "MessageExistsRemote":
		return rBool(d.msgByRemote(o.N1) != nil), errNone
	case "TotalMessageCount":
		return rNum(len(d.Msgs)), errNone
	case "GetMessageRemote":
		if m := d.msg(o.N1); m != nil {
			return rNum(m.Remote), errNone
		}
		return res{}, errNF
	case "GetMessageIDFromRemote":
		if m := d.msgByRemote(o.N1); m != nil {
			return rNum(m.ID), errNone
		}
		return res{}, errNF
	case "GetMessageDeleted":
		if m := d.msg(o.N1); m != nil {
			return rBool(m.Deleted), errNone
		}
		return res{}, errNF
	case "GetMessageNoEdges":
		if m := d.msg(o.N1); m != nil {
			return res{K: "msg", N: m.ID, N2: m.Remote, B: m.Deleted}, errNone
		}
		return res{}, errNF
	case "GetMessageDateAndSize":
		if m := d.msg(o.N1); m != nil {
			return res{K: "msgds"}, errNone
		}
		return res{}, errNF
	case "GetImportedMessageData":
		if m := d.msg(o.N1); m != nil {
			return res{K: "msg", N: m.ID, N2: m.Remote, B: m.Deleted, Fl: d.flagsOf(m.ID)}, errNone
		}
		return res{}, errNF
	case "GetMessageMailboxes":
		out := res{K: "nums"}
		for _, p := range d.M2M {
			if p[0] == o.N1 {
				out.Ns = append(out.Ns, p[1])
			}
		}
		return out, errNone
	case "GetMarkedDeleted":
		out := res{K: "nums"}
		for _, m := range d.Msgs {
			if m.Deleted {
				out.Ns = append(out.Ns, m.ID)
			}
		}
		return out, errNone
	case "GetAllMessageIDs":
		out := res{K: "nums"}
		for _, m := range d.Msgs {
			out.Ns = append(out.Ns, m.ID)
		}
		return out, errNone
	}
	panic("oracle: unknown op " + o.K)
}

func (d *oDB) subsDropName(name int) {
	var s [][2]int
	for _, p := range d.Subs {
		if p[0] != name {
			s = append(s, p)
		}
	}
	d.Subs = s
}

func (d *oDB) subsAdd(name, remote int) bool {
	for i := range d.Subs {
		if d.Subs[i][0] == name {
			for _, q := range d.Subs {
				if q[0] != name && q[1] == remote {
					return false
				}
			}
			d.Subs[i][1] = remote
			return true
		}
	}
	for _, q := range d.Subs {
		if q[1] == remote {
			return false
		}
	}
	d.Subs = append(d.Subs, [2]int{name, remote})
	return true
}

// ---- comparison of results (projection: unordered lists as sorted sets, flags lower-cased) ----
func normFlags(l []string) []string {
	m := map[string]bool{}
	for _, f := range l {
		m[strings.ToLower(f)] = true
	}
	r := make([]string, 0, len(m))
	for f := range m {
		r = append(r, f)
	}
	sort.Strings(r)
	return r
}

func sortedInts(l []int) []int { r := append([]int{}, l...); sort.Ints(r); return r }
func sortedPairs(l [][2]int) [][2]int {
	r := append([][2]int{}, l...)
	sort.Slice(r, func(i, j int) bool {
		if r[i][0] != r[j][0] {
			return r[i][0] < r[j][0]
		}
		return r[i][1] < r[j][1]
	})
	return r
}

func (r res) canon() res {
	c := r
	c.Ns = sortedInts(r.Ns)
	c.Ps = sortedPairs(r.Ps)
	c.Fl = normFlags(r.Fl)
	c.Snap = append([]snapRow{}, r.Snap...)
	for i := range c.Snap {
		c.Snap[i].Flags = normFlags(c.Snap[i].Flags)
	}
	sort.Slice(c.Snap, func(i, j int) bool { return c.Snap[i].UID < c.Snap[j].UID })
	c.MF = append([]msgFlags{}, r.MF...)
	for i := range c.MF {
		c.MF[i].Flags = normFlags(c.MF[i].Flags)
	}
	sort.Slice(c.MF, func(i, j int) bool { return c.MF[i].ID < c.MF[j].ID })
	if r.K == "mboxattrs" {
		type ma struct {
			m oMbox
			a []string
		}
		var l []ma
		for i := range r.Mbs {
			l = append(l, ma{r.Mbs[i], normFlags(r.Attrs[i])})
		}
		sort.Slice(l, func(i, j int) bool { return l[i].m.ID < l[j].m.ID })
		c.Mbs, c.Attrs = nil, nil
		for _, x := range l {
			c.Mbs = append(c.Mbs, x.m)
			c.Attrs = append(c.Attrs, x.a)
		}
	}
	return c
}
