(* Well-formedness invariant of Model.MailStore and the "extends" relation between a store and a later store;
   every operation preserves the invariant and extends the store. Basis of the proofs of C04 (and used by C17, C20). *)
From Coq Require Import List ZArith NArith Bool Lia.
From Gluon Require Import Gen.FactsLimits Model.UidValidityGen Model.MailStore Proofs.MailStoreBase.
Import ListNotations.
Open Scope Z_scope.

Definition entry := (N * Z * Z * msg)%type.
Definition e_id (e : entry) : N := fst (fst (fst e)).
Definition e_uidv (e : entry) : Z := snd (fst (fst e)).
Definition e_uid (e : entry) : Z := snd (fst e).
Definition e_msg (e : entry) : msg := snd e.

(* in the order of assignment, the UIDs of one mailbox strictly increase *)
Fixpoint log_incr (l : list entry) : Prop :=
  match l with
  | [] => True
  | e :: t => (forall e', In e' t -> e_id e' = e_id e -> e_uid e < e_uid e') /\ log_incr t
  end.

Record wf3 (l : list mbox) (nid : N) (lg : list entry) : Prop := mkWf {
  wf_nodup : NoDup (map mb_id l);
  wf_ids : forall m, In m l -> (mb_id m < nid)%N;
  wf_seq : forall m, In m l -> 0 <= mb_seq m;
  wf_log : forall e, In e lg -> (e_id e < nid)%N /\ 1 <= e_uid e /\ forall m, In m l -> mb_id m = e_id e -> e_uid e <= mb_seq m;
  wf_incr : log_incr lg;
  wf_rows : forall m r, In m l -> In r (mb_rows m) -> exists v, In (mb_id m, v, fst r, snd r) lg;
  wf_recov : exists m, find_name recov_name l = Some m /\ mb_id m = recov_id
}.
Definition wf (s : store) : Prop := wf3 (s_mboxes s) (s_nextid s) (s_log s).

Definition ext3 (l : list mbox) (nid : N) (lg : list entry) (l' : list mbox) (nid' : N) (lg' : list entry) : Prop :=
  (nid <= nid')%N /\
  (forall m', In m' l' -> (mb_id m' < nid)%N -> exists m, In m l /\ mb_id m = mb_id m' /\ mb_seq m <= mb_seq m') /\
  (exists n, lg' = lg ++ n).
Definition ext (s s' : store) : Prop := ext3 (s_mboxes s) (s_nextid s) (s_log s) (s_mboxes s') (s_nextid s') (s_log s').
Definition good (s s' : store) : Prop := wf s' /\ ext s s'.

Lemma ext_refl : forall s, ext s s.
Proof.
  intro s. split; [lia|]. split.
  - intros m' H _. exists m'. split; [assumption|]. split; [reflexivity | lia].
  - exists []. rewrite app_nil_r. reflexivity.
Qed.
Lemma ext_trans : forall a b c, ext a b -> ext b c -> ext a c.
Proof.
  intros a b c (A1 & A2 & (n1 & A3)) (B1 & B2 & (n2 & B3)). split; [lia|]. split.
  - intros m' H Hid. destruct (B2 m' H) as (m1 & H1 & E1 & S1); [lia|].
    destruct (A2 m1 H1) as (m0 & H0 & E0 & S0); [rewrite E1; assumption|].
    exists m0. split; [assumption|]. split; [congruence | lia].
  - exists (n1 ++ n2). rewrite B3, A3, app_assoc. reflexivity.
Qed.
Lemma good_refl : forall s, wf s -> good s s.
Proof. intros s H. split; [assumption | apply ext_refl]. Qed.
Lemma good_step : forall s x y, good s x -> (wf x -> good x y) -> good s y.
Proof. intros s x y [W E] H. destruct (H W) as [W' E']. split; [assumption | eapply ext_trans; eassumption]. Qed.
Lemma good_mem : forall s x y, good s x -> s_mboxes y = s_mboxes x -> s_nextid y = s_nextid x -> s_log y = s_log x -> good s y.
Proof. intros s x y [W E] A B C. unfold good, wf, ext in *. rewrite A, B, C. split; assumption. Qed.

Lemma log_incr_app : forall a b, log_incr a -> log_incr b ->
  (forall e e', In e a -> In e' b -> e_id e' = e_id e -> e_uid e < e_uid e') -> log_incr (a ++ b).
Proof.
  induction a as [|x a IH]; intros b Ha Hb Hab; cbn [app]; [assumption|].
  cbn [log_incr] in *. destruct Ha as [Hx Ha]. split.
  - intros e' Hin He. apply in_app_or in Hin. destruct Hin as [Hin|Hin]; [apply Hx; assumption|].
    apply Hab; [left; reflexivity | assumption | assumption].
  - apply IH; [assumption | assumption |]. intros e e' H1 H2. apply Hab; [right|]; assumption.
Qed.
Lemma log_incr_functional : forall l e e', log_incr l -> In e l -> In e' l -> e_id e = e_id e' -> e_uid e = e_uid e' -> e = e'.
Proof.
  induction l as [|x t IH]; intros e e' H He He' Hi Hu; [contradiction|].
  cbn [log_incr] in H. destruct H as [Hx Ht].
  destruct He as [<-|He]; destruct He' as [<-|He'].
  - reflexivity.
  - specialize (Hx e' He' (eq_sym Hi)). lia.
  - specialize (Hx e He Hi). lia.
  - apply IH; assumption.
Qed.

Lemma log_of_incr : forall m ms, log_incr (log_of m ms).
Proof.
  intros m ms. unfold log_of. generalize (mb_seq m) as q.
  induction ms as [|x t IH]; intro q; cbn [assign map log_incr]; [exact I|].
  split; [|apply IH].
  intros e' Hin _. apply in_map_iff in Hin. destruct Hin as (r & <- & Hr).
  apply assign_range in Hr. unfold e_uid. cbn [fst snd]. lia.
Qed.
Lemma in_log_of : forall m ms e, In e (log_of m ms) ->
  e_id e = mb_id m /\ mb_seq m < e_uid e <= mb_seq m + zlen ms /\ In (e_uid e, e_msg e) (assign (mb_seq m) ms).
Proof.
  intros m ms e H. unfold log_of in H. apply in_map_iff in H. destruct H as (r & <- & Hr).
  unfold e_id, e_uid, e_msg. cbn [fst snd]. split; [reflexivity|]. split; [apply assign_range; assumption|].
  destruct r; assumption.
Qed.

(* ---------- the primitive updates ---------- *)
Section Prims.
Variable s : store.
Hypothesis W : wf s.

Lemma good_ins : forall i ms, good s (ins_msgs i ms s).
Proof.
  intros i ms. unfold ins_msgs. destruct (find_id i (s_mboxes s)) as [m0|] eqn:F; [|apply good_refl; assumption].
  destruct (find_id_in _ _ _ F) as [Hin0 Hid0]. destruct W as [Wn Wi Ws Wl Wc Wr Wv].
  assert (Hupd : forall m', In m' (upd i (mb_ins ms) (s_mboxes s)) ->
            (In m' (s_mboxes s) /\ mb_id m' <> i) \/ m' = mb_ins ms m0).
  { intros m' H. apply in_upd in H. destruct H as (m & Hm & ->).
    destruct (N.eqb (mb_id m) i) eqn:E.
    - right. apply N.eqb_eq in E. f_equal. apply (nodup_same_id (s_mboxes s)); congruence.
    - left. split; [assumption | apply N.eqb_neq; assumption]. }
  split.
  - unfold wf. cbn [add_log set_mboxes s_mboxes s_nextid s_log]. constructor.
    + rewrite upd_ids by reflexivity. assumption.
    + intros m' H. destruct (Hupd m' H) as [[A _]| ->]; [apply Wi; assumption | cbn [mb_ins mb_id]; apply Wi; assumption].
    + intros m' H. destruct (Hupd m' H) as [[A _]| ->]; [apply Ws; assumption|].
      cbn [mb_ins mb_seq]. pose proof (Ws m0 Hin0). pose proof (zlen_nonneg _ ms). lia.
    + intros e He. apply in_app_or in He. destruct He as [He|He].
      * destruct (Wl e He) as (A & B & C). split; [assumption|]. split; [assumption|].
        intros m' H Hid. destruct (Hupd m' H) as [[A' _]| ->]; [apply C; assumption|].
        cbn [mb_ins mb_id mb_seq] in *. specialize (C m0 Hin0 Hid). pose proof (zlen_nonneg _ ms). lia.
      * destruct (in_log_of _ _ _ He) as (A & B & _). split; [rewrite A; apply Wi; assumption|].
        pose proof (Ws m0 Hin0) as Hs0. split; [lia|].
        intros m' Hm' Hid. destruct (Hupd m' Hm') as [[A' N']| ->]; [exfalso; apply N'; congruence|].
        cbn [mb_ins mb_seq]. lia.
    + apply log_incr_app; [assumption | apply log_of_incr|].
      intros e e' He He' Hid. destruct (in_log_of _ _ _ He') as (A & B & _).
      destruct (Wl e He) as (_ & _ & C). specialize (C m0 Hin0). rewrite <- Hid, A in C. specialize (C eq_refl). lia.
    + intros m' r H Hr. destruct (Hupd m' H) as [[A' _]| ->].
      * destruct (Wr m' r A' Hr) as (v & Hv). exists v. apply in_or_app. left. assumption.
      * cbn [mb_ins mb_rows mb_id] in *. apply in_app_or in Hr. destruct Hr as [Hr|Hr].
        -- destruct (Wr m0 r Hin0 Hr) as (v & Hv). exists v. apply in_or_app. left. assumption.
        -- exists (mb_uidv m0). apply in_or_app. right. unfold log_of. apply in_map_iff. exists r. split; [reflexivity | assumption].
    + destruct Wv as (mr & Fr & Ir). exists (if N.eqb (mb_id mr) i then mb_ins ms mr else mr). split.
      * apply find_name_upd; [reflexivity | assumption].
      * destruct (N.eqb (mb_id mr) i); assumption.
  - unfold ext. cbn [add_log set_mboxes s_mboxes s_nextid s_log]. split; [lia|]. split.
    + intros m' H _. destruct (Hupd m' H) as [[A _]| ->].
      * exists m'. split; [assumption|]. split; [reflexivity | lia].
      * exists m0. split; [assumption|]. split; [reflexivity|]. cbn [mb_ins mb_seq]. pose proof (zlen_nonneg _ ms). lia.
    + eexists. reflexivity.
Qed.

(* mailbox-wise change that keeps id and counter and does not add rows *)
Lemma good_map : forall g,
  (forall m, mb_id (g m) = mb_id m) -> (forall m, mb_seq (g m) = mb_seq m) ->
  (forall m r, In r (mb_rows (g m)) -> In r (mb_rows m)) ->
  (forall m, In m (s_mboxes s) -> path_eqb (mb_name m) recov_name = false -> path_eqb (mb_name (g m)) recov_name = false) ->
  (forall m, In m (s_mboxes s) -> mb_id m = recov_id -> path_eqb (mb_name (g m)) recov_name = path_eqb (mb_name m) recov_name) ->
  good s (set_mboxes (map g (s_mboxes s)) s).
Proof.
  intros g Gi Gs Gr Gn1 Gn2. destruct W as [Wn Wi Ws Wl Wc Wr Wv].
  assert (Hm : forall m', In m' (map g (s_mboxes s)) -> exists m, In m (s_mboxes s) /\ m' = g m).
  { intros m' H. apply in_map_iff in H. destruct H as (m & <- & Hm). exists m. split; [assumption | reflexivity]. }
  split.
  - unfold wf. cbn [set_mboxes s_mboxes s_nextid s_log]. constructor.
    + rewrite map_map. rewrite (map_ext _ mb_id) by apply Gi. assumption.
    + intros m' H. destruct (Hm m' H) as (m & A & ->). rewrite Gi. apply Wi; assumption.
    + intros m' H. destruct (Hm m' H) as (m & A & ->). rewrite Gs. apply Ws; assumption.
    + intros e He. destruct (Wl e He) as (A & B & C). split; [assumption|]. split; [assumption|].
      intros m' H Hid. destruct (Hm m' H) as (m & A' & ->). rewrite Gs. rewrite Gi in Hid. apply C; assumption.
    + assumption.
    + intros m' r H Hr. destruct (Hm m' H) as (m & A' & ->). rewrite Gi. apply Wr; [assumption | apply Gr; assumption].
    + destruct Wv as (mr & Fr & Ir). exists (g mr). split; [|rewrite Gi; assumption].
      destruct (find_name_in _ _ _ Fr) as [Hinr Hnr].
      apply find_name_map_weak; [assumption | assumption |].
      rewrite Gn2 by assumption. rewrite Hnr. apply path_eqb_refl.
  - unfold ext. cbn [set_mboxes s_mboxes s_nextid s_log]. split; [lia|]. split.
    + intros m' H _. destruct (Hm m' H) as (m & A & ->). exists m. split; [assumption|]. rewrite Gi, Gs. split; [reflexivity | lia].
    + exists []. rewrite app_nil_r. reflexivity.
Qed.

Lemma good_upd : forall i f,
  (forall m, mb_id (f m) = mb_id m) -> (forall m, mb_seq (f m) = mb_seq m) ->
  (forall m r, In r (mb_rows (f m)) -> In r (mb_rows m)) ->
  (forall m, path_eqb (mb_name m) recov_name = false -> path_eqb (mb_name (f m)) recov_name = false) ->
  (i = recov_id -> forall m, mb_name (f m) = mb_name m) ->
  good s (set_mboxes (upd i f (s_mboxes s)) s).
Proof.
  intros i f Fi Fs Fr Fn1 Fn2. unfold upd. apply good_map.
  - intro m. destruct (N.eqb (mb_id m) i); [apply Fi | reflexivity].
  - intro m. destruct (N.eqb (mb_id m) i); [apply Fs | reflexivity].
  - intros m r. destruct (N.eqb (mb_id m) i); [apply Fr | trivial].
  - intros m _ H. destruct (N.eqb (mb_id m) i); [apply Fn1 |]; assumption.
  - intros m _ H. destruct (N.eqb (mb_id m) i) eqn:E; [|reflexivity].
    apply N.eqb_eq in E. rewrite Fn2 by congruence. reflexivity.
Qed.
(* f keeps the name *)
Lemma good_upd_np : forall i f,
  (forall m, mb_id (f m) = mb_id m) -> (forall m, mb_seq (f m) = mb_seq m) ->
  (forall m r, In r (mb_rows (f m)) -> In r (mb_rows m)) -> (forall m, mb_name (f m) = mb_name m) ->
  good s (set_mboxes (upd i f (s_mboxes s)) s).
Proof.
  intros i f Fi Fs Fr Fn. apply good_upd; try assumption.
  - intros m H. rewrite Fn. assumption.
  - intros _ m. apply Fn.
Qed.

Lemma good_del_msgs : forall i ids, good s (del_msgs i ids s).
Proof.
  intros i ids. unfold del_msgs. apply good_upd_np; try reflexivity.
  intros m r H. cbn [mb_del mb_rows] in H. apply filter_In in H. destruct H. assumption.
Qed.

Lemma good_add_mbox : forall p v, good s (add_mbox p v s).
Proof.
  intros p v. destruct W as [Wn Wi Ws Wl Wc Wr Wv]. set (nm := mkMbox (s_nextid s) p v 0 []).
  assert (Hin : forall m, In m (s_mboxes s ++ [nm]) -> In m (s_mboxes s) \/ m = nm).
  { intros m H. apply in_app_or in H. destruct H as [H|[H|[]]]; [left; assumption | right; symmetry; assumption]. }
  split.
  - unfold wf. cbn [add_mbox s_mboxes s_nextid s_log]. fold nm. constructor.
    + rewrite map_app. cbn [map]. apply nodup_snoc; [assumption|].
      intro Hx. apply in_map_iff in Hx. destruct Hx as (m & E & Hm). specialize (Wi m Hm). cbn [nm mb_id] in E. lia.
    + intros m H. destruct (Hin m H) as [A| ->]; [specialize (Wi m A); lia | cbn [nm mb_id]; lia].
    + intros m H. destruct (Hin m H) as [A| ->]; [apply Ws; assumption | cbn [nm mb_seq]; lia].
    + intros e He. destruct (Wl e He) as (A & B & C). split; [lia|]. split; [assumption|].
      intros m H Hid. destruct (Hin m H) as [A'| ->]; [apply C; assumption | cbn [nm mb_id] in Hid; lia].
    + assumption.
    + intros m r H Hr. destruct (Hin m H) as [A'| ->]; [apply Wr; assumption | cbn [nm mb_rows] in Hr; contradiction].
    + destruct Wv as (mr & Fr & Ir). exists mr. split; [apply find_name_app; assumption | assumption].
  - unfold ext. cbn [add_mbox s_mboxes s_nextid s_log]. fold nm. split; [lia|]. split.
    + intros m H Hid. destruct (Hin m H) as [A| ->]; [|cbn [nm mb_id] in Hid; lia].
      exists m. split; [assumption|]. split; [reflexivity | lia].
    + exists []. rewrite app_nil_r. reflexivity.
Qed.

Lemma good_del_mbox : forall i, i <> recov_id -> good s (set_mboxes (del i (s_mboxes s)) s).
Proof.
  intros i Hi. destruct W as [Wn Wi Ws Wl Wc Wr Wv]. split.
  - unfold wf. cbn [set_mboxes s_mboxes s_nextid s_log]. constructor.
    + apply del_nodup. assumption.
    + intros m H. apply in_del in H. destruct H. apply Wi; assumption.
    + intros m H. apply in_del in H. destruct H. apply Ws; assumption.
    + intros e He. destruct (Wl e He) as (A & B & C). split; [assumption|]. split; [assumption|].
      intros m H Hid. apply in_del in H. destruct H. apply C; assumption.
    + assumption.
    + intros m r H Hr. apply in_del in H. destruct H. apply Wr; assumption.
    + destruct Wv as (mr & Fr & Ir). exists mr. split; [|assumption]. unfold del. apply find_name_filter; [assumption|].
      apply negb_true_iff. apply N.eqb_neq. congruence.
  - unfold ext. cbn [set_mboxes s_mboxes s_nextid s_log]. split; [lia|]. split.
    + intros m H _. apply in_del in H. destruct H. exists m. split; [assumption|]. split; [reflexivity | lia].
    + exists []. rewrite app_nil_r. reflexivity.
Qed.

Lemma not_recov_id : forall n m, find_name n (s_mboxes s) = Some m -> is_recov n = false -> mb_id m <> recov_id.
Proof.
  intros n m F R E. destruct W as [Wn _ _ _ _ _ (mr & Fr & Ir)].
  destruct (find_name_in _ _ _ F) as [Hin Hn]. destruct (find_name_in _ _ _ Fr) as [Hinr Hnr].
  assert (m = mr) by (apply (nodup_same_id (s_mboxes s)); congruence). subst mr.
  unfold is_recov in R. rewrite <- Hn, Hnr, path_eqb_refl in R. discriminate.
Qed.
Lemma find_id_of_name : forall n m, find_name n (s_mboxes s) = Some m -> find_id (mb_id m) (s_mboxes s) = Some m.
Proof. intros n m F. destruct (find_name_in _ _ _ F). apply find_id_nodup; [apply W | assumption]. Qed.
End Prims.

(* ---------- composite updates ---------- *)
Lemma db_add_some : forall c i ms s s2, db_add c i ms s = Some s2 -> s2 = ins_msgs i ms s.
Proof.
  intros c i ms s s2 H. unfold db_add in H. destruct (find_id i (s_mboxes s)); [|discriminate].
  destruct (room c m (zlen ms)); [inversion H; reflexivity | discriminate].
Qed.
Lemma good_db_add : forall c i ms s s2, wf s -> db_add c i ms s = Some s2 -> good s s2.
Proof. intros c i ms s s2 W H. apply db_add_some in H. subst. apply good_ins. assumption. Qed.

Lemma gen_next_db : forall clock s g s1, gen_next clock s = (g, s1) ->
  s_mboxes s1 = s_mboxes s /\ s_nextid s1 = s_nextid s /\ s_log s1 = s_log s /\ s_hashes s1 = s_hashes s /\ s_nextmsg s1 = s_nextmsg s.
Proof.
  intros clock s g s1 H. unfold gen_next in H.
  destruct (uv_generate (clock (s_tick s)) (s_gen s)); inversion H; subst; cbn; repeat split; reflexivity.
Qed.
Lemma good_gen_next : forall clock s g s1, wf s -> gen_next clock s = (g, s1) -> good s s1.
Proof.
  intros clock s g s1 W H. apply gen_next_db in H. destruct H as (A & B & C & _).
  apply (good_mem s s s1); [apply good_refl; assumption | assumption..].
Qed.

Lemma good_add_all : forall ps v s, wf s -> good s (add_all ps v s).
Proof.
  induction ps as [|p t IH]; intros v s W; unfold add_all; cbn [fold_left]; [apply good_refl; assumption|].
  apply (good_step s (add_mbox p v s)); [apply good_add_mbox; assumption|].
  intro W1. apply (IH v _ W1).
Qed.
Lemma good_add_each : forall clock ps s s', wf s -> add_each clock ps s = Some s' -> good s s'.
Proof.
  induction ps as [|p t IH]; intros s s' W H; cbn [add_each] in H.
  - inversion H; subst. apply good_refl. assumption.
  - destruct (gen_next clock s) as [[v|] s1] eqn:G; [|discriminate].
    apply (good_step s s1); [eapply good_gen_next; eassumption|]. intro W1.
    apply (good_step s1 (add_mbox p v s1)); [apply good_add_mbox; assumption|]. intro W2.
    apply IH; assumption.
Qed.
Lemma good_set_uidv : forall s i v, wf s -> good s (set_mboxes (upd i (mb_set_uidv v) (s_mboxes s)) s).
Proof. intros s i v W. apply good_upd_np; try assumption; try reflexivity. intros m r H. assumption. Qed.
Lemma good_bump_all : forall clock ids s s', wf s -> bump_all clock ids s = Some s' -> good s s'.
Proof.
  induction ids as [|i t IH]; intros s s' W H; cbn [bump_all] in H.
  - inversion H; subst. apply good_refl. assumption.
  - destruct (gen_next clock s) as [[v|] s1] eqn:G; [|discriminate].
    apply (good_step s s1); [eapply good_gen_next; eassumption|]. intro W1.
    apply (good_step s1 (set_mboxes (upd i (mb_set_uidv v) (s_mboxes s1)) s1)); [apply good_set_uidv; assumption|]. intro W2.
    apply IH; assumption.
Qed.
Lemma good_add_per_mbox : forall c ps bm s s' b, wf s -> add_per_mbox c ps bm s = Some (s', b) -> good s s'.
Proof.
  induction ps as [|p t IH]; intros bm s s' b W H; cbn [add_per_mbox] in H.
  - inversion H; subst. apply good_refl. assumption.
  - destruct (find_name p (s_mboxes s)) as [m|]; [|inversion H; subst; apply good_refl; assumption].
    destruct (db_add c (mb_id m) (for_mbox p bm) s) as [s1|] eqn:D; [|discriminate].
    apply (good_step s s1); [eapply good_db_add; eassumption|]. intro W1. eapply IH; eassumption.
Qed.

(* ---------- the operations ---------- *)
Section Ops.
Variable hash : N -> option N.
Variable fx : codefacts.
Variable c : cfg.
Variable clock : nat -> Z.

Lemma good_bump_msg : forall s k, wf s -> good s (bump_msg k s).
Proof. intros s k W. apply (good_mem s s); [apply good_refl; assumption | reflexivity..]. Qed.
Lemma good_set_hashes : forall s h, wf s -> good s (set_hashes h s).
Proof. intros s h W. apply (good_mem s s); [apply good_refl; assumption | reflexivity..]. Qed.
Lemma good_erase : forall s ids, wf s -> good s (erase_hashes ids s).
Proof. intros. unfold erase_hashes. apply good_set_hashes. assumption. Qed.
Lemma good_keep_mem : forall s x, wf s -> good s (keep_mem x s).
Proof. intros s x W. apply (good_mem s s); [apply good_refl; assumption | reflexivity..]. Qed.

Lemma good_recover : forall s lit, wf s -> good s (fst (recover hash fx s lit)).
Proof.
  intros s lit W. unfold recover. destruct (lit_known hash fx lit s); cbn [fst]; [apply good_refl; assumption|].
  eapply good_step; [apply good_bump_msg; assumption|]. intro W1.
  eapply good_step; [apply good_set_hashes; assumption|]. intro W2.
  apply good_ins. assumption.
Qed.
Lemma good_recover_res : forall s lit, wf s -> good s (fst (recover_res hash fx s lit)).
Proof.
  intros s lit W. unfold recover_res. pose proof (good_recover s lit W) as H.
  destruct (recover hash fx s lit) as [s' k]. cbn [fst] in *. assumption.
Qed.
Lemma good_limit_refuse : forall s lit, wf s -> good s (fst (limit_refuse hash fx s lit)).
Proof.
  intros s lit W. unfold limit_refuse. destruct (cf_limit_norecover fx); cbn [fst]; [apply good_refl; assumption|].
  apply good_recover. assumption.
Qed.
Lemma good_append_write : forall s i lit r, wf s -> good s (fst (append_write hash fx c s i lit r)).
Proof.
  intros s i lit r W. unfold append_write. destruct (find_id i (s_mboxes s)) as [m|]; [|apply good_recover_res; assumption].
  destruct (cf_recheck fx && negb (room c m 1)); [apply good_limit_refuse; assumption|].
  destruct r; cbn [fst].
  - eapply good_step; [apply good_bump_msg; assumption|]. intro W1. apply good_ins. assumption.
  - apply good_recover_res. assumption.
  - apply good_refl. assumption.
Qed.
Lemma good_append : forall s n lit r, wf s -> good s (fst (op_append hash fx c s n lit r)).
Proof.
  intros s n lit r W. unfold op_append. destruct (is_recov n); [apply good_refl; assumption|].
  destruct (find_name n (s_mboxes s)) as [m|]; [|apply good_refl; assumption].
  destruct (append_check c m); [apply good_append_write | apply good_limit_refuse]; assumption.
Qed.

Lemma good_add_messages : forall s d sel lab, wf s -> good s (fst (add_messages c s d sel lab)).
Proof.
  intros s d sel lab W. unfold add_messages. destruct (negb lab); cbn [fst]; [apply good_refl; assumption|].
  match goal with |- context[db_add c ?i ?ms ?x] => destruct (db_add c i ms x) as [s2|] eqn:D end; cbn [fst];
    [|apply good_refl; assumption].
  eapply good_step; [apply good_del_msgs; assumption|]. intro W1. eapply good_db_add; eassumption.
Qed.

Ltac peel :=
  lazymatch goal with
  | |- good ?s ?s => apply good_refl; assumption
  | |- good ?s (keep_mem ?x ?s) => apply good_keep_mem; assumption
  | |- good ?s (erase_hashes ?ids ?x) => apply (good_step s x); [peel | intro; apply good_erase; assumption]
  | |- good ?s (set_hashes ?h ?x) => apply (good_step s x); [peel | intro; apply good_set_hashes; assumption]
  | |- good ?s (del_msgs ?i ?ids ?x) => apply (good_step s x); [peel | intro; apply good_del_msgs; assumption]
  | |- good ?s (bump_msg ?k ?x) => apply (good_step s x); [peel | intro; apply good_bump_msg; assumption]
  | |- good ?s (ins_msgs ?i ?ms ?x) => apply (good_step s x); [peel | intro; apply good_ins; assumption]
  | |- good ?s (add_mbox ?p ?v ?x) => apply (good_step s x); [peel | intro; apply good_add_mbox; assumption]
  end.

Lemma good_out_of_recovery : forall s d sel mv cr lab, wf s -> good s (fst (out_of_recovery fx c s d sel mv cr lab)).
Proof.
  intros s d sel mv cr lab W. unfold out_of_recovery. destruct (negb cr); cbn [fst]; [apply good_refl; assumption|].
  cbv zeta. destruct (negb lab); cbn [fst]; [apply good_keep_mem; assumption|].
  match goal with |- context[db_add c ?i ?ms ?x] =>
    assert (G1e : good s x); [| destruct (db_add c i ms x) as [s2|] eqn:D; cbn [fst]; [|apply good_keep_mem; assumption]] end.
  - destruct mv, (cf_erase_late fx); cbn [andb negb]; peel.
  - assert (G2 : good s s2) by (eapply good_step; [exact G1e|]; intro; eapply good_db_add; eassumption).
    destruct (mv && cf_erase_late fx); [|assumption]. eapply good_step; [exact G2|]. intro. apply good_erase. assumption.
Qed.

Lemma good_copy : forall s a u b cr lab, wf s -> good s (fst (op_copy fx c s a u b cr lab)).
Proof.
  intros s a u b cr lab W. unfold op_copy. destruct (is_recov b); [apply good_refl; assumption|].
  destruct (find_name b (s_mboxes s)) as [d|]; [|apply good_refl; assumption].
  destruct (find_name a (s_mboxes s)) as [m|]; [|apply good_refl; assumption].
  destruct (N.eqb (mb_id m) recov_id); [apply good_out_of_recovery | apply good_add_messages]; assumption.
Qed.

Lemma good_move : forall s a u b cr lab, wf s -> good s (fst (op_move fx c s a u b cr lab)).
Proof.
  intros s a u b cr lab W. unfold op_move. destruct (is_recov b); [apply good_refl; assumption|].
  destruct (find_name b (s_mboxes s)) as [d|]; [|apply good_refl; assumption].
  destruct (find_name a (s_mboxes s)) as [m|]; [|apply good_refl; assumption].
  destruct (N.eqb (mb_id m) recov_id); [apply good_out_of_recovery; assumption|].
  destruct (N.eqb (mb_id m) (mb_id d)).
  - destruct (negb lab); cbn [fst]; [apply good_refl; assumption|].
    match goal with |- context[db_add c ?i ?ms ?x] => destruct (db_add c i ms x) as [s2|] eqn:D end; cbn [fst];
      [|apply good_refl; assumption].
    eapply good_step; [apply good_del_msgs; assumption|]. intro W1. eapply good_db_add; eassumption.
  - destruct (negb lab); cbn [fst]; [apply good_refl; assumption|].
    match goal with |- context[find_id ?i ?l] => destruct (find_id i l) as [d1|] end; cbn [fst]; [|apply good_refl; assumption].
    match goal with |- context[room c d1 ?k] => destruct (room c d1 k) end; cbn [fst]; [|apply good_refl; assumption].
    eapply good_step; [apply good_del_msgs; assumption|]. intro W1.
    eapply good_step; [apply good_del_msgs; assumption|]. intro W2. apply good_ins. assumption.
Qed.

Lemma good_expunge : forall s n u r, wf s -> good s (fst (op_expunge s n u r)).
Proof.
  intros s n u r W. unfold op_expunge. destruct (find_name n (s_mboxes s)) as [m|]; [|apply good_refl; assumption].
  cbv zeta. match goal with |- context[map ?f (selection m u)] => destruct (map f (selection m u)) end; cbn [fst]; [apply good_refl; assumption|].
  destruct (N.eqb (mb_id m) recov_id); cbn [fst].
  - eapply good_step; [apply good_erase; assumption|]. intro. apply good_del_msgs. assumption.
  - destruct (negb r); cbn [fst]; [apply good_refl; assumption | apply good_del_msgs; assumption].
Qed.

Lemma good_create : forall s n r, wf s -> good s (fst (op_create fx c clock s n r)).
Proof.
  intros s n r W. unfold op_create. destruct (cf_create_gen_in_tx fx && bad_create_name n); [apply good_refl; assumption|].
  destruct (gen_next clock s) as [g s1] eqn:G.
  assert (G1 : good s s1) by (eapply good_gen_next; eassumption).
  destruct g as [v|]; [|assumption].
  repeat match goal with |- good _ (fst (if ?b then _ else _)) => destruct b; cbn [fst]; [assumption|] end.
  eapply good_step; [exact G1|]. intro W1. apply good_add_all. assumption.
Qed.

Lemma good_delete : forall s n r, wf s -> good s (fst (op_delete s n r)).
Proof.
  intros s n r W. unfold op_delete. destruct (is_recov n || is_inbox n) eqn:E; [apply good_refl; assumption|].
  apply orb_false_iff in E. destruct E as [E _].
  destruct (find_name n (s_mboxes s)) as [m|] eqn:F; [|apply good_refl; assumption].
  destruct r; cbn [fst]; [|apply good_refl; assumption].
  apply good_del_mbox; [assumption|]. apply (not_recov_id s W n m F E).
Qed.

Lemma strip_prefix_some : forall a b r, strip_prefix a b = Some r -> b = a ++ r.
Proof.
  induction a as [|x a IH]; intros b r H; cbn [strip_prefix] in H; [inversion H; reflexivity|].
  destruct b as [|y b]; [discriminate|]. destruct (N.eqb x y) eqn:E; [|discriminate].
  apply N.eqb_eq in E. subst. cbn [app]. f_equal. apply IH. assumption.
Qed.
Lemma rename_one_recov : forall old new m, new <> [] ->
  path_eqb (mb_name (rename_one old new m)) recov_name = path_eqb (mb_name m) recov_name.
Proof.
  intros old new m Hn. unfold rename_one. destruct old as [|o old']; [reflexivity|].
  destruct (strip_prefix (o :: old') (mb_name m)) as [[|x r]|] eqn:S; try reflexivity.
  apply strip_prefix_some in S. rewrite S. cbn [mb_set_name mb_name].
  transitivity false; [|symmetry].
  - apply path_eqb_neq. destruct new as [|a [|b new']]; [congruence | discriminate | discriminate].
  - apply path_eqb_neq. cbn [app]. destruct old'; discriminate.
Qed.

Lemma good_rename : forall s a b r, wf s -> good s (fst (op_rename fx c clock s a b r)).
Proof.
  intros s a b r W. unfold op_rename.
  destruct (is_recov a || is_recov b || match b with [] => true | _ => false end) eqn:E; [apply good_refl; assumption|].
  apply orb_false_iff in E. destruct E as [E Eb]. apply orb_false_iff in E. destruct E as [Ea Eb'].
  destruct (find_name a (s_mboxes s)) as [m|] eqn:F; [|apply good_refl; assumption].
  match goal with |- good _ (fst (if ?x then _ else _)) => destruct x; [apply good_refl; assumption|] end.
  match goal with |- good _ (fst (if ?x then _ else _)) => destruct x; [apply good_refl; assumption|] end.
  destruct (negb r); [apply good_refl; assumption|].
  match goal with |- context[add_each clock ?ps s] => destruct (add_each clock ps s) as [s1|] eqn:A end; [|apply good_refl; assumption].
  assert (G1 : good s s1) by (eapply good_add_each; eassumption).
  destruct (is_inbox a).
  - destruct (gen_next clock s1) as [[v|] s2] eqn:G; [|apply good_keep_mem; assumption].
    match goal with |- context[db_add c ?i ?ms ?x] => destruct (db_add c i ms x) as [s4|] eqn:D end; cbn [fst];
      [|apply good_keep_mem; assumption].
    eapply good_step; [exact G1|]. intro W1.
    eapply good_step; [eapply good_gen_next; eassumption|]. intro W2.
    eapply good_step; [apply good_add_mbox; assumption|]. intro W3.
    eapply good_step; [apply good_del_msgs; assumption|]. intro W4. eapply good_db_add; eassumption.
  - cbv zeta. match goal with |- good _ (fst (if ?x then _ else _)) => destruct x end; cbn [fst]; [|apply good_keep_mem; assumption].
    eapply good_step; [exact G1|]. intro W1.
    assert (Hm : In m (s_mboxes s) /\ mb_name m = a) by (apply find_name_in; assumption).
    assert (Hid : mb_id m <> recov_id) by (apply (not_recov_id s W a m F Ea)).
    apply (good_step s1 (set_mboxes (upd (mb_id m) (mb_set_name b) (s_mboxes s1)) s1)).
    + apply good_upd; try assumption; try reflexivity; [intros ? ? H; assumption | | intro; contradiction].
      intros x _. cbn [mb_set_name mb_name]. apply path_eqb_neq. intro. subst b.
      unfold is_recov in Eb'. rewrite path_eqb_refl in Eb'. discriminate.
    + intro W2. unfold rename_inferiors.
      replace (set_mboxes (map (rename_one a b) (upd (mb_id m) (mb_set_name b) (s_mboxes s1))) s1)
        with (set_mboxes (map (rename_one a b) (s_mboxes (set_mboxes (upd (mb_id m) (mb_set_name b) (s_mboxes s1)) s1)))
                         (set_mboxes (upd (mb_id m) (mb_set_name b) (s_mboxes s1)) s1)) by reflexivity.
      apply good_map; try assumption.
      * intro x. unfold rename_one. destruct a; [reflexivity|]. destruct (strip_prefix _ _) as [[|? ?]|]; reflexivity.
      * intro x. unfold rename_one. destruct a; [reflexivity|]. destruct (strip_prefix _ _) as [[|? ?]|]; reflexivity.
      * intros x r0. unfold rename_one. destruct a; [trivial|]. destruct (strip_prefix _ _) as [[|? ?]|]; trivial.
      * intros x _ H. rewrite rename_one_recov; [assumption | destruct b; [discriminate | discriminate]].
      * intros x _ _. apply rename_one_recov. destruct b; [discriminate | discriminate].
Qed.

Lemma good_conn_create : forall s n, wf s -> good s (fst (op_conn_create c clock s n)).
Proof.
  intros s n W. unfold op_conn_create. destruct (gen_next clock s) as [g s1] eqn:G.
  assert (G1 : good s s1) by (eapply good_gen_next; eassumption).
  destruct g as [v|]; [|assumption].
  repeat match goal with |- good _ (fst (if ?b then _ else _)) => destruct b; cbn [fst]; [assumption|] end.
  eapply good_step; [exact G1|]. intro W1. apply good_add_mbox. assumption.
Qed.
Lemma good_conn_msgs : forall s b, wf s -> good s (fst (op_conn_msgs c s b)).
Proof.
  intros s b W. unfold op_conn_msgs. cbv zeta.
  match goal with |- context[add_per_mbox c ?ps ?bm ?x] => destruct (add_per_mbox c ps bm x) as [[s1 [|]]|] eqn:A end; cbn [fst];
    try (apply good_refl; assumption).
  eapply good_step; [apply good_bump_msg; assumption|]. intro W1. eapply good_add_per_mbox; eassumption.
Qed.
Lemma good_conn_bump : forall s, wf s -> good s (fst (op_conn_bump clock s)).
Proof.
  intros s W. unfold op_conn_bump. destruct (bump_all clock (map mb_id (s_mboxes s)) s) as [s1|] eqn:B; cbn [fst];
    [eapply good_bump_all; eassumption | apply good_refl; assumption].
Qed.
Lemma good_restart : forall s, wf s -> good s (fst (op_restart hash fx clock s)).
Proof.
  intros s W. unfold op_restart. cbv zeta. cbn [fst].
  match goal with |- context[gen_next clock ?x] => destruct (gen_next clock x) as [g s1] eqn:G end.
  apply gen_next_db in G. destruct G as (A & B & C & _). cbn [snd].
  apply (good_mem s s); [apply good_refl; assumption | cbn; rewrite A; reflexivity | cbn; rewrite B; reflexivity | cbn; rewrite C; reflexivity].
Qed.

Theorem good_step_op : forall s o, wf s -> good s (fst (step hash fx c clock s o)).
Proof.
  intros s o W. destruct o; cbn [step].
  - apply good_create; assumption.
  - apply good_delete; assumption.
  - apply good_rename; assumption.
  - apply good_append; assumption.
  - apply good_copy; assumption.
  - apply good_move; assumption.
  - apply good_expunge; assumption.
  - apply good_conn_create; assumption.
  - apply good_conn_msgs; assumption.
  - apply good_conn_bump; assumption.
  - apply good_restart; assumption.
Qed.
Theorem good_run : forall h s, wf s -> good s (run hash fx c clock s h).
Proof.
  induction h as [|o t IH]; intros s W; cbn [run]; [apply good_refl; assumption|].
  eapply good_step; [apply good_step_op; assumption|]. intro W1. apply IH. assumption.
Qed.
End Ops.

Ltac peel :=
  lazymatch goal with
  | |- good ?s ?s => apply good_refl; assumption
  | |- good ?s (keep_mem ?x ?s) => apply good_keep_mem; assumption
  | |- good ?s (erase_hashes ?ids ?x) => apply (good_step s x); [peel | intro; apply good_erase; assumption]
  | |- good ?s (set_hashes ?h ?x) => apply (good_step s x); [peel | intro; apply good_set_hashes; assumption]
  | |- good ?s (del_msgs ?i ?ids ?x) => apply (good_step s x); [peel | intro; apply good_del_msgs; assumption]
  | |- good ?s (bump_msg ?k ?x) => apply (good_step s x); [peel | intro; apply good_bump_msg; assumption]
  | |- good ?s (ins_msgs ?i ?ms ?x) => apply (good_step s x); [peel | intro; apply good_ins; assumption]
  | |- good ?s (add_mbox ?p ?v ?x) => apply (good_step s x); [peel | intro; apply good_add_mbox; assumption]
  end.



Lemma wf_init : forall v0, wf (init_store v0).
Proof.
  intro v0. unfold wf, init_store. cbn [s_mboxes s_nextid s_log]. constructor.
  - cbn. constructor; [intros []|constructor].
  - intros m [<-|[]]. cbn. unfold recov_id. lia.
  - intros m [<-|[]]. cbn. lia.
  - intros e [].
  - exact I.
  - intros m r [<-|[]] [].
  - eexists. split; [reflexivity|reflexivity].
Qed.
