(* C12/C13 — the boundary scanner never crashes or runs out of fuel, every part it reports lies inside the data;
   the section tree is nested (part inside parent inside literal), header ++ body = section; Part() selects
   sub-slices. *)
From Coq Require Import List NArith Bool Arith Lia.
From Gluon Require Import Base.DecBytes Model.Rfc822Split Model.Rfc822Header Model.Rfc822Sections
  Proofs.Rfc822HeaderProofs.
Import ListNotations.

(* ---------- bytes.Index ---------- *)
Lemma is_prefix_length : forall p s, is_prefix p s = true -> length p <= length s.
Proof.
  induction p as [|x p IH]; intros s H; cbn [length]; [lia|].
  destruct s as [|y s]; [discriminate|]. cbn [is_prefix] in H. apply andb_true_iff in H as [_ H].
  apply IH in H. cbn [length]. lia.
Qed.

Lemma index_of_bound : forall p s i, index_of p s = Some i -> i + length p <= length s.
Proof.
  intros p. induction s as [|y s IH]; intros i H.
  - cbn [index_of] in H. destruct (is_prefix p []) eqn:E; [|discriminate]. inversion H; subst.
    apply is_prefix_length in E. lia.
  - cbn [index_of] in H. destruct (is_prefix p (y :: s)) eqn:E.
    + inversion H; subst. apply is_prefix_length in E. lia.
    + destruct (index_of p s) as [j|] eqn:Ej; [|discriminate]. inversion H; subst.
      specialize (IH j eq_refl). cbn [length]. lia.
Qed.

Lemma prev_linebreak_bound : forall data progress offset prev,
  progress <= offset -> prev_linebreak data progress offset = Some prev -> prev <= offset - progress.
Proof.
  intros data progress offset prev Hle H. unfold prev_linebreak in H.
  destruct (Nat.eqb_spec progress offset); [inversion H; lia|].
  destruct (N.eqb (nth (offset - 1) data 0%N) LF); [|discriminate].
  destruct (Nat.leb_spec 2 (offset - progress)); cbn [andb] in H.
  - destruct (N.eqb (nth (offset - 2) data 0%N) CR); inversion H; lia.
  - inversion H. lia.
Qed.

(* ---------- readToBoundary ---------- *)
Definition rtb_ok (data : bytes) (start progress : nat) (r : rtb) : Prop :=
  match r with
  | RFuel | RCrash => False
  | RNil p => progress <= p /\ length data <= p
  | RData a b more p => start <= a /\ a <= b /\ b <= length data /\ progress < p
  end.

Lemma rtb_loop_ok : forall fuel data sb start progress,
  2 <= length sb -> start <= progress -> length data - progress < fuel ->
  rtb_ok data start progress (rtb_loop fuel data sb start progress).
Proof.
  induction fuel as [|f IH]; intros data sb start progress Hsb Hst Hf; [lia|].
  cbn [rtb_loop].
  destruct (Nat.leb_spec (length data) progress) as [Hge|Hlt]; [cbn; lia|].
  destruct (index_of sb (skipn progress data)) as [index|] eqn:Ei; [|cbn; lia].
  apply index_of_bound in Ei. rewrite skipn_length in Ei.
  assert (Hcont : forall k, 2 <= k -> progress + index + k <= length data + k ->
            rtb_ok data start progress (rtb_loop f data sb start (progress + index + k))).
  { intros k Hk _. specialize (IH data sb start (progress + index + k) Hsb ltac:(lia) ltac:(lia)).
    destruct (rtb_loop f data sb start (progress + index + k)); cbn in *; lia. }
  destruct (prev_linebreak data progress (progress + index)) as [prev|] eqn:Ep.
  - apply prev_linebreak_bound in Ep; [|lia].
    assert (Hc : (start <=? progress + index - prev) && (progress + index - prev <=? length data) = true).
    { apply andb_true_iff. split; apply Nat.leb_le; lia. }
    rewrite Hc.
    destruct ((progress + index + length sb + 2 <=? length data) &&
              bytes_eqb (slice (skipn progress data) (index + length sb) (index + length sb + 2)) [dash; dash]).
    + destruct (skipn (index + length sb + 2) (skipn progress data)) as [|c after'].
      * cbn. lia.
      * destruct (newline_after (c :: after')) as [nl|].
        -- cbn. lia.
        -- replace (progress + index + length sb + 2) with (progress + index + (length sb + 2)) by lia.
           apply Hcont; lia.
    + destruct (newline_after (skipn (index + length sb) (skipn progress data))) as [nl|].
      * cbn. lia.
      * apply (Hcont (length sb)); lia.
  - apply (Hcont (length sb)); lia.
Qed.

Lemma read_to_boundary_ok : forall data sb progress, 2 <= length sb ->
  rtb_ok data progress progress (read_to_boundary data sb progress).
Proof. intros. unfold read_to_boundary. apply rtb_loop_ok; auto; lia. Qed.

(* ---------- ScanAll ---------- *)
Definition parts_ok (data : bytes) (lo : nat) (parts : list (nat * nat)) : Prop :=
  Forall (fun p => lo <= fst p /\ fst p + snd p <= length data) parts.

Lemma scan_all_loop_ok : forall fuel data sb progress, 2 <= length sb ->
  S (length data) - progress < fuel ->
  match scan_all_loop fuel data sb progress with
  | SParts parts => parts_ok data progress parts
  | _ => False
  end.
Proof.
  induction fuel as [|f IH]; intros data sb progress Hsb Hf; [lia|].
  cbn [scan_all_loop]. pose proof (read_to_boundary_ok data sb progress Hsb) as Hr.
  destruct (read_to_boundary data sb progress) as [p|a b more p| |]; cbn [rtb_ok] in Hr; try contradiction.
  - constructor.
  - destruct Hr as (H1 & H2 & H3 & H4).
    assert (Hpart : progress <= fst (progress, b - a) /\ fst (progress, b - a) + snd (progress, b - a) <= length data)
      by (cbn [fst snd]; lia).
    destruct more.
    + assert (Hlt : progress <= length data) by lia.
      specialize (IH data sb p Hsb ltac:(lia)).
      destruct (scan_all_loop f data sb p) as [l| |]; try contradiction.
      constructor; [exact Hpart|]. unfold parts_ok in *. eapply Forall_impl; [|exact IH].
      intros [o n] [A B]. cbn [fst snd] in *. lia.
    + constructor; [exact Hpart|constructor].
Qed.

(* every part reported by the scanner lies inside the data, strictly behind its start *)
Lemma scan_parts_ok : forall data boundary,
  match scan_parts data boundary with
  | SParts parts => parts_ok data 1 parts
  | _ => False
  end.
Proof.
  intros data boundary.
  destruct data as [|d0 data'].
  { cbn. constructor. }
  set (data := d0 :: data') in *. assert (Hne : 1 <= length data) by (cbn [length data]; lia).
  unfold scan_parts.
  assert (Hsb : 2 <= length (dash :: dash :: boundary)) by (cbn [length]; lia).
  pose proof (read_to_boundary_ok data (dash :: dash :: boundary) 0 Hsb) as Hr.
  destruct (read_to_boundary data (dash :: dash :: boundary) 0) as [p|a b more p| |] eqn:E; cbn [rtb_ok] in Hr; try contradiction.
  - destruct Hr as [_ Hp].
    pose proof (scan_all_loop_ok (S (length data)) data (dash :: dash :: boundary) p Hsb ltac:(lia)) as Hs.
    destruct (scan_all_loop (S (length data)) data (dash :: dash :: boundary) p); try contradiction.
    unfold parts_ok in *. eapply Forall_impl; [|exact Hs]. intros [o n] [A B]. cbn [fst snd] in *. lia.
  - destruct Hr as (_ & _ & _ & Hp).
    pose proof (scan_all_loop_ok (S (length data)) data (dash :: dash :: boundary) p Hsb ltac:(lia)) as Hs.
    destruct (scan_all_loop (S (length data)) data (dash :: dash :: boundary) p); try contradiction.
    unfold parts_ok in *. eapply Forall_impl; [|exact Hs]. intros [o n] [A B]. cbn [fst snd] in *. lia.
Qed.

(* ---------- sections ---------- *)
Definition sect_ok (len : nat) (s : sect) : Prop := s_h s <= s_b s /\ s_b s <= s_e s /\ s_e s <= len.

Lemma parse_sect_ok : forall lit b e, b <= e -> e <= length lit ->
  s_h (parse_sect lit b e) = b /\ s_e (parse_sect lit b e) = e /\ sect_ok (length lit) (parse_sect lit b e).
Proof.
  intros lit b e Hbe He. unfold parse_sect.
  assert (Hl : length (split_header (slice lit b e)) <= e - b).
  { rewrite split_header_length. pose proof (split_idx_le (slice lit b e) true) as H.
    rewrite slice_length in H by lia. exact H. }
  destruct (new_header (split_header (slice lit b e))); cbn [s_h s_b s_e]; unfold sect_ok; cbn [s_h s_b s_e];
    repeat split; lia.
Qed.

Lemma sect_header_plus_body : forall lit s, sect_ok (length lit) s ->
  sect_header lit s ++ sect_body lit s = sect_literal lit s.
Proof.
  intros lit s (H1 & H2 & H3). unfold sect_header, sect_body, sect_literal. apply slice_split; lia.
Qed.

Lemma sect_body_length : forall lit s, sect_ok (length lit) s -> length (sect_body lit s) = s_e s - s_b s.
Proof. intros lit s (H1 & H2 & H3). unfold sect_body. apply slice_length; lia. Qed.

Lemma sect_header_length : forall lit s, sect_ok (length lit) s -> length (sect_header lit s) = s_b s - s_h s.
Proof. intros lit s (H1 & H2 & H3). unfold sect_header. apply slice_length; lia. Qed.

(* a tree whose root lies in [lo, hi] and whose children lie in the body of their parent *)
Inductive tree_ok (len lo hi : nat) : stree -> Prop :=
| tree_ok_node : forall s cc,
    sect_ok len s -> lo <= s_h s -> s_e s <= hi ->
    Forall (tree_ok len (s_b s) (s_e s)) cc ->
    tree_ok len lo hi (SNode s cc).

Lemma tree_ok_weaken : forall len lo hi lo' hi' t, lo' <= lo -> hi <= hi' -> tree_ok len lo hi t -> tree_ok len lo' hi' t.
Proof. intros len lo hi lo' hi' t H1 H2 H. inversion H; subst. constructor; auto; lia. Qed.

Lemma build_children_ok : forall rec lit body hi parts l,
  (forall c cc, sect_ok (length lit) c -> rec c = TOk cc -> Forall (tree_ok (length lit) (s_b c) (s_e c)) cc) ->
  Forall (fun p => fst p + snd p <= hi - body) parts -> body <= hi -> hi <= length lit ->
  build_children rec lit body parts = TOk l ->
  Forall (tree_ok (length lit) body hi) l.
Proof.
  intros rec lit body hi parts. induction parts as [|[off n] ps IH]; intros l Hrec HF Hb Hh H.
  - cbn in H. inversion H. constructor.
  - cbn [build_children] in H. fold (build_children rec lit body) in H.
    inversion HF as [|? ? Hp Hps]; subst. cbn [fst snd] in Hp.
    destruct (parse_sect_ok lit (body + off) (body + off + n) ltac:(lia) ltac:(lia)) as (P1 & P2 & P3).
    set (c := parse_sect lit (body + off) (body + off + n)) in *.
    destruct (rec c) as [cc| |] eqn:Ec; destruct (build_children rec lit body ps) as [rest| |] eqn:Er; try discriminate.
    inversion H; subst. constructor.
    + constructor; try lia; auto.
    + apply IH; auto.
Qed.

Section WithCType.
  Variable ctype_of : bytes -> ctype.

  Lemma children_nested : forall fuel lit s cc, sect_ok (length lit) s ->
    children_of ctype_of fuel lit s = TOk cc ->
    Forall (tree_ok (length lit) (s_b s) (s_e s)) cc.
  Proof.
    induction fuel as [|f IH]; intros lit s cc Hs H; [discriminate|].
    cbn [children_of] in H.
    destruct (ctype_of (sect_header lit s)) as [| |boundary].
    - inversion H. constructor.
    - destruct Hs as (H1 & H2 & H3).
      destruct (parse_sect_ok lit (s_b s) (s_e s) H2 H3) as (P1 & P2 & P3).
      specialize (IH lit _ cc P3 H).
      eapply Forall_impl; [|exact IH]. intros t Ht.
      eapply tree_ok_weaken; [| |exact Ht].
      + destruct P3 as (Q1 & _). lia.
      + lia.
    - pose proof (scan_parts_ok (sect_body lit s) boundary) as Hp.
      destruct (scan_parts (sect_body lit s) boundary) as [parts| |]; try contradiction.
      pose proof Hs as (H1 & H2 & H3).
      eapply build_children_ok; [intros c cc' Hc Hr; eapply IH; eauto| |exact H2|exact H3|exact H].
      unfold parts_ok in Hp.
      eapply Forall_impl; [|exact Hp]. intros [o n] [A B]. cbn [fst snd] in *.
      rewrite sect_body_length in B by exact Hs. lia.
  Qed.

  (* every part lies inside its parent and inside the message *)
  Theorem sections_nested : forall lit t, section_tree ctype_of lit = TOk [t] ->
    tree_ok (length lit) 0 (length lit) t.
  Proof.
    intros lit t H. unfold section_tree in H.
    destruct (children_of ctype_of (S (length lit)) lit (root_sect lit)) as [cc| |] eqn:E; try discriminate.
    inversion H; subst. unfold root_sect in *.
    destruct (parse_sect_ok lit 0 (length lit) (Nat.le_0_l _) (le_n _)) as (P1 & P2 & P3).
    constructor; auto; try lia. eapply children_nested; eauto.
  Qed.

  (* ---------- totality: needs that an empty Content-Type is not message/rfc822 (it defaults to text/plain) ---------- *)
  Hypothesis ctype_empty : ctype_of [] <> CtMessage.

  Lemma build_children_total : forall rec lit body parts,
    (forall p, In p parts -> exists cc, rec (parse_sect lit (body + fst p) (body + fst p + snd p)) = TOk cc) ->
    exists l, build_children rec lit body parts = TOk l.
  Proof.
    intros rec lit body parts. induction parts as [|[off n] ps IH]; intros H.
    - eexists. reflexivity.
    - cbn [build_children]. fold (build_children rec lit body).
      destruct (H (off, n) (or_introl eq_refl)) as [cc Hc]. cbn [fst snd] in Hc. rewrite Hc.
      destruct IH as [l Hl]; [intros p Hp; apply H; right; exact Hp|]. rewrite Hl. eexists. reflexivity.
  Qed.

  Lemma children_total : forall fuel lit s, sect_ok (length lit) s -> s_e s - s_h s < fuel ->
    exists cc, children_of ctype_of fuel lit s = TOk cc.
  Proof.
    induction fuel as [|f IH]; intros lit s Hs Hf; [lia|].
    cbn [children_of].
    destruct (ctype_of (sect_header lit s)) as [| |boundary] eqn:Ect.
    - eexists. reflexivity.
    - pose proof Hs as (H1 & H2 & H3).
      destruct (parse_sect_ok lit (s_b s) (s_e s) H2 H3) as (P1 & P2 & P3).
      apply IH; auto. rewrite P1, P2.
      (* the header is not empty, so the embedded message is strictly smaller *)
      assert (Hne : s_h s < s_b s).
      { destruct (Nat.eq_dec (s_h s) (s_b s)) as [Heq|]; [|lia]. exfalso. apply ctype_empty.
        rewrite <- Ect. f_equal. unfold sect_header, slice. rewrite Heq, Nat.sub_diag. reflexivity. }
      lia.
    - pose proof (scan_parts_ok (sect_body lit s) boundary) as Hp.
      destruct (scan_parts (sect_body lit s) boundary) as [parts| |]; try contradiction.
      pose proof Hs as (H1 & H2 & H3).
      apply build_children_total. intros [o n] Hin.
      unfold parts_ok in Hp. rewrite Forall_forall in Hp. specialize (Hp _ Hin). cbn [fst snd] in *.
      rewrite sect_body_length in Hp by exact Hs.
      destruct (parse_sect_ok lit (s_b s + o) (s_b s + o + n) ltac:(lia) ltac:(lia)) as (P1 & P2 & P3).
      apply IH; auto. rewrite P1, P2. lia.
  Qed.

  (* computing the section tree terminates without crash for ANY bytes *)
  Theorem section_tree_total : forall lit, exists t, section_tree ctype_of lit = TOk [t].
  Proof.
    intros lit. unfold section_tree, root_sect.
    destruct (parse_sect_ok lit 0 (length lit) (Nat.le_0_l _) (le_n _)) as (P1 & P2 & P3).
    destruct (children_total (S (length lit)) lit _ P3 ltac:(rewrite P1, P2; lia)) as [cc Hc].
    rewrite Hc. eexists. reflexivity.
  Qed.
End WithCType.

(* ---------- Part() ---------- *)
Section Parts.
  Variable ctype_of : bytes -> ctype.

  Definition inside (p s : sect) : Prop := s_h p <= s_h s /\ s_e s <= s_e p.

  Lemma direct_children_ok : forall lit s cs c, sect_ok (length lit) s ->
    direct_children ctype_of (S (length lit)) lit s = Some cs -> In c cs ->
    sect_ok (length lit) c /\ s_b s <= s_h c /\ s_e c <= s_e s.
  Proof.
    intros lit s cs c Hs H Hin. unfold direct_children in H.
    destruct (children_of ctype_of (S (length lit)) lit s) as [cc| |] eqn:E; try discriminate.
    inversion H; subst. apply in_map_iff in Hin as [t [Ht Hin]].
    pose proof (children_nested ctype_of _ _ _ _ Hs E) as HF. rewrite Forall_forall in HF.
    specialize (HF _ Hin). inversion HF; subst. auto.
  Qed.

  Lemma part_of_inside : forall path lit s r, sect_ok (length lit) s ->
    part_of ctype_of lit s path = Some r -> sect_ok (length lit) r /\ inside s r.
  Proof.
    induction path as [|n rest IH]; intros lit s r Hs H.
    - cbn in H. inversion H; subst. split; [exact Hs|unfold inside; lia].
    - cbn [part_of] in H.
      destruct (direct_children ctype_of (S (length lit)) lit s) as [cs|] eqn:Ed; [|discriminate].
      destruct ((n =? 0) || (length cs <? n - 1)); [discriminate|].
      pose proof Hs as (H1 & H2 & H3).
      destruct cs as [|c0 cs'].
      + destruct (ctype_of (sect_header lit s)).
        * inversion H; subst. split; [exact Hs|unfold inside; lia].
        * destruct (parse_sect_ok lit (s_b s) (s_e s) H2 H3) as (P1 & P2 & P3).
          destruct (IH lit _ r P3 H) as [A [B C]]. split; [exact A|]. unfold inside in *. lia.
        * inversion H; subst. split; [exact Hs|unfold inside; lia].
      + destruct (nth_error (c0 :: cs') (n - 1)) as [c|] eqn:En; [|discriminate].
        apply nth_error_In in En.
        destruct (direct_children_ok lit s _ c Hs Ed En) as (C1 & C2 & C3).
        destruct (IH lit c r C1 H) as [A [B C]]. split; [exact A|]. unfold inside in *. lia.
  Qed.

  (* the part addressed by path.n lies inside the part addressed by path *)
  Lemma part_of_app_inside : forall path lit s n p x, sect_ok (length lit) s ->
    part_of ctype_of lit s path = Some p -> part_of ctype_of lit s (path ++ [n]) = Some x ->
    sect_ok (length lit) x /\ inside p x.
  Proof.
    induction path as [|m rest IH]; intros lit s n p x Hs Hp Hx.
    - cbn in Hp. inversion Hp; subst. cbn [app] in Hx. eapply part_of_inside; eauto.
    - cbn [app part_of] in *.
      destruct (direct_children ctype_of (S (length lit)) lit s) as [cs|] eqn:Ed; [|discriminate].
      destruct ((m =? 0) || (length cs <? m - 1)); [discriminate|].
      pose proof Hs as (H1 & H2 & H3).
      destruct cs as [|c0 cs'].
      + destruct (ctype_of (sect_header lit s)).
        * inversion Hp; inversion Hx; subst. split; [exact Hs|unfold inside; lia].
        * destruct (parse_sect_ok lit (s_b s) (s_e s) H2 H3) as (P1 & P2 & P3). eapply IH; eauto.
        * inversion Hp; inversion Hx; subst. split; [exact Hs|unfold inside; lia].
      + destruct (nth_error (c0 :: cs') (m - 1)) as [c|] eqn:En; [|discriminate].
        apply nth_error_In in En.
        destruct (direct_children_ok lit s _ c Hs Ed En) as (C1 & C2 & C3). eapply IH; eauto.
  Qed.

  Lemma root_sect_ok : forall lit, sect_ok (length lit) (root_sect lit) /\ s_h (root_sect lit) = 0 /\ s_e (root_sect lit) = length lit.
  Proof.
    intros lit. unfold root_sect.
    destruct (parse_sect_ok lit 0 (length lit) (Nat.le_0_l _) (le_n _)) as (P1 & P2 & P3). auto.
  Qed.

  Lemma part_header_plus_body : forall lit s path,
    part_of ctype_of lit (root_sect lit) path = Some s ->
    sect_header lit s ++ sect_body lit s = sect_literal lit s.
  Proof.
    intros lit s path H. destruct (root_sect_ok lit) as (R & _).
    destruct (part_of_inside path lit _ s R H) as [A _]. apply sect_header_plus_body. exact A.
  Qed.

  Lemma part_inside_parent : forall lit path n s p,
    part_of ctype_of lit (root_sect lit) path = Some p ->
    part_of ctype_of lit (root_sect lit) (path ++ [n]) = Some s ->
    s_h p <= s_h s /\ s_h s <= s_b s /\ s_b s <= s_e s /\ s_e s <= s_e p /\ s_e p <= length lit.
  Proof.
    intros lit path n s p Hp Hs. destruct (root_sect_ok lit) as (R & _).
    destruct (part_of_app_inside path lit _ n p s R Hp Hs) as [(A1 & A2 & A3) [B1 B2]].
    destruct (part_of_inside path lit _ p R Hp) as [(C1 & C2 & C3) _]. lia.
  Qed.

  (* whatever BODY[path], BODY[path.MIME], BODY[path.HEADER], BODY[path.TEXT] return is a sub-slice of the message *)
  Lemma fetch_section_subslice : forall lit path sp bs,
    (match sp with SpFields _ _ => False | _ => True end) ->
    fetch_section ctype_of lit path sp = Some bs ->
    exists a b, a <= b /\ b <= length lit /\ bs = slice lit a b.
  Proof.
    intros lit path sp bs Hsp H. unfold fetch_section in H.
    destruct (root_sect_ok lit) as (R & _).
    assert (Hgen : forall r m, sect_ok (length lit) r -> sect_ok (length lit) m ->
      match sp with
      | SpAll | SpBody => Some (sect_body lit r)
      | SpMime => Some (sect_header lit r)
      | SpHeader => Some (sect_header lit m)
      | SpText => Some (sect_body lit m)
      | SpFields neg fields => header_fields neg (sect_header lit m) fields
      end = Some bs -> exists a b, a <= b /\ b <= length lit /\ bs = slice lit a b).
    { intros r m (A1 & A2 & A3) (E1 & E2 & E3) Hb.
      destruct sp; try contradiction; inversion Hb; subst; unfold sect_body, sect_header;
        eexists _, _; (split; [|split; [|reflexivity]]); lia. }
    assert (Hemb : forall r, sect_ok (length lit) r -> sect_ok (length lit) (embedded ctype_of lit r)).
    { intros r (A1 & A2 & A3). unfold embedded. destruct (ctype_of (sect_header lit r)); try (unfold sect_ok; lia).
      destruct (parse_sect_ok lit (s_b r) (s_e r) A2 A3) as (_ & _ & P). exact P. }
    destruct path as [|n rest].
    - destruct sp; try contradiction; cbn [part_of] in H.
      + assert (Hbs : lit = bs) by (inversion H; reflexivity). rewrite <- Hbs.
        exists 0, (length lit). split; [lia|]. split; [lia|]. symmetry. apply slice_full.
      + apply (Hgen (root_sect lit) (root_sect lit)); auto.
      + apply (Hgen (root_sect lit) (root_sect lit)); auto.
      + apply (Hgen (root_sect lit) (root_sect lit)); auto.
      + apply (Hgen (root_sect lit) (root_sect lit)); auto.
    - (* the section the part path selects, whichever rule applies, is a section inside the message *)
      assert (Htarget : forall r,
        match ctype_of (sect_header lit (root_sect lit)), direct_children ctype_of (S (length lit)) lit (root_sect lit) with
        | CtMessage, Some [] => if n =? 1 then part_of ctype_of lit (root_sect lit) rest else None
        | _, _ => part_of ctype_of lit (root_sect lit) (n :: rest)
        end = Some r -> sect_ok (length lit) r).
      { intros r Hr.
        destruct (ctype_of (sect_header lit (root_sect lit)));
          try (destruct (part_of_inside (n :: rest) lit _ r R Hr) as [A _]; exact A).
        destruct (direct_children ctype_of (S (length lit)) lit (root_sect lit)) as [[|c cs]|];
          try (destruct (part_of_inside (n :: rest) lit _ r R Hr) as [A _]; exact A).
        destruct (n =? 1); [|discriminate]. destruct (part_of_inside rest lit _ r R Hr) as [A _]. exact A. }
      assert (Hsp' : match n :: rest, sp with [], SpAll => False | _, _ => True end) by exact I.
      cbv zeta in H.
      assert (Hred : match
        match ctype_of (sect_header lit (root_sect lit)), direct_children ctype_of (S (length lit)) lit (root_sect lit) with
        | CtMessage, Some [] => if n =? 1 then part_of ctype_of lit (root_sect lit) rest else None
        | _, _ => part_of ctype_of lit (root_sect lit) (n :: rest)
        end with
        | None => None
        | Some r =>
          match sp with
          | SpAll | SpBody => Some (sect_body lit r)
          | SpMime => Some (sect_header lit r)
          | SpHeader => Some (sect_header lit (embedded ctype_of lit r))
          | SpText => Some (sect_body lit (embedded ctype_of lit r))
          | SpFields neg fields => header_fields neg (sect_header lit (embedded ctype_of lit r)) fields
          end
        end = Some bs).
      { destruct sp; exact H. }
      clear H.
      destruct (match ctype_of (sect_header lit (root_sect lit)), direct_children ctype_of (S (length lit)) lit (root_sect lit) with
                | CtMessage, Some [] => if n =? 1 then part_of ctype_of lit (root_sect lit) rest else None
                | _, _ => part_of ctype_of lit (root_sect lit) (n :: rest)
                end) as [r|] eqn:Et; [|discriminate].
      pose proof (Htarget r eq_refl) as Hr.
      apply (Hgen r (embedded ctype_of lit r)); auto.
  Qed.

  (* BODY[HEADER] followed by BODY[TEXT] is BODY[], whatever the media type of the message itself is *)
  Lemma fetch_header_plus_text : forall lit,
    exists h t, fetch_section ctype_of lit [] SpHeader = Some h /\ fetch_section ctype_of lit [] SpText = Some t /\
                h ++ t = lit /\ fetch_section ctype_of lit [] SpAll = Some lit.
  Proof.
    intros lit. destruct (root_sect_ok lit) as (R & Rh & Re).
    exists (sect_header lit (root_sect lit)), (sect_body lit (root_sect lit)).
    repeat split; try reflexivity.
    rewrite (sect_header_plus_body lit _ R). unfold sect_literal. rewrite Rh, Re. apply slice_full.
  Qed.

  (* a message whose own type is message/rfc822 with a non-multipart embedded message: part 1 is its body
     (BODY[1] = BODY[TEXT]), BODY[1.MIME] its own header, and there is no part 2 *)
  Lemma message_root_part1 : forall lit,
    ctype_of (sect_header lit (root_sect lit)) = CtMessage ->
    direct_children ctype_of (S (length lit)) lit (root_sect lit) = Some [] ->
    fetch_section ctype_of lit [1] SpBody = fetch_section ctype_of lit [] SpText /\
    fetch_section ctype_of lit [1] SpMime = Some (sect_header lit (root_sect lit)) /\
    fetch_section ctype_of lit [2] SpBody = None.
  Proof.
    intros lit Hc Hd. unfold fetch_section. cbv zeta. rewrite Hc, Hd. cbn [Nat.eqb part_of]. auto.
  Qed.
End Parts.
