(* Correspondence runner for C03: the harness writes the command sequences it ran over the wire (with the targets
   resolved against the acting session's view) together with the tagged result class and the fresh views of all
   mailboxes; `mismatches` lists the case ids on which the Impl model (Model/MailboxActions.v over Model/RelDb.v with
   the GENERATED statement facts) predicts another result class or other mailbox contents. *)
From Coq Require Import String Ascii.
From Coq Require Import List NArith Bool.
From Gluon Require Export Base.ListX Model.RelDb Model.MailboxRef Model.MailboxActions Gen.FactsSqlBind.
Import ListNotations.
Open Scope list_scope.
Open Scope N_scope.

(* compact id lists: (start, count) segments *)
Fixpoint seg_expand (start : N) (count : nat) : list N :=
  match count with O => [] | S k => start :: seg_expand (start + 1) k end.
Definition segs (l : list (N * N)) : list N := flat_map (fun p => seg_expand (fst p) (N.to_nat (snd p))) l.

Inductive ccmd :=
| KCreate (box : N)
| KAppend (box msg count : N) (flags : list flag)        (* `count` APPENDs creating the entities msg, msg+1, ... *)
| KStore (box : N) (act : store_action) (flags : list flag) (targets : list (N * N))
| KExpunge (box : N) (targets : list (N * N))
| KCopy (src dst : N) (targets : list (N * N))
| KMove (src dst : N) (targets : list (N * N))
| KClearRecent (box : N).

(* observed view rows, run-length compressed: ORun uid msg n deleted flags = the n rows (uid+i, msg+i) *)
Inductive obsrow := ORun (uid msg count : N) (deleted : bool) (flags : list flag).
Record step := mkStep {
  st_cmd : ccmd;
  st_ok : bool;                                   (* tagged OK (true) or NO/BAD (false) *)
  st_views : option (list (N * list obsrow))      (* fresh views (mailbox, rows in sequence order) after the command *)
}.
Record case := mkCase { c_id : nat; c_steps : list step }.

(* mailbox creation is not one of the commands of the property: it is executed directly on the index
   (CreateMailbox with remote id = name = the mailbox number; the index must hand out that number as id) *)
Inductive mstep := MCmd (c : cmd) | MCreate (b : N).

Definition expand_cmd (k : ccmd) : list mstep :=
  match k with
  | KCreate b => [MCreate b]
  | KAppend b m n fs => map (fun i => MCmd (CAppend b i fs)) (seg_expand m (N.to_nat n))
  | KStore b a fs ts => [MCmd (CStore b a fs (segs ts))]
  | KExpunge b ts => [MCmd (CExpunge b (segs ts))]
  | KCopy s d ts => [MCmd (CCopy s d (segs ts))]
  | KMove s d ts => [MCmd (CMove s d (segs ts))]
  | KClearRecent b => [MCmd (CClearRecent b)]
  end.

Definition do_mstep (s : mstep) (d : db) : db * outcome :=
  match s with
  | MCmd c => impl_step stmt_facts remove_flag_nocase c d
  | MCreate b => match op_create_mailbox b b 1 [] [] [] d with
                 | Ok d' (RMbox m) => if N.eqb (mb_id m) b then (d', OK) else (d, NO)
                 | _ => (d, NO)
                 end
  end.

(* flags as case-insensitive sets, \Recent ignored *)
Definition fl_norm (l : list flag) : list flag := filter (fun f => negb (flag_eqb_ci f recent_flag)) l.
Definition fl_subset (a b : list flag) : bool := forallb (fun f => fmem_ci f b) a.
Definition fl_seteq (a b : list flag) : bool := fl_subset (fl_norm a) (fl_norm b) && fl_subset (fl_norm b) (fl_norm a).

Record vrow := mkV { v_uid : N; v_msg : N; v_deleted : bool; v_flags : list flag }.
Definition vrow_eqb (a b : vrow) : bool :=
  N.eqb (v_uid a) (v_uid b) && N.eqb (v_msg a) (v_msg b) && Bool.eqb (v_deleted a) (v_deleted b) && fl_seteq (v_flags a) (v_flags b).

Definition obs_expand (l : list obsrow) : list vrow :=
  flat_map (fun o => match o with ORun u m n d fs =>
     map (fun i => mkV (u + i) (m + i) d fs) (seg_expand 0 (N.to_nat n)) end) l.

(* the view the model predicts for a mailbox: rows of the per-mailbox table in table order with the message flags *)
Definition model_view (d : db) (b : N) : option (list vrow) :=
  match find_tab b (d_tabs d) with
  | None => None
  | Some t => Some (map (fun x => mkV (r_uid x) (r_msg x) (r_deleted x) (flags_of (r_msg x) (d_flags d))) (t_rows t))
  end.

Definition views_ok (d : db) (vs : list (N * list obsrow)) : bool :=
  forallb (fun p => match model_view d (fst p) with
                    | Some rows => list_eqb vrow_eqb rows (obs_expand (snd p))
                    | None => false
                    end) vs.

(* all expanded commands of a step must have the observed result class *)
Fixpoint run_cmds (cs : list mstep) (d : db) (ok : bool) : db * bool :=
  match cs with
  | [] => (d, true)
  | c :: t => let (d', o) := do_mstep c d in
              if Bool.eqb (match o with OK => true | NO => false end) ok then run_cmds t d' ok else (d', false)
  end.

Fixpoint run_steps (ss : list step) (d : db) : bool :=
  match ss with
  | [] => true
  | s :: t => let (d', good) := run_cmds (expand_cmd (st_cmd s)) d (st_ok s) in
              good && (match st_views s with Some vs => views_ok d' vs | None => true end) && run_steps t d'
  end.

Definition case_ok (c : case) : bool := run_steps (c_steps c) empty_db.

Definition mismatches (cs : list case) : list nat := map c_id (filter (fun c => negb (case_ok c)) cs).
