(* C10 — round trip of SEARCH: dates and the search-key tree (mutual induction over keys and key lists). *)
From Coq Require Import List NArith Bool Lia String Arith.
From Gluon Require Import Gen.FactsTokens Model.ImapTokens Model.ImapGrammar Model.ImapPrinter
  Proofs.ImapTokenFacts Proofs.ImapRoundTrip Proofs.ImapRoundTripFetch.
Import ListNotations.
Open Scope N_scope.
Local Notation length := List.length.

(* ------------------------------------------------------------------ dates *)
Lemma date_text_rt : forall d bs rest, EncDateText d bs -> p_date_text (bs ++ rest) = ROk d rest.
Proof.
  intros [dd mm yy] bs rest (ed & em & ey & -> & Hd & Hm & Hy). cbn [d_day d_month d_year] in *.
  unfold p_date_text. repeat (rewrite <- app_assoc; cbn [app]).
  step ltac:(apply number_n_rt; [exact Hd|reflexivity]). step ltac:(apply consume_rt; reflexivity).
  step ltac:(apply month_rt; exact Hm). step ltac:(apply consume_rt; reflexivity).
  step ltac:(apply number_n_exact_rt; exact Hy). reflexivity.
Qed.

Lemma date_rt : forall d bs rest, EncDate d bs -> p_date (bs ++ rest) = ROk d rest.
Proof.
  intros d bs rest [H|(x & -> & H)]; unfold p_date.
  - assert (ND : tok_is TT_DQuote (cur_tok (bs ++ rest)) = false).
    { destruct H as (ed & em & ey & -> & (Hne & _ & Hd & _) & _). destruct ed as [|c t]; [congruence|].
      cbn [app cur_tok]. rewrite (digit_byte_ok c (Hd c (or_introl eq_refl))). reflexivity. }
    step ltac:(apply matchb_no; exact ND).
    step ltac:(apply date_text_rt; exact H). reflexivity.
  - cbn [app]. rewrite <- app_assoc. cbn [app]. step ltac:(apply matchb_yes; reflexivity).
    step ltac:(apply date_text_rt; exact H). cbv beta iota.
    step ltac:(apply consume_rt; reflexivity). reflexivity.
Qed.

(* ------------------------------------------------------------------ what follows a search key: SP, ")" or CR *)
Definition F_key (r : bytes) : Prop := exists b r', r = b :: r' /\ (b = 32 \/ b = 41 \/ b = 13).

Lemma F_key_facts : forall r, F_key r ->
  tok_is TT_Char (cur_tok r) = false /\ is_astring_char (cur_tok r) = false /\ is_atom_char (cur_tok r) = false /\
  F_seq r /\ tok_is TT_Digit (cur_tok r) = false.
Proof. intros r (b & r' & -> & [->|[->| ->]]); repeat split. Qed.

Lemma F_key_sp : forall x, F_key (32 :: x).
Proof. intro x. exists 32, x. split; [reflexivity|tauto]. Qed.
Lemma F_key_rp : forall x, F_key (41 :: x).
Proof. intro x. exists 41, x. split; [reflexivity|tauto]. Qed.

(* end of a key list: ")" or CR (not SP) *)
Definition F_kend (r : bytes) : Prop := exists b r', r = b :: r' /\ (b = 41 \/ b = 13).
Lemma F_kend_key : forall r, F_kend r -> F_key r.
Proof. intros r (b & r' & -> & H). exists b, r'. split; [reflexivity|tauto]. Qed.
Lemma F_kend_nosp : forall r, F_kend r -> tok_is TT_SP (cur_tok r) = false.
Proof. intros r (b & r' & -> & [->| ->]); reflexivity. Qed.

Lemma tail_follow : forall l t r, EncSKeyTail l t -> F_kend r -> F_key (t ++ r).
Proof. intros l t r H Hr. destruct H; cbn [app]; [apply F_kend_key; exact Hr|apply F_key_sp]. Qed.

(* ------------------------------------------------------------------ keyword dispatch *)
Lemma kw_nonempty_first : forall kw K x, EncKw kw K -> kw_ok kw = true -> s2b kw <> [] -> cur_tok (K ++ x) = TT_Char.
Proof.
  intros kw K x H Hok Hne. destruct (s2b kw) as [|c0 cs] eqn:E; [congruence|].
  apply (kw_first kw c0 cs K x E); [|exact H]. unfold kw_ok in Hok. rewrite E in Hok. cbn [forallb] in Hok.
  apply andb_true_iff in Hok. tauto.
Qed.

(* from the keyword-level statement to parseSearchKey *)
Lemma key_from_handle : forall gf d kw K args rest k,
  EncKw kw K -> kw_ok kw = true -> s2b kw <> [] -> tok_is TT_Char (cur_tok (args ++ rest)) = false ->
  p_handle_search_key (p_search_key gf d) gf (s2b kw) (args ++ rest) = ROk k rest ->
  p_search_key gf (S d) ((K ++ args) ++ rest) = ROk k rest.
Proof.
  intros gf d kw K args rest k Hk Hok Hne Hch Hh. cbn [p_search_key]. rewrite <- app_assoc.
  rewrite (kw_nonempty_first kw K _ Hk Hok Hne).
  change (TT_Char =? TT_LParen) with false. change ((TT_Char =? TT_Digit) || (TT_Char =? TT_Asterisk)) with false. cbv iota.
  step ltac:(apply (kw_step _ K _ Hk Hok Hch)). exact Hh.
Qed.

Definition kw_info (gf d : nat) (k : skey) (e rest : bytes) : Prop :=
  exists (kw : string) K args, e = K ++ args /\ EncKw kw K /\ kw_ok kw = true /\ s2b kw <> [] /\
    (forall cs, s2b kw = 99 :: cs -> kw = "cc"%string) /\
    tok_is TT_Char (cur_tok (args ++ rest)) = false /\
    p_handle_search_key (p_search_key gf d) gf (s2b kw) (args ++ rest) = ROk k rest.

Definition P_key (k : skey) (e : bytes) : Prop :=
  forall gf d rest, (length e <= d)%nat -> (length e <= gf)%nat -> F_key rest ->
    p_search_key gf (S d) (e ++ rest) = ROk k rest /\
    (kw_info gf d k e rest \/ tok_is TT_Char (cur_tok (e ++ rest)) = false).
Definition P_tail (l : list skey) (t : bytes) : Prop :=
  forall gf d fl r, (length t <= d)%nat -> (length t <= gf)%nat -> (length l <= fl)%nat -> F_kend r ->
    p_many_sep fl (tok_is TT_SP) (p_search_key gf (S d)) (t ++ r) = ROk l r.

Scheme EncSKey_mut := Minimality for EncSKey Sort Prop
  with EncSKeyTail_mut := Minimality for EncSKeyTail Sort Prop.
Combined Scheme EncSKey_both from EncSKey_mut, EncSKeyTail_mut.

Ltac kwcase kw K args :=
  exists kw, K, args; split; [try reflexivity; rewrite ?app_nil_r; reflexivity|]; split; [eassumption|];
  split; [try reflexivity|]; split; [try discriminate|].

Lemma search_keys_rt : (forall k e, EncSKey k e -> P_key k e) /\ (forall l t, EncSKeyTail l t -> P_tail l t).
Proof.
  apply EncSKey_both.
  - (* flag *)
    intros f k Hk gf d rest Hd Hg Hr. destruct (F_key_facts rest Hr) as (Fc & Fa & Ft & Fs & Fd).
    assert (B : kw_info gf d (SKFlag f) k rest).
    { exists (sk_flag_kw f), k, []. rewrite app_nil_r. cbn [app].
      split; [reflexivity|]. split; [exact Hk|]. split; [destruct f; reflexivity|]. split; [destruct f; discriminate|]. split; [destruct f; intros cs0 X; try discriminate X; reflexivity|].
      split; [exact Fc|]. destruct f; reflexivity. }
    split; [|left; exact B]. destruct B as (kw & K & args & -> & H1 & H2 & H3 & _ & H4 & H5).
    eapply key_from_handle; eassumption.
  - (* string argument *)
    intros f s k e Hk He gf d rest Hd Hg Hr. destruct (F_key_facts rest Hr) as (Fc & Fa & Ft & Fs & Fd).
    assert (B : kw_info gf d (SKStr f s) (k ++ 32 :: e) rest).
    { exists (sk_str_kw f), k, (32 :: e).
      split; [reflexivity|]. split; [exact Hk|]. split; [destruct f; reflexivity|]. split; [destruct f; discriminate|]. split; [destruct f; intros cs0 X; try discriminate X; reflexivity|].
      split; [reflexivity|]. cbn [app].
      assert (X : p_handle_search_key (p_search_key gf d) gf (s2b (sk_str_kw f)) =
                  (sp ;;; s0 <- p_astring ;; ret (SKStr f s0))) by (destruct f; reflexivity).
      rewrite X. step ltac:(apply (consume_rt (tok_is TT_SP)); reflexivity).
      step ltac:(apply astring_rt; [exact He|exact Fa]). reflexivity. }
    split; [|left; exact B]. destruct B as (kw & K & args & E & H1 & H2 & H3 & _ & H4 & H5). rewrite E.
    eapply key_from_handle; eassumption.
  - (* date argument *)
    intros f dd k e Hk He gf d rest Hd Hg Hr. destruct (F_key_facts rest Hr) as (Fc & Fa & Ft & Fs & Fd).
    assert (B : kw_info gf d (SKDate f dd) (k ++ 32 :: e) rest).
    { exists (sk_date_kw f), k, (32 :: e).
      split; [reflexivity|]. split; [exact Hk|]. split; [destruct f; reflexivity|]. split; [destruct f; discriminate|]. split; [destruct f; intros cs0 X; try discriminate X; reflexivity|].
      split; [reflexivity|]. cbn [app].
      assert (X : p_handle_search_key (p_search_key gf d) gf (s2b (sk_date_kw f)) =
                  (sp ;;; d0 <- p_date ;; ret (SKDate f d0))) by (destruct f; reflexivity).
      rewrite X. step ltac:(apply (consume_rt (tok_is TT_SP)); reflexivity).
      step ltac:(apply date_rt; exact He). reflexivity. }
    split; [|left; exact B]. destruct B as (kw & K & args & E & H1 & H2 & H3 & _ & H4 & H5). rewrite E.
    eapply key_from_handle; eassumption.
  - (* atom argument *)
    intros f a k e Hk He gf d rest Hd Hg Hr. destruct (F_key_facts rest Hr) as (Fc & Fa & Ft & Fs & Fd).
    assert (B : kw_info gf d (SKAtom f a) (k ++ 32 :: e) rest).
    { exists (sk_atom_kw f), k, (32 :: e).
      split; [reflexivity|]. split; [exact Hk|]. split; [destruct f; reflexivity|]. split; [destruct f; discriminate|]. split; [destruct f; intros cs0 X; try discriminate X; reflexivity|].
      split; [reflexivity|]. cbn [app].
      assert (X : p_handle_search_key (p_search_key gf d) gf (s2b (sk_atom_kw f)) =
                  (sp ;;; a0 <- p_atom ;; ret (SKAtom f a0))) by (destruct f; reflexivity).
      rewrite X. step ltac:(apply (consume_rt (tok_is TT_SP)); reflexivity).
      step ltac:(apply atom_rt; [exact He|exact Ft]). reflexivity. }
    split; [|left; exact B]. destruct B as (kw & K & args & E & H1 & H2 & H3 & _ & H4 & H5). rewrite E.
    eapply key_from_handle; eassumption.
  - (* number argument *)
    intros f n k e Hk He gf d rest Hd Hg Hr. destruct (F_key_facts rest Hr) as (Fc & Fa & Ft & Fs & Fd).
    assert (B : kw_info gf d (SKNum f n) (k ++ 32 :: e) rest).
    { exists (sk_num_kw f), k, (32 :: e).
      split; [reflexivity|]. split; [exact Hk|]. split; [destruct f; reflexivity|]. split; [destruct f; discriminate|]. split; [destruct f; intros cs0 X; try discriminate X; reflexivity|].
      split; [reflexivity|]. cbn [app].
      assert (X : p_handle_search_key (p_search_key gf d) gf (s2b (sk_num_kw f)) =
                  (sp ;;; n0 <- p_number ;; ret (SKNum f n0))) by (destruct f; reflexivity).
      rewrite X. step ltac:(apply (consume_rt (tok_is TT_SP)); reflexivity).
      step ltac:(apply number_rt; [exact He|exact Fd]). reflexivity. }
    split; [|left; exact B]. destruct B as (kw & K & args & E & H1 & H2 & H3 & _ & H4 & H5). rewrite E.
    eapply key_from_handle; eassumption.
  - (* HEADER *)
    intros f v k e1 e2 Hk H1 H2 gf d rest Hd Hg Hr. destruct (F_key_facts rest Hr) as (Fc & Fa & Ft & Fs & Fd).
    assert (B : kw_info gf d (SKHeader f v) (k ++ 32 :: e1 ++ 32 :: e2) rest).
    { exists "header"%string, k, (32 :: e1 ++ 32 :: e2).
      split; [reflexivity|]. split; [exact Hk|]. split; [reflexivity|]. split; [discriminate|]. split; [intros cs0 X; discriminate X|].
      split; [reflexivity|]. cbn [app]. repeat (rewrite <- app_assoc; cbn [app]).
      change (p_handle_search_key (p_search_key gf d) gf (s2b "header")) with
        (sp ;;; f0 <- p_astring ;; sp ;;; v0 <- p_astring ;; ret (SKHeader f0 v0)).
      step ltac:(apply (consume_rt (tok_is TT_SP)); reflexivity).
      step ltac:(apply astring_rt; [exact H1|reflexivity]).
      step ltac:(apply (consume_rt (tok_is TT_SP)); reflexivity).
      step ltac:(apply astring_rt; [exact H2|exact Fa]). reflexivity. }
    split; [|left; exact B]. destruct B as (kw & K & args & E & B1 & B2 & B3 & _ & B4 & B5). rewrite E.
    eapply key_from_handle; eassumption.
  - (* UID *)
    intros s k e Hk He gf d rest Hd Hg Hr. destruct (F_key_facts rest Hr) as (Fc & Fa & Ft & Fs & Fd).
    assert (B : kw_info gf d (SKUid s) (k ++ 32 :: e) rest).
    { exists "uid"%string, k, (32 :: e).
      split; [reflexivity|]. split; [exact Hk|]. split; [reflexivity|]. split; [discriminate|]. split; [intros cs0 X; discriminate X|].
      split; [reflexivity|]. cbn [app].
      change (p_handle_search_key (p_search_key gf d) gf (s2b "uid")) with
        (sp ;;; s0 <- p_seqset gf ;; ret (SKUid s0)).
      step ltac:(apply (consume_rt (tok_is TT_SP)); reflexivity).
      step ltac:(apply seqset_rt; [exact He| |exact Fs]).
      - reflexivity.
      - pose proof (sep_list_length _ _ _ _ _ He) as L. repeat (rewrite app_length in Hg; cbn [length] in Hg). lia. }
    split; [|left; exact B]. destruct B as (kw & K & args & E & B1 & B2 & B3 & _ & B4 & B5). rewrite E.
    eapply key_from_handle; eassumption.
  - (* sequence set *)
    intros s e He gf d rest Hd Hg Hr. destruct (F_key_facts rest Hr) as (Fc & Fa & Ft & Fs & Fd).
    assert (First : (cur_tok (e ++ rest) = TT_Digit \/ cur_tok (e ++ rest) = TT_Asterisk)).
    { destruct s as [|r0 s]; [contradiction|]. destruct He as (e0 & t & -> & Hr0 & _). rewrite <- app_assoc.
      assert (SN : forall n x y, EncSeqNum n x -> cur_tok (x ++ y) = TT_Digit \/ cur_tok (x ++ y) = TT_Asterisk).
      { intros n x y [[_ ->]|(_ & _ & Hn)]; [right; reflexivity|left; apply (num_first_digit n x y Hn)]. }
      destruct Hr0 as [[_ H]|(x1 & x2 & -> & H & _)]; [apply (SN _ _ _ H)|rewrite <- app_assoc; apply (SN _ _ _ H)]. }
    split.
    + cbn [p_search_key].
      assert (NL : (cur_tok (e ++ rest) =? TT_LParen) = false) by (destruct First as [-> | ->]; reflexivity).
      assert (DA : ((cur_tok (e ++ rest) =? TT_Digit) || (cur_tok (e ++ rest) =? TT_Asterisk)) = true)
        by (destruct First as [-> | ->]; reflexivity).
      rewrite NL, DA. step ltac:(apply seqset_rt; [exact He| |exact Fs]).
      * reflexivity.
      * pose proof (sep_list_length _ _ _ _ _ He) as L. lia.
    + right. unfold tok_is. destruct First as [-> | ->]; reflexivity.
  - (* NOT *)
    intros x k e Hk _ IH gf d rest Hd Hg Hr. destruct (F_key_facts rest Hr) as (Fc & Fa & Ft & Fs & Fd).
    repeat (rewrite app_length in Hd, Hg; cbn [length] in Hd, Hg).
    destruct d as [|d']; [lia|].
    assert (B : kw_info gf (S d') (SKNot x) (k ++ 32 :: e) rest).
    { exists "not"%string, k, (32 :: e).
      split; [reflexivity|]. split; [exact Hk|]. split; [reflexivity|]. split; [discriminate|]. split; [intros cs0 X; discriminate X|].
      split; [reflexivity|]. cbn [app].
      change (p_handle_search_key (p_search_key gf (S d')) gf (s2b "not")) with
        (sp ;;; x0 <- p_search_key gf (S d') ;; ret (SKNot x0)).
      step ltac:(apply (consume_rt (tok_is TT_SP)); reflexivity).
      step ltac:(apply (proj1 (IH gf d' rest ltac:(lia) ltac:(lia) Hr))). reflexivity. }
    split; [|left; exact B]. destruct B as (kw & K & args & E & B1 & B2 & B3 & _ & B4 & B5). rewrite E.
    eapply key_from_handle; eassumption.
  - (* OR *)
    intros a b k e1 e2 Hk _ IHa _ IHb gf d rest Hd Hg Hr. destruct (F_key_facts rest Hr) as (Fc & Fa & Ft & Fs & Fd).
    repeat (rewrite app_length in Hd, Hg; cbn [length] in Hd, Hg).
    destruct d as [|d']; [lia|].
    assert (B : kw_info gf (S d') (SKOr a b) (k ++ 32 :: e1 ++ 32 :: e2) rest).
    { exists "or"%string, k, (32 :: e1 ++ 32 :: e2).
      split; [reflexivity|]. split; [exact Hk|]. split; [reflexivity|]. split; [discriminate|]. split; [intros cs0 X; discriminate X|].
      split; [reflexivity|]. cbn [app]. repeat (rewrite <- app_assoc; cbn [app]).
      change (p_handle_search_key (p_search_key gf (S d')) gf (s2b "or")) with
        (sp ;;; a0 <- p_search_key gf (S d') ;; sp ;;; b0 <- p_search_key gf (S d') ;; ret (SKOr a0 b0)).
      step ltac:(apply (consume_rt (tok_is TT_SP)); reflexivity).
      step ltac:(apply (proj1 (IHa gf d' (32 :: e2 ++ rest) ltac:(lia) ltac:(lia) (F_key_sp _)))).
      step ltac:(apply (consume_rt (tok_is TT_SP)); reflexivity).
      step ltac:(apply (proj1 (IHb gf d' rest ltac:(lia) ltac:(lia) Hr))). reflexivity. }
    split; [|left; exact B]. destruct B as (kw & K & args & E & B1 & B2 & B3 & _ & B4 & B5). rewrite E.
    eapply key_from_handle; eassumption.
  - (* parenthesised list *)
    intros a l e t Ha IHa Ht IHt gf d rest Hd Hg Hr.
    cbn [length] in Hd, Hg. repeat (rewrite app_length in Hd, Hg; cbn [length] in Hd, Hg).
    destruct d as [|d']; [lia|].
    split; [|right; reflexivity].
    cbn [p_search_key app]. change (cur_tok (40 :: (e ++ t ++ [41]) ++ rest) =? TT_LParen) with true. cbv iota.
    repeat (rewrite <- app_assoc; cbn [app]).
    step ltac:(apply consume_rt; reflexivity).
    assert (Lt : (length l <= length t)%nat).
    { clear -Ht. induction Ht; cbn [length]; [lia|]. rewrite app_length. lia. }
    step ltac:(idtac).
    2:{ unfold p_sep_list.
        cbv beta iota; erewrite bind_ok;
          [|apply (proj1 (IHa gf d' (t ++ 41 :: rest) ltac:(lia) ltac:(lia) (tail_follow l t (41 :: rest) Ht ltac:(exists 41, rest; split; [reflexivity|tauto]))))].
        cbv beta iota; erewrite bind_ok;
          [|apply (IHt gf d' gf (41 :: rest)); [lia|lia|lia|exists 41, rest; split; [reflexivity|tauto]]].
        reflexivity. }
    step ltac:(apply consume_rt; reflexivity). reflexivity.
  - (* empty tail *)
    intros gf d fl r _ _ _ Hr. cbn [app]. pose proof (F_kend_nosp r Hr) as N.
    destruct fl; cbn [p_many_sep]; rewrite N; reflexivity.
  - (* tail cons *)
    intros a l e t Ha IHa Ht IHt gf d fl r Hd Hg Hl Hr.
    cbn [length] in Hd, Hg. repeat (rewrite app_length in Hd, Hg; cbn [length] in Hd, Hg). cbn [length] in Hl.
    destruct fl as [|fl']; [lia|]. cbn [app p_many_sep cur_tok tl].
    change (tok_is TT_SP (tok_of_byte 32)) with true. cbv iota. rewrite <- app_assoc.
    rewrite (proj1 (IHa gf d (t ++ r) ltac:(lia) ltac:(lia) (tail_follow l t r Ht Hr))).
    rewrite (IHt gf d fl' r ltac:(lia) ltac:(lia) ltac:(lia) Hr). reflexivity.
Qed.

(* ------------------------------------------------------------------ the SEARCH command *)
Lemma key_rt : forall k e fuel rest, EncSKey k e -> (length e < fuel)%nat -> F_key rest ->
  p_search_key fuel fuel (e ++ rest) = ROk k rest.
Proof.
  intros k e fuel rest H Hl Hr. destruct fuel as [|d]; [lia|].
  apply (proj1 (proj1 search_keys_rt k e H (S d) d rest ltac:(lia) ltac:(lia) Hr)).
Qed.

Lemma tail_rt : forall l t fuel r, EncSKeyTail l t -> (length t < fuel)%nat -> F_kend r ->
  p_many_sep fuel (tok_is TT_SP) (p_search_key fuel fuel) (t ++ r) = ROk l r.
Proof.
  intros l t fuel r H Hl Hr. destruct fuel as [|d]; [lia|].
  apply (proj2 search_keys_rt l t H (S d) d (S d) r); try lia; [|exact Hr].
  assert (Lt : (length l <= length t)%nat).
  { clear -H. induction H; cbn [length]; [lia|]. rewrite app_length. lia. }
  lia.
Qed.

Lemma tail_len : forall l t, EncSKeyTail l t -> (length l <= length t)%nat.
Proof. intros l t H. induction H; cbn [length]; [lia|]. rewrite app_length. lia. Qed.

Lemma letters_of_kw : forall kw K, EncKw kw K -> kw_ok kw = true -> forall b, In b K -> tok_of_byte b = TT_Char.
Proof.
  intros kw K H Hok b Hb. apply letter_ok. unfold kw_ok in Hok. rewrite forallb_forall in Hok. apply Hok.
  unfold EncKw in H. rewrite <- H. apply lower_in. exact Hb.
Qed.

Lemma search_rt : forall cs keys e rest fuel, EncSearchArgs cs keys e -> (length e < fuel)%nat -> F_endc rest ->
  p_search fuel (e ++ rest) = ROk (SSearch cs keys) rest.
Proof.
  intros cs keys e rest fuel H Hl (r' & ->).
  assert (KE : F_kend (13 :: r')) by (exists 13, r'; split; [reflexivity|tauto]).
  unfold p_search. cbv zeta.
  destruct H as [(-> & Hne & Ht)|(K & ecs & t & -> & HK & Hcs & Hne & Ht)].
  - (* no CHARSET: the first key goes through the special path *)
    destruct Ht as [|k1 ks e1 t Hk1 Ht]; [congruence|]. cbn [app]. rewrite <- app_assoc.
    cbn [length] in Hl. rewrite app_length in Hl.
    step ltac:(apply (consume_rt (tok_is TT_SP)); reflexivity).
    pose proof (tail_follow ks t (13 :: r') Ht KE) as FK.
    destruct (proj1 search_keys_rt k1 e1 Hk1 fuel fuel (t ++ 13 :: r') ltac:(lia) ltac:(lia) FK) as [_ [B|NC]].
    + destruct B as (kw & KW & args & -> & Hkw & Hok & Hn0 & Hcc & Hch & Hh).
      destruct KW as [|ch KW'].
      { exfalso. unfold EncKw in Hkw. cbn in Hkw. apply Hn0. symmetry. exact Hkw. }
      pose proof (letters_of_kw kw (ch :: KW') Hkw Hok) as LT.
      cbn [app]. rewrite <- app_assoc.
      step ltac:(unfold p_match; cbn [cur_tok cur_val tl]; unfold tok_is; rewrite (LT ch (or_introl eq_refl)), N.eqb_refl; reflexivity).
      cbv beta iota.
      assert (LK : lower (ch :: KW') = s2b kw) by exact Hkw. unfold lower in LK. cbn [map] in LK.
      destruct (N.eqb_spec (to_lower ch) 99) as [C|C].
      * (* the keyword starts with c: it is CC *)
        assert (Ekw : kw = "cc"%string).
        { destruct (s2b kw) as [|c0 cs0] eqn:E; [discriminate LK|]. injection LK as L0 _. apply (Hcc cs0). rewrite <- C, L0. reflexivity. }
        subst kw. change (s2b "cc") with [99; 99] in LK, Hh. injection LK as _ L1.
        destruct KW' as [|c2 [|? ?]]; try discriminate L1. cbn [map] in L1. injection L1 as L1.
        step ltac:(idtac).
        2:{ cbv beta. cbn [app]. cbn [cur_val]. rewrite L1. change (99 =? 99) with true. cbv iota.
            cbv beta iota; erewrite bind_ok; [|apply consume_rt; unfold tok_is; rewrite (LT c2); [reflexivity|cbn; tauto]].
            cbv beta iota; erewrite bind_ok; [|exact Hh]. reflexivity. }
        step ltac:(apply (tail_rt ks t fuel (13 :: r') Ht ltac:(lia) KE)). reflexivity.
      * step ltac:(idtac).
        2:{ cbv beta iota; erewrite bind_ok.
            2:{ apply collect_rt; [intros b Hb; unfold tok_is; rewrite (LT b (or_intror Hb)); reflexivity|exact Hch]. }
            cbv beta iota. change (lower (ch :: KW')) with (map to_lower (ch :: KW')). cbn [map]. rewrite LK.
            cbv beta iota; erewrite bind_ok; [|exact Hh]. reflexivity. }
        step ltac:(apply (tail_rt ks t fuel (13 :: r') Ht ltac:(lia) KE)). reflexivity.
    + step ltac:(unfold p_match; rewrite NC; reflexivity).
      step ltac:(cbv beta iota; erewrite bind_ok; [|apply (key_rt k1 e1 fuel _ Hk1 ltac:(lia) FK)]; reflexivity).
      step ltac:(apply (tail_rt ks t fuel (13 :: r') Ht ltac:(lia) KE)). reflexivity.
  - (* CHARSET *)
    cbn [app]. repeat (rewrite <- app_assoc; cbn [app]).
    cbn [length] in Hl. repeat (rewrite app_length in Hl; cbn [length] in Hl).
    step ltac:(apply (consume_rt (tok_is TT_SP)); reflexivity).
    pose proof (letters_of_kw "charset" K HK eq_refl) as LT.
    assert (LK : lower K = s2b "charset") by exact HK. change (s2b "charset") with [99; 104; 97; 114; 115; 101; 116] in LK.
    destruct K as [|ch K']; [discriminate LK|]. unfold lower in LK. cbn [map] in LK. injection LK as L0 L1.
    destruct K' as [|c2 K'']; [discriminate L1|]. cbn [map] in L1. injection L1 as L1 L2.
    cbn [app].
    step ltac:(unfold p_match; cbn [cur_tok cur_val tl]; unfold tok_is; rewrite (LT ch (or_introl eq_refl)), N.eqb_refl; reflexivity).
    cbv beta iota. rewrite L0. change (99 =? 99) with true. cbv iota.
    assert (FT : is_astring_char (cur_tok (t ++ 13 :: r')) = false).
    { destruct Ht; [congruence|reflexivity]. }
    step ltac:(idtac).
    2:{ cbv beta. cbn [app]. cbn [cur_val]. rewrite L1. change (104 =? 99) with false. cbv iota.
        cbv beta iota; erewrite bind_ok.
        2:{ apply (bytes_fold_rt (s2b "HARSET") (c2 :: K'')). unfold lower. cbn [map]. rewrite L1, L2. reflexivity. }
        cbv beta iota; erewrite bind_ok; [|apply (consume_rt (tok_is TT_SP)); reflexivity].
        cbv beta iota; erewrite bind_ok; [|apply astring_rt; [exact Hcs|exact FT]]. reflexivity. }
    step ltac:(apply (tail_rt keys t fuel (13 :: r') Ht ltac:(lia) KE)).
    cbv beta iota. cbn [fst snd app]. destruct keys; [congruence|reflexivity].
Qed.
