(* C13 — erasing the ID header that SetHeaderValue inserted gives back the original literal.
   Main ingredients: the header parser is local (an entry that ends inside a prefix does not depend on what follows,
   apart from one look-ahead byte), the inserted line parses as one entry, Split moves by the length of the line. *)
From Coq Require Import List NArith Bool Arith Lia.
From Gluon Require Import Base.DecBytes Model.Rfc822Split Model.Rfc822Header Proofs.Rfc822HeaderProofs Gen.FactsHeaderKey.
Import ListNotations.

(* a byte that is neither white space, CR, LF nor ':' *)
Definition plain (b : N) : bool :=
  negb (isWSP b) && negb (N.eqb b CR) && negb (N.eqb b LF) && negb (N.eqb b COLON).
Definition plain_head (r : bytes) : Prop := exists b t, r = b :: t /\ plain b = true.

Lemma plain_facts : forall b, plain b = true ->
  isWSP b = false /\ N.eqb b CR = false /\ N.eqb b LF = false /\ N.eqb b COLON = false.
Proof.
  intros b H. unfold plain in H. repeat (apply andb_true_iff in H as [H ?]).
  repeat split; apply negb_true_iff; assumption.
Qed.

Lemma plain_head_not_wsp : forall r, plain_head r -> next_is_wsp r = false.
Proof. intros r (b & t & -> & H). cbn. apply plain_facts in H. tauto. Qed.

(* ---------- locality of the pieces of next ---------- *)
Lemma find_key_line_local : forall a r r' i ok m, find_key (a ++ r) i ok = KLine m -> m <= i + length a ->
  find_key (a ++ r') i ok = KLine m.
Proof.
  induction a as [|b t IH]; intros r r' i ok m H Hm.
  - cbn [app] in H. apply find_key_line in H. cbn [length] in Hm. lia.
  - cbn [app find_key] in *. destruct (N.eqb b COLON).
    + destruct (t ++ r); discriminate.
    + destruct (N.eqb b LF); [exact H|]. cbn [length] in Hm. apply IH with (r := r); auto. lia.
Qed.

Lemma find_key_colon_local : forall a r r' i ok j ok' rest, r <> [] -> r' <> [] ->
  find_key (a ++ r) i ok = KColon j ok' rest -> j < i + length a ->
  exists ra, rest = ra ++ r /\ find_key (a ++ r') i ok = KColon j ok' (ra ++ r') /\ S j + length ra = i + length a.
Proof.
  induction a as [|b t IH]; intros r r' i ok j ok' rest Hr Hr' H Hj.
  - cbn [app] in H. apply find_key_colon in H. cbn [length] in Hj. lia.
  - cbn [app find_key] in *. destruct (N.eqb b COLON).
    + destruct (t ++ r) as [|c u] eqn:E; [destruct t; [contradiction|discriminate]|].
      inversion H; subst. exists t. rewrite <- E. split; [reflexivity|]. split; [|cbn [length]; lia].
      destruct (t ++ r') eqn:E'; [destruct t; [contradiction|discriminate]|]. reflexivity.
    + destruct (N.eqb b LF); [discriminate|]. cbn [length] in Hj.
      destruct (IH r r' (S i) _ j ok' rest Hr Hr' H ltac:(lia)) as (ra & A & B & C).
      exists ra. repeat split; auto. cbn [length]. lia.
Qed.

(* no ':' and no LF in front of the key's colon *)
Lemma find_key_colon_prefix : forall s i ok j ok' rest, find_key s i ok = KColon j ok' rest ->
  forallb (fun b => negb (N.eqb b COLON) && negb (N.eqb b LF)) (firstn (j - i) s) = true.
Proof.
  induction s as [|b t IH]; intros i ok j ok' rest H; cbn [find_key] in H; [discriminate|].
  destruct (N.eqb b COLON) eqn:Ec.
  - destruct t; [discriminate|]. inversion H; subst. rewrite Nat.sub_diag. reflexivity.
  - destruct (N.eqb b LF) eqn:El; [discriminate|].
    pose proof (find_key_colon _ _ _ _ _ _ H) as (K1 & _).
    replace (j - i) with (S (j - S i)) by lia. cbn [firstn forallb]. rewrite Ec, El. cbn [negb andb].
    eapply IH; eauto.
Qed.

Lemma skip_wsp_app : forall a r i, next_is_wsp r = false ->
  skip_wsp (a ++ r) i = (fst (skip_wsp a i) ++ r, snd (skip_wsp a i)).
Proof.
  induction a as [|b t IH]; intros r i Hr.
  - cbn [app skip_wsp fst snd]. destruct r as [|c u]; [reflexivity|]. cbn [skip_wsp]. cbn in Hr. rewrite Hr. reflexivity.
  - cbn [app skip_wsp]. destruct (isWSP b).
    + apply IH. exact Hr.
    + reflexivity.
Qed.

Lemma scan_value_local : forall n x r r' so ve, length x <= n -> plain_head r -> plain_head r' ->
  scan_value (x ++ r) so = VDone ve -> ve <= so + length x -> scan_value (x ++ r') so = VDone ve.
Proof.
  induction n as [|n IH]; intros x r r' so ve Hn Hr Hr' H Hve.
  - destruct x; [|cbn in Hn; lia]. cbn [app] in H.
    pose proof (scan_value_spec (length r) r so (le_n _)) as Hs. rewrite H in Hs. cbn [length] in Hve. lia.
  - destruct x as [|b t].
    + cbn [app] in H. pose proof (scan_value_spec (length r) r so (le_n _)) as Hs. rewrite H in Hs. cbn [length] in Hve. lia.
    + cbn [length] in Hn, Hve. cbn [app scan_value] in *.
      destruct (N.eqb b CR).
      * destruct t as [|c t2].
        -- cbn [app] in *. destruct Hr as (c & u & -> & Hc). apply plain_facts in Hc as (_ & _ & Hlf & _).
           rewrite Hlf in H. discriminate.
        -- cbn [app] in *. destruct (N.eqb c LF); [|discriminate]. cbn [length] in Hn, Hve.
           destruct t2 as [|d t3].
           ++ cbn [app] in *. rewrite (plain_head_not_wsp r Hr) in H. rewrite (plain_head_not_wsp r' Hr'). exact H.
           ++ cbn [app next_is_wsp] in *. destruct (isWSP d).
              ** apply (IH (d :: t3) r r'); auto; cbn [length] in *; lia.
              ** exact H.
      * destruct (N.eqb b LF).
        -- destruct t as [|d t3].
           ++ cbn [app] in *. rewrite (plain_head_not_wsp r Hr) in H. rewrite (plain_head_not_wsp r' Hr'). exact H.
           ++ cbn [app next_is_wsp] in *. destruct (isWSP d).
              ** apply (IH (d :: t3) r r'); auto; cbn [length] in *; lia.
              ** exact H.
        -- apply (IH t r r'); auto; lia.
Qed.

Lemma collect_value_local : forall len len' ks ke x r r' o e n, plain_head r -> plain_head r' ->
  collect_value len ks ke (x ++ r) o = NOk e n -> n <= o + length x ->
  collect_value len' ks ke (x ++ r') o = NOk e n.
Proof.
  intros len len' ks ke x r r' o e n Hr Hr' H Hn. unfold collect_value in *.
  rewrite (skip_wsp_app x r o (plain_head_not_wsp r Hr)) in H.
  rewrite (skip_wsp_app x r' o (plain_head_not_wsp r' Hr')).
  destruct (skip_wsp x o) as [x2 so] eqn:Es. cbn [fst snd] in *.
  apply skip_wsp_spec in Es. destruct Es as (E1 & E2 & _ & _).
  destruct Hr as (c & u & -> & Hc). destruct Hr' as (c' & u' & -> & Hc').
  assert (Hne : forall z (w : bytes), match x2 ++ z :: w with [] => len | _ :: _ => so end = so)
    by (intros; destruct x2; reflexivity).
  assert (Hne' : forall z (w : bytes), match x2 ++ z :: w with [] => len' | _ :: _ => so end = so)
    by (intros; destruct x2; reflexivity).
  rewrite Hne in H. rewrite Hne'.
  destruct (scan_value (x2 ++ c :: u) so) as [|ve|so'] eqn:Ev; [discriminate| |].
  - inversion H; subst e n; clear H.
    assert (Hr1 : plain_head (c :: u)) by (exists c, u; auto).
    assert (Hr2 : plain_head (c' :: u')) by (exists c', u'; auto).
    rewrite (scan_value_local (length x2) x2 (c :: u) (c' :: u') so ve (le_n _) Hr1 Hr2 Ev ltac:(lia)). reflexivity.
  - inversion H; subst e n; clear H.
    pose proof (scan_value_spec _ (x2 ++ c :: u) so (le_n _)) as Hs. rewrite Ev in Hs.
    rewrite app_length in Hs. cbn [length] in Hs. lia.
Qed.

Lemma after_linebreak_local : forall len len' ks ke ok x r r' off1 e n, plain_head r -> plain_head r' ->
  after_linebreak len ks ke ok (x ++ r) off1 = NOk e n -> n <= off1 + length x ->
  after_linebreak len' ks ke ok (x ++ r') off1 = NOk e n.
Proof.
  intros len len' ks ke ok x r r' off1 e n Hr Hr' H Hn. unfold after_linebreak in *.
  destruct (negb ok); [discriminate|].
  destruct x as [|b t].
  - cbn [app] in *. pose proof Hr as (c & u & -> & Hc). pose proof Hr' as (c' & u' & -> & Hc').
    apply plain_facts in Hc as (Hw & _). apply plain_facts in Hc' as (Hw' & _).
    rewrite Hw in H. rewrite Hw'. exact H.
  - cbn [app] in *. destruct (isWSP b).
    + change (b :: t ++ r) with ((b :: t) ++ r) in H. change (b :: t ++ r') with ((b :: t) ++ r').
      eapply collect_value_local; [exact Hr|exact Hr'|exact H|exact Hn].
    + exact H.
Qed.

(* after a key's colon at j the entry extends beyond j *)
Lemma hp_next_colon_lt : forall len s off e n j ok rest, off + length s = len ->
  find_key s off true = KColon j ok rest -> hp_next len s off = NOk e n -> S j <= n.
Proof.
  intros len s off e n j ok rest Hinv Ek H. unfold hp_next in H.
  destruct s as [|b0 t0] eqn:Es; [discriminate|]. rewrite <- Es in *. rewrite Ek in H.
  apply find_key_colon in Ek. destruct Ek as (K1 & K2 & K3 & K4 & K5 & K6).
  assert (Hlt : off < len) by (subst s; cbn [length] in Hinv; lia).
  destruct rest as [|c t]; [contradiction|]. cbn [length] in K4.
  destruct (isWSP c).
  { destruct ok; [|discriminate]. apply collect_value_ok in H; cbn [length]; try lia. }
  destruct (N.eqb c CR).
  { destruct t as [|d t'].
    - apply after_linebreak_ok in H; try lia. right. split; [reflexivity|]. cbn [length] in K4. lia.
    - destruct (N.eqb d LF); [|discriminate]. cbn [length] in K4. apply after_linebreak_ok in H; try lia. }
  destruct (N.eqb c LF).
  { apply after_linebreak_ok in H; try lia. }
  destruct (N.eqb c COLON); [discriminate|].
  destruct ok; [|discriminate]. apply collect_value_ok in H; cbn [length]; try lia.
Qed.

(* the header parser is local *)
Lemma hp_next_local : forall a r r' len len' off e n, plain_head r -> plain_head r' ->
  off + length (a ++ r) = len ->
  hp_next len (a ++ r) off = NOk e n -> n <= off + length a ->
  hp_next len' (a ++ r') off = NOk e n.
Proof.
  intros a r r' len len' off e n Hr Hr' Hinv H Hn.
  assert (Hrne : r <> []) by (destruct Hr as (? & ? & -> & _); discriminate).
  assert (Hrne' : r' <> []) by (destruct Hr' as (? & ? & -> & _); discriminate).
  pose proof (hp_next_ok _ _ _ _ _ Hinv H) as (E1 & E2 & E3 & E4 & E5 & E6 & E7 & E8).
  destruct a as [|a0 a'] eqn:Ea; [cbn [length] in Hn; lia|]. rewrite <- Ea in *.
  assert (Hs : exists z w, a ++ r = z :: w) by (subst a; eexists _, _; reflexivity).
  assert (Hs' : exists z w, a ++ r' = z :: w) by (subst a; eexists _, _; reflexivity).
  destruct Hs as (z & w & Hz). destruct Hs' as (z' & w' & Hz').
  pose proof H as H0. unfold hp_next in H. unfold hp_next. rewrite Hz in H. rewrite Hz'. rewrite <- Hz in H. rewrite <- Hz'.
  destruct (find_key (a ++ r) off true) as [|m|j ok rest] eqn:Ek; [discriminate| |].
  - inversion H; subst e n. rewrite (find_key_line_local a r r' off true m Ek Hn). reflexivity.
  - pose proof (hp_next_colon_lt _ _ _ _ _ _ _ _ Hinv Ek H0) as Hj.
    destruct (find_key_colon_local a r r' off true j ok rest Hrne Hrne' Ek ltac:(lia)) as (ra & -> & Ek' & Hra).
    rewrite Ek'.
    destruct ra as [|c t].
    + (* the colon is the last byte of a: the value starts in r, the entry cannot end inside a *)
      exfalso. cbn [app] in H. destruct Hr as (c & u & -> & Hc). apply plain_facts in Hc as (Hw & Hcr & Hlf & Hco).
      rewrite Hw, Hcr, Hlf, Hco in H. destruct ok; [|discriminate].
      unfold collect_value in H. cbn [skip_wsp] in H. rewrite Hw in H.
      cbn [length] in Hra.
      pose proof (scan_value_spec _ (c :: u) (S j) (le_n _)) as Hs.
      destruct (scan_value (c :: u) (S j)) as [|ve|so'] eqn:Ev; [discriminate| |];
        inversion H as [[He Hnn]]; cbn [length] in Hs; lia.
    + cbn [app] in *. cbn [length] in Hra.
      destruct (isWSP c).
      { destruct ok; [|discriminate].
        change (c :: t ++ r) with ((c :: t) ++ r) in H. change (c :: t ++ r') with ((c :: t) ++ r').
        eapply (collect_value_local len len' off j (c :: t) r r'); [exact Hr|exact Hr'|exact H|cbn [length]; lia]. }
      destruct (N.eqb c CR).
      { destruct t as [|d t'].
        - cbn [app] in *. exfalso. destruct Hr as (d & u & -> & Hd). apply plain_facts in Hd as (_ & _ & Hlf & _).
          rewrite Hlf in H. discriminate.
        - cbn [app] in *. destruct (N.eqb d LF); [|discriminate].
          eapply (after_linebreak_local len len' off j ok t' r r'); [exact Hr|exact Hr'|exact H|cbn [length] in Hra; lia]. }
      destruct (N.eqb c LF).
      { eapply (after_linebreak_local len len' off j ok t r r'); [exact Hr|exact Hr'|exact H|lia]. }
      destruct (N.eqb c COLON); [discriminate|].
      destruct ok; [|discriminate].
      change (c :: t ++ r) with ((c :: t) ++ r) in H. change (c :: t ++ r') with ((c :: t) ++ r').
      eapply (collect_value_local len len' off j (c :: t) r r'); [exact Hr|exact Hr'|exact H|cbn [length]; lia].
Qed.

(* ---------- entries end behind a line feed ---------- *)
Lemma nth_skipn : forall (l : bytes) k i, nth i (skipn k l) 0%N = nth (k + i) l 0%N.
Proof.
  induction l as [|x l IH]; intros k i.
  - rewrite skipn_nil. destruct i, k; reflexivity.
  - destruct k; [reflexivity|]. cbn [skipn plus nth]. apply IH.
Qed.

Lemma find_key_line_lf : forall s i ok m, find_key s i ok = KLine m -> nth (m - i - 1) s 0%N = LF.
Proof.
  induction s as [|b t IH]; intros i ok m H; cbn [find_key] in H; [discriminate|].
  destruct (N.eqb b COLON); [destruct t; discriminate|].
  destruct (N.eqb b LF) eqn:El.
  - inversion H; subst. replace (S i - i - 1) with 0 by lia. cbn. apply N.eqb_eq. exact El.
  - pose proof (find_key_line _ _ _ _ H) as Hm. specialize (IH _ _ _ H).
    replace (m - i - 1) with (S (m - S i - 1)) by lia. exact IH.
Qed.

Lemma scan_value_lf : forall n s so ve, length s <= n -> scan_value s so = VDone ve -> nth (ve - so - 1) s 0%N = LF.
Proof.
  induction n as [|n IH]; intros s so ve Hn H.
  - destruct s; [discriminate|cbn in Hn; lia].
  - destruct s as [|b t]; [discriminate|]. cbn [length] in Hn. cbn [scan_value] in H.
    destruct (N.eqb b CR).
    + destruct t as [|c t']; [discriminate|]. destruct (N.eqb c LF) eqn:El; [|discriminate]. cbn [length] in Hn.
      destruct (next_is_wsp t').
      * pose proof (scan_value_spec _ t' (S (S so)) (le_n _)) as Hs. rewrite H in Hs.
        specialize (IH t' (S (S so)) ve ltac:(lia) H).
        replace (ve - so - 1) with (S (S (ve - S (S so) - 1))) by lia. exact IH.
      * inversion H; subst. replace (S (S so) - so - 1) with 1 by lia. cbn. apply N.eqb_eq. exact El.
    + destruct (N.eqb b LF) eqn:El.
      * destruct (next_is_wsp t).
        -- pose proof (scan_value_spec _ t (S so) (le_n _)) as Hs. rewrite H in Hs.
           specialize (IH t (S so) ve ltac:(lia) H).
           replace (ve - so - 1) with (S (ve - S so - 1)) by lia. exact IH.
        -- inversion H; subst. replace (S so - so - 1) with 0 by lia. cbn. apply N.eqb_eq. exact El.
      * pose proof (scan_value_spec _ t (S so) (le_n _)) as Hs. rewrite H in Hs.
        specialize (IH t (S so) ve ltac:(lia) H).
        replace (ve - so - 1) with (S (ve - S so - 1)) by lia. exact IH.
Qed.

Lemma collect_value_lf : forall len ks ke s o e n, o + length s = len -> n < len ->
  collect_value len ks ke s o = NOk e n -> o < n /\ nth (n - o - 1) s 0%N = LF.
Proof.
  intros len ks ke s o e n Hinv Hn H. unfold collect_value in H.
  destruct (skip_wsp s o) as [s1 so] eqn:Es. apply skip_wsp_spec in Es. destruct Es as (E1 & E2 & E3 & _).
  pose proof (scan_value_spec _ s1 so (le_n _)) as Hs.
  destruct (scan_value s1 so) as [|ve|so'] eqn:Ev; [discriminate| |].
  - inversion H; subst e n. apply (scan_value_lf _ _ _ _ (le_n _)) in Ev. rewrite E3 in Ev. rewrite nth_skipn in Ev.
    split; [lia|]. replace (ve - o - 1) with (so - o + (ve - so - 1)) by lia. exact Ev.
  - inversion H; subst. lia.
Qed.

Lemma after_linebreak_lf : forall len ks ke ok s off1 e n, off1 + length s = len -> n < len ->
  after_linebreak len ks ke ok s off1 = NOk e n ->
  (n = off1) \/ (off1 < n /\ nth (n - off1 - 1) s 0%N = LF).
Proof.
  intros len ks ke ok s off1 e n Hinv Hn H. unfold after_linebreak in H.
  destruct (negb ok); [discriminate|].
  destruct s as [|b t].
  - right. eapply collect_value_lf; eauto.
  - destruct (isWSP b).
    + right. eapply collect_value_lf; eauto.
    + inversion H; subst. left. reflexivity.
Qed.

Lemma hp_next_ends_lf : forall len s off e n, off + length s = len -> n < len ->
  hp_next len s off = NOk e n -> nth (n - off - 1) s 0%N = LF.
Proof.
  intros len s off e n Hinv Hn H. pose proof H as H0. unfold hp_next in H.
  destruct s as [|b0 t0] eqn:Es; [discriminate|]. rewrite <- Es in *.
  destruct (find_key s off true) as [|m|j ok rest] eqn:Ek; [discriminate| |].
  - inversion H; subst. eapply find_key_line_lf; eauto.
  - pose proof (find_key_colon _ _ _ _ _ _ Ek) as (K1 & K2 & K3 & K4 & K5 & K6).
    destruct rest as [|c t]; [contradiction|]. cbn [length] in K4.
    assert (Hc : nth (S (j - off)) s 0%N = c).
    { replace (S (j - off)) with (S (j - off) + 0) by lia. rewrite <- nth_skipn. rewrite <- K2. reflexivity. }
    assert (Hrest : forall i, nth i (c :: t) 0%N = nth (S (j - off) + i) s 0%N).
    { intros i. rewrite <- nth_skipn. rewrite <- K2. reflexivity. }
    destruct (isWSP c).
    { destruct ok; [|discriminate]. eapply collect_value_lf in H; [|cbn [length]; lia|lia].
      destruct H as [A B]. rewrite Hrest in B. replace (n - off - 1) with (S (j - off) + (n - S j - 1)) by lia. exact B. }
    destruct (N.eqb c CR) eqn:Ecr.
    { destruct t as [|d t'].
      - exfalso. cbn [length] in K4. unfold after_linebreak in H. destruct (negb ok); [discriminate|].
        unfold collect_value in H. cbn in H. inversion H; subst. lia.
      - destruct (N.eqb d LF) eqn:Elf; [|discriminate]. cbn [length] in K4.
        assert (Hd : nth (S (S (j - off))) s 0%N = d).
        { specialize (Hrest 1). cbn [nth] in Hrest. rewrite Hrest. f_equal. lia. }
        eapply after_linebreak_lf in H; [|lia|lia].
        destruct H as [->|[A B]].
        + replace (S (S (S j)) - off - 1) with (S (S (j - off))) by lia. rewrite Hd. apply N.eqb_eq. exact Elf.
        + specialize (Hrest (S (S (n - S (S (S j)) - 1)))). cbn [nth] in Hrest. rewrite B in Hrest.
          rewrite Hrest. f_equal. lia. }
    destruct (N.eqb c LF) eqn:Elf.
    { eapply after_linebreak_lf in H; [|lia|lia].
      destruct H as [->|[A B]].
      - replace (S (S j) - off - 1) with (S (j - off)) by lia. rewrite Hc. apply N.eqb_eq. exact Elf.
      - specialize (Hrest (S (n - S (S j) - 1))). cbn [nth] in Hrest. rewrite B in Hrest.
        rewrite Hrest. f_equal. lia. }
    destruct (N.eqb c COLON); [discriminate|].
    destruct ok; [|discriminate]. eapply collect_value_lf in H; [|cbn [length]; lia|lia].
    destruct H as [A B]. rewrite Hrest in B. replace (n - off - 1) with (S (j - off) + (n - S j - 1)) by lia. exact B.
Qed.

(* ---------- the run of the find loop ---------- *)
Inductive reaches (h : bytes) (p : hentry -> bool) : nat -> nat -> Prop :=
| reach_here : forall off, reaches h p off off
| reach_step : forall off e n k,
    hp_next (length h) (skipn off h) off = NOk e n -> p e = false -> n <= k ->
    reaches h p n k -> reaches h p off k.

Lemma reaches_le : forall h p off k, reaches h p off k -> off <= k.
Proof.
  intros h p off k H. induction H; [lia|].
  assert (Hlt : off < n).
  { destruct (Nat.le_gt_cases off (length h)) as [Hle|Hgt].
    - assert (Hinv : off + length (skipn off h) = length h) by (rewrite skipn_length; lia).
      pose proof (hp_next_ok _ _ _ _ _ Hinv H) as (_ & _ & _ & _ & _ & E6 & _). exact E6.
    - rewrite skipn_all2 in H by lia. discriminate. }
  lia.
Qed.

Lemma hp_find_reaches : forall h p fuel off e, off <= length h ->
  hp_find fuel (length h) p (skipn off h) off = FFound e ->
  reaches h p off (keyStart e) /\ p e = true /\
  exists n, hp_next (length h) (skipn (keyStart e) h) (keyStart e) = NOk e n.
Proof.
  intros h p. induction fuel as [|f IH]; intros off e Hoff H; [discriminate|].
  cbn [hp_find] in H.
  destruct (hp_next (length h) (skipn off h) off) as [| |e1 n] eqn:En; try discriminate.
  assert (Hinv : off + length (skipn off h) = length h) by (rewrite skipn_length; lia).
  pose proof (hp_next_ok _ _ _ _ _ Hinv En) as (E1 & _ & _ & _ & _ & E6 & _ & E8).
  destruct (p e1) eqn:Ep.
  - inversion H; subst e1. rewrite E1. split; [constructor|]. split; [exact Ep|]. exists n. exact En.
  - rewrite skipn_skipn in H. replace (n - off + off) with n in H by lia.
    destruct (Nat.le_gt_cases n (length h)) as [Hle|Hgt].
    + destruct (IH n e Hle H) as (R & Pe & Hn). split; [|auto].
      econstructor; eauto. apply reaches_le in R. exact R.
    + rewrite skipn_all2 in H by lia. destruct f; discriminate.
Qed.

Lemma reaches_find : forall h p off k, reaches h p off k -> forall e n fuel,
  hp_next (length h) (skipn k h) k = NOk e n -> p e = true -> k < length h -> length h - off < fuel ->
  hp_find fuel (length h) p (skipn off h) off = FFound e.
Proof.
  intros h p off k R. induction R as [off|off e1 n1 k En Ep Hn R IH]; intros e n fuel Hk Hp Hlt Hf.
  - destruct fuel; [lia|]. cbn [hp_find]. rewrite Hk, Hp. reflexivity.
  - destruct fuel; [lia|]. cbn [hp_find]. rewrite En, Ep.
    assert (Hoff : off <= length h).
    { destruct (Nat.le_gt_cases off (length h)); [auto|]. rewrite skipn_all2 in En by lia. discriminate. }
    assert (Hinv : off + length (skipn off h) = length h) by (rewrite skipn_length; lia).
    pose proof (hp_next_ok _ _ _ _ _ Hinv En) as (_ & _ & _ & _ & _ & E6 & _).
    rewrite skipn_skipn. replace (n1 - off + off) with n1 by lia.
    eapply IH; eauto. lia.
Qed.

Lemma reaches_last_lf : forall h p off k, reaches h p off k -> off < k -> k < length h ->
  nth (k - 1) h 0%N = LF.
Proof.
  intros h p off k R. induction R as [off|off e1 n1 k En Ep Hn R IH]; intros Hlt Hk; [lia|].
  assert (Hoff : off <= length h) by lia.
  assert (Hinv : off + length (skipn off h) = length h) by (rewrite skipn_length; lia).
  pose proof (hp_next_ok _ _ _ _ _ Hinv En) as (_ & _ & _ & _ & _ & E6 & _).
  destruct (Nat.eq_dec n1 k) as [->|Hne].
  - pose proof (hp_next_ends_lf _ _ _ _ _ Hinv Hk En) as Hl. rewrite nth_skipn in Hl.
    replace (off + (k - off - 1)) with (k - 1) in Hl by lia. exact Hl.
  - apply IH; lia.
Qed.

(* transport of a run through keyless entries over a common prefix P, with different continuations *)
Lemma reaches_transport : forall P r r' p' off, plain_head r -> plain_head r' ->
  (forall e, has_key e = false -> p' e = false) ->
  reaches (P ++ r) has_key off (length P) -> off <= length P ->
  reaches (P ++ r') p' off (length P).
Proof.
  intros P r r' p' off Hr Hr' Hp R. remember (length P) as k eqn:Hk. remember (P ++ r) as h eqn:Hh.
  induction R as [off|off e1 n1 k En Ep Hn R IH]; intros Hoff; [constructor|].
  subst h k.
  assert (Hsk : forall z, skipn off (P ++ z) = skipn off P ++ z).
  { intros z. rewrite skipn_app. replace (off - length P) with 0 by lia. reflexivity. }
  rewrite Hsk in En.
  assert (Hinv : off + length (skipn off P ++ r) = length (P ++ r)).
  { rewrite !app_length, skipn_length. lia. }
  assert (Hn' : n1 <= off + length (skipn off P)) by (rewrite skipn_length; lia).
  pose proof (hp_next_local (skipn off P) r r' (length (P ++ r)) (length (P ++ r')) off e1 n1 Hr Hr' Hinv En Hn') as En'.
  econstructor.
  - rewrite Hsk. exact En'.
  - apply Hp. exact Ep.
  - exact Hn.
  - apply IH; auto.
Qed.

(* ---------- Split over concatenations ---------- *)
Fixpoint split_scan (s : bytes) (st : bool) : option bool :=
  match s with
  | [] => Some st
  | b :: t => if N.eqb b LF then (if st then None else split_scan t true) else split_scan t (st && N.eqb b CR)
  end.

Lemma split_idx_app_some : forall a b st st', split_scan a st = Some st' ->
  split_idx (a ++ b) st = length a + split_idx b st'.
Proof.
  induction a as [|x a IH]; intros b st st' H; cbn [split_scan] in H.
  - inversion H; subst. reflexivity.
  - cbn [app split_idx length]. destruct (N.eqb x LF).
    + destruct st; [discriminate|]. rewrite (IH b true st' H). reflexivity.
    + rewrite (IH b _ st' H). reflexivity.
Qed.

Lemma split_idx_app_none : forall a b st, split_scan a st = None -> split_idx (a ++ b) st <= length a.
Proof.
  induction a as [|x a IH]; intros b st H; cbn [split_scan] in H; [discriminate|].
  cbn [app split_idx length]. destruct (N.eqb x LF).
  - destruct st; [lia|]. specialize (IH b true H). lia.
  - specialize (IH b _ H). lia.
Qed.

Lemma split_scan_ends_lf : forall a st st', split_scan (a ++ [LF]) st = Some st' -> st' = true.
Proof.
  induction a as [|x a IH]; intros st st' H.
  - cbn in H. destruct st; [discriminate|]. inversion H. reflexivity.
  - cbn [app split_scan] in H. destruct (N.eqb x LF).
    + destruct st; [discriminate|]. eapply IH; eauto.
    + eapply IH; eauto.
Qed.

Definition no_crlf (v : bytes) : bool := forallb (fun b => negb (N.eqb b CR) && negb (N.eqb b LF)) v.
Definition valid_key (key : bytes) : Prop :=
  key <> [] /\ forallb (fun b => key_byte_ok b && negb (N.eqb b COLON)) key = true.

Lemma split_scan_no_lf : forall v st, forallb (fun b => negb (N.eqb b LF)) v = true ->
  exists st', split_scan v st = Some st' /\ (st = false -> st' = false).
Proof.
  induction v as [|b t IH]; intros st H.
  - exists st. split; auto.
  - cbn [forallb] in H. apply andb_true_iff in H as [Hb Ht]. apply negb_true_iff in Hb.
    cbn [split_scan]. rewrite Hb. destruct (IH (st && N.eqb b CR) Ht) as (st' & A & B).
    exists st'. split; [exact A|]. intros ->. apply B. reflexivity.
Qed.

Lemma key_byte_facts : forall b, key_byte_ok b = true ->
  isWSP b = false /\ N.eqb b CR = false /\ N.eqb b LF = false.
Proof.
  intros b H. unfold key_byte_ok in H. apply andb_true_iff in H as [H1 H2].
  apply N.leb_le in H1. apply N.leb_le in H2. unfold isWSP, CR, LF.
  repeat split; try (apply orb_false_iff; split); apply N.eqb_neq; lia.
Qed.

(* the inserted line is one complete non-blank line *)
Lemma split_scan_join_line : forall key val, valid_key key -> no_crlf val = true ->
  split_scan (join_line key val) true = Some true.
Proof.
  intros key val [Hne Hk] Hv. unfold join_line.
  assert (G : forall l st, split_scan l st = Some false -> split_scan (l ++ [LF]) st = Some true).
  { induction l as [|x l IH]; intros st H.
    - cbn in H. inversion H; subst. reflexivity.
    - cbn [app split_scan] in *. destruct (N.eqb x LF).
      + destruct st; [discriminate|]. apply IH. exact H.
      + apply IH. exact H. }
  assert (Hj : key ++ [COLON; 32%N] ++ val ++ [CR; LF] = (key ++ [COLON; 32%N] ++ val ++ [CR]) ++ [LF])
    by (rewrite <- !app_assoc; reflexivity).
  rewrite Hj. apply G.
  destruct key as [|b t]; [contradiction|]. cbn [forallb] in Hk. apply andb_true_iff in Hk as [Hb Ht].
  apply andb_true_iff in Hb as [Hb _]. apply key_byte_facts in Hb as (_ & Hcr & Hlf).
  assert (Hnolf : forallb (fun b => negb (N.eqb b LF)) (t ++ [COLON; 32%N] ++ val ++ [CR]) = true).
  { rewrite !forallb_app. cbn [forallb]. repeat (apply andb_true_iff; split); try reflexivity.
    - apply forallb_forall. intros x Hx. rewrite forallb_forall in Ht. specialize (Ht x Hx).
      apply andb_true_iff in Ht as [Hx1 _]. apply key_byte_facts in Hx1 as (_ & _ & Hx3). rewrite Hx3. reflexivity.
    - apply forallb_forall. intros x Hx. unfold no_crlf in Hv. rewrite forallb_forall in Hv. specialize (Hv x Hx).
      apply andb_true_iff in Hv as [_ Hv]. exact Hv. }
  destruct (split_scan_no_lf _ false Hnolf) as (st' & A & B). specialize (B eq_refl). subst st'.
  change ((b :: t) ++ [COLON; 32%N] ++ val ++ [CR]) with (b :: (t ++ [COLON; 32%N] ++ val ++ [CR])).
  cbn [split_scan]. rewrite Hlf, Hcr. cbn [andb]. exact A.
Qed.

(* ---------- the inserted line parses as one entry ---------- *)
Lemma find_key_key : forall key rest i ok, forallb (fun b => key_byte_ok b && negb (N.eqb b COLON)) key = true ->
  rest <> [] ->
  find_key (key ++ COLON :: rest) i ok = KColon (i + length key) ok rest.
Proof.
  induction key as [|b t IH]; intros rest i ok Hk Hr.
  - cbn [app find_key length]. rewrite N.eqb_refl. destruct rest; [contradiction|]. rewrite Nat.add_0_r. reflexivity.
  - cbn [forallb] in Hk. apply andb_true_iff in Hk as [Hb Ht]. apply andb_true_iff in Hb as [Hb Hc].
    apply negb_true_iff in Hc. pose proof (key_byte_facts b Hb) as (_ & _ & Hlf).
    cbn [app find_key length]. rewrite Hc, Hlf, Hb. rewrite andb_true_r.
    rewrite (IH rest (S i) ok Ht Hr). f_equal. lia.
Qed.

Lemma skip_wsp_line : forall v R o, no_crlf v = true ->
  exists v' d, skip_wsp (v ++ CR :: LF :: R) o = (v' ++ CR :: LF :: R, o + d) /\ d + length v' = length v /\ no_crlf v' = true.
Proof.
  induction v as [|b t IH]; intros R o Hv.
  - exists [], 0. cbn [app skip_wsp]. replace (isWSP CR) with false by reflexivity. rewrite Nat.add_0_r. auto.
  - cbn [app skip_wsp]. destruct (isWSP b).
    + pose proof Hv as Hv'. unfold no_crlf in Hv'. cbn [forallb] in Hv'. apply andb_true_iff in Hv' as [_ Ht].
      destruct (IH R (S o) Ht) as (v' & d & A & B & C). exists v', (S d). rewrite A. split; [f_equal; lia|].
      split; [cbn [length]; lia|exact C].
    + exists (b :: t), 0. rewrite Nat.add_0_r. auto.
Qed.

Lemma scan_value_line : forall v R so, no_crlf v = true -> next_is_wsp R = false ->
  scan_value (v ++ CR :: LF :: R) so = VDone (so + length v + 2).
Proof.
  induction v as [|b t IH]; intros R so Hv HR.
  - cbn [app scan_value length]. replace (N.eqb CR CR) with true by reflexivity.
    replace (N.eqb LF LF) with true by reflexivity. rewrite HR. f_equal. lia.
  - unfold no_crlf in Hv. cbn [forallb] in Hv. apply andb_true_iff in Hv as [Hb Ht].
    apply andb_true_iff in Hb as [Hcr Hlf]. apply negb_true_iff in Hcr. apply negb_true_iff in Hlf.
    cbn [app scan_value length]. rewrite Hcr, Hlf. rewrite (IH R (S so) Ht HR). f_equal. lia.
Qed.

Lemma hp_next_inserted_line : forall len key val R k, valid_key key -> no_crlf val = true -> plain_head R ->
  exists e, hp_next len (join_line key val ++ R) k = NOk e (k + length (join_line key val)) /\
            keyStart e = k /\ keyEnd e = k + length key /\ valueEnd e = k + length (join_line key val).
Proof.
  intros len key val R k [Hne Hk] Hv HR. unfold join_line.
  pose proof (plain_head_not_wsp R HR) as HRw.
  assert (Hform : (key ++ [COLON; 32%N] ++ val ++ [CR; LF]) ++ R = key ++ COLON :: (32%N :: val ++ CR :: LF :: R)).
  { rewrite <- !app_assoc. reflexivity. }
  rewrite Hform.
  unfold hp_next.
  destruct (key ++ COLON :: 32%N :: val ++ CR :: LF :: R) as [|z w] eqn:Ez; [destruct key; discriminate|].
  rewrite <- Ez. rewrite (find_key_key key _ k true Hk) by discriminate.
  replace (isWSP 32) with true by reflexivity.
  unfold collect_value.
  assert (Hv32 : no_crlf (32%N :: val) = true) by (unfold no_crlf in *; cbn [forallb]; rewrite Hv; reflexivity).
  change (32%N :: val ++ CR :: LF :: R) with ((32%N :: val) ++ CR :: LF :: R).
  destruct (skip_wsp_line (32%N :: val) R (S (k + length key)) Hv32) as (v' & d & A & B & C).
  rewrite A. rewrite (scan_value_line v' R _ C HRw).
  assert (Hs1 : forall X Y : nat, match v' ++ CR :: LF :: R with [] => X | _ :: _ => Y end = Y) by (intros; destruct v'; reflexivity).
  rewrite Hs1.
  assert (Hlen : S (k + length key) + d + length v' + 2 = k + length (key ++ [COLON; 32%N] ++ val ++ [CR; LF])).
  { rewrite !app_length. cbn [length] in *. lia. }
  rewrite Hlen. eexists. split; [reflexivity|]. cbn [keyStart keyEnd valueEnd]. auto.
Qed.

Lemma hp_next_keyEnd : forall len s off e n j ok rest, off + length s = len ->
  find_key s off true = KColon j ok rest -> hp_next len s off = NOk e n -> keyEnd e = j.
Proof.
  intros len s off e n j ok rest Hinv Ek H. unfold hp_next in H.
  destruct s as [|b0 t0] eqn:Es; [discriminate|]. rewrite <- Es in *. rewrite Ek in H.
  apply find_key_colon in Ek. destruct Ek as (K1 & K2 & K3 & K4 & K5 & K6).
  assert (Hlt : off < len) by (subst s; cbn [length] in Hinv; lia).
  destruct rest as [|c t]; [contradiction|]. cbn [length] in K4.
  destruct (isWSP c).
  { destruct ok; [|discriminate]. apply collect_value_ok in H; cbn [length]; try lia; try tauto. }
  destruct (N.eqb c CR).
  { destruct t as [|d t'].
    - apply after_linebreak_ok in H; try lia; try tauto. right. split; [reflexivity|]. cbn [length] in K4. lia.
    - destruct (N.eqb d LF); [|discriminate]. cbn [length] in K4. apply after_linebreak_ok in H; try lia; try tauto. }
  destruct (N.eqb c LF).
  { apply after_linebreak_ok in H; try lia; try tauto. }
  destruct (N.eqb c COLON); [discriminate|].
  destruct ok; [|discriminate]. apply collect_value_ok in H; cbn [length]; try lia; try tauto.
Qed.

(* a key-bearing entry starts with a plain byte *)
Lemma keyed_entry_plain_head : forall h e n, keyStart e <= length h ->
  hp_next (length h) (skipn (keyStart e) h) (keyStart e) = NOk e n -> has_key e = true ->
  plain_head (skipn (keyStart e) h).
Proof.
  intros h e n Hks Hn Hke.
  assert (Hinv : keyStart e + length (skipn (keyStart e) h) = length h) by (rewrite skipn_length; lia).
  pose proof (hp_next_key_valid _ _ _ _ _ Hinv Hn Hke) as (K1 & K2 & K3 & K4).
  assert (Hkk : keyStart e < keyEnd e).
  { unfold has_key in Hke. destruct (Nat.eqb_spec (keyStart e) (keyEnd e)); [discriminate|].
    pose proof (hp_next_ok _ _ _ _ _ Hinv Hn) as (_ & E2 & _). lia. }
  destruct (skipn (keyStart e) h) as [|b t] eqn:Es; [cbn [length] in Hinv; lia|].
  exists b, t. split; [reflexivity|].
  replace (keyEnd e - keyStart e) with (S (keyEnd e - keyStart e - 1)) in K2 by lia. cbn [firstn forallb] in K2.
  apply andb_true_iff in K2 as [Kb _]. pose proof (key_byte_facts b Kb) as (A1 & A2 & A3).
  assert (Hnc : N.eqb b COLON = false).
  { pose proof Hn as Hn'. unfold hp_next in Hn'.
    destruct (find_key (b :: t) (keyStart e) true) as [|m|j ok rest] eqn:Ek.
    - discriminate.
    - inversion Hn' as [[He Hm]]. rewrite <- He in Hke. unfold has_key in Hke. cbn in Hke. rewrite Nat.eqb_refl in Hke. discriminate.
    - pose proof (find_key_colon_prefix _ _ _ _ _ _ Ek) as Hpre.
      rewrite <- (hp_next_keyEnd _ _ _ _ _ _ _ _ Hinv Ek Hn) in Hpre.
      replace (keyEnd e - keyStart e) with (S (keyEnd e - keyStart e - 1)) in Hpre by lia.
      cbn [firstn forallb] in Hpre. apply andb_true_iff in Hpre as [Hb _]. apply andb_true_iff in Hb as [Hb _].
      apply negb_true_iff in Hb. exact Hb. }
  unfold plain. rewrite A1, A2, A3, Hnc. reflexivity.
Qed.

Lemma firstn_snoc_nth : forall (l : bytes) m, m < length l -> firstn (S m) l = firstn m l ++ [nth m l 0%N].
Proof.
  induction l as [|x l IH]; intros m Hm; [cbn in Hm; lia|].
  destruct m; [reflexivity|]. cbn [length] in Hm. cbn [firstn nth app]. f_equal. apply IH. lia.
Qed.

(* ---------- the theorem ---------- *)
Definition has_field (lit : bytes) : bool :=
  match hp_find (S (length (split_header lit))) (length (split_header lit)) has_key (split_header lit) 0 with
  | FFound _ => true
  | _ => false
  end.

Lemma bytes_eqb_refl : forall a, bytes_eqb a a = true.
Proof. induction a as [|x a IH]; [reflexivity|]. cbn. rewrite N.eqb_refl, IH. reflexivity. Qed.

Theorem erase_set_header : forall lit key val out,
  valid_key key -> no_crlf val = true -> has_field lit = true ->
  set_header_value lit key val = Some out ->
  erase_header_value out key = Some lit.
Proof.
  intros lit key val out Hkey Hval Hf Hset.
  unfold has_field in Hf. unfold set_header_value in Hset.
  set (raw := split_header lit) in *. set (L := length raw) in *.
  destruct (hp_find (S L) L has_key raw 0) as [e| | |] eqn:Efind; try discriminate.
  inversion Hset; subst out; clear Hset Hf.
  set (k := keyStart e) in *. set (line := join_line key val) in *.
  (* the run on the original header *)
  assert (Efind' : hp_find (S L) (length raw) has_key (skipn 0 raw) 0 = FFound e) by exact Efind.
  destruct (hp_find_reaches raw has_key (S L) 0 e (Nat.le_0_l _) Efind') as (R & Hke & n & Hn).
  fold k in R, Hn.
  assert (Hk_le : k <= length raw).
  { destruct (Nat.le_gt_cases k (length raw)); [auto|]. rewrite skipn_all2 in Hn by lia. discriminate. }
  assert (Hinv : k + length (skipn k raw) = length raw) by (rewrite skipn_length; lia).
  pose proof (hp_next_ok _ _ _ _ _ Hinv Hn) as (E1 & E2 & E3 & E4 & E5 & E6 & E7 & E8).
  pose proof (hp_next_key_valid _ _ _ _ _ Hinv Hn Hke) as (K1 & K2 & K3 & K4).
  assert (Hkk : k < keyEnd e).
  { unfold has_key in Hke. destruct (Nat.eqb_spec (keyStart e) (keyEnd e)); [discriminate|]. unfold k. lia. }
  assert (Hklt : k < L) by (unfold L; lia).
  (* decomposition *)
  set (P := firstn k raw). set (R0 := skipn k raw).
  assert (Hraw : raw = P ++ R0) by (unfold P, R0; symmetry; apply firstn_skipn).
  assert (HlenP : length P = k) by (unfold P; rewrite firstn_length; lia).
  assert (HR0 : plain_head R0) by (unfold R0, k; eapply keyed_entry_plain_head; eauto).
  assert (Hline : plain_head (line ++ R0)).
  { destruct Hkey as [Hne Hk]. unfold line, join_line. destruct key as [|b t]; [contradiction|].
    exists b, ((t ++ [COLON; 32%N] ++ val ++ [CR; LF]) ++ R0). split; [reflexivity|].
    cbn [forallb] in Hk. apply andb_true_iff in Hk as [Hb _]. apply andb_true_iff in Hb as [Hb Hc].
    pose proof (key_byte_facts b Hb) as (A1 & A2 & A3). apply negb_true_iff in Hc.
    unfold plain. rewrite A1, A2, A3, Hc. reflexivity. }
  (* lit and out *)
  assert (Hlit : lit = P ++ R0 ++ split_body lit).
  { rewrite app_assoc. rewrite <- Hraw. symmetry. apply split_header_body. }
  assert (Hfirst : firstn k lit = P).
  { rewrite Hlit. rewrite firstn_app. rewrite HlenP, Nat.sub_diag. cbn [firstn]. rewrite app_nil_r.
    rewrite <- HlenP. apply firstn_all. }
  assert (Hskip : skipn k lit = R0 ++ split_body lit).
  { rewrite Hlit at 1. rewrite skipn_app. rewrite HlenP, Nat.sub_diag. cbn [skipn].
    rewrite <- HlenP. rewrite skipn_all. reflexivity. }
  rewrite Hfirst, Hskip.
  set (body := split_body lit) in *.
  (* Split of out *)
  assert (Hsplit_lit : split_idx (P ++ R0 ++ body) true = length P + length R0).
  { rewrite <- Hlit. fold (split_idx lit true). rewrite <- split_header_length. fold raw. rewrite Hraw, app_length. reflexivity. }
  assert (HscanP : split_scan P true = Some true).
  { destruct (split_scan P true) as [st|] eqn:Es.
    - destruct (Nat.eq_dec k 0) as [Hk0|Hk0].
      + assert (HPnil : P = []) by (destruct P; [reflexivity|cbn in HlenP; lia]).
        rewrite HPnil in Es. cbn in Es. inversion Es. reflexivity.
      + (* P ends with LF *)
        assert (Hlf : nth (k - 1) raw 0%N = LF) by (eapply reaches_last_lf; eauto; lia).
        assert (HP : P = firstn (k - 1) raw ++ [LF]).
        { unfold P. replace k with (S (k - 1)) at 1 by lia. rewrite <- Hlf. apply firstn_snoc_nth. unfold L in Hklt. lia. }
        rewrite HP in Es. apply split_scan_ends_lf in Es. subst st. reflexivity.
    - exfalso. pose proof (split_idx_app_none P (R0 ++ body) true Es) as Hle. rewrite Hsplit_lit in Hle.
      assert (1 <= length R0) by (destruct HR0 as (? & ? & -> & _); cbn [length]; lia). lia. }
  assert (HR0body : split_idx (R0 ++ body) true = length R0).
  { pose proof (split_idx_app_some P (R0 ++ body) true true HscanP) as H1. rewrite Hsplit_lit in H1. lia. }
  assert (Hsplit_out : split_header (P ++ line ++ R0 ++ body) = P ++ line ++ R0).
  { unfold split_header.
    rewrite (split_idx_app_some P (line ++ R0 ++ body) true true HscanP).
    rewrite (split_idx_app_some line (R0 ++ body) true true (split_scan_join_line key val Hkey Hval)).
    rewrite HR0body.
    replace (P ++ line ++ R0 ++ body) with ((P ++ line ++ R0) ++ body) by (rewrite <- !app_assoc; reflexivity).
    replace (length P + (length line + length R0)) with (length (P ++ line ++ R0)) by (rewrite !app_length; lia).
    rewrite firstn_app, Nat.sub_diag, firstn_all. cbn [firstn]. apply app_nil_r. }
  (* the find loop on the new header *)
  unfold erase_header_value. rewrite Hsplit_out.
  set (raw' := P ++ line ++ R0). set (p' := key_is raw' key).
  assert (Hrej : forall e0, has_key e0 = false -> p' e0 = false).
  { intros e0 H0. unfold p', key_is. rewrite H0. reflexivity. }
  assert (R' : reaches raw' p' 0 (length P)).
  { unfold raw'. apply (reaches_transport P R0 (line ++ R0) p' 0 HR0 Hline Hrej); [|lia].
    rewrite <- Hraw. rewrite HlenP. exact R. }
  destruct (hp_next_inserted_line (length raw') key val R0 k Hkey Hval HR0) as (e' & Hn' & F1 & F2 & F3).
  fold line in Hn', F3.
  assert (Hskip' : skipn (length P) raw' = line ++ R0).
  { unfold raw'. rewrite skipn_app, Nat.sub_diag, skipn_all. reflexivity. }
  assert (Hp'e : p' e' = true).
  { unfold p', key_is. assert (Hhk : has_key e' = true).
    { unfold has_key. rewrite F1, F2. destruct Hkey as [Hne _]. destruct key; [contradiction|].
      cbn [length]. destruct (Nat.eqb_spec k (k + S (length key))); [lia|reflexivity]. }
    rewrite Hhk. cbn [andb].
    assert (Hek : e_key raw' e' = key).
    { unfold e_key, slice. rewrite F1, F2. rewrite <- HlenP, Hskip'. replace (length P + length key - length P) with (length key) by lia.
      unfold line, join_line. rewrite <- app_assoc. rewrite firstn_app, Nat.sub_diag, firstn_all. cbn [firstn]. apply app_nil_r. }
    rewrite Hek. apply bytes_eqb_refl. }
  assert (Hfind' : hp_find (S (length raw')) (length raw') p' (skipn 0 raw') 0 = FFound e').
  { eapply (reaches_find raw' p' 0 (length P) R' e' (k + length line)).
    - rewrite Hskip'. rewrite HlenP. exact Hn'.
    - exact Hp'e.
    - unfold raw'. rewrite !app_length. destruct HR0 as (? & ? & -> & _). cbn [length]. lia.
    - lia. }
  cbn [skipn] in Hfind'. rewrite Hfind'. f_equal.
  rewrite F1, F3.
  replace (P ++ line ++ R0 ++ body) with (P ++ (line ++ R0 ++ body)) by reflexivity.
  rewrite firstn_app. rewrite HlenP, Nat.sub_diag. cbn [firstn]. rewrite app_nil_r.
  rewrite <- HlenP at 1. rewrite firstn_all.
  rewrite skipn_app. replace (k + length line - length P) with (length line) by lia.
  rewrite (skipn_all2 P) by lia. cbn [app].
  rewrite skipn_app, Nat.sub_diag, skipn_all. cbn [skipn app].
  symmetry. exact Hlit.
Qed.

(* non-vacuity: a message whose header has no field at all (a blank first line) is the case the hypothesis
   excludes — there the line is appended to the (empty) header, i.e. in front of the body, and is not found again *)
Example erase_set_header_needs_a_field :
  let lit := [13; 10; 98; 111; 100; 121]%N in            (* CRLF "body" *)
  let key := [88; 45; 73; 100]%N in                       (* X-Id *)
  has_field lit = false /\
  exists out, set_header_value lit key [49%N] = Some out /\ erase_header_value out key <> Some lit.
Proof. vm_compute. split; [reflexivity|]. eexists. split; [reflexivity|]. discriminate. Qed.

(* ---------- which bytes a field name may consist of ---------- *)
(* T1: the comparison constants of validateHeaderField are those of the model *)
Lemma key_byte_ok_is_fact_range : forall b,
  key_byte_ok b = (N.leb header_key_lo b && N.leb b header_key_hi) /\ header_key_lo = 33%N /\ header_key_hi = 126%N.
Proof. intros b. repeat split. Qed.

(* every key-bearing entry the parser yields has a name of bytes 33..126 without ':' *)
Lemma keyed_entry_name_bytes : forall h e n, keyStart e <= length h ->
  hp_next (length h) (skipn (keyStart e) h) (keyStart e) = NOk e n -> has_key e = true ->
  e_key h e <> [] /\
  forallb (fun b => key_byte_ok b && negb (N.eqb b COLON)) (e_key h e) = true.
Proof.
  intros h e n Hks Hn Hke.
  assert (Hinv : keyStart e + length (skipn (keyStart e) h) = length h) by (rewrite skipn_length; lia).
  pose proof (hp_next_key_valid _ _ _ _ _ Hinv Hn Hke) as (K1 & K2 & K3 & K4).
  pose proof (hp_next_ok _ _ _ _ _ Hinv Hn) as (_ & E2 & _).
  assert (Hkk : keyStart e < keyEnd e).
  { unfold has_key in Hke. destruct (Nat.eqb_spec (keyStart e) (keyEnd e)); [discriminate|lia]. }
  assert (Hkey : e_key h e = firstn (keyEnd e - keyStart e) (skipn (keyStart e) h)) by reflexivity.
  split.
  { intros Hnil. assert (Hl : length (e_key h e) = keyEnd e - keyStart e) by (unfold e_key; apply slice_length; lia).
    rewrite Hnil in Hl. cbn in Hl. lia. }
  rewrite Hkey.
  assert (Hpre : forallb (fun b => negb (N.eqb b COLON) && negb (N.eqb b LF))
                   (firstn (keyEnd e - keyStart e) (skipn (keyStart e) h)) = true).
  { pose proof Hn as Hn'. unfold hp_next in Hn'.
    destruct (skipn (keyStart e) h) as [|b0 t0] eqn:Es; [discriminate|]. rewrite <- Es in *.
    destruct (find_key (skipn (keyStart e) h) (keyStart e) true) as [|m|j ok rest] eqn:Ek.
    - try rewrite Es in Hn'. discriminate.
    - try rewrite Es in Hn'. inversion Hn' as [[He Hm]]. rewrite <- He in Hke. unfold has_key in Hke. cbn in Hke.
      rewrite Nat.eqb_refl in Hke. discriminate.
    - pose proof (find_key_colon_prefix _ _ _ _ _ _ Ek) as Hp.
      rewrite <- (hp_next_keyEnd _ _ _ _ _ _ _ _ Hinv Ek Hn) in Hp. exact Hp. }
  revert K2 Hpre. generalize (firstn (keyEnd e - keyStart e) (skipn (keyStart e) h)).
  induction l as [|b l IH]; intros K2 Hpre; [reflexivity|].
  cbn [forallb] in *. apply andb_true_iff in K2 as [A1 A2]. apply andb_true_iff in Hpre as [B1 B2].
  apply andb_true_iff in B1 as [B1 _]. rewrite A1, B1. cbn [andb]. apply IH; assumption.
Qed.

(* ---------- SetHeaderValue preserves every other byte, in both branches ---------- *)
Lemma set_header_preserves : forall lit key val out, set_header_value lit key val = Some out ->
  exists k, k <= length (split_header lit) /\
            out = firstn k lit ++ join_line key val ++ skipn k lit /\
            length out = length lit + length (join_line key val).
Proof.
  intros lit key val out H. unfold set_header_value in H.
  set (raw := split_header lit) in *.
  destruct (hp_find (S (length raw)) (length raw) has_key raw 0) as [e| | |] eqn:Ef; try discriminate.
  - inversion H; subst out; clear H.
    assert (Ef' : hp_find (S (length raw)) (length raw) has_key (skipn 0 raw) 0 = FFound e) by exact Ef.
    destruct (hp_find_reaches raw has_key _ 0 e (Nat.le_0_l _) Ef') as (_ & _ & n & Hn).
    assert (Hk : keyStart e <= length raw).
    { destruct (Nat.le_gt_cases (keyStart e) (length raw)); [auto|]. rewrite skipn_all2 in Hn by lia. discriminate. }
    exists (keyStart e). split; [exact Hk|]. split; [reflexivity|].
    rewrite !app_length. pose proof (f_equal (@length N) (firstn_skipn (keyStart e) lit)) as Hl.
    rewrite app_length in Hl. lia.
  - inversion H; subst out; clear H. exists (length raw). split; [lia|].
    assert (Hr : raw = firstn (length raw) lit) by (unfold raw; apply split_header_prefix).
    assert (Hb : split_body lit = skipn (length raw) lit).
    { unfold raw. rewrite split_header_length. reflexivity. }
    rewrite Hb. split; [rewrite <- Hr; reflexivity|].
    rewrite !app_length. pose proof (f_equal (@length N) (firstn_skipn (length raw) lit)) as Hl.
    rewrite app_length in Hl. rewrite <- Hr in Hl. lia.
Qed.
