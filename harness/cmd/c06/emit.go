package main

// Emission of the cases for coq/Run/RunC06.v: relational state before, external inputs, update, ack, state after.
// Identifiers are renamed to small numbers by first occurrence (internal message ids, remote ids, names, flags,
// literals); internal mailbox ids are the real row ids.

import (
	"fmt"
	"sort"
	"strings"
)

type emitter struct {
	lines  []string
	msgID  map[string]int
	msgRID map[string]int
	mbRID  map[string]int
	names  map[string]int
	flags  map[string]int
	lits   map[string]int
}

func (e *emitter) init() {
	if e.msgID != nil {
		return
	}
	e.msgID = map[string]int{}
	e.msgRID = map[string]int{}
	e.mbRID = map[string]int{recoveryRID: 0}
	e.names = map[string]int{"INBOX": 0, "inbox": 1, "Inbox": 2}
	e.flags = map[string]int{}
	e.lits = map[string]int{}
}

func tok(m map[string]int, k string, base int) int {
	if v, ok := m[k]; ok {
		return v
	}
	v := len(m) + base
	m[k] = v
	return v
}

func (e *emitter) mid(iid string) int   { return tok(e.msgID, iid, 1) }
func (e *emitter) mrid(rid string) int  { return tok(e.msgRID, rid, 1) }
func (e *emitter) brid(rid string) int  { return tok(e.mbRID, rid, 0) }
func (e *emitter) name(n string) int    { return tok(e.names, n, 0) }
func (e *emitter) flag(f string) int    { return tok(e.flags, strings.ToLower(f), 1) }
func (e *emitter) lit(marker string) int { return tok(e.lits, marker, 1) }

func nlist(xs []int) string {
	p := make([]string, len(xs))
	for i, x := range xs {
		p[i] = fmt.Sprint(x)
	}
	return "[" + strings.Join(p, "; ") + "]"
}

func (e *emitter) flagList(fs []string) string {
	var xs []int
	for _, f := range normFlags(fs) {
		xs = append(xs, e.flag(f))
	}
	return nlist(xs)
}

// setList: tokens of a mailbox flag / attribute set (same token space as message flags; nothing dropped)
func (e *emitter) setList(fs []string) string {
	var xs []int
	for _, f := range normSet(fs) {
		xs = append(xs, e.flag(f))
	}
	return nlist(xs)
}

func (e *emitter) mbList(rids []string) string {
	var xs []int
	for _, r := range rids {
		xs = append(xs, e.brid(r))
	}
	return nlist(xs)
}

func coqBool(b bool) string {
	if b {
		return "true"
	}
	return "false"
}

func (e *emitter) state(s *dbSnap, litOf map[string]string, nextMb uint64) string {
	var mb, ms, me, seq, ds []string
	for _, m := range s.Mb {
		for _, r := range m.Rows {
			e.mid(r.Msg)
		}
	}
	for _, m := range s.Mb {
		mb = append(mb, fmt.Sprintf("mkMb %d %d %d %d %s %s %s %s", m.IID, e.brid(m.RID), e.name(m.Name), m.UIDV, coqBool(m.Sub), e.setList(m.Flags), e.setList(m.Perm), e.setList(m.Attrs)))
		seq = append(seq, fmt.Sprintf("(%d, %d)", m.IID, m.Next-1))
		for _, r := range m.Rows {
			me = append(me, fmt.Sprintf("mkMe %d %d %d %d", m.IID, r.UID, e.mid(r.Msg), e.mrid(r.RIDCol)))
		}
	}
	msl := append([]*dbMsg{}, s.Ms...)
	key := func(m *dbMsg) string {
		r := m.RID
		if strings.HasPrefix(r, "DELETED") {
			r = "DELETED"
		}
		return litOf[m.IID] + "/" + r
	}
	sort.SliceStable(msl, func(i, j int) bool { return key(msl[i]) < key(msl[j]) })
	for _, m := range msl {
		rid := "None"
		if !strings.HasPrefix(m.RID, "DELETED") {
			rid = fmt.Sprintf("(Some %d)", e.mrid(m.RID))
		}
		l := 999999
		if mk, ok := litOf[m.IID]; ok {
			l = e.lit(mk)
		}
		ms = append(ms, fmt.Sprintf("mkMs %d %s %d %s %s", e.mid(m.IID), rid, l, e.flagList(m.Flags), coqBool(m.Deleted)))
	}
	for _, d := range s.DSub {
		ds = append(ds, fmt.Sprintf("(%d, %d)", e.name(d[0]), e.brid(d[1])))
	}
	j := func(xs []string) string { return "[" + strings.Join(xs, "; ") + "]" }
	return fmt.Sprintf("(mkSt %s %s %s %s %d %s)", j(mb), j(ms), j(me), j(seq), nextMb, j(ds))
}

func (e *emitter) update(u *upd, before *dbSnap) string {
	switch u.Kind {
	case "Noop":
		return "UNoop"
	case "UIDValidityBumped":
		return "UUIDValidityBumped"
	case "MailboxCreated":
		u.defaults()
		return fmt.Sprintf("(UMailboxCreated %d %d %s %s %s)", e.brid(u.MboxRID), e.name(u.Name), e.setList(u.MbFlags), e.setList(u.MbPerm), e.setList(u.MbAttrs))
	case "MailboxDeleted":
		return fmt.Sprintf("(UMailboxDeleted %d)", e.brid(u.MboxRID))
	case "MailboxUpdated":
		return fmt.Sprintf("(UMailboxUpdated %d %d)", e.brid(u.MboxRID), e.name(u.Name))
	case "MailboxIDChanged":
		return fmt.Sprintf("(UMailboxIDChanged %d %d)", u.MboxIID, e.brid(u.MboxRID))
	case "MessagesCreated":
		var items []string
		for _, it := range u.Items {
			items = append(items, fmt.Sprintf("mkItem %d %d %s %s", e.mrid(it.RID), e.lit(it.Marker), e.flagList(it.Flags), e.mbList(it.Mboxes)))
		}
		return fmt.Sprintf("(UMessagesCreated %s [%s])", coqBool(u.Ignore), strings.Join(items, "; "))
	case "MessageMailboxesUpdated":
		return fmt.Sprintf("(UMessageMailboxesUpdated %d %s %s)", e.mrid(u.MsgRID), e.mbList(u.Mboxes), e.flagList(u.Flags))
	case "MessageFlagsUpdated":
		return fmt.Sprintf("(UMessageFlagsUpdated %d %s)", e.mrid(u.MsgRID), e.flagList(u.Flags))
	case "MessageUpdated":
		return fmt.Sprintf("(UMessageUpdated %d %d %s %s %s)", e.mrid(u.MsgRID), e.lit(u.Marker), e.flagList(u.Flags), e.mbList(u.Mboxes), coqBool(u.Allow))
	case "MessageDeleted":
		return fmt.Sprintf("(UMessageDeleted %d)", e.mrid(u.MsgRID))
	case "MessageIDChanged":
		return fmt.Sprintf("(UMessageIDChanged %d %d)", e.mid(u.MsgIID), e.mrid(u.MsgRID))
	}
	return "UNoop"
}

func (e *emitter) emit(w *world, rec *stepRec, before, after *dbSnap, u *upd, ack string) {
	e.init()
	if ack == "none" {
		return
	}
	// message ids are namespaced per episode by the uuid itself; tokens are global across episodes
	var fresh []int
	for _, f := range u.Fresh {
		fresh = append(fresh, e.mid(f))
	}
	a := "AOk"
	if ack != "ok" {
		a = "AErr"
	}
	id := len(e.lines) + 1
	rec.ID = id
	e.lines = append(e.lines, fmt.Sprintf("mkCase %d %s (mkEnv %s %s) %s %s %s", id,
		e.state(before, w.litOf, w.maxMb+1), nlist(fresh), nlist(u.Gens), e.update(u, before), a, e.state(after, w.litOf, 0)))
}
