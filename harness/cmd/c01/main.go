// Command c01: harness of property C01 (see verifharness/sess).
package main

import (
	"verifharness/common"
	"verifharness/sess"
)

func main() { common.Main("C01", sess.Harness("C01")) }
