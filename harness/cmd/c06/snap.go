package main

// Observation side of the C06 harness: the wire view of a fresh session and the relational snapshot read through the
// public db.ReadOnly interface (used for hidden ids only: internal ids, remote ids, "marked deleted").

import (
	"context"
	"crypto/sha256"
	"encoding/hex"
	"fmt"
	"regexp"
	"sort"
	"strconv"
	"strings"

	"github.com/ProtonMail/gluon/db"
	"github.com/ProtonMail/gluon/imap"

	"verifharness/imapc"
)

// ---- db client capture ----

type capIface struct {
	inner  db.ClientInterface
	client db.Client
}

func (c *capIface) New(path string, userID string) (db.Client, bool, error) {
	cl, isNew, err := c.inner.New(path, userID)
	if err == nil {
		c.client = cl
	}
	return cl, isNew, err
}

func (c *capIface) Delete(path string, userID string) error { return c.inner.Delete(path, userID) }

// ---- relational snapshot ----

type dbRow struct {
	UID     int
	Msg     string // internal message id
	RIDCol  string // per-mailbox remote id column
	Deleted bool
}

type dbMb struct {
	IID  uint64
	RID  string
	Name string
	UIDV int
	Sub  bool
	Next int // next UID
	Rows []dbRow
	// FLAGS, PERMANENTFLAGS and attributes of the mailbox (lower-cased, sorted)
	Flags, Perm, Attrs []string
}

type dbMsg struct {
	IID     string
	RID     string
	Deleted bool
	Flags   []string // lower-cased, sorted
}

type dbSnap struct {
	Mb   []*dbMb  // by ascending internal id
	Ms   []*dbMsg // by internal id (string order)
	DSub [][2]string
}

func (s *dbSnap) clone() *dbSnap {
	n := &dbSnap{}
	for _, m := range s.Mb {
		c := *m
		c.Rows = append([]dbRow{}, m.Rows...)
		c.Flags, c.Perm, c.Attrs = append([]string{}, m.Flags...), append([]string{}, m.Perm...), append([]string{}, m.Attrs...)
		n.Mb = append(n.Mb, &c)
	}
	for _, m := range s.Ms {
		c := *m
		c.Flags = append([]string{}, m.Flags...)
		n.Ms = append(n.Ms, &c)
	}
	n.DSub = append([][2]string{}, s.DSub...)
	return n
}

func (s *dbSnap) mbByRID(rid string) *dbMb {
	for _, m := range s.Mb {
		if m.RID == rid {
			return m
		}
	}
	return nil
}

func (s *dbSnap) mbByIID(iid uint64) *dbMb {
	for _, m := range s.Mb {
		if m.IID == iid {
			return m
		}
	}
	return nil
}

func (s *dbSnap) mbByName(name string) *dbMb {
	for _, m := range s.Mb {
		if m.Name == name {
			return m
		}
	}
	return nil
}

func (s *dbSnap) msByRID(rid string) *dbMsg {
	for _, m := range s.Ms {
		if m.RID == rid {
			return m
		}
	}
	return nil
}

func (s *dbSnap) msByIID(iid string) *dbMsg {
	for _, m := range s.Ms {
		if m.IID == iid {
			return m
		}
	}
	return nil
}

func (s *dbSnap) mailboxesOf(iid string) []*dbMb {
	var r []*dbMb
	for _, m := range s.Mb {
		for _, row := range m.Rows {
			if row.Msg == iid {
				r = append(r, m)
				break
			}
		}
	}
	return r
}

func (m *dbMb) has(iid string) bool {
	for _, r := range m.Rows {
		if r.Msg == iid {
			return true
		}
	}
	return false
}

func (s *dbSnap) sortAll() {
	sort.Slice(s.Mb, func(i, j int) bool { return s.Mb[i].IID < s.Mb[j].IID })
	sort.Slice(s.Ms, func(i, j int) bool { return s.Ms[i].IID < s.Ms[j].IID })
	for _, m := range s.Mb {
		sort.Slice(m.Rows, func(i, j int) bool { return m.Rows[i].UID < m.Rows[j].UID })
	}
	sort.Slice(s.DSub, func(i, j int) bool { return s.DSub[i][0]+"\x00"+s.DSub[i][1] < s.DSub[j][0]+"\x00"+s.DSub[j][1] })
}

// normSet: lower-cased, sorted, without duplicates (nothing is dropped).
func normSet(fs []string) []string {
	m := map[string]bool{}
	for _, f := range fs {
		if f = strings.ToLower(strings.TrimSpace(f)); f != "" {
			m[f] = true
		}
	}
	r := make([]string, 0, len(m))
	for f := range m {
		r = append(r, f)
	}
	sort.Strings(r)
	return r
}

func normFlags(fs []string) []string {
	m := map[string]bool{}
	for _, f := range fs {
		f = strings.ToLower(strings.TrimSpace(f))
		if f == "" || f == `\recent` {
			continue
		}
		m[f] = true
	}
	r := make([]string, 0, len(m))
	for f := range m {
		r = append(r, f)
	}
	sort.Strings(r)
	return r
}

func readSnap(cl db.Client) (*dbSnap, error) {
	ctx := context.Background()
	s := &dbSnap{}
	err := cl.Read(ctx, func(ctx context.Context, r db.ReadOnly) error {
		mbs, err := r.GetAllMailboxesWithAttr(ctx)
		if err != nil {
			return err
		}
		for _, mb := range mbs {
			m := &dbMb{IID: uint64(mb.ID), RID: string(mb.RemoteID), Name: mb.Name, UIDV: int(mb.UIDValidity), Sub: mb.Subscribed}
			next, err := r.GetMailboxUID(ctx, mb.ID)
			if err != nil {
				return err
			}
			m.Next = int(next)
			if fl, err := r.GetMailboxFlags(ctx, mb.ID); err == nil {
				m.Flags = normSet(fl.ToSlice())
			} else {
				return err
			}
			if fl, err := r.GetMailboxPermanentFlags(ctx, mb.ID); err == nil {
				m.Perm = normSet(fl.ToSlice())
			} else {
				return err
			}
			m.Attrs = normSet(mb.Attributes.ToSlice())
			rows, err := r.GetMailboxMessageForNewSnapshot(ctx, mb.ID)
			if err != nil {
				return err
			}
			for _, row := range rows {
				m.Rows = append(m.Rows, dbRow{UID: int(row.UID), Msg: row.InternalID.String(), RIDCol: string(row.RemoteID), Deleted: row.Deleted})
			}
			s.Mb = append(s.Mb, m)
		}
		idm, err := r.GetAllMessagesIDsAsMap(ctx)
		if err != nil {
			return err
		}
		var idl []imap.InternalMessageID
		for id := range idm {
			idl = append(idl, id)
		}
		for _, id := range idl {
			rid, err := r.GetMessageRemoteID(ctx, id)
			if err != nil {
				return err
			}
			del, err := r.GetMessageDeletedFlag(ctx, id)
			if err != nil {
				return err
			}
			fl, err := r.GetMessagesFlags(ctx, []imap.InternalMessageID{id})
			if err != nil {
				return err
			}
			var flags []string
			if len(fl) == 1 {
				flags = fl[0].FlagSet.ToSlice()
			}
			s.Ms = append(s.Ms, &dbMsg{IID: id.String(), RID: string(rid), Deleted: del, Flags: normFlags(flags)})
		}
		ds, err := r.GetDeletedSubscriptionSet(ctx)
		if err != nil {
			return err
		}
		for _, d := range ds {
			s.DSub = append(s.DSub, [2]string{d.Name, string(d.RemoteID)})
		}
		return nil
	})
	if err != nil {
		return nil, err
	}
	// rows waiting for the purge (marked deleted, remote id released, in no mailbox) are removed at an arbitrary
	// later moment (end of some session) and cannot be addressed by any update: leave them out
	var ms []*dbMsg
	for _, m := range s.Ms {
		if m.Deleted && strings.HasPrefix(m.RID, "DELETED-") && len(s.mailboxesOf(m.IID)) == 0 {
			continue
		}
		ms = append(ms, m)
	}
	s.Ms = ms
	s.sortAll()
	return s, nil
}

// ---- wire view ----

type vmsg struct {
	UID    int
	IID    string // X-Pm-Gluon-Id header
	Marker string
	Flags  []string
	SHA    string // of the literal without the internal id header
	Size   int    // RFC822.SIZE (-1: not reported)
	Octets int    // number of octets of BODY[] (-1: no body)
}

type mview struct {
	// FLAGS / PERMANENTFLAGS lines of EXAMINE and the attributes of the LIST line (lower-cased, sorted)
	Flags, Perm, Attrs []string
	Name   string
	UIDV   int
	Next   int
	Msgs   []vmsg
	Exists int
}

type wview struct {
	Boxes map[string]*mview
	LSub  []string
}

var (
	reListName = regexp.MustCompile(`^\* (LIST|LSUB) \(([^)]*)\) "(.)" (.*)$`)
	reFlagsLine = regexp.MustCompile(`^\* FLAGS \(([^)]*)\)`)
	rePermLine  = regexp.MustCompile(`\[PERMANENTFLAGS \(([^)]*)\)\]`)
	reSize      = regexp.MustCompile(`RFC822\.SIZE (\d+)`)
	reUIDV     = regexp.MustCompile(`\[UIDVALIDITY (\d+)\]`)
	reUIDNext  = regexp.MustCompile(`\[UIDNEXT (\d+)\]`)
	reMarker   = regexp.MustCompile(`(?m)^X-Marker: (\S+)\r?$`)
	reGluonID  = regexp.MustCompile(`(?mi)^X-Pm-Gluon-Id: (\S+)\r?\n`)
)

func unquote(s string) string {
	s = strings.TrimSpace(s)
	if len(s) >= 2 && s[0] == '"' && s[len(s)-1] == '"' {
		s = s[1 : len(s)-1]
		s = strings.ReplaceAll(s, `\"`, `"`)
		s = strings.ReplaceAll(s, `\\`, `\`)
	}
	return s
}

func litSHA(lit []byte) string {
	b := reGluonID.ReplaceAll(lit, nil)
	h := sha256.Sum256(b)
	return hex.EncodeToString(h[:8])
}

func okCmd(c *imapc.Client, line string) (imapc.Result, error) {
	r, err := c.Cmd(line)
	if err != nil {
		return r, fmt.Errorf("%s: %w", line, err)
	}
	if r.Status != "OK" {
		return r, fmt.Errorf("%s: %s %s", line, r.Status, r.Text)
	}
	return r, nil
}

// freshView reads every mailbox with a new EXAMINE (= a new snapshot built from the database) on the viewing
// session, which stays logged in (ending a session triggers the asynchronous purge of messages marked deleted).
func freshView(c *imapc.Client) (*wview, error) {
	v := &wview{Boxes: map[string]*mview{}}
	r, err := okCmd(c, `LIST "" "*"`)
	if err != nil {
		return nil, err
	}
	var names []string
	listAttrs := map[string][]string{}
	for _, l := range r.Untagged {
		if m := reListName.FindStringSubmatch(l.Text); m != nil {
			if strings.Contains(strings.ToLower(m[2]), `\noselect`) {
				continue
			}
			names = append(names, unquote(m[4]))
			listAttrs[unquote(m[4])] = stored(normSet(strings.Fields(m[2])))
		}
	}
	r, err = okCmd(c, `LSUB "" "*"`)
	if err != nil {
		return nil, err
	}
	for _, l := range r.Untagged {
		if m := reListName.FindStringSubmatch(l.Text); m != nil {
			v.LSub = append(v.LSub, unquote(m[4]))
		}
	}
	sort.Strings(v.LSub)
	for _, name := range names {
		r, err := okCmd(c, "EXAMINE "+imapc.Quote(name))
		if err != nil {
			return nil, err
		}
		mv := &mview{Name: name, Attrs: listAttrs[name]}
		all := r.Text
		for _, l := range r.Untagged {
			if x := reFlagsLine.FindStringSubmatch(l.Text); x != nil {
				mv.Flags = normSet(strings.Fields(x[1]))
			}
			if x := rePermLine.FindStringSubmatch(l.Text); x != nil {
				mv.Perm = normSet(strings.Fields(x[1]))
			}
			all += "\n" + l.Text
			if e := imapc.ParseEv(l); e.Kind == "EXISTS" {
				mv.Exists = e.N
			}
		}
		if m := reUIDV.FindStringSubmatch(all); m != nil {
			mv.UIDV, _ = strconv.Atoi(m[1])
		}
		if m := reUIDNext.FindStringSubmatch(all); m != nil {
			mv.Next, _ = strconv.Atoi(m[1])
		}
		r, err = c.Cmd("UID FETCH 1:* (UID FLAGS RFC822.SIZE BODY.PEEK[])")
		if err != nil {
			return nil, fmt.Errorf("UID FETCH 1:*: %w", err)
		}
		evs := imapc.Evs(r)
		if r.Status != "OK" {
			// a listed message cannot be served: that is an observation, not a harness problem. List the messages
			// without their bodies and fetch the bodies one by one; the unservable ones are marked.
			r2, err := okCmd(c, "UID FETCH 1:* (UID FLAGS RFC822.SIZE)")
			if err != nil {
				return nil, err
			}
			evs = nil
			for _, e := range imapc.Evs(r2) {
				if e.Kind != "FETCH" {
					continue
				}
				r3, err := c.Cmd(fmt.Sprintf("UID FETCH %d (BODY.PEEK[])", e.UID))
				if err != nil {
					return nil, err
				}
				for _, b := range imapc.Evs(r3) {
					if b.Kind == "FETCH" && r3.Status == "OK" {
						e.Lits = b.Lits
					}
				}
				if r3.Status != "OK" {
					e.Lits = [][]byte{[]byte("X-Marker: ?unfetchable(" + r3.Status + ")\r\n")}
				}
				evs = append(evs, e)
			}
		}
		for _, e := range evs {
			if e.Kind != "FETCH" {
				continue
			}
			m := vmsg{UID: e.UID, Flags: normFlags(e.Flags), Size: -1, Octets: -1}
			if x := reSize.FindStringSubmatch(e.Raw); x != nil {
				m.Size, _ = strconv.Atoi(x[1])
			}
			if len(e.Lits) > 0 {
				lit := e.Lits[len(e.Lits)-1]
				m.Octets = len(lit)
				if x := reMarker.FindSubmatch(lit); x != nil {
					m.Marker = string(x[1])
				}
				if x := reGluonID.FindSubmatch(lit); x != nil {
					m.IID = string(x[1])
				}
				m.SHA = litSHA(lit)
			} else {
				m.Marker = "?nolit"
			}
			mv.Msgs = append(mv.Msgs, m)
		}
		sort.Slice(mv.Msgs, func(i, j int) bool { return mv.Msgs[i].UID < mv.Msgs[j].UID })
		v.Boxes[name] = mv
	}
	if len(names) > 0 {
		// leave no mailbox selected: the viewing session must not be touched by later updates
		if _, err := okCmd(c, "CLOSE"); err != nil {
			return nil, err
		}
	}
	return v, nil
}

func (v *wview) String() string {
	var names []string
	for n := range v.Boxes {
		names = append(names, n)
	}
	sort.Strings(names)
	var sb strings.Builder
	for _, n := range names {
		b := v.Boxes[n]
		fmt.Fprintf(&sb, "%s{v%d n%d:", n, b.UIDV, b.Next)
		for _, m := range b.Msgs {
			fmt.Fprintf(&sb, " %d=%s%v", m.UID, m.Marker, m.Flags)
		}
		sb.WriteString("} ")
	}
	fmt.Fprintf(&sb, "lsub=%v", v.LSub)
	return sb.String()
}
