package main

// C18, storage side of "a session only ever sees and affects the mailboxes of the user it authenticated as":
//  * idIsolation     users whose IDs share a prefix up to a character that is special in a file: URI, a URL or a file name
//                    pattern must own separate storage: what one writes is invisible to the other, also after a restart;
//  * removeUserFiles RemoveUser(id, removeFiles=true) removes the files of that user only: users whose ID starts with the
//                    removed ID, or whom the ID matches when read as a pattern, still serve their data after a restart;
//  * dummyCredentials the credential matrix against a server built on the library's reference connector connector.Dummy.

import (
	"context"
	"fmt"
	"net"
	"os"
	"sort"
	"strings"
	"time"

	"github.com/ProtonMail/gluon"
	"github.com/ProtonMail/gluon/connector"
	"github.com/ProtonMail/gluon/imap"

	"verifharness/common"
	"verifharness/hconn"
	"verifharness/imapc"
	"verifharness/srv"
)

type idUser struct {
	id   string
	name string
	pass string
	tag  string
}

func mkIDUsers(ids []string) []idUser {
	var us []idUser
	for k, id := range ids {
		us = append(us, idUser{id: id, name: fmt.Sprintf("idu%d", k), pass: fmt.Sprintf("idpw%d", k), tag: fmt.Sprintf("id%d", k)})
	}
	return us
}

func startIDs(dir string, us []idUser) (*srv.Server, error) {
	var su []srv.User
	for _, u := range us {
		hc := hconn.New([]string{u.name}, u.pass)
		hc.IDPrefix = u.tag + "-"
		su = append(su, srv.User{Names: []string{u.name}, Pass: u.pass, Conn: hc, ID: u.id})
	}
	return srv.Start(srv.Options{Dir: dir, KeepDir: true, Users: su})
}

// own reports what the user sees: mailbox names (sorted) and the markers of the messages in INBOX.
func own(s *srv.Server, u idUser) (boxes []string, markers []string, err error) {
	c, err := s.Login(u.name, u.pass)
	if err != nil {
		return nil, nil, err
	}
	defer c.Close()
	r, err := c.Cmd(`LIST "" "*"`)
	if err != nil {
		return nil, nil, err
	}
	for _, l := range r.Untagged {
		if i := strings.Index(l.Text, ` "/" `); i >= 0 {
			boxes = append(boxes, strings.Trim(l.Text[i+5:], `"`))
		}
	}
	sort.Strings(boxes)
	r, err = c.Cmd("EXAMINE INBOX")
	if err != nil {
		return nil, nil, err
	}
	n := 0
	for _, e := range imapc.Evs(r) {
		if e.Kind == "EXISTS" {
			n = e.N
		}
	}
	if n > 0 {
		r, err = c.Cmd("FETCH 1:* (BODY.PEEK[])")
		if err != nil {
			return nil, nil, err
		}
		for _, e := range imapc.Evs(r) {
			for _, lit := range e.Lits {
				if i := strings.Index(string(lit), "X-Marker: "); i >= 0 {
					markers = append(markers, strings.SplitN(string(lit)[i+10:], "\r", 2)[0])
				}
			}
		}
	}
	sort.Strings(markers)
	_, _ = c.Cmd("LOGOUT")
	return boxes, markers, nil
}

// populate gives the user one mailbox and one message of its own; anomalies (a mailbox that already exists …) are returned.
func populate(s *srv.Server, u idUser) (string, error) {
	c, err := s.Login(u.name, u.pass)
	if err != nil {
		return "", err
	}
	defer c.Close()
	r, err := c.Cmd("CREATE only-" + u.tag)
	if err != nil {
		return "", err
	}
	if r.Status != "OK" {
		return "CREATE only-" + u.tag + " -> " + r.Status + " " + r.Text, nil
	}
	r, err = c.Append("INBOX", "", common.Message(u.tag+"-m", "message of "+u.tag))
	if err != nil {
		return "", err
	}
	if r.Status != "OK" {
		return "APPEND INBOX -> " + r.Status + " " + r.Text, nil
	}
	_, _ = c.Cmd("LOGOUT")
	return "", nil
}

// checkOwn compares what the user sees with what it must see: INBOX, its own mailbox, its own message.
func (x *hs) checkOwn(s *srv.Server, u idUser, canon, when string) error {
	res := x.ctx.Res
	boxes, markers, err := own(s, u)
	if err != nil {
		return err
	}
	res.Evaluations++
	res.Count("id-isolation-views")
	wantBoxes := []string{"INBOX", "only-" + u.tag}
	wantMarkers := []string{u.tag + "-m"}
	if strings.Join(boxes, ",") != strings.Join(wantBoxes, ",") || strings.Join(markers, ",") != strings.Join(wantMarkers, ",") {
		res.Fail(canon, fmt.Sprintf("%s: the user with ID %q sees mailboxes %v and messages %v; its own are %v and %v", when, u.id, boxes, markers, wantBoxes, wantMarkers),
			map[string]interface{}{"id": u.id, "when": when, "boxes": boxes, "markers": markers, "history": x.idHistory})
	}
	return nil
}

func (x *hs) idIsolation() error {
	ctx, res := x.ctx, x.ctx.Res
	groups := [][]string{
		{"account?id=1", "account?id=2"},
		{"acc#1", "acc#2", "acc%231"},
		{"q&a=1", "q&a=2"},
		{"sp ace 1", "sp ace 2"},
		{"ünï-1", "ünï-2"},
		{"a%3Fb", "a?b"},
		{"semi;1", "semi;2"},
		// opaque IDs: letter case, byte-level differences of equivalent Unicode spellings, trailing dots / spaces matter
		{"AbC", "abc", "ABC"},
		{"caf\u00e9", "cafe\u0301", "CAF\u00c9"},
		{"dot", "dot.", "dot.."},
		{"sp", "sp ", "sp  "},
	}
	for _, g := range groups {
		canon := fmt.Sprintf("isolation user-ids ids=%q", g)
		ctx.Current(canon, g)
		dir, err := os.MkdirTemp("", "verif-c18-ids-*")
		if err != nil {
			return err
		}
		us := mkIDUsers(g)
		x.idHistory = nil
		for _, u := range us {
			x.idHistory = append(x.idHistory, fmt.Sprintf("LoadUser(id=%q, login %s)", u.id, u.name))
		}
		for _, u := range us {
			x.idHistory = append(x.idHistory, fmt.Sprintf("%s: LOGIN; CREATE only-%s; APPEND INBOX (marker %s-m); LOGOUT", u.name, u.tag, u.tag))
		}
		s, err := startIDs(dir, us)
		if err != nil {
			// the users of one group are loaded one after the other: a failure here is the second one meeting the
			// first one's storage
			res.Evaluations++
			res.Fail(canon+" result=users-cannot-coexist", fmt.Sprintf("a server with the user IDs %q does not start: %v", g, err), g)
			os.RemoveAll(dir)
			continue
		}
		bad := false
		for _, u := range us {
			what, err := populate(s, u)
			if err != nil {
				stopBounded(s)
				return err
			}
			if what != "" {
				bad = true
				res.Evaluations++
				res.Fail(canon+" result=foreign-data-visible", fmt.Sprintf("user with ID %q, fresh account: %s", u.id, what), g)
			}
		}
		if !bad {
			for _, u := range us {
				if err := x.checkOwn(s, u, canon+" result=foreign-data-visible", "after every user created its mailbox and message"); err != nil {
					stopBounded(s)
					return err
				}
			}
		}
		stopBounded(s)
		res.Nontrivial(canon)
		if !bad {
			// both survive a restart separately
			s2, err := startIDs(dir, us)
			if err != nil {
				res.Fail(canon+" result=restart-fails", fmt.Sprintf("restart with the user IDs %q: %v", g, err), g)
			} else {
				for _, u := range us {
					if err := x.checkOwn(s2, u, canon+" result=data-lost-or-mixed-after-restart", "after a restart"); err != nil {
						stopBounded(s2)
						return err
					}
				}
				stopBounded(s2)
			}
		}
		os.RemoveAll(dir)
	}
	return nil
}

func (x *hs) removeUserFiles() error {
	ctx, res := x.ctx, x.ctx.Res
	// removed first, then the users that must survive: IDs that start with the removed ID, or that the removed ID
	// matches when it is read as a file name pattern
	rounds := []struct {
		remove string
		others []string
	}{
		{"ab", []string{"abc", "ab.2", "b"}},
		{"a*", []string{"abc", "a", "axyz"}},
		{"a?c", []string{"abc", "a-c"}},
		{"u[12]", []string{"u1", "u2"}},
		{"AbC", []string{"abc", "ABC"}},
		{"dot.", []string{"dot", "dot.."}},
		{"sp ", []string{"sp", "sp  "}},
		{"caf\u00e9", []string{"cafe\u0301"}},
	}
	for _, rd := range rounds {
		canon := fmt.Sprintf("isolation remove-user removed=%q", rd.remove)
		ctx.Current(canon, rd)
		dir, err := os.MkdirTemp("", "verif-c18-rm-*")
		if err != nil {
			return err
		}
		all := mkIDUsers(append([]string{rd.remove}, rd.others...))
		s, err := startIDs(dir, all)
		if err != nil {
			return fmt.Errorf("remove-user scenario: %w", err)
		}
		for _, u := range all {
			if what, err := populate(s, u); err != nil || what != "" {
				stopBounded(s)
				return fmt.Errorf("remove-user scenario setup: %v %v", what, err)
			}
		}
		rctx, cancel := context.WithTimeout(context.Background(), 60*time.Second)
		rerr := s.S.RemoveUser(rctx, rd.remove, true)
		cancel()
		if rerr != nil {
			res.Fail(canon+" result=remove-fails", fmt.Sprintf("RemoveUser(%q, removeFiles): %v", rd.remove, rerr), rd)
		}
		survivors := all[1:]
		for _, u := range survivors {
			if err := x.checkOwn(s, u, canon+" result=other-user-lost-data", "right after RemoveUser of "+rd.remove); err != nil {
				stopBounded(s)
				return err
			}
		}
		stopBounded(s)
		res.Nontrivial(canon)
		// the survivors are loaded again by a new server on the same directories
		s2, err := startIDs(dir, survivors)
		if err != nil {
			res.Fail(canon+" result=restart-fails", fmt.Sprintf("restart without %q: %v", rd.remove, err), rd)
		} else {
			for _, u := range survivors {
				if err := x.checkOwn(s2, u, canon+" result=other-user-lost-data", fmt.Sprintf("RemoveUser(%q, removeFiles=true), then restart", rd.remove)); err != nil {
					stopBounded(s2)
					return err
				}
			}
			stopBounded(s2)
		}
		os.RemoveAll(dir)
	}
	return nil
}

// loginClass sends LOGIN (password as a literal) on a fresh connection and reports the class of the answer and whether the
// connection is authenticated afterwards (LIST answers OK).
func loginClass(addr, name string, pass []byte) (string, bool, error) {
	c, err := imapc.Dial(addr)
	if err != nil {
		return "", false, err
	}
	defer c.Close()
	c.Timeout = 30 * time.Second
	r, err := c.CmdParts([]string{"LOGIN " + imapc.Quote(name) + " ", ""}, [][]byte{pass})
	if err != nil {
		return "closed", false, nil
	}
	auth := false
	if r2, err2 := c.Cmd(`LIST "" "*"`); err2 == nil && r2.Status == "OK" {
		auth = true
	}
	return r.Status, auth, nil
}

// removeUserFailing: RemoveUser(id, removeFiles=true) whose removal of the database files fails (a regular file sits where
// the deferred-delete directory has to be created; a full or read-only disk does the same).  The user has been shut
// down whatever became of its files: none of its credentials - the old password, the empty one - may open a session,
// and the other users go on.  Once with the harness' connector (which keeps answering Authorize after Close, as a
// connector backed by a remote service would) and once with connector.Dummy (which forgets its password on Close).
func (x *hs) removeUserFailing() error {
	ctx, res := x.ctx, x.ctx.Res
	attempts := func(canon, addr, name, oldPass string) error {
		for _, a := range []struct {
			what string
			pass []byte
		}{{"old-password", []byte(oldPass)}, {"empty-password", nil}, {"wrong-password", []byte("wrong")}} {
			status, auth, err := loginClass(addr, name, a.pass)
			if err != nil {
				return err
			}
			res.Evaluations++
			res.Count("removed-user-logins")
			if status == "OK" || auth {
				res.Fail(canon+" result=removed-user-authenticates credentials="+a.what,
					fmt.Sprintf("after RemoveUser (file removal failing) LOGIN %s with the %s was answered %s, authenticated=%v", name, a.what, status, auth), a.what)
			}
		}
		return nil
	}
	// ---- the harness' connector ----
	for _, failing := range []bool{true, false} {
		canon := fmt.Sprintf("remove-user file-removal-fails=%v connector=harness", failing)
		ctx.Current(canon, nil)
		dir, err := os.MkdirTemp("", "verif-c18-rmfail-*")
		if err != nil {
			return err
		}
		us := mkIDUsers([]string{"gone", "stays"})
		s, err := startIDs(dir, us)
		if err != nil {
			return err
		}
		for _, u := range us {
			if what, err := populate(s, u); err != nil || what != "" {
				stopBounded(s)
				return fmt.Errorf("remove-user scenario setup: %v %v", what, err)
			}
		}
		if failing {
			if err := os.WriteFile(dir+"/db/deferred_delete", []byte("in the way"), 0o600); err != nil {
				stopBounded(s)
				return err
			}
		}
		rctx, cancel := context.WithTimeout(context.Background(), 60*time.Second)
		rerr := s.S.RemoveUser(rctx, "gone", true)
		cancel()
		s.Opts.Users = s.Opts.Users[1:] // the harness does not remove this user a second time when it stops the server
		res.Count(fmt.Sprintf("remove-user-error=%v", rerr != nil))
		if err := attempts(canon, s.Addr, us[0].name, us[0].pass); err != nil {
			stopBounded(s)
			return err
		}
		if err := x.checkOwn(s, us[1], canon+" result=other-user-affected", "after RemoveUser of the other user"); err != nil {
			stopBounded(s)
			return err
		}
		res.Nontrivial(canon)
		// a server that kept the shut-down user registered may not survive its own Close: keep what has been found
		_ = res.Write(ctx.Out)
		stopBounded(s)
		os.RemoveAll(dir)
	}
	// ---- connector.Dummy ----
	canon := "remove-user file-removal-fails=true connector=dummy"
	ctx.Current(canon, nil)
	dir, err := os.MkdirTemp("", "verif-c18-rmfail-dummy-*")
	if err != nil {
		return err
	}
	defer os.RemoveAll(dir)
	g, err := gluon.New(gluon.WithDataDir(dir+"/store"), gluon.WithDatabaseDir(dir+"/db"), gluon.WithLoginJailTime(0))
	if err != nil {
		return err
	}
	bg, cancel := context.WithCancel(context.Background())
	defer cancel()
	fl := imap.NewFlagSet(imap.FlagSeen, imap.FlagFlagged, imap.FlagDeleted)
	for i, u := range []struct{ name, pass string }{{"gone", "PassWord1"}, {"stays", "OtherPw2"}} {
		conn := connector.NewDummy([]string{u.name}, []byte(u.pass), time.Hour, fl, fl, imap.NewFlagSet())
		if _, err := g.LoadUser(bg, conn, fmt.Sprintf("dummy-rm-%d", i), []byte(u.pass)); err != nil {
			return fmt.Errorf("LoadUser(dummy): %w", err)
		}
	}
	l, err := net.Listen("tcp", "127.0.0.1:0")
	if err != nil {
		return err
	}
	if err := g.Serve(bg, l); err != nil {
		return err
	}
	defer func() {
		done := make(chan struct{})
		go func() {
			c2, cancel2 := context.WithTimeout(context.Background(), 20*time.Second)
			defer cancel2()
			_ = g.Close(c2)
			close(done)
		}()
		select {
		case <-done:
		case <-time.After(25 * time.Second):
		}
		l.Close()
	}()
	if err := os.WriteFile(dir+"/db/deferred_delete", []byte("in the way"), 0o600); err != nil {
		return err
	}
	rctx, rcancel := context.WithTimeout(context.Background(), 60*time.Second)
	rerr := g.RemoveUser(rctx, "dummy-rm-0", true)
	rcancel()
	res.Count(fmt.Sprintf("remove-user-error=%v", rerr != nil))
	if err := attempts(canon, l.Addr().String(), "gone", "PassWord1"); err != nil {
		return err
	}
	status, auth, err := loginClass(l.Addr().String(), "stays", []byte("OtherPw2"))
	if err != nil {
		return err
	}
	res.Evaluations++
	if status != "OK" || !auth {
		res.Fail(canon+" result=other-user-affected", fmt.Sprintf("LOGIN of the user that was not removed: %s authenticated=%v", status, auth), nil)
	}
	res.Nontrivial(canon)
	return nil
}

// ---- connector.Dummy ----
func (x *hs) dummyCredentials() error {
	ctx, res := x.ctx, x.ctx.Res
	dir, err := os.MkdirTemp("", "verif-c18-dummy-*")
	if err != nil {
		return err
	}
	defer os.RemoveAll(dir)
	g, err := gluon.New(gluon.WithDataDir(dir+"/store"), gluon.WithDatabaseDir(dir+"/db"), gluon.WithLoginJailTime(0))
	if err != nil {
		return err
	}
	bg, cancel := context.WithCancel(context.Background())
	defer cancel()
	fl := imap.NewFlagSet(imap.FlagSeen, imap.FlagFlagged, imap.FlagDeleted)
	type du struct{ name, pass string }
	dus := []du{{"dummy1", "PassWord1"}, {"dummy2", "OtherPw2"}}
	for i, u := range dus {
		conn := connector.NewDummy([]string{u.name}, []byte(u.pass), time.Hour, fl, fl, imap.NewFlagSet())
		if _, err := g.LoadUser(bg, conn, fmt.Sprintf("dummy-user-%d", i), []byte(u.pass)); err != nil {
			return fmt.Errorf("LoadUser(dummy): %w", err)
		}
	}
	l, err := net.Listen("tcp", "127.0.0.1:0")
	if err != nil {
		return err
	}
	if err := g.Serve(bg, l); err != nil {
		return err
	}
	defer func() {
		done := make(chan struct{})
		go func() {
			c2, cancel2 := context.WithTimeout(context.Background(), 20*time.Second)
			defer cancel2()
			_ = g.Close(c2)
			close(done)
		}()
		select {
		case <-done:
		case <-time.After(25 * time.Second):
		}
		l.Close()
	}()
	variants := []struct {
		what string
		name string
		pass []byte
		ok   bool
	}{
		{"exact", "dummy1", []byte("PassWord1"), true},
		{"lower-case", "dummy1", []byte("password1"), false},
		{"upper-case", "dummy1", []byte("PASSWORD1"), false},
		{"one-letter-case", "dummy1", []byte("Password1"), false},
		{"prefix", "dummy1", []byte("PassWord"), false},
		{"suffix", "dummy1", []byte("PassWord12"), false},
		{"empty", "dummy1", []byte(""), false},
		{"other-users-password", "dummy1", []byte("OtherPw2"), false},
		{"trailing-space", "dummy1", []byte("PassWord1 "), false},
		{"trailing-nul", "dummy1", []byte("PassWord1\x00"), false},
		{"name-case", "DUMMY1", []byte("PassWord1"), false},
		{"other-user-exact", "dummy2", []byte("OtherPw2"), true},
		{"other-user-case", "dummy2", []byte("otherpw2"), false},
	}
	for _, v := range variants {
		canon := "login connector=dummy variant=" + v.what
		ctx.Current(canon, nil)
		c, err := imapc.Dial(l.Addr().String())
		if err != nil {
			return err
		}
		c.Timeout = 30 * time.Second
		// the password travels as a literal so that any byte can be sent
		r, err := c.CmdParts([]string{"LOGIN " + imapc.Quote(v.name) + " ", ""}, [][]byte{v.pass})
		status := r.Status
		if err != nil {
			status = "closed"
		}
		// is the connection authenticated now?
		auth := false
		if err == nil {
			if r2, err2 := c.Cmd(`LIST "" "*"`); err2 == nil && r2.Status == "OK" {
				auth = true
			}
		}
		c.Close()
		res.Evaluations++
		res.Count("dummy-credentials")
		res.Nontrivial(canon)
		if v.ok && !(status == "OK" && auth) {
			res.Fail(canon+" result=valid-credentials-refused", fmt.Sprintf("LOGIN %s with the configured password was answered %s %s", v.name, status, r.Text), v.what)
		}
		if !v.ok && (status == "OK" || auth) {
			res.Fail(canon+" result=wrong-credentials-authenticated", fmt.Sprintf("LOGIN %q with password %q (configured %q) was answered %s and the connection is authenticated=%v", v.name, v.pass, "PassWord1/OtherPw2", status, auth), v.what)
		}
	}
	return nil
}
