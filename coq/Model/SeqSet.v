(* C16 — message-set resolution.
   Impl model of: rfcparser.Parser.ParseNumber, imap/command.ParseNZNumber/ParseSeqNumber/ParseSeqRange,
   internal/state snapMsgList.{resolveSeq,resolveUID,resolveSeqInterval,resolveUIDInterval,
   getWithSeqID,existsWithSeqID,seqRange,getMessagesInSeqRange,getWithUID,uidRange,getMessagesInUIDRange}
   and the BAD mapping of ErrNoSuchMessage in the FETCH/STORE/COPY/MOVE/SEARCH handlers.
   No proofs in this file. *)
From Coq Require Import List NArith ZArith Bool.
Import ListNotations.
Open Scope N_scope.

(* ---------- what the client wrote ---------- *)
Inductive wnum := WNum (n : N) | WStar.           (* decimal value of the digits, any magnitude *)
Definition wrange := (wnum * wnum)%type.           (* "a" is written (a,a) by ParseSeqRange *)
Definition wset := list wrange.

(* ---------- parser ---------- *)
Definition two63 : N := 9223372036854775808.
Definition two32 : N := 4294967296.

(* ParseNumber accumulates in a 64-bit signed int; the (repaired) code reports an error when the
   value no longer fits.  ParseNZNumber rejects <= 0.  ParseSeqNumber rejects values that are not
   a 32 bit number (RFC 3501 nz-number). None = parser error = tagged BAD. *)
Definition parse_number (n : N) : option N := if n <? two63 then Some n else None.
Definition parse_nz (n : N) : option N :=
  match parse_number n with Some k => if k =? 0 then None else Some k | None => None end.

Inductive pnum := PNum (n : N) | PStar.            (* command.SeqNum: 0 encodes "*" *)
Definition parse_seqnum (w : wnum) : option pnum :=
  match w with
  | WStar => Some PStar
  | WNum n => match parse_nz n with
              | Some k => if k <? two32 then Some (PNum k) else None
              | None => None end
  end.
Definition parse_range (r : wrange) : option (pnum * pnum) :=
  match parse_seqnum (fst r), parse_seqnum (snd r) with
  | Some a, Some b => Some (a, b) | _, _ => None end.
Fixpoint parse_set (s : wset) : option (list (pnum * pnum)) :=
  match s with
  | [] => Some []
  | r :: t => match parse_range r, parse_set t with
              | Some x, Some l => Some (x :: l) | _, _ => None end
  end.

Definition pnum_eqb (a b : pnum) : bool :=
  match a, b with PStar, PStar => true | PNum x, PNum y => x =? y | _, _ => false end.
Definition is_star (a : pnum) : bool := match a with PStar => true | _ => false end.

(* ---------- resolution against a snapshot ---------- *)
(* narrowing conversion imap.SeqID(number) / imap.UID(number) : uint32 *)
Definition narrow32 (n : N) : N := n mod two32.

Definition resolve_seq (cnt : N) (a : pnum) : N :=
  match a with PStar => narrow32 cnt | PNum n => narrow32 n end.

(* resolveSeqInterval / resolveUIDInterval for one range, given the resolver *)
Definition resolve_interval (res : pnum -> N) (r : pnum * pnum) : N * N :=
  let '(b, e) := r in
  if pnum_eqb b e then (res b, res b)
  else
    let '(b, e) := if is_star b then (e, b) else (b, e) in
    let lo := res b in let hi := res e in
    if hi <? lo then (if is_star e then (lo, lo) else (hi, lo)) else (lo, hi).

(* positions lo..hi (1-based), as N *)
Fixpoint nseq (start : N) (len : nat) : list N :=
  match len with O => [] | S k => start :: nseq (start + 1) k end.
Definition interval_list (lo hi : N) : list N := nseq lo (N.to_nat (hi + 1 - lo)).

(* getMessagesInSeqRange for one interval: None = ErrNoSuchMessage *)
Definition seq_interval_msgs (cnt : N) (i : N * N) : option (list N) :=
  let '(lo, hi) := i in
  if lo =? hi then
    (* getWithSeqID: index := int(id) - 1; listLen == 0 || index >= listLen *)
    if (cnt =? 0) || (cnt <? lo) then None
    else if lo =? 0 then None (* unreachable: index -1 would panic; parse_nz excludes 0, "*" needs cnt=0 *)
    else Some [lo]
  else
    (* existsWithSeqID(begin) && existsWithSeqID(end): index >= listLen -> false *)
    if (cnt <? lo) || (cnt <? hi) then None
    else if lo =? 0 then None
    else Some (interval_list lo hi).

Fixpoint seq_msgs (cnt : N) (l : list (N * N)) : option (list N) :=
  match l with
  | [] => Some []
  | i :: t => match seq_interval_msgs cnt i with
              | None => None
              | Some a => match seq_msgs cnt t with None => None | Some b => Some (a ++ b) end
              end
  end.

(* snapshot.getMessagesInRange: a message selected by several ranges is returned once (first occurrence) *)
Fixpoint dedup_first_aux (seen : list N) (l : list N) : list N :=
  match l with
  | [] => []
  | x :: t => if existsb (N.eqb x) seen then dedup_first_aux seen t
              else x :: dedup_first_aux (x :: seen) t
  end.
Definition dedup_first (l : list N) : list N := dedup_first_aux [] l.

Definition impl_seq (cnt : N) (s : wset) : option (list N) :=
  match parse_set s with
  | None => None
  | Some ps => match seq_msgs cnt (map (resolve_interval (resolve_seq cnt)) ps) with
               | None => None | Some l => Some (dedup_first l) end
  end.

(* ---------- UID mode ---------- *)
Definition last_uid (uids : list N) : N := last uids 0.
Definition resolve_uid (uids : list N) (a : pnum) : N :=
  match a with PStar => last_uid uids | PNum n => narrow32 n end.

(* binarySearchByUID on an ascending list: first index whose uid >= x, and whether it is an exact hit *)
Fixpoint lower_bound (x : N) (uids : list N) : nat :=
  match uids with [] => O | u :: t => if u <? x then S (lower_bound x t) else O end.
Definition bs_found (x : N) (uids : list N) : bool :=
  match nth_error uids (lower_bound x uids) with Some u => u =? x | None => false end.

Definition uid_interval_msgs (uids : list N) (i : N * N) : list N :=
  let '(lo, hi) := i in
  if lo =? hi then (if bs_found lo uids then [lo] else [])
  else
    let ilo := lower_bound lo uids in
    if Nat.leb (length uids) ilo then []
    else
      let ihi0 := lower_bound hi uids in
      let ihi1 := if bs_found hi uids then S ihi0 else ihi0 in
      let ihi := if Nat.leb (length uids) ihi1 then length uids else ihi1 in
      firstn (ihi - ilo) (skipn ilo uids).

(* result: the UIDs selected; None = BAD (parser error only) *)
Definition impl_uid (uids : list N) (s : wset) : option (list N) :=
  match parse_set s with
  | None => None
  | Some ps =>
      match uids with
      | [] => Some []
      | _ => Some (dedup_first (concat (map (fun r => uid_interval_msgs uids (resolve_interval (resolve_uid uids) r)) ps)))
      end
  end.

(* ---------- Spec (RFC 3501 sequence-set denotation) ---------- *)
Definition w_val (star : N) (w : wnum) : N := match w with WStar => star | WNum n => n end.
Definition w_lo (star : N) (r : wrange) : N := N.min (w_val star (fst r)) (w_val star (snd r)).
Definition w_hi (star : N) (r : wrange) : N := N.max (w_val star (fst r)) (w_val star (snd r)).

(* a written number is acceptable for a view of cnt messages *)
Definition w_ok (cnt : N) (w : wnum) : bool :=
  match w with WStar => 0 <? cnt | WNum n => (0 <? n) && (n <=? cnt) end.
Definition set_ok (cnt : N) (s : wset) : bool :=
  forallb (fun r => w_ok cnt (fst r) && w_ok cnt (snd r)) s.

(* position p is denoted by the set *)
Definition spec_seq_mem (cnt : N) (s : wset) (p : N) : Prop :=
  exists r, In r s /\ w_lo cnt r <= p <= w_hi cnt r.

(* UID sets: u is denoted when it is the UID of a message and lies in one of the ranges *)
Definition spec_uid_mem (uids : list N) (s : wset) (u : N) : Prop :=
  In u uids /\ exists r, In r s /\ w_lo (last_uid uids) r <= u <= w_hi (last_uid uids) r.

(* the case the property does not judge: n:* (or *:n) with n above the highest UID *)
Definition exempt_range (uids : list N) (r : wrange) : bool :=
  match r with
  | (WNum n, WStar) | (WStar, WNum n) => last_uid uids <? n
  | _ => false
  end.

(* all written numbers are valid 32-bit nz-numbers *)
Definition w32 (w : wnum) : bool := match w with WStar => true | WNum n => (0 <? n) && (n <? two32) end.
Definition set32 (s : wset) : bool := forallb (fun r => w32 (fst r) && w32 (snd r)) s.
