(* C19 — concurrent sessions, updates and shutdown: no race, no deadlock, no leak.   *** PARTIAL ***
   What is proved here is the LOGIC: (1) the lock nestings extracted from the current source (coq/Gen/FactsLocks.v,
   regenerated on every run) respect one strict ranking, and threads that respect a ranking can never form a cycle
   of waits, for any number of threads; (2) the teardown protocol of a user (RemoveUser / Close against N sessions,
   the connector-update goroutine and the update forwarder), as a transition system, never gets stuck before Close
   has returned, makes only boundedly many steps besides "a session runs a command / an update is applied", and closes
   the database only after every state has been removed.
   What is NOT provable on a Gallina model and is only SEARCHED for by harness/cmd/c19 (race-detector build of a stress
   scenario with watchdogs and a goroutine dump): data races, waits on channels / wait groups outside the modelled
   protocol, goroutines left behind.  Property theorems only; every proof is `exact <lemma>`. *)
From Coq Require Import List String Arith Bool.
From Gluon Require Import Gen.FactsLocks Model.LockOrder Model.Teardown Proofs.ConcProofs.
From Gluon Require Import Gen.FactsServe Model.ServerStop Proofs.ServerStopProofs.
From Gluon Require Import Gen.FactsQueue Model.QueueClose Proofs.QueueCloseProofs.
From Gluon Require Import Gen.FactsGuard Model.Guard Proofs.GuardProofs.
Import ListNotations.

(* Generic, for all numbers of threads and all lock sets: if whatever a thread waits for ranks strictly above everything
   it holds, no state has a cycle of threads each waiting for a lock held by the next. *)
Theorem C19_no_wait_cycle : forall (rank : lock -> nat) (ts : list thread),
  Forall (respects rank) ts -> forall i n, ~ chain ts i i n.
Proof. exact no_wait_cycle. Qed.
Print Assumptions C19_no_wait_cycle.

(* The table of nestings read off the source today is consistent with the ranking of Model/LockOrder.v
   (every edge goes strictly upwards, or requests a lock that is confined to one sequential session; every lock found
   in the source has a rank).  By computation on the GENERATED table: a new nesting that closes a cycle, or a new
   lock, makes this fail. *)
Theorem C19_lock_order_acyclic : table_ok = true.
Proof. exact table_ok_true. Qed.
Print Assumptions C19_lock_order_acyclic.

(* Hence: threads that nest locks only as the extracted table says (and never have to wait for a session-confined
   lock) cannot deadlock on locks. *)
Theorem C19_no_lock_deadlock : forall ts : list thread,
  Forall follows_table ts -> Forall never_waits_confined ts -> forall i n, ~ chain ts i i n.
Proof. exact no_lock_deadlock_lemma. Qed.
Print Assumptions C19_no_lock_deadlock.

(* RemoveUser and Close wait for the sessions' states while holding Backend.usersLock: the path on which a session
   releases its state (State.ReleaseState -> user.removeState and everything below) never asks for that lock
   (nor for the login lock).  By computation on the generated table. *)
Theorem C19_release_path_needs_no_usersLock :
  existsb (String.eqb "Backend.usersLock") release_path_locks = false /\
  existsb (String.eqb "Backend.loginLock") release_path_locks = false.
Proof. exact release_path_avoids_usersLock. Qed.
Print Assumptions C19_release_path_needs_no_usersLock.

(* Teardown protocol, for every number N of sessions: in every reachable state in which user.close has not returned,
   some step is enabled. *)
Theorem C19_teardown_progress : forall n s, reachable n s -> final s = false -> exists l s', step s l = Some s'.
Proof. exact progress_lemma. Qed.
Print Assumptions C19_teardown_progress.

(* Ranking function: every step other than "a session runs a command" / "an update is applied" strictly decreases
   `measure`; so an execution contains at most 3N + 11 such steps ... *)
Theorem C19_teardown_nonidle_steps_bounded : forall n tr s, run (init n) tr = Some s ->
  count_nonidle tr + measure s <= 3 * n + 11.
Proof. exact nonidle_bounded_init. Qed.
Print Assumptions C19_teardown_nonidle_steps_bounded.

(* ... and from the moment the states have been signalled EVERY step decreases it: RemoveUser / Close then return after
   finitely many steps whatever the schedule (before that point they need the scheduler to be fair to the closer and
   to the goroutines it waits for, which always have an enabled step by C19_teardown_progress). *)
Theorem C19_teardown_terminates_once_signalled : forall n s l s', reachable n s -> 6 <= cidx (cl s) ->
  step s l = Some s' -> measure s' < measure s.
Proof. exact late_steps_decrease_lemma. Qed.
Print Assumptions C19_teardown_terminates_once_signalled.

(* The database is closed only after every session state has been removed and the update goroutine has ended; no step
   that touches the database is possible afterwards; the store is closed first. *)
Theorem C19_states_removed_before_db_close : forall n s, reachable n s -> db_open s = false -> db_user_exists s = false.
Proof. exact states_removed_before_db_close_lemma. Qed.
Print Assumptions C19_states_removed_before_db_close.

Theorem C19_db_steps_need_open_db : forall n s l s', reachable n s -> step s l = Some s' ->
  match l with LCommand _ | LApply | LRel1 _ | LRel2 _ => db_open s = true | _ => True end.
Proof. exact db_steps_need_open_db_lemma. Qed.
Print Assumptions C19_db_steps_need_open_db.

Theorem C19_closed_on_return : forall n s, reachable n s -> final s = true -> db_open s = false /\ store_open s = false.
Proof. exact closed_on_return_lemma. Qed.
Print Assumptions C19_closed_on_return.

(* ---- Server.Close and sessions with and without a state (Model/ServerStop.v) ----
   `close_closes_accepted_conns` is the conjunction of facts extracted from server.go / session.go on every run
   (Gen/FactsServe.v): serve defers conn.Close() in its accept loop, returns on serveDoneCh, Close stops serving before it
   closes the backend, Session.serve ends with its command reader.  The model's step function takes it as a parameter. *)

(* what Close does today closes the accepted connections *)
Theorem C19_close_closes_accepted_conns : close_closes_accepted_conns = true.
Proof. exact fact_close_closes_conns. Qed.
Print Assumptions C19_close_closes_accepted_conns.

(* every kind of session — not authenticated, in the middle of its LOGIN literal, authenticated, selected, idling —
   has a stop signal raised by Close itself: once serve has returned, any session still alive can leave its loop,
   whatever its client does *)
Theorem C19_every_session_has_stop_signal : forall ks s i x,
  sreachable close_closes_accepted_conns ks s -> 2 <= pidx (phase s) ->
  nth_error (sessions s) i = Some x -> serving x = true ->
  exists s', sstep close_closes_accepted_conns s (SEnd i) = Some s'.
Proof. exact stop_signal_src. Qed.
Print Assumptions C19_every_session_has_stop_signal.

(* Close never gets stuck, with steps of the server alone (no client has to act) *)
Theorem C19_server_close_progress : forall ks s,
  sreachable close_closes_accepted_conns ks s -> returned s = false ->
  exists l s', server_side l = true /\ sstep close_closes_accepted_conns s l = Some s'.
Proof. exact server_close_progress_src. Qed.
Print Assumptions C19_server_close_progress.

(* once Close has returned and the server has nothing left to do, no session (goroutine) is left, for any mix of
   sessions and without help from the clients *)
Theorem C19_no_session_left_after_close : forall ks s,
  sreachable close_closes_accepted_conns ks s -> returned s = true ->
  quiescent close_closes_accepted_conns s -> none_left s = true.
Proof. exact none_left_src. Qed.
Print Assumptions C19_no_session_left_after_close.

(* and the closing of the connections is necessary for that: without it a session that never logged in survives Close *)
Theorem C19_without_conn_close_refuted :
  exists s, sreachable false [Stateless; Stateful] s /\ returned s = true /\ quiescent false s /\ none_left s = false.
Proof. exact conn_close_needed_lemma. Qed.
Print Assumptions C19_without_conn_close_refuted.

(* ---- the close protocol of async.QueuedChannel (Model/QueueClose.v): consumer in pop, Close, concurrent Enqueue ----
   `queue_close_locked` is extracted from async/queued_channel.go on every run (Gen/FactsQueue.v): Close sets the flag and
   then calls Broadcast while holding cond.L, Enqueue broadcasts under the lock, pop waits under it inside its loop. *)
Theorem C19_queue_close_is_locked : queue_close_locked = true.
Proof. exact fact_queue_close_locked. Qed.
Print Assumptions C19_queue_close_is_locked.

(* no lost wake-up, for every number of queued items and of concurrent Enqueues and every interleaving: once Close has
   returned the consumer is neither asleep in cond.Wait nor about to go to sleep *)
Theorem C19_queue_no_lost_wakeup : forall i b s, qreachable queue_close_locked i b s -> close_returned s = true ->
  cons s <> CParked /\ cons s <> CWaitDecided.
Proof. exact no_lost_wakeup_src. Qed.
Print Assumptions C19_queue_no_lost_wakeup.

(* after Close every consumer eventually leaves pop: it always has a next step ... *)
Theorem C19_queue_consumer_progress : forall i b s, qreachable queue_close_locked i b s -> close_returned s = true ->
  consumer_left s = false -> exists s', qstep queue_close_locked s QCons = Some s'.
Proof. exact consumer_progress_src. Qed.
Print Assumptions C19_queue_consumer_progress.

(* ... and every step that can still happen decreases qmeasure (so it has left after at most that many steps) *)
Theorem C19_queue_consumer_terminates : forall i b s l s', qreachable queue_close_locked i b s -> close_returned s = true ->
  qstep queue_close_locked s l = Some s' -> qmeasure s' < qmeasure s /\ close_returned s' = true.
Proof. exact consumer_terminates_src. Qed.
Print Assumptions C19_queue_consumer_terminates.

(* with the Broadcast outside the lock there is a schedule that loses the wake-up: Close has returned, the consumer sleeps
   for ever (consumer locks and finds nothing; Close sets the flag and broadcasts to nobody; consumer goes to sleep) *)
Theorem C19_queue_unlocked_broadcast_refuted :
  exists s, qreachable false 0 0 s /\ close_returned s = true /\ cons s = CParked /\ stuck false s.
Proof. exact unlocked_broadcast_refuted_lemma. Qed.
Print Assumptions C19_queue_unlocked_broadcast_refuted.

(* ---- the fields of a state that another session's teardown reads (Model/Guard.v) ---- *)

(* generic: if only the owning goroutine writes the field and does so with the lock held exclusively, and every other
   goroutine that reads it holds the lock, then any two accesses that could race are kept apart by the lock *)
Theorem C19_guard_discipline_no_race : forall owner a b,
  disciplined owner a -> disciplined owner b -> conflicting a b -> kept_apart a b = true.
Proof. exact guard_no_race. Qed.
Print Assumptions C19_guard_discipline_no_race.

(* the source follows the discipline for State.snap and snapMsgList.idx: every assignment found by the extractor holds the
   lock exclusively (i.e. goes through State.setSnap / happens inside the locked sections of insert, insertOutOfOrder,
   remove) and the foreign readers State.HasMessage / snapMsgList.has hold it.  By computation on Gen/FactsGuard.v. *)
Theorem C19_guarded_fields_written_under_lock : guarded_fields_ok = true.
Proof. exact fact_guarded_fields_ok. Qed.
Print Assumptions C19_guarded_fields_written_under_lock.

(* user.removeState cannot return before the state has left user.states and statesWG.Done() is deferred: the step
   SRelease1 -> SRelease2 of Model/Teardown.v is always taken (a failing database read used to abort it, after which
   RemoveUser and Close waited for ever).  By computation on Gen/FactsServe.v. *)
Theorem C19_release_cannot_abort_before_removal : remove_state_cannot_abort_early = true.
Proof. exact fact_remove_state_cannot_abort_early. Qed.
Print Assumptions C19_release_cannot_abort_before_removal.

(* the goroutine that writes a session's IDLE responses keeps receiving from the channel until endIdle closes it — also
   after a write to the client has failed.  State.ApplyUpdate pushes the responses into that (unbuffered) channel from
   inside a database write transaction: a writer that gave up early would leave it blocked there for ever, holding the
   database lock (every other command of the user then hangs).  By computation on Gen/FactsServe.v. *)
Theorem C19_idle_writer_drains_until_closed : idle_writer_drains_until_closed = true.
Proof. exact fact_idle_writer_drains. Qed.
Print Assumptions C19_idle_writer_drains_until_closed.

(* non-vacuity: three sessions; one logs out, the closer runs while the others are active, everything ends *)
Example C19_example_run :
  exists s, run (init 3)
    [LCommand 0; LEnd 1; LCloser; LApply; LRel1 1; LUpdStop; LCloser; LCloser; LFwdStop; LCloser; LCloser; LRel2 1;
     LCommand 2; LCloser; LEnd 0; LEnd 2; LRel1 0; LRel1 2; LRel2 2; LRel2 0; LCloser; LCloser; LCloser] = Some s
  /\ final s = true /\ db_open s = false.
Proof. eexists. vm_compute. repeat split. Qed.

(* a lock cycle is what the check would catch: with an extra edge Cond.L -> Client.lock the table is refused *)
Example C19_example_cycle_refused :
  forallb edge_ok (("Cond.L", "Client.lock", "hypothetical") :: lock_edges) = false.
Proof. vm_compute. reflexivity. Qed.

(* non-vacuity for the server-level model: one session per protocol state the property names (not authenticated,
   mid-literal: Stateless; authenticated, selected, idling: Stateful), no client ever acts, Close returns, nobody left *)
Example C19_example_server_close :
  exists s, srun close_closes_accepted_conns (sinit [Stateless; Stateless; Stateful; Stateful; Stateful])
              [SCloser; SCloser; SEnd 0; SCloser; SEnd 3; SEnd 2; SEnd 4; SCloser; SEnd 1] = Some s
  /\ returned s = true /\ none_left s = true.
Proof. eexists. vm_compute. repeat split. Qed.

(* non-vacuity for the queue model: one item queued, one Enqueue racing, the consumer sleeps in between, Close wakes it *)
Example C19_example_queue :
  exists s, qrun queue_close_locked (qinit 1 1)
              [QCons; QCons; QCons; QCons; QCons; QCons; QEnq; QCons; QCloser; QCons; QCloser; QCons; QCloser; QCloser; QCons; QCons] = Some s
  /\ close_returned s = true /\ consumer_left s = true.
Proof. eexists. vm_compute. repeat split. Qed.

(* non-vacuity for the guard discipline: the owner writes under the exclusive lock while another goroutine reads under the
   shared lock: disciplined, conflicting, kept apart; an unlocked write by the owner is not disciplined *)
Example C19_example_guard :
  disciplined 1 (mkAccess 1 AWrite LExcl) /\ disciplined 1 (mkAccess 2 ARead LShared) /\
  conflicting (mkAccess 1 AWrite LExcl) (mkAccess 2 ARead LShared) /\ ~ disciplined 1 (mkAccess 1 AWrite LNone).
Proof.
  unfold disciplined, conflicting; cbn. split; [auto|]. split; [right; discriminate|]. split; [split; [discriminate|auto]|].
  intros [_ H]. discriminate H.
Qed.
