(* C05 — which flushes each command performs, read from the generated facts (Gen/FactsFlush.v). *)
From Coq Require Import List String Bool.
From Gluon Require Import Gen.FactsFlush.
Import ListNotations.
Open Scope string_scope.
Open Scope list_scope.

Fixpoint lookup {A} (k : string) (l : list (string * A)) : option A :=
  match l with [] => None | (k', v) :: t => if String.eqb k k' then Some v else lookup k t end.

Fixpoint all_some {A} (l : list (option A)) : option (list A) :=
  match l with
  | [] => Some []
  | Some x :: t => match all_some t with Some r => Some (x :: r) | None => None end
  | None :: _ => None
  end.

(* permitExpunge of every flush performed while the selected-state command c (or UID c) is answered:
   the handler's own flushes in order, then the trailing flush of handleSelectedCommand. None = unknown. *)
Definition handler_permits (uid : bool) (c : string) : option (list bool) :=
  match lookup c (if uid then uid_dispatch else selected_dispatch) with
  | None => None
  | Some h =>
      match lookup h flush_calls, trailing_flush with
      | Some own, Some tr => match all_some own with Some l => Some (l ++ [tr]) | None => None end
      | _, _ => None
      end
  end.

Definition restricted_cmds : list string := ["Fetch"; "Store"; "Search"].
(* commands that must announce pending removals *)
Definition permitting_cmds : list string := ["Check"; "Close"; "Expunge"; "UIDExpunge"; "Move"].

Definition all_false (l : list bool) : bool := forallb negb l.
Definition restricted_ok : bool :=
  forallb (fun c => match handler_permits false c, handler_permits true c with
                    | Some a, Some b => all_false a && all_false b | _, _ => false end) restricted_cmds.
Definition permitting_ok : bool :=
  forallb (fun c => match handler_permits false c with Some a => existsb (fun b => b) a | None => false end) permitting_cmds
  && match lookup "handleNoop" flush_calls with Some [Some true] => true | _ => false end
  && match idle_begin_flush with Some true => true | _ => false end.
(* the flushes that make a command "permit" (and the STORE / trailing ones that must not) are performed whenever control
   reaches them: no if / case / loop body around them inside their function (a MOVE that moves nothing still flushes) *)
Definition unconditional_handlers : list string :=
  ["handleCheck"; "handleClose"; "handleExpunge"; "handleUIDExpunge"; "handleMove"; "handleNoop"; "handleStore";
   "handleSelectedCommand"].
Definition guards_ok : bool :=
  forallb (fun h => match lookup h flush_guard_depths with
                    | Some l => negb (match l with [] => true | _ => false end) && forallb (Nat.eqb 0) l
                    | None => false end) unconditional_handlers.
Definition issued_ok : bool :=
  forallb (fun h => existsb (String.eqb h) expunge_issued_checked) ["handleFetch"; "handleStore"; "handleSearch"].
