package main

import (
	"fmt"
	"net"
	"os"
	"time"

	"verifharness/srv"
)

func probe(addr string, pre string, send string) {
	c, err := net.Dial("tcp", addr)
	if err != nil {
		panic(err)
	}
	defer c.Close()
	buf := make([]byte, 65536)
	c.SetReadDeadline(time.Now().Add(2 * time.Second))
	n, _ := c.Read(buf)
	_ = n
	if pre != "" {
		c.Write([]byte(pre))
		c.SetReadDeadline(time.Now().Add(2 * time.Second))
		n, _ = c.Read(buf)
		fmt.Printf("  pre-> %q\n", buf[:n])
	}
	c.Write([]byte(send))
	var out []byte
	for {
		c.SetReadDeadline(time.Now().Add(700 * time.Millisecond))
		n, err := c.Read(buf)
		out = append(out, buf[:n]...)
		if err != nil {
			fmt.Printf("%q => %q (%v)\n", send, out, err)
			return
		}
	}
}

func main() {
	s, err := srv.Start(srv.Options{})
	if err != nil {
		panic(err)
	}
	for _, pre := range []string{"", "x NOOP\r\n"} {
		for _, in := range os.Args[1:] {
			var b []byte
			fmt.Sscanf(in, "%q", &b)
			probe(s.Addr, pre, string(b))
		}
	}
	os.Exit(0)
}
