(* C02 — At quiescence every session's view converges to the authoritative mailbox.
   Full statement: for every history h and session s selected on mb,
       view s (run (h ++ drain s ++ [Cmd s CNoop])) = fresh_view mb (run h)     (modulo \Recent)
   The faithful model REFUTES it (C02_world_refuted: an own STORE overtakes a queued connector flag change; replayed on
   the server; known finding). Proved here: the pieces of the pipeline the convergence rests on — nothing stays pending
   after a permitting flush; updates about a message whose EXISTS is still pending are no longer dropped by the
   filters (the repaired defect); a message that arrives and is removed before the session looked nets to zero.
   The per-history agreement of model and server (fresh views at quiescence points included) is checked on every run. *)
From Coq Require Import List NArith Bool.
From Gluon Require Import Model.Responders Model.Session Proofs.MirrorProofs Proofs.PopProofs
  Proofs.ConvergeProofs Proofs.SessionWitness.
Import ListNotations.
Open Scope N_scope.

Theorem C02_world_refuted :
  let '(w, _) := run (init_world 1 1) c02_history in
  exists sn, option_map (fun s => s_snap (ss_st s)) (get_sess w 0) = Some sn /\
             view_flags sn = [(1, [fl_seen])] /\ view_flags (fresh_view w 0) = [(1, [])] /\
             ss_queue (nth 0 (w_sess w) (mkSess None (mkS [] []) [] false)) = [].
Proof. exact c02_world_refuted. Qed.
Print Assumptions C02_world_refuted.

Theorem C02_nothing_pending_after_permitting_flush : forall st st' out,
  flush true st = FOk st' out -> s_res st' = [].
Proof. exact flush_true_nothing_pending. Qed.
Print Assumptions C02_nothing_pending_after_permitting_flush.

Theorem C02_expunge_not_dropped_while_exists_pending : forall mb m u f tg og s,
  ss_sel s = Some mb -> In (RExists m u f tg og) (s_res (ss_st s)) -> upd_filter (UExpunge mb m) s = true.
Proof. exact expunge_not_dropped_while_exists_pending. Qed.
Print Assumptions C02_expunge_not_dropped_while_exists_pending.

Theorem C02_flag_update_not_dropped_while_exists_pending : forall mb m u f tg og s flag add,
  ss_sel s = Some mb -> In (RExists m u f tg og) (s_res (ss_st s)) -> upd_filter (URemoteFlag m flag add) s = true.
Proof. exact remote_flag_not_dropped_while_exists_pending. Qed.
Print Assumptions C02_flag_update_not_dropped_while_exists_pending.

Theorem C02_exists_then_expunge_nets_zero : forall m u f tg s s1 o1,
  snap_has m s = false -> handle (RExists m u f tg false) s = Some (s1, o1) ->
  exists k, handle (RExpunge m) s1 = Some (s, [PExpunge k]).
Proof. exact exists_then_expunge_nets_zero. Qed.
Print Assumptions C02_exists_then_expunge_nets_zero.

(* the scenario of the repaired defect, on the world model: session 1 appends a message and expunges it before
   session 0 flushed its EXISTS; after draining and NOOP session 0's view equals the fresh view (empty) *)
Example C02_pending_exists_example :
  let h := [Cmd 0 (CSelect 0); Cmd 1 (CSelect 0); Cmd 1 (CAppend 0 [fl_deleted]); Cmd 1 CExpunge;
            Deliver 0; Deliver 0; Cmd 0 CNoop] in
  let '(w, tr) := run (init_world 2 1) h in
  option_map (fun s => s_snap (ss_st s)) (get_sess w 0) = Some [] /\ fresh_view w 0 = [] /\
  nth 6 (map fst tr) [] = [PExists 1; PExpunge 1].
Proof. vm_compute. repeat split. Qed.
