(* C11 — the command reader goroutine and the serve loop of one session, over the byte stream a client sends.

   Go code mirrored:
     internal/session/command.go  startCommandReader: loop { Parse; on *rfcparser.Error: ConsumeInvalidInput (skip to the
                                  next LF), TLS-hello check, deliver (cmd, err); any other error: return (the channel is
                                  closed, serve returns, the connection is closed); STARTTLS handled in the reader }
     internal/session/session.go  serve: on err -> BAD tagged with res.command.Tag, errorCount++, close at
                                  maxSessionError; on success errorCount = 0; LOGOUT -> BYE + OK and return;
                                  IDLE -> handleIdle; everything else -> handleOther
     internal/session/handle_idle.go  handleIdle: not authenticated -> NO; otherwise "+", then the next delivered
                                  command ends IDLE: DONE -> OK, other command -> BAD, parse error -> NO (all with the
                                  tag of IDLE)
     imap/command/parser.go       ConsumeInvalidInput = Scanner.ConsumeUntilNewLine = bufio ReadBytes('\n')

   Abstractions (assumed, exercised by the harness): every command handed to handleOther produces exactly one
   completion carrying the command's tag (the handlers of internal/session/handle_*.go); its status is not predicted
   (SAny) except where the serve loop itself decides it.  LOGIN success is an oracle (`login_ok`).  State updates,
   context cancellation and write errors are not modelled.

   End of the stream = the client closed its side: Parse then fails, ConsumeInvalidInput returns io.EOF, the reader
   returns and the server closes the connection. *)
From Coq Require Import List NArith Bool.
From Gluon Require Import Gen.FactsTokens Model.ImapTokens Model.ImapGrammar.
Import ListNotations.
Open Scope N_scope.

Inductive status := SBad | SNo | SOk | SAny.
Inductive event :=
| EvDone (tag : bytes) (s : status)   (* a completion result line "<tag> OK|NO|BAD ..." *)
| EvContinue                          (* "+ ..." sent when IDLE starts: not a completion *)
| EvBye.                              (* untagged BYE *)
Inductive ending :=
| EndClosed        (* the server closed the connection (reader ended / LOGOUT / too many errors) *)
| EndCrash         (* the Go code would panic *)
| EndSpin          (* the Go parser would loop for ever *)
| EndOutOfFuel.    (* artefact of the model; excluded by C11_serve_fuel_sufficient *)

Record sst := mkSt { st_errs : N; st_auth : bool; st_idle : option bytes; st_first : bool }.
Definition st_init : sst := mkSt 0 false None true.

(* ConsumeInvalidInput after an error raised while the head of `at_` was the current token: the scanner has already
   taken that byte; everything up to and including the next LF is dropped.  None: the stream ends first (io.EOF). *)
Fixpoint drop_through_lf (bs : bytes) : option bytes :=
  match bs with
  | [] => None
  | b :: r => if b =? bLF then Some r else drop_through_lf r
  end.
Definition skip_line (at_ : bytes) : option bytes := drop_through_lf (tl at_).

Fixpoint is_prefix (p bs : bytes) : bool :=
  match p, bs with
  | [], _ => true
  | x :: p', y :: bs' => (x =? y) && is_prefix p' bs'
  | _ :: _, [] => false
  end.
(* bytes.HasPrefix(bytesRead, tlsHeader) where bytesRead = what was consumed of `bs` when `rest` is left *)
Definition tls_hello (bs rest : bytes) : bool :=
  let read := firstn (length bs - length rest) bs in
  existsb (fun h => is_prefix h read) tls_prefixes.

Definition errors_close (n : N) : bool :=
  if session_error_close_cmp_ge then max_session_error <=? n else max_session_error <? n.

Section Serve.
  Variable login_ok : bytes -> bytes -> bool.   (* backend.GetState succeeds *)
  Variable tls_available : bool.                (* Session.tlsConfig != nil *)

  (* what the serve loop does with a successfully parsed command that is not STARTTLS *)
  Definition on_command (st : sst) (tag : bytes) (c : cmd) : list event * option sst :=
    let st0 := mkSt (if session_error_reset_on_success then 0 else st_errs st) (st_auth st) (st_idle st) false in
    match st_idle st with
    | Some itag =>
        ([EvDone itag (match c with CDone => SOk | _ => SBad end)],
         Some (mkSt (st_errs st) (st_auth st) None false))   (* handleIdle: errorCount is not touched *)
    | None =>
        match c with
        | CNoArg NLogout => ([EvBye; EvDone tag SOk], None)
        | CNoArg NIdle =>
            if st_auth st then ([EvContinue], Some (mkSt (st_errs st0) true (Some tag) false))
            else ([EvDone tag SNo], Some st0)
        | CLogin u p =>
            ([EvDone tag (if st_auth st then SBad else if login_ok u p then SOk else SNo)],
             Some (mkSt (st_errs st0) (st_auth st || login_ok u p) None false))
        | CDone => ([EvDone tag SNo], Some st0)      (* handleCommand: "bad command"; tag is empty *)
        | _ => ([EvDone tag SAny], Some st0)
        end
    end.

  (* what happens with a parser error delivered to the serve loop *)
  Definition on_parse_error (st : sst) (tag : bytes) : list event * option sst :=
    match st_idle st with
    | Some itag => ([EvDone itag SNo], Some (mkSt (st_errs st) (st_auth st) None false))
    | None =>
        let n := st_errs st + 1 in
        ([EvDone (if session_bad_uses_command_tag then tag else []) SBad],
         if errors_close n then None else Some (mkSt n (st_auth st) None false))
    end.

  (* one iteration of the reader loop together with the serve loop's reaction;
     result: events, and either the end of the session or the state and the unread stream *)
  Definition serve_step (st : sst) (bs : bytes) : list event * (ending + sst * bytes) :=
    match parse_command (length bs + 1) bs with
    | POut => ([], inl EndSpin)
    | PErr _ ECrash _ => ([], inl EndCrash)
    | PErr _ EFatal _ => ([], inl EndClosed)
    | PErr tag EParse at_ =>
        (* Error.IsEOF(): the error token is previousToken, which is the synthetic EOF token only when nothing has
           been consumed on a fresh parser *)
        if reader_returns_on_iseof && st_first st && Nat.eqb (length at_) (length bs) then ([], inl EndClosed)
        else if negb reader_skips_rest_of_line then ([], inl EndClosed)
        else match skip_line at_ with
             | None => ([], inl EndClosed)
             | Some rest =>
                 if tls_hello bs rest then ([], inl EndClosed)
                 else match on_parse_error st tag with
                      | (evs, None) => (evs, inl EndClosed)
                      | (evs, Some st') => (evs, inr (st', rest))
                      end
             end
    | POk tag c rest =>
        match c with
        | CNoArg NStartTLS =>
            if tls_available then ([EvDone tag SOk], inl EndClosed)   (* the TLS handshake itself is not modelled *)
            else if starttls_unavailable_sends_no
                 then ([EvDone tag SNo], inr (mkSt (st_errs st) (st_auth st) (st_idle st) false, rest))
                 else ([], inl EndClosed)
        | _ => match on_command st tag c with
               | (evs, None) => (evs, inl EndClosed)
               | (evs, Some st') => (evs, inr (st', rest))
               end
        end
    end.

  Fixpoint serve (fuel : nat) (st : sst) (bs : bytes) : list event * ending :=
    match fuel with
    | O => ([], EndOutOfFuel)
    | S f => match serve_step st bs with
             | (evs, inl e) => (evs, e)
             | (evs, inr (st', rest)) => let (evs', e) := serve f st' rest in (evs ++ evs', e)
             end
    end.

  Definition serve_stream (bs : bytes) : list event * ending := serve (length bs + 1) st_init bs.
End Serve.

(* ---- vocabulary of the line-level theorems *)
Definition is_done (e : event) : bool := match e with EvDone _ _ => true | _ => false end.
Definition completions (evs : list event) : list event := filter is_done evs.

(* a complete command line without literals: body CR LF, no other CR/LF, not ending in "}" (which could announce a
   literal whose data would be the following bytes) *)
Definition plain_line (l : bytes) : Prop :=
  exists body, l = body ++ [bCR; bLF] /\ ~ In bCR body /\ ~ In bLF body /\ (forall b', body <> b' ++ [bRC]).

(* the tag of a line: its longest prefix of tag characters (RFC 3501: tag = 1*<any ASTRING-CHAR except "+">) *)
Fixpoint line_tag (l : bytes) : bytes :=
  match l with
  | [] => []
  | b :: r => if is_tag_char (tok_of_byte b) then b :: line_tag r else []
  end.
