(* C11 — the top level of the parser model (command.Parser.Parse): totality, "consumes at most its input", the tag
   it reports, and where it stops. *)
From Coq Require Import List NArith Bool Lia String Arith.
From Gluon Require Import Gen.FactsTokens Model.ImapTokens Model.ImapGrammar Model.ServeLoop
  Proofs.ImapTokenFacts Proofs.ImapGrammarWf.
Import ListNotations.
Open Scope N_scope.
Local Notation length := List.length.

Definition is_done_tag (t : bytes) : bool := bytes_eqb (lower t) (s2b "done").

Lemma collect_tag : forall bs, exists r, p_collect is_tag_char bs = ROk (line_tag bs) r /\ bs = line_tag bs ++ r
                                    /\ is_tag_char (cur_tok r) = false.
Proof.
  induction bs as [|b t IH]; cbn [p_collect line_tag].
  - rewrite tag_char_eof. exists []. split; [reflexivity|]. split; [reflexivity|apply tag_char_eof].
  - destruct (is_tag_char (tok_of_byte b)) eqn:E.
    + destruct IH as (r & -> & Ht & Hr). exists r. split; [reflexivity|]. split; [cbn; f_equal; exact Ht|exact Hr].
    + exists (b :: t). split; [reflexivity|]. split; [reflexivity|exact E].
Qed.

Lemma line_tag_crlf_free : forall bs, crlf_free (line_tag bs).
Proof.
  induction bs as [|b t IH]; cbn [line_tag]; [apply crlf_free_nil|].
  destruct (is_tag_char (tok_of_byte b)) eqn:E; [|apply crlf_free_nil].
  destruct (rejects_crlf_byte _ b tag_char_crlf E). apply crlf_free_cons; assumption.
Qed.

Lemma tag_spec : forall bs,
  (p_tag bs = RErr EParse bs /\ line_tag bs = []) \/
  (exists r, p_tag bs = ROk (line_tag bs) r /\ line_tag bs <> [] /\ bs = line_tag bs ++ r
             /\ is_tag_char (cur_tok r) = false).
Proof.
  intro bs. unfold p_tag, bind, p_consume. destruct bs as [|b t]; cbn [cur_tok cur_val tl].
  - rewrite tag_char_eof. left. split; reflexivity.
  - cbn [line_tag]. destruct (is_tag_char (tok_of_byte b)) eqn:E.
    + right. destruct (collect_tag t) as (r & -> & Ht & Hr). exists r. unfold ret.
      split; [reflexivity|]. split; [discriminate|]. split; [cbn; f_equal; exact Ht|exact Hr].
    + left. split; reflexivity.
Qed.

Definition etag (t : bytes) : bytes := if parse_trailing_error_keeps_tag then t else [].

(* what the part between the tag and the final CRLF yields: DONE has no tag *)
Inductive body_result (bs : bytes) : bytes -> cmd -> Prop :=
| BR_done : line_tag bs <> [] -> is_done_tag (line_tag bs) = true -> body_result bs [] CDone
| BR_cmd c : line_tag bs <> [] -> is_done_tag (line_tag bs) = false -> body_result bs (line_tag bs) c.

(* every way Parse can end *)
Inductive parse_outcome (fuel : nat) (bs : bytes) : Prop :=
| PO_tag_error : parse_command fuel bs = PErr [] EParse bs -> line_tag bs = [] -> parse_outcome fuel bs
| PO_body_error k a : parse_command fuel bs = PErr (line_tag bs) k a -> line_tag bs <> [] ->
    is_done_tag (line_tag bs) = false -> cons_ok bs a (Some k) -> parse_outcome fuel bs
| PO_no_cr t c r2 : body_result bs t c -> cons_ok bs r2 None -> cur_tok r2 <> TT_CR ->
    parse_command fuel bs = PErr (etag t) EParse r2 -> parse_outcome fuel bs
| PO_no_lf t c r3 : body_result bs t c -> cons_ok bs (13 :: r3) None -> cur_tok r3 <> TT_LF ->
    parse_command fuel bs = PErr (etag t) EParse r3 -> parse_outcome fuel bs
| PO_ok t c rest : body_result bs t c -> cons_ok bs (13 :: 10 :: rest) None ->
    parse_command fuel bs = POk t c rest -> parse_outcome fuel bs.

Lemma cons_ok_app : forall t r k, crlf_free t -> cons_ok (t ++ r) r k -> True.
Proof. trivial. Qed.

Lemma parse_command_outcome : forall fuel bs, (length bs < fuel)%nat -> parse_outcome fuel bs.
Proof.
  intros fuel bs Hl. destruct (tag_spec bs) as [[E T]|(r1 & E & Tn & Hb & _)].
  - apply PO_tag_error; [|exact T]. unfold parse_command. rewrite E. reflexivity.
  - assert (C1 : cons_ok bs r1 None).
    { exists (line_tag bs). split; [exact Hb|]. split; [apply good_crlf_free; apply line_tag_crlf_free|exact I]. }
    assert (L1 : (length r1 <= length bs)%nat) by (eapply cons_ok_len; exact C1).
    (* what comes after the payload, common to DONE and the other commands *)
    assert (Tail : forall t c r2, body_result bs t c -> cons_ok bs r2 None ->
              parse_outcome fuel bs \/ True -> 
              forall (HP : parse_command fuel bs =
                           match p_consume (tok_is TT_CR) r2 with
                           | ROk _ r3 => if cur_tok r3 =? TT_LF then POk t c (tl r3) else PErr (etag t) EParse r3
                           | RErr k a => PErr (etag t) k a
                           | ROut => POut
                           end), parse_outcome fuel bs).
    { intros t c r2 BR C2 _ HP. unfold p_consume, tok_is in HP.
      destruct (N.eqb_spec (cur_tok r2) TT_CR) as [Ec|Ec].
      - destruct r2 as [|x r3]; [discriminate Ec|]. cbn [cur_tok cur_val tl] in *.
        apply tok_CR in Ec. subst x.
        destruct (N.eqb_spec (cur_tok r3) TT_LF) as [El|El].
        + destruct r3 as [|y rest]; [discriminate El|]. cbn [cur_tok tl] in *. apply tok_LF in El. subst y.
          eapply PO_ok; eassumption.
        + eapply PO_no_lf; eassumption.
      - eapply PO_no_cr; eassumption. }
    destruct (bytes_eqb (lower (line_tag bs)) (s2b "done")) eqn:D.
    + apply (Tail [] CDone r1); [apply BR_done; assumption|exact C1|right; exact I|].
      unfold parse_command. rewrite E, D. reflexivity.
    + pose proof (Nice_after_tag fuel (length r1) ltac:(lia)) as [W T].
      specialize (W r1). specialize (T r1 (le_n _)). unfold p_after_tag in W, T.
      destruct ((sp;;; k <- p_kw;; p_payload fuel k) r1) as [|k a|c r2] eqn:EB; [congruence| |].
      * apply (PO_body_error fuel bs k a); [|assumption|exact D|eapply cons_ok_trans; eassumption].
        unfold parse_command. rewrite E, D, EB. reflexivity.
      * apply (Tail (line_tag bs) c r2); [apply BR_cmd; assumption|eapply cons_ok_trans; eassumption|right; exact I|].
        unfold parse_command. rewrite E, D, EB. reflexivity.
Qed.

(* ---- C11: totality and "consumes at most its input" *)
Lemma parse_command_total : forall bs, parse_command (length bs + 1) bs <> POut.
Proof.
  intros bs H. destruct (parse_command_outcome (length bs + 1) bs ltac:(lia)); congruence.
Qed.

Definition is_suffix (s bs : bytes) : Prop := exists pre, bs = pre ++ s.

Lemma cons_ok_suffix : forall bs r k, cons_ok bs r k -> is_suffix r bs.
Proof. intros bs r k (pre & E & _). exists pre. exact E. Qed.

Lemma parse_command_consumes : forall fuel bs, (length bs < fuel)%nat ->
  match parse_command fuel bs with
  | POut => False
  | PErr _ _ a => is_suffix a bs
  | POk _ _ rest => is_suffix rest bs /\ (length rest < length bs)%nat
  end.
Proof.
  intros fuel bs Hl. destruct (parse_command_outcome fuel bs Hl) as [E _|k a E _ _ C|t c r2 _ C _ E|t c r3 _ C _ E|t c rest _ C E];
    rewrite E.
  - exists []. reflexivity.
  - eapply cons_ok_suffix; exact C.
  - eapply cons_ok_suffix; exact C.
  - destruct C as (pre & -> & _). exists (pre ++ [13]). rewrite <- app_assoc. reflexivity.
  - destruct C as (pre & -> & _). split.
    + exists (pre ++ [13; 10]). rewrite <- app_assoc. reflexivity.
    + rewrite app_length. cbn. lia.
Qed.

(* the parser never asks for a crash *)
Lemma parse_command_no_crash : forall fuel bs t a, (length bs < fuel)%nat -> parse_command fuel bs <> PErr t ECrash a.
Proof.
  intros fuel bs t a Hl H.
  destruct (parse_command_outcome fuel bs Hl) as [E _|k a' E _ _ C|t' c r2 _ C _ E|t' c r3 _ C _ E|t' c rest _ C E];
    rewrite E in H; try discriminate.
  injection H as _ -> _. destruct C as (pre & _ & _ & F). exact F.
Qed.

(* literal allocation: `make([]byte, n)` is only reached with min <= n < cap *)
Lemma literal_allocation_bounded : forall bs n r, p_literal_header bs = ROk n r -> literal_min_size <= n < literal_cap.
Proof. intros bs n r H. pose proof (literal_header_spec bs) as S. rewrite H in S. tauto. Qed.

(* whenever a literal header is accepted (the server then waits for n bytes) the continuation request has been sent *)
Lemma continuation_for_every_literal : forall bs n r, p_literal_header bs = ROk n r -> lit_continuation_sent n = true.
Proof. intros bs n r _. unfold lit_continuation_sent. reflexivity. Qed.
