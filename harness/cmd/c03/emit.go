package main

import (
	"fmt"
	"strings"
)

func coqString(s string) string { return `"` + strings.ReplaceAll(s, `"`, `""`) + `"%string` }

func coqFlags(fs []string) string {
	p := make([]string, len(fs))
	for i, f := range fs {
		p[i] = coqString(f)
	}
	return "[" + strings.Join(p, "; ") + "]"
}

// coqSegs renders entity numbers as (start,count) segments in the given order.
func coqSegs(es []int) string {
	var p []string
	for i := 0; i < len(es); {
		j := i + 1
		for j < len(es) && es[j] == es[j-1]+1 {
			j++
		}
		p = append(p, fmt.Sprintf("(%d,%d)", es[i], j-i))
		i = j
	}
	return "[" + strings.Join(p, ";") + "]"
}

func coqRows(rows []orow) string {
	var p []string
	for i := 0; i < len(rows); {
		j := i + 1
		for j < len(rows) && rows[j].UID == rows[j-1].UID+1 && rows[j].Ent == rows[j-1].Ent+1 &&
			rows[j].Del == rows[i].Del && flagsEq(rows[j].Flags, rows[i].Flags) {
			j++
		}
		ent := rows[i].Ent
		if ent < 0 {
			ent = 0 // unreadable marker: no entity has number 0
		}
		del := "false"
		if rows[i].Del {
			del = "true"
		}
		p = append(p, fmt.Sprintf("ORun %d %d %d %s %s", rows[i].UID, ent, j-i, del, coqFlags(rows[i].Flags)))
		i = j
	}
	return "[" + strings.Join(p, "; ") + "]"
}

func coqViews(obs map[string]boxObs) string {
	var p []string
	for i, b := range boxNames {
		p = append(p, fmt.Sprintf("(%d, %s)", i+1, coqRows(obs[b].Rows)))
	}
	return "Some [" + strings.Join(p, "; ") + "]"
}

func coqCase(id int, steps []string) string {
	return fmt.Sprintf("mkCase %d%%nat [\n    %s]", id, strings.Join(steps, ";\n    "))
}
