package main

// Extractor "Limits" -> coq/Gen/FactsLimits.v (properties C04, C17, C20).
//
//  1. limits/imap.go: the four IMAP.Check* methods are translated expression by expression into Gallina over Z.
//     int64(x) becomes (wrap64 x), a + b on int64 becomes (wrap64 (a + b)); comparisons and || map to the Z/bool
//     operators. Every method must have the shape { x := e }* { if cond { return Err } }* return nil; the
//     Gallina function returns true iff the Go method returns an error.
//  2. a table of every call site of a Check* method in internal/state/{state,mailbox,updates_mailbox}.go and
//     internal/backend/{connector_updates,connector_state_write}.go: (file, enclosing function, transaction kind of the
//     closure the call sits in, method, argument text).
//  3. structural facts the model (coq/Model/MailStore.v) depends on: where the checks sit relative to the transactions
//     and to the mutation they guard.
import (
	"fmt"
	"go/ast"
	"go/token"
	"sort"
	"strings"
)

func init() { register("Limits", factsLimits) }

var limChecks = map[string]bool{"CheckMailBoxCount": true, "CheckMailBoxMessageCount": true, "CheckUIDCount": true, "CheckUIDValidity": true}

type limTr struct {
	t      *T
	file   string
	recv   string
	int64s map[string]bool // names known to hold int64 values (locals defined from int64 expressions, struct fields)
}

// expr translates an integer/boolean Go expression. isInt64 tells whether the value is an int64 (so + wraps).
func (x *limTr) expr(e ast.Expr) (string, bool, error) {
	switch v := e.(type) {
	case *ast.ParenExpr:
		s, i, err := x.expr(v.X)
		return "(" + s + ")", i, err
	case *ast.Ident:
		return v.Name, x.int64s[v.Name], nil
	case *ast.SelectorExpr:
		if id, ok := v.X.(*ast.Ident); ok && id.Name == x.recv {
			return v.Sel.Name, true, nil
		}
		return "", false, fmt.Errorf("unsupported selector %s", x.t.Src(x.file, e))
	case *ast.CallExpr:
		if id, ok := v.Fun.(*ast.Ident); ok && id.Name == "int64" && len(v.Args) == 1 {
			s, _, err := x.expr(v.Args[0])
			return "(wrap64 " + s + ")", true, err
		}
		return "", false, fmt.Errorf("unsupported call %s", x.t.Src(x.file, e))
	case *ast.BinaryExpr:
		a, ai, err := x.expr(v.X)
		if err != nil {
			return "", false, err
		}
		b, bi, err := x.expr(v.Y)
		if err != nil {
			return "", false, err
		}
		switch v.Op {
		case token.ADD:
			if !(ai && bi) {
				return "", false, fmt.Errorf("addition of non-int64 operands %s", x.t.Src(x.file, e))
			}
			return "(wrap64 (" + a + " + " + b + "))", true, nil
		case token.GTR:
			return "(" + a + " >? " + b + ")", false, nil
		case token.GEQ:
			return "(" + a + " >=? " + b + ")", false, nil
		case token.LSS:
			return "(" + a + " <? " + b + ")", false, nil
		case token.LEQ:
			return "(" + a + " <=? " + b + ")", false, nil
		case token.EQL:
			return "(" + a + " =? " + b + ")", false, nil
		case token.LOR:
			return "(" + a + " || " + b + ")", false, nil
		case token.LAND:
			return "(" + a + " && " + b + ")", false, nil
		}
		return "", false, fmt.Errorf("unsupported operator %s", v.Op)
	}
	return "", false, fmt.Errorf("unsupported expression %s", x.t.Src(x.file, e))
}

func (x *limTr) method(fd *ast.FuncDecl, fields []string) (string, error) {
	if fd.Recv == nil || len(fd.Recv.List) != 1 || len(fd.Recv.List[0].Names) != 1 {
		return "", fmt.Errorf("%s: receiver", fd.Name.Name)
	}
	x.recv = fd.Recv.List[0].Names[0].Name
	x.int64s = map[string]bool{}
	var params []string
	for _, f := range fd.Type.Params.List {
		for _, n := range f.Names {
			params = append(params, n.Name)
		}
	}
	var sb strings.Builder
	sb.WriteString("Definition " + fd.Name.Name + " (" + strings.Join(fields, " ") + " : Z) (" + strings.Join(params, " ") + " : Z) : bool :=\n")
	n := len(fd.Body.List)
	if n == 0 {
		return "", fmt.Errorf("%s: empty body", fd.Name.Name)
	}
	closers := 0
	for i, st := range fd.Body.List {
		switch s := st.(type) {
		case *ast.AssignStmt:
			if s.Tok != token.DEFINE || len(s.Lhs) != 1 || len(s.Rhs) != 1 {
				return "", fmt.Errorf("%s: unsupported assignment", fd.Name.Name)
			}
			id, ok := s.Lhs[0].(*ast.Ident)
			if !ok {
				return "", fmt.Errorf("%s: unsupported assignment target", fd.Name.Name)
			}
			e, isI, err := x.expr(s.Rhs[0])
			if err != nil {
				return "", err
			}
			x.int64s[id.Name] = isI
			sb.WriteString("  let " + id.Name + " := " + e + " in\n")
		case *ast.IfStmt:
			if s.Init != nil || s.Else != nil || len(s.Body.List) != 1 {
				return "", fmt.Errorf("%s: unsupported if", fd.Name.Name)
			}
			r, ok := s.Body.List[0].(*ast.ReturnStmt)
			if !ok || len(r.Results) != 1 {
				return "", fmt.Errorf("%s: if body is not a return", fd.Name.Name)
			}
			if id, ok := r.Results[0].(*ast.Ident); !ok || !strings.HasPrefix(id.Name, "Err") {
				return "", fmt.Errorf("%s: if does not return an Err value", fd.Name.Name)
			}
			c, _, err := x.expr(s.Cond)
			if err != nil {
				return "", err
			}
			sb.WriteString("  if " + c + " then true else (\n")
			closers++
		case *ast.ReturnStmt:
			if i != n-1 || len(s.Results) != 1 {
				return "", fmt.Errorf("%s: unexpected return", fd.Name.Name)
			}
			if id, ok := s.Results[0].(*ast.Ident); !ok || id.Name != "nil" {
				return "", fmt.Errorf("%s: final return is not nil", fd.Name.Name)
			}
			sb.WriteString("  false" + strings.Repeat(")", closers) + ".\n")
		default:
			return "", fmt.Errorf("%s: unsupported statement", fd.Name.Name)
		}
	}
	return sb.String(), nil
}

type limSite struct{ file, fn, tx, check, args string }

// txKind names the transaction helper whose closure argument contains pos ("" if none).
func limTxKind(stack []ast.Node) string {
	kind := "none"
	for i := 0; i < len(stack); i++ {
		call, ok := stack[i].(*ast.CallExpr)
		if !ok {
			continue
		}
		name := ""
		switch f := call.Fun.(type) {
		case *ast.Ident:
			name = f.Name
		case *ast.SelectorExpr:
			name = f.Sel.Name
		case *ast.IndexExpr:
			if id, ok := f.X.(*ast.Ident); ok {
				name = id.Name
			}
			if se, ok := f.X.(*ast.SelectorExpr); ok {
				name = se.Sel.Name
			}
		}
		// is the next node on the stack a FuncLit argument of this call?
		if i+1 < len(stack) {
			if _, ok := stack[i+1].(*ast.FuncLit); ok {
				switch name {
				case "stateDBRead", "stateDBReadResult", "Read", "ClientReadType":
					kind = "read"
				case "stateDBWrite", "stateDBWriteResult", "Write", "ClientWriteType", "userDBWrite", "userDBWriteResult":
					kind = "write"
				}
			}
		}
	}
	return kind
}

func limWalk(t *T, rel string, f *ast.File, visit func(fn string, stack []ast.Node, call *ast.CallExpr, sel string)) {
	for _, d := range f.Decls {
		fd, ok := d.(*ast.FuncDecl)
		if !ok || fd.Body == nil {
			continue
		}
		var stack []ast.Node
		ast.Inspect(fd.Body, func(n ast.Node) bool {
			if n == nil {
				stack = stack[:len(stack)-1]
				return true
			}
			stack = append(stack, n)
			if call, ok := n.(*ast.CallExpr); ok {
				if se, ok := call.Fun.(*ast.SelectorExpr); ok {
					visit(fd.Name.Name, stack, call, se.Sel.Name)
				}
			}
			return true
		})
	}
}

func coqBool(b bool) string {
	if b {
		return "true"
	}
	return "false"
}

func factsLimits(t *T) (string, error) {
	const lf = "limits/imap.go"
	f, err := t.ParseFile(lf)
	if err != nil {
		return "", err
	}
	// struct fields in declaration order
	var fields []string
	for _, d := range f.Decls {
		gd, ok := d.(*ast.GenDecl)
		if !ok {
			continue
		}
		for _, sp := range gd.Specs {
			ts, ok := sp.(*ast.TypeSpec)
			if !ok || ts.Name.Name != "IMAP" {
				continue
			}
			st, ok := ts.Type.(*ast.StructType)
			if !ok {
				continue
			}
			for _, fl := range st.Fields.List {
				for _, n := range fl.Names {
					fields = append(fields, n.Name)
				}
			}
		}
	}
	want := []string{"maxMailboxCount", "maxMessageCountPerMailbox", "maxUIDValidity", "maxUID"}
	if strings.Join(fields, ",") != strings.Join(want, ",") {
		return "", fmt.Errorf("limits.IMAP fields changed: %v", fields)
	}
	var sb strings.Builder
	sb.WriteString("(* Facts extracted from limits/imap.go and the call sites of the limit checks (T1, extractor Limits). *)\n")
	sb.WriteString("From Coq Require Import ZArith Bool List String.\nImport ListNotations.\nOpen Scope Z_scope.\n\n")
	sb.WriteString("(* int64 conversion / int64 addition: two's complement wrap *)\n")
	sb.WriteString("Definition wrap64 (z : Z) : Z := (z + 9223372036854775808) mod 18446744073709551616 - 9223372036854775808.\n\n")
	sb.WriteString("(* true = the Go method returns an error *)\n")
	x := &limTr{t: t, file: lf}
	for _, name := range []string{"CheckMailBoxCount", "CheckMailBoxMessageCount", "CheckUIDCount", "CheckUIDValidity"} {
		fd := FuncDecl(f, "IMAP", name)
		if fd == nil {
			return "", fmt.Errorf("method IMAP.%s not found", name)
		}
		s, err := x.method(fd, fields)
		if err != nil {
			return "", err
		}
		sb.WriteString("(* " + strings.ReplaceAll(t.Src(lf, fd.Type), "*)", "* )") + " *)\n" + s + "\n")
	}

	// call sites and structural facts
	files := []string{"internal/state/state.go", "internal/state/mailbox.go", "internal/state/updates_mailbox.go",
		"internal/state/actions.go", "internal/backend/connector_updates.go", "internal/backend/connector_state_write.go"}
	var sites []limSite
	appendRecheckCount, appendRecheckUID := false, false
	appendReadCount := false
	createSum, renameCheck, limitSkipsRecovery := false, false, false
	createGenInTx := false
	var erasePos, addRecoveredPos token.Pos
	for _, rel := range files {
		af, err := t.ParseFile(rel)
		if err != nil {
			return "", err
		}
		limWalk(t, rel, af, func(fn string, stack []ast.Node, call *ast.CallExpr, sel string) {
			if limChecks[sel] {
				var args []string
				for _, a := range call.Args {
					args = append(args, strings.Join(strings.Fields(t.Src(rel, a)), " "))
				}
				k := limTxKind(stack)
				sites = append(sites, limSite{rel, fn, k, sel, strings.Join(args, ", ")})
				// the argument adds the number of mailboxes about to be created to the current count
				hasLen := false
				for _, a := range call.Args {
					ast.Inspect(a, func(n ast.Node) bool {
						if b, ok := n.(*ast.BinaryExpr); ok && b.Op == token.ADD {
							hasLen = true
						}
						return true
					})
				}
				switch {
				case fn == "AppendRegular" && sel == "CheckMailBoxMessageCount" && k == "write":
					appendRecheckCount = true
				case fn == "AppendRegular" && sel == "CheckUIDCount" && k == "write":
					appendRecheckUID = true
				case fn == "AppendRegular" && sel == "CheckMailBoxMessageCount" && k == "read":
					appendReadCount = true
				case fn == "Create" && strings.HasSuffix(rel, "state.go") && sel == "CheckMailBoxCount" && k == "write" && hasLen:
					createSum = true
				case fn == "Rename" && sel == "CheckMailBoxCount" && k == "write" && hasLen:
					renameCheck = true
				}
			}
			if fn == "Create" && strings.HasSuffix(rel, "state.go") && sel == "GenerateUIDValidity" && limTxKind(stack) == "write" {
				createGenInTx = true
			}
			if fn == "Append" && strings.HasSuffix(rel, "mailbox.go") && sel == "IsIMAPLimitErr" {
				// must sit in the condition of an if statement whose body returns
				for i := len(stack) - 1; i >= 0; i-- {
					if is, ok := stack[i].(*ast.IfStmt); ok && is.Cond.Pos() <= call.Pos() && call.End() <= is.Cond.End() {
						if len(is.Body.List) > 0 {
							if _, ok := is.Body.List[len(is.Body.List)-1].(*ast.ReturnStmt); ok {
								limitSkipsRecovery = true
							}
						}
					}
				}
			}
			if fn == "actionMoveMessagesOutOfRecoveryMailbox" {
				if sel == "Erase" {
					erasePos = call.Pos()
				}
				if sel == "actionAddRecoveredMessagesToMailbox" {
					addRecoveredPos = call.Pos()
				}
			}
		})
	}
	if len(sites) == 0 {
		return "", fmt.Errorf("no call sites of the limit checks found")
	}
	if erasePos == token.NoPos || addRecoveredPos == token.NoPos {
		return "", fmt.Errorf("actionMoveMessagesOutOfRecoveryMailbox: Erase / actionAddRecoveredMessagesToMailbox calls not found")
	}
	sort.SliceStable(sites, func(i, j int) bool {
		if sites[i].file != sites[j].file {
			return sites[i].file < sites[j].file
		}
		return false
	})
	sb.WriteString("(* call sites: (file, function, transaction kind of the enclosing closure, check, arguments) *)\n")
	sb.WriteString("Definition limit_check_sites : list (string * string * string * string * string) := [\n")
	for i, s := range sites {
		sep := ";"
		if i == len(sites)-1 {
			sep = ""
		}
		sb.WriteString(fmt.Sprintf("  (%s, %s, %s, %s, %s)%s\n", coqString(s.file), coqString(s.fn), coqString(s.tx), coqString(s.check), coqString(s.args), sep))
	}
	sb.WriteString("]%string.\n\n")
	sb.WriteString("(* structural facts used by coq/Model/MailStore.v *)\n")
	sb.WriteString("(* Mailbox.AppendRegular checks the message count in its read transaction *)\n")
	sb.WriteString("Definition fact_append_checks_in_read_tx : bool := " + coqBool(appendReadCount) + ".\n")
	sb.WriteString("(* ... and checks message count and UID again inside the write transaction that inserts the row *)\n")
	sb.WriteString("Definition fact_append_rechecks_in_write_tx : bool := " + coqBool(appendRecheckCount && appendRecheckUID) + ".\n")
	sb.WriteString("(* State.Create checks the mailbox count against count + number of mailboxes it is going to create *)\n")
	sb.WriteString("Definition fact_create_counts_new_mailboxes : bool := " + coqBool(createSum) + ".\n")
	sb.WriteString("(* State.Rename checks the mailbox count for the superiors (and the INBOX replacement) it creates *)\n")
	sb.WriteString("Definition fact_rename_checks_count : bool := " + coqBool(renameCheck) + ".\n")
	sb.WriteString("(* Mailbox.Append returns a limit error without falling back to the recovery mailbox *)\n")
	sb.WriteString("Definition fact_append_limit_error_skips_recovery : bool := " + coqBool(limitSkipsRecovery) + ".\n")
	sb.WriteString("(* actionMoveMessagesOutOfRecoveryMailbox erases the recovered-message hashes only after the label step succeeded *)\n")
	sb.WriteString("Definition fact_recovery_erase_after_add : bool := " + coqBool(erasePos > addRecoveredPos) + ".\n")
	sb.WriteString("(* State.Create generates the UIDVALIDITY inside its write transaction (after the checks of the name) *)\n")
	sb.WriteString("Definition fact_create_generates_in_write_tx : bool := " + coqBool(createGenInTx) + ".\n")
	raw, err := limInsertFallsBack(t)
	if err != nil {
		return "", err
	}
	sb.WriteString("(* MessageHashesMap.Insert: when rfc822.GetMessageHash fails the hash string is assigned a fallback value (hash of the\n   raw bytes) instead of returning the error, so every literal has a de-duplication key *)\n")
	sb.WriteString("Definition fact_insert_falls_back_to_raw_hash : bool := " + coqBool(raw) + ".\n")
	sorted, err := limHashParamsSorted(t)
	if err != nil {
		return "", err
	}
	sb.WriteString("(* rfc822.GetMessageHash: the names of the Content-Type parameters of a part are sorted (slices.Sort / sort.Strings on the\n   key slice) before the loop that writes them into the hash; the loop does not range over the map itself *)\n")
	sb.WriteString("Definition fact_hash_params_sorted : bool := " + coqBool(sorted) + ".\n")
	defRaw, err := limHashBodyDefaultRaw(t)
	if err != nil {
		return "", err
	}
	sb.WriteString("(* rfc822 hashBody: the switch over the Content-Transfer-Encoding of a text part has a default arm that takes the body as\n   it is, so every encoding other than base64 / quoted-printable contributes the body bytes *)\n")
	sb.WriteString("Definition fact_hash_body_default_raw : bool := " + coqBool(defRaw) + ".\n")
	return sb.String(), nil
}

// limHashParamsSorted inspects rfc822/hash.go GetMessageHash: a statement `K := maps.Keys(M)` must be followed, in the same
// block, by a call that sorts K (slices.Sort(K), sort.Strings(K), slices.SortFunc(K, ..), sort.Slice(K, ..)) before the
// `for .. := range K` loop; a loop ranging over M directly, or over K without the sort, gives false.
func limHashParamsSorted(t *T) (bool, error) {
	const rel = "rfc822/hash.go"
	f, err := t.ParseFile(rel)
	if err != nil {
		return false, err
	}
	fd := FuncDecl(f, "", "GetMessageHash")
	if fd == nil || fd.Body == nil {
		return false, fmt.Errorf("rfc822.GetMessageHash not found")
	}
	found, sortedAll := false, true
	ast.Inspect(fd.Body, func(n ast.Node) bool {
		blk, ok := n.(*ast.BlockStmt)
		if !ok {
			return true
		}
		for i, st := range blk.List {
			as, ok := st.(*ast.AssignStmt)
			if !ok || len(as.Lhs) != 1 || len(as.Rhs) != 1 {
				continue
			}
			call, ok := as.Rhs[0].(*ast.CallExpr)
			if !ok {
				continue
			}
			se, ok := call.Fun.(*ast.SelectorExpr)
			if !ok || se.Sel.Name != "Keys" {
				continue
			}
			key, ok := as.Lhs[0].(*ast.Ident)
			if !ok {
				continue
			}
			sorted := false
			for _, later := range blk.List[i+1:] {
				if es, ok := later.(*ast.ExprStmt); ok {
					if c, ok := es.X.(*ast.CallExpr); ok && len(c.Args) >= 1 {
						if fn, ok := c.Fun.(*ast.SelectorExpr); ok {
							if arg, ok := c.Args[0].(*ast.Ident); ok && arg.Name == key.Name {
								switch fn.Sel.Name {
								case "Sort", "Strings", "SortFunc", "Slice", "SortStableFunc", "SliceStable":
									sorted = true
								}
							}
						}
					}
				}
				if rs, ok := later.(*ast.RangeStmt); ok {
					if x, ok := rs.X.(*ast.Ident); ok && x.Name == key.Name {
						found = true
						sortedAll = sortedAll && sorted
					}
				}
			}
		}
		return true
	})
	// a loop over the parameter map itself writes in map order
	mapRange := false
	ast.Inspect(fd.Body, func(n ast.Node) bool {
		if rs, ok := n.(*ast.RangeStmt); ok {
			if x, ok := rs.X.(*ast.Ident); ok && x.Name == "values" {
				mapRange = true
			}
		}
		return true
	})
	if mapRange {
		return false, nil
	}
	if !found {
		return false, fmt.Errorf("GetMessageHash: no loop over the keys of the Content-Type parameters found")
	}
	return sortedAll, nil
}

// limHashBodyDefaultRaw inspects rfc822/hash.go hashBody: the switch over the transfer encoding must have a `default:` clause
// that assigns the body parameter to the variable that is written into the hash afterwards (`decoded = body`).
func limHashBodyDefaultRaw(t *T) (bool, error) {
	const rel = "rfc822/hash.go"
	f, err := t.ParseFile(rel)
	if err != nil {
		return false, err
	}
	fd := FuncDecl(f, "", "hashBody")
	if fd == nil || fd.Body == nil {
		return false, fmt.Errorf("rfc822 hashBody not found")
	}
	var sw *ast.SwitchStmt
	ast.Inspect(fd.Body, func(n ast.Node) bool {
		if s, ok := n.(*ast.SwitchStmt); ok && sw == nil {
			sw = s
		}
		return true
	})
	if sw == nil {
		return false, fmt.Errorf("hashBody: no switch over the transfer encoding found")
	}
	for _, st := range sw.Body.List {
		cc, ok := st.(*ast.CaseClause)
		if !ok || cc.List != nil {
			continue
		}
		for _, b := range cc.Body {
			if as, ok := b.(*ast.AssignStmt); ok && len(as.Lhs) == 1 && len(as.Rhs) == 1 && as.Tok == token.ASSIGN {
				l, lok := as.Lhs[0].(*ast.Ident)
				r, rok := as.Rhs[0].(*ast.Ident)
				if lok && rok && l.Name == "decoded" && r.Name == "body" {
					return true, nil
				}
			}
		}
	}
	return false, nil
}

// limInsertFallsBack inspects internal/utils/message_hashmap.go Insert: `x, err := rfc822.GetMessageHash(literal)` must be
// followed by `if err != nil { ... }` whose body assigns x and contains no return statement.
func limInsertFallsBack(t *T) (bool, error) {
	const rel = "internal/utils/message_hashmap.go"
	f, err := t.ParseFile(rel)
	if err != nil {
		return false, err
	}
	fd := FuncDecl(f, "MessageHashesMap", "Insert")
	if fd == nil || fd.Body == nil {
		return false, fmt.Errorf("MessageHashesMap.Insert not found")
	}
	hashVar := ""
	for i, st := range fd.Body.List {
		if as, ok := st.(*ast.AssignStmt); ok && len(as.Lhs) == 2 && len(as.Rhs) == 1 {
			if call, ok := as.Rhs[0].(*ast.CallExpr); ok {
				if se, ok := call.Fun.(*ast.SelectorExpr); ok && se.Sel.Name == "GetMessageHash" {
					if id, ok := as.Lhs[0].(*ast.Ident); ok {
						hashVar = id.Name
					}
					if i+1 >= len(fd.Body.List) {
						return false, nil
					}
					is, ok := fd.Body.List[i+1].(*ast.IfStmt)
					if !ok || !strings.Contains(t.Src(rel, is.Cond), "err != nil") {
						return false, fmt.Errorf("Insert: the error of GetMessageHash is not tested right after the call")
					}
					assigns, returns := false, false
					ast.Inspect(is.Body, func(n ast.Node) bool {
						switch x := n.(type) {
						case *ast.ReturnStmt:
							returns = true
						case *ast.AssignStmt:
							for _, l := range x.Lhs {
								if id, ok := l.(*ast.Ident); ok && id.Name == hashVar && x.Tok == token.ASSIGN {
									assigns = true
								}
							}
						}
						return true
					})
					return assigns && !returns, nil
				}
			}
		}
	}
	return false, fmt.Errorf("Insert: call of GetMessageHash not found")
}
