package main

import (
	"fmt"
	"os"
	"sort"
	"strings"
	"time"

	"github.com/ProtonMail/gluon/imap"
	"github.com/emersion/go-imap/utf7"

	"verifharness/imapc"
	"verifharness/srv"
)

func enc(s string) string {
	r, err := utf7.Encoding.NewEncoder().String(s)
	if err != nil {
		panic(err)
	}
	return imapc.Quote(r)
}

func show(c *imapc.Client, cmd string) {
	r, err := c.Cmd(cmd)
	var ls []string
	for _, u := range r.Untagged {
		ls = append(ls, u.Text)
	}
	sort.Strings(ls)
	fmt.Printf("> %q\n", cmd)
	for _, l := range ls {
		fmt.Printf("    %q\n", l)
	}
	fmt.Printf("    %s %s err=%v\n", r.Status, r.Text, err)
}

func main() {
	which := os.Args[1]
	del := "/"
	if len(os.Args) > 2 {
		del = os.Args[2]
	}
	s, err := srv.Start(srv.Options{Delimiter: del})
	if err != nil {
		panic(err)
	}
	defer s.Stop()
	c, err := s.Login()
	if err != nil {
		panic(err)
	}
	c2, _ := s.Login()
	_ = c2
	d := del
	switch which {
	case "delim":
		show(c, "CREATE "+enc("a"+d+"b"))
		show(c, `LIST "" *`)
		show(c, `LIST "" %`)
		show(c, `LIST "" `+enc("a"+d+"%"))
	case "nl":
		show(c, "CREATE "+enc("x\ny"))
		show(c, "CREATE "+enc("p"+d+"x\ny"+d+"q"))
		show(c, `LIST "" *`)
		show(c, `LIST "" %`)
		show(c, `LIST "" x*`)
		show(c, `LIST "" p/*`)
		show(c, `LIST "" p/%`)
	case "inboxchild":
		show(c, "CREATE foo/inbox")
		show(c, "CREATE inbox/Bar")
		show(c, "CREATE INBOX/inbox")
		show(c, `LIST "" *`)
		show(c, `LIST "" foo/inbox`)
		show(c, `LIST "" foo/*`)
		show(c, `LIST "" foo/%`)
		show(c, `LIST "" foo/i*`)
		show(c, `LIST "" inbox/*`)
		show(c, `LIST "" InBoX`)
		show(c, `LIST "" inbo%`)
		show(c, `LIST "inbox/" %`)
		show(c, `LIST "" INBOX/inbox`)
		show(c, `SUBSCRIBE inbox`)
		show(c, `UNSUBSCRIBE inbox`)
		show(c, `UNSUBSCRIBE INBOX`)
		show(c, `SUBSCRIBE inbox`)
		show(c, `LSUB "" *`)
		show(c, `RENAME inbox zzz`)
		show(c, `LIST "" *`)
		show(c, `RENAME INBOX yyy/zzz`)
		show(c, `LIST "" *`)
		show(c, `RENAME yyy inbox`)
		show(c, `RENAME yyy Inbox/u`)
		show(c, `RENAME zzz foo/Inbox`)
		show(c, `LIST "" *`)
		show(c, `DELETE inbox`)
		show(c, `CREATE inbox`)
		show(c, `CREATE Inbox/`)
	case "ref":
		show(c, "CREATE "+enc("é"+d+"x"))
		show(c, "CREATE "+enc("a&b"+d+"x"))
		show(c, `LIST `+enc("é"+d)+` %`)
		show(c, `LIST `+enc("é")+` *`)
		show(c, `LIST "" `+enc("é"+d+"%"))
		show(c, `LIST `+enc("a&b"+d)+` %`)
		show(c, `LIST "" `+enc("a&b"+d+"%"))
		show(c, `LIST "a" %`)
		show(c, `LIST "a/" ""`)
		show(c, `LIST "/a/b" ""`)
		show(c, `LIST "a" ""`)
		show(c, `LIST "" ""`)
		show(c, `LIST "/" ""`)
		show(c, `LIST "//x" ""`)
	case "lsub":
		show(c, "CREATE a")
		show(c, `LSUB "" *`)
		show(c, "DELETE a")
		show(c, `LSUB "" *`)
		show(c, "CREATE a")
		show(c, `LSUB "" *`)
		show(c, "UNSUBSCRIBE a")
		show(c, `LSUB "" *`)
		show(c, "UNSUBSCRIBE a")
		show(c, `LSUB "" *`)
		show(c, "DELETE a")
		show(c, `LSUB "" *`)
		show(c, "UNSUBSCRIBE a")
		show(c, `LSUB "" *`)
		show(c, "SUBSCRIBE nonexist")
		show(c, "CREATE p/q/r")
		show(c, "UNSUBSCRIBE p/q")
		show(c, `LSUB "" *`)
		show(c, `LSUB "" %`)
		show(c, `LSUB "" p/%`)
		show(c, `LSUB "" p/*`)
		show(c, `RENAME p P2`)
		show(c, `LSUB "" *`)
		show(c, `LIST "" *`)
		show(c, "DELETE P2/q/r")
		show(c, `LSUB "" *`)
		show(c, `LSUB "" %/%/%`)
		show(c, `RENAME P2 P3`)
		show(c, `LSUB "" *`)
	case "conn":
		cn := s.Conn0()
		push := func(u imap.Update) {
			err, ok := cn.Push(u, 10*time.Second)
			fmt.Printf("push -> err=%v acked=%v\n", err, ok)
		}
		mk := func(id string, name ...string) imap.Mailbox {
			return imap.Mailbox{ID: imap.MailboxID(id), Name: name, Flags: cn.Flags, PermanentFlags: cn.PermFlags, Attributes: cn.Attrs}
		}
		push(imap.NewMailboxCreated(mk("r1", "x", "y", "z")))
		show(c, `LIST "" *`)
		show(c, `LIST "" %`)
		show(c, `LIST "" %/%`)
		push(imap.NewMailboxCreated(mk("r2", "x", "y", "z")))
		push(imap.NewMailboxCreated(mk("r3", "inbox")))
		show(c, `LIST "" *`)
		push(imap.NewMailboxUpdated("r1", []string{"Inbox"}))
		show(c, `LIST "" *`)
		push(imap.NewMailboxUpdated("r1", []string{"q"}))
		push(imap.NewMailboxUpdated("0", []string{"Inbox"}))
		push(imap.NewMailboxUpdated("0", []string{"foo"}))
		show(c, `LIST "" *`)
		push(imap.NewMailboxDeleted("r1"))
		show(c, `LIST "" *`)
		show(c, `LSUB "" *`)
		push(imap.NewMailboxCreated(mk("r4", "Recovered Messages")))
		push(imap.NewMailboxCreated(mk("r5", "", "lead")))
		push(imap.NewMailboxCreated(mk("r6", "tr", "")))
		push(imap.NewMailboxCreated(mk("r7", "")))
		show(c, `LIST "" *`)
		show(c, `LIST "" %`)
		show(c, `LSUB "" %`)
	case "rename":
		show(c, "CREATE a/b/c")
		show(c, "CREATE ab")
		show(c, "CREATE a/bc")
		show(c, "RENAME a /lead")
		show(c, `LIST "" *`)
		show(c, "RENAME a a//d")
		show(c, `LIST "" *`)
		show(c, "RENAME a t/")
		show(c, `LIST "" *`)
		show(c, "RENAME a a/b/x")
		show(c, "RENAME a/b a/b/c/d")
		show(c, "RENAME a/b a/b")
		show(c, `RENAME ab "Recovered Messages/x"`)
		show(c, `LIST "" *`)
		show(c, `CREATE "recovered messagesX"`)
		show(c, `CREATE "Recovered Messages/y"`)
		show(c, `DELETE "recovered messages"`)
		show(c, `RENAME "recovered messages" x`)
		show(c, `SUBSCRIBE "Recovered Messages"`)
		show(c, `UNSUBSCRIBE "Recovered Messages"`)
		show(c, `LSUB "" *`)
		show(c, `CREATE ""`)
		show(c, `CREATE "/"`)
		show(c, `CREATE "x/"`)
		show(c, `CREATE "x"`)
		show(c, `CREATE "y//"`)
		show(c, `DELETE "x/"`)
		show(c, `DELETE a/b`)
		show(c, `LIST "" *`)
		show(c, `DELETE a`)
		show(c, `LIST "" *`)
	case "utf8":
		r, err := c.CmdParts([]string{`LIST "" `, ""}, [][]byte{{0xff, '%'}})
		fmt.Println(r, err)
		r, err = c.CmdParts([]string{`CREATE `, ""}, [][]byte{{'a', 0xff}})
		fmt.Println(r, err)
		show(c, `LIST "" *`)
		r, err = c.CmdParts([]string{`LIST `, ` %`}, [][]byte{{0xff}})
		fmt.Println(r, err)
	}
	_ = strings.Join
}
