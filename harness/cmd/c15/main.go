// Command c15: correspondence harness + property oracle for C15 (SEARCH returns exactly the matching messages of
// the session's view).
package main

import (
	"encoding/json"
	"fmt"
	"math/big"
	"os"
	"regexp"
	"sort"
	"strconv"
	"strings"
	"time"

	"github.com/ProtonMail/gluon/imap"
	"github.com/ProtonMail/gluon/verifhook"

	"verifharness/common"
	"verifharness/imapc"
	"verifharness/srv"
)

func main() { common.Main("C15", runC15) }

type c15case struct {
	ID      int    `json:"id"`
	UID     bool   `json:"uid_search"`
	Box     string `json:"box"`
	Class   string `json:"view_class"`
	N       int    `json:"view_size"`
	Keys    string `json:"keys"`
	Obs     string `json:"obs"`
	Want    string `json:"want"`
	Judged  bool   `json:"judged"`
	Charset string `json:"charset"`
	coqKeys string
	keys    []*key
	obsK    string
	obsS    []int
	epoch   int
}

type harness struct {
	ctx     *common.Ctx
	s       *srv.Server
	rng     *common.Rng
	cases   []*c15case
	epochs  []string // Coq definitions of the views, by epoch
	nextID  int
	base    date
	tagN    int
	charset string // the CHARSET of the command whose keys are being generated
}

func bi(x int64) *big.Int { return big.NewInt(x) }

// ---------- generation of key trees ----------

func (h *harness) pickMsg(v *view) *message {
	if len(v.Msgs) == 0 {
		return nil
	}
	return v.Msgs[h.rng.Pick(len(v.Msgs))]
}

var reWord = regexp.MustCompile(`[\p{L}0-9.@-]+`)

func isASCII(s string) bool {
	for _, c := range []byte(s) {
		if c >= 0x80 {
			return false
		}
	}
	return true
}

// pickCharset: the CHARSET of the next SEARCH command
func (h *harness) pickCharset() string {
	switch x := h.rng.Pick(100); {
	case x < 50:
		return ""
	case x < 60:
		return []string{"UTF-8", "utf-8"}[h.rng.Pick(2)]
	case x < 64:
		return "US-ASCII"
	default:
		return []string{"ISO-8859-1", "iso-8859-1", "windows-1252", "ISO-8859-15", "KOI8-R"}[h.rng.Pick(5)]
	}
}

// needle drawn from the given text: a word, part of a word, or one of the phrases; sometimes something absent.
// Only text that the charset of the command (h.charset) can express is returned; words outside ASCII are preferred
// when the charset is an 8-bit one.
func (h *harness) needle(text string) string {
	rng := h.rng
	ok := func(s string) bool { _, e := encodeFor(h.charset, s); return e }
	if rng.Chance(0.15) {
		return []string{"zulu", "xyzzy", "nomatch", "alphaa", "brown quick"}[rng.Pick(5)]
	}
	if rng.Chance(0.2) {
		for _, p := range phrases {
			if ciContains(text, p) && rng.Chance(0.7) {
				return randCase(rng, p)
			}
		}
	}
	var ws, wide []string
	for _, w := range reWord.FindAllString(text, -1) {
		if !ok(w) {
			continue
		}
		ws = append(ws, w)
		if !isASCII(w) {
			wide = append(wide, w)
		}
	}
	if rng.Chance(0.08) || len(ws) == 0 { // a word with characters outside ASCII that may or may not be in the text
		var c []string
		for _, w := range nonASCIIWords() {
			if ok(w) {
				c = append(c, w)
			}
		}
		if len(c) > 0 && (len(ws) == 0 || h.charset != "US-ASCII") && rng.Chance(0.7) {
			return randCase(rng, c[rng.Pick(len(c))])
		}
		if len(ws) == 0 {
			return randCase(rng, words[rng.Pick(len(words))])
		}
	}
	w := ws[rng.Pick(len(ws))]
	if len(wide) > 0 && rng.Chance(0.6) {
		w = wide[rng.Pick(len(wide))]
	}
	if r := []rune(w); len(r) > 3 && rng.Chance(0.35) {
		a := rng.Range(0, len(r)-2)
		b := rng.Range(a+2, len(r))
		w = string(r[a:b])
	}
	return randCase(rng, w)
}

// crossNeedle: a string that spans a fold of the field: the end of the token before the fold, one space, the beginning
// of the token after it ("" when the charset of the command cannot express it)
func (h *harness) crossNeedle(f *hfield) string {
	rng := h.rng
	c := f.Cross[rng.Pick(len(f.Cross))]
	l, r := []rune(c[0]), []rune(c[1])
	if len(l) > 2 && rng.Chance(0.6) {
		l = l[len(l)-rng.Range(2, len(l)):]
	}
	if len(r) > 2 && rng.Chance(0.6) {
		r = r[:rng.Range(2, len(r))]
	}
	n := randCase(rng, string(l)+" "+string(r))
	if _, ok := encodeFor(h.charset, n); !ok {
		return ""
	}
	return n
}

// headerNeedle: a needle for a key that reads a header field. RFC 5322 unfolds by removing the CRLF; gluon trims every
// physical line and joins them with one space. The two differ only in the white space at a fold, and only a needle that
// spans a fold made of something else than CRLF SP can tell them apart: such needles are not used (the property does not
// say which reading is meant); needles that span a CRLF SP fold are.
func (h *harness) headerNeedle(v *view, f *hfield, text string) string {
	for try := 0; try < 6; try++ {
		n, cross := "", false
		if f != nil && len(f.Cross) > 0 && h.rng.Chance(0.4) {
			n, cross = h.crossNeedle(f), true
		} else {
			n = h.needle(text)
		}
		if n != "" && v.readingsAgree(n) {
			if cross {
				h.ctx.Res.Count("needle:spans-a-fold")
			}
			return n
		}
		if cross {
			h.ctx.Res.Count("needle:spans-a-fold-but-readings-differ(not used)")
		}
	}
	return "zulu"
}

func (h *harness) genSet(v *view, uidMode bool) []wrange {
	rng := h.rng
	cnt := len(v.Msgs)
	maxu := v.maxUID()
	num := func() wnum {
		x := rng.Pick(100)
		if uidMode {
			switch {
			case x < 10:
				return wnum{Star: true}
			case x < 70 && cnt > 0:
				return wnum{N: bi(int64(v.Msgs[rng.Pick(cnt)].UID))}
			case x < 90:
				return wnum{N: bi(int64(rng.Range(1, maxu+1)))}
			case x < 96:
				return wnum{N: bi(int64(maxu + rng.Range(1, 3)))}
			case x < 98:
				return wnum{N: bi(0)}
			default:
				return wnum{N: new(big.Int).Add(two32, bi(int64(rng.Range(0, 3))))}
			}
		}
		switch {
		case x < 12:
			return wnum{Star: true}
		case x < 88 && cnt > 0:
			return wnum{N: bi(int64(rng.Range(1, cnt)))}
		case x < 94:
			return wnum{N: bi(int64(cnt + rng.Range(1, 2)))}
		case x < 96:
			return wnum{N: bi(0)}
		case x < 98:
			return wnum{N: new(big.Int).Add(two32, bi(int64(rng.Range(1, cnt+1))))}
		default:
			return wnum{N: bi(int64(rng.Range(1, 3)))}
		}
	}
	n := 1
	if rng.Chance(0.35) {
		n = rng.Range(2, 3)
	}
	var s []wrange
	for i := 0; i < n; i++ {
		a := num()
		if rng.Chance(0.5) {
			s = append(s, wrange{A: a, B: a, Single: true})
			continue
		}
		b := num()
		if uidMode && (a.Star != b.Star) {
			// n:* with n above the highest UID is the case the properties leave open: keep n within the UIDs
			nn := a.N
			if a.Star {
				nn = b.N
			}
			if nn.Sign() > 0 && nn.Cmp(bi(int64(maxu))) > 0 {
				if a.Star {
					b = wnum{N: bi(int64(maxu))}
				} else {
					a = wnum{N: bi(int64(maxu))}
				}
				if maxu == 0 {
					a, b = wnum{Star: true}, wnum{Star: true}
				}
			}
		}
		s = append(s, wrange{A: a, B: b})
	}
	return s
}

func (h *harness) genDate(v *view, sent bool) date {
	rng := h.rng
	d := h.base
	if m := h.pickMsg(v); m != nil {
		if sent && m.Sent != nil {
			d = *m.Sent
		} else if !sent {
			d = m.IDate
		}
	}
	return shiftDate(d, []int{0, 0, 0, 1, -1, 2, -2, 30}[rng.Pick(8)])
}

func (h *harness) genLeaf(v *view) *key {
	rng := h.rng
	k := &key{StrForm: rng.Pick(3), FldForm: rng.Pick(3), DateQ: rng.Chance(0.3), Day1: rng.Chance(0.5), Lower: rng.Chance(0.3)}
	m := h.pickMsg(v)
	x := rng.Pick(100)
	switch {
	case x < 22:
		k.Kind = flagLeaves[rng.Pick(len(flagLeaves))]
	case x < 27:
		k.Kind = []string{"KEYWORD", "UNKEYWORD"}[rng.Pick(2)]
		k.Str = randCase(rng, kwNames[rng.Pick(len(kwNames))])
	case x < 50:
		k.Kind = strLeaves[rng.Pick(len(strLeaves))]
		text := ""
		if m != nil {
			switch k.Kind {
			case "BODY":
				text = m.Body
			case "TEXT":
				text = string(m.Lit)
				if m.Sent0 != nil { // not from the header gluon puts in front (its value differs from run to run)
					text = string(m.Sent0)
				}
			default:
				text = m.first(k.Kind)
			}
		}
		switch k.Kind {
		case "BODY", "TEXT":
			k.Str = h.needle(text)
		default:
			var f *hfield
			if m != nil {
				f = m.firstField(k.Kind)
			}
			k.Str = h.headerNeedle(v, f, text)
		}
	case x < 60:
		k.Kind = "HEADER"
		k.Fld = randCase(rng, []string{"x-tag", "x-custom-field", "comments", "keywords", "subject", "x-marker", "x-absent", "to", "date", "cc", "from", "bcc"}[rng.Pick(12)])
		text := ""
		var fld *hfield
		if m != nil {
			var fs []*hfield
			for i := range m.Hdrs {
				if strings.EqualFold(m.Hdrs[i].Name, k.Fld) {
					fs = append(fs, &m.Hdrs[i])
				}
			}
			if len(fs) > 0 {
				fld = fs[rng.Pick(len(fs))] // any occurrence, not only the first
				text = fld.Value
			}
		}
		if rng.Chance(0.2) {
			k.Str = ""
			if k.StrForm == 0 {
				k.StrForm = 1
			}
		} else {
			k.Str = h.headerNeedle(v, fld, text)
		}
	case x < 76:
		k.Kind = dateLeaves[rng.Pick(len(dateLeaves))]
		k.Date = h.genDate(v, strings.HasPrefix(k.Kind, "SENT"))
	case x < 84:
		k.Kind = []string{"LARGER", "SMALLER"}[rng.Pick(2)]
		sz := 300
		if m != nil {
			sz = m.Size
		}
		switch y := rng.Pick(20); {
		case y < 14:
			k.Num = bi(int64(sz + rng.Range(-1, 1)))
		case y < 16:
			k.Num = bi(0)
		case y < 17:
			k.Num = new(big.Int).Sub(two63, bi(1))
		case y < 18:
			k.Num = new(big.Int).Set(two63)
		case y < 19:
			k.Num = new(big.Int).Add(new(big.Int).Lsh(bi(1), 64), bi(int64(sz)))
		default:
			k.Num = bi(int64(rng.Range(1, 2000)))
		}
	case x < 92:
		k.Kind = "UID"
		k.Set = h.genSet(v, true)
	default:
		k.Kind = "SEQSET"
		k.Set = h.genSet(v, false)
	}
	return k
}

var kwNames = []string{"kwa", "kwb", "$Forwarded", "Junk"}

func (h *harness) genKey(v *view, depth int) *key {
	rng := h.rng
	if depth >= 5 || !rng.Chance(0.42) {
		return h.genLeaf(v)
	}
	k := &key{Lower: rng.Chance(0.3)}
	switch rng.Pick(3) {
	case 0:
		k.Kind = "NOT"
		k.Sub = []*key{h.genKey(v, depth+1)}
	case 1:
		k.Kind = "OR"
		k.Sub = []*key{h.genKey(v, depth+1), h.genKey(v, depth+1)}
	default:
		k.Kind = "LIST"
		n := rng.Range(1, 3)
		for i := 0; i < n; i++ {
			k.Sub = append(k.Sub, h.genKey(v, depth+1))
		}
	}
	return k
}

func (h *harness) genKeys(v *view) []*key {
	n := 1
	if h.rng.Chance(0.4) {
		n = h.rng.Range(2, 3)
	}
	var ks []*key
	for i := 0; i < n; i++ {
		ks = append(ks, h.genKey(v, 1))
	}
	return ks
}

// ---------- talking to the server ----------

func sendSearch(c *imapc.Client, uid bool, charset string, keys []*key) (string, []int, string, error) {
	p := &parts{enc: wireEncoder(charset)}
	if uid {
		p.text("UID ")
	}
	p.text("SEARCH ")
	if charset != "" {
		p.text("CHARSET " + charset + " ")
	}
	for i, k := range keys {
		if i > 0 {
			p.text(" ")
		}
		k.render(p)
	}
	t, l := p.done()
	r, err := c.CmdParts(t, l)
	if err != nil {
		return "", nil, "", err
	}
	switch r.Status {
	case "OK":
		nums := []int{}
		n := 0
		for _, e := range imapc.Evs(r) {
			if e.Kind == "SEARCH" {
				n++
				nums = append(nums, e.Nums...)
			}
		}
		if n != 1 {
			return "OTHER", nil, fmt.Sprintf("%d SEARCH responses", n), nil
		}
		return "SEL", nums, r.Text, nil
	case "BAD", "NO":
		return r.Status, nil, r.Text, nil
	}
	return "OTHER", nil, r.Status + " " + r.Text, nil
}

var reIDate = regexp.MustCompile(`INTERNALDATE "([ 0-9]{2})-([A-Za-z]{3})-(\d{4}) `)
var reSize = regexp.MustCompile(`RFC822\.SIZE (\d+)`)

// refresh reads UID, FLAGS, RFC822.SIZE, INTERNALDATE and the marker header of every message of the selected mailbox
// as the session c sees it and rebuilds the view (pool: all messages ever put into the mailbox, by marker).
func refresh(c *imapc.Client, v *view, pool map[string]*message) error {
	r, err := c.Cmd("FETCH 1:* (UID FLAGS RFC822.SIZE INTERNALDATE BODY.PEEK[HEADER.FIELDS (X-Marker)])")
	if err != nil {
		return err
	}
	if r.Status == "BAD" && len(pool) == 0 { // empty mailbox: 1:* is refused
		v.Msgs = nil
		return nil
	}
	if r.Status != "OK" {
		// empty view
		r2, err2 := c.Cmd("SEARCH ALL")
		if err2 == nil && r2.Status == "OK" {
			for _, e := range imapc.Evs(r2) {
				if e.Kind == "SEARCH" && len(e.Nums) == 0 {
					v.Msgs = nil
					return nil
				}
			}
		}
		return fmt.Errorf("refresh fetch: %s %s", r.Status, r.Text)
	}
	byN := map[int]*message{}
	maxN := 0
	for _, l := range r.Untagged {
		e := imapc.ParseEv(l)
		if e.Kind != "FETCH" {
			continue
		}
		if len(l.Lits) == 0 {
			return fmt.Errorf("refresh: no header literal in %q", l.Text)
		}
		tag := strings.TrimSpace(strings.TrimPrefix(strings.TrimSpace(string(l.Lits[0])), "X-Marker:"))
		m, ok := pool[tag]
		if !ok {
			return fmt.Errorf("refresh: unknown marker %q", tag)
		}
		if byN[e.N] != nil {
			return fmt.Errorf("refresh: two FETCH responses for %d", e.N)
		}
		byN[e.N] = m
		if e.N > maxN {
			maxN = e.N
		}
		m.UID = e.UID
		m.Flags = map[string]bool{}
		for _, f := range e.Flags {
			m.Flags[f] = true
		}
		sm := reSize.FindStringSubmatch(l.Text)
		dm := reIDate.FindStringSubmatch(l.Text)
		if sm == nil || dm == nil {
			return fmt.Errorf("refresh: cannot read size/date in %q", l.Text)
		}
		m.Size, _ = strconv.Atoi(sm[1])
		day, _ := strconv.Atoi(strings.TrimSpace(dm[1]))
		mon := 0
		for i, n := range monthNames {
			if strings.EqualFold(n, dm[2]) {
				mon = i + 1
			}
		}
		yr, _ := strconv.Atoi(dm[3])
		m.IDate = date{yr, mon, day}
	}
	var msgs []*message
	for n := 1; n <= maxN; n++ {
		if byN[n] == nil {
			return fmt.Errorf("refresh: no FETCH response for %d", n)
		}
		msgs = append(msgs, byN[n])
	}
	// the literal as the server holds it (gluon prepends its own X-Pm-Gluon-Id header): that is the text TEXT searches
	if maxN > 0 {
		r, err := c.Cmd("FETCH 1:* (BODY.PEEK[])")
		if err != nil || r.Status != "OK" {
			return fmt.Errorf("refresh: fetch of the literals: %v %s %s", err, r.Status, r.Text)
		}
		seen := 0
		for _, l := range r.Untagged {
			e := imapc.ParseEv(l)
			if e.Kind != "FETCH" || len(l.Lits) != 1 || e.N < 1 || e.N > maxN {
				continue
			}
			if err := byN[e.N].adoptServerLiteral(l.Lits[0]); err != nil {
				return err
			}
			seen++
		}
		if seen != maxN {
			return fmt.Errorf("refresh: %d literals for %d messages", seen, maxN)
		}
	}
	v.Msgs = msgs
	return nil
}

func (h *harness) newTag() string {
	h.tagN++
	return fmt.Sprintf("mk%04dq", h.tagN)
}

func must(r imapc.Result, err error, what string) error {
	if err != nil {
		return fmt.Errorf("%s: %v", what, err)
	}
	if r.Status != "OK" {
		return fmt.Errorf("%s: %s %s", what, r.Status, r.Text)
	}
	return nil
}

// buildBox creates a mailbox with the generated messages.
func (h *harness) buildBox(c *imapc.Client, name string, n int, garbageAt map[int]bool, multipartAt map[int]bool) (map[string]*message, error) {
	r, err := c.Cmd("CREATE " + name)
	if e := must(r, err, "create "+name); e != nil {
		return nil, e
	}
	pool := map[string]*message{}
	for i := 0; i < n; i++ {
		o := msgOpts{Garbage: garbageAt[i], Multipart: multipartAt[i]}
		if h.rng.Chance(0.3) {
			o.Pad = h.rng.Range(1, 12)
		}
		m := genMessage(h.rng, h.newTag(), h.base, o)
		p := "APPEND " + name + " \"" + m.AppendDT + "\" "
		r, err := c.CmdParts([]string{p, ""}, [][]byte{m.Lit})
		if e := must(r, err, "append"); e != nil {
			return nil, fmt.Errorf("%v (message %q)", e, m.Lit)
		}
		pool[m.Tag] = m
	}
	return pool, nil
}

var sysFlags = []string{`\Seen`, `\Answered`, `\Flagged`, `\Deleted`, `\Draft`}

func (h *harness) randomStores(c *imapc.Client, v *view, n int) error {
	rng := h.rng
	cnt := len(v.Msgs)
	if cnt == 0 {
		return nil
	}
	for i := 0; i < n; i++ {
		a := rng.Range(1, cnt)
		b := a
		if rng.Chance(0.5) {
			b = rng.Range(a, cnt)
		}
		var fl []string
		k := rng.Range(1, 2)
		for j := 0; j < k; j++ {
			if rng.Chance(0.7) {
				fl = append(fl, randCaseFlag(rng, sysFlags[rng.Pick(len(sysFlags))]))
			} else {
				fl = append(fl, randCase(rng, kwNames[rng.Pick(len(kwNames))]))
			}
		}
		op := []string{"+FLAGS.SILENT", "+FLAGS.SILENT", "-FLAGS.SILENT", "FLAGS.SILENT"}[rng.Pick(4)]
		r, err := c.Cmd(fmt.Sprintf("STORE %d:%d %s (%s)", a, b, op, strings.Join(fl, " ")))
		if e := must(r, err, "store"); e != nil {
			return e
		}
	}
	return nil
}

func randCaseFlag(rng *common.Rng, f string) string {
	return `\` + randCase(rng, strings.ToLower(f[1:]))
}

// ---------- one case ----------

func render(k string, s []int) string {
	if k == "SEL" {
		return fmt.Sprint(s)
	}
	return k
}

func sameInts(a, b []int) bool {
	if len(a) != len(b) {
		return false
	}
	for i := range a {
		if a[i] != b[i] {
			return false
		}
	}
	return true
}

// check runs the keys on the server and compares with the oracle; returns (obsKind, obs, ok).
func (h *harness) check(c *imapc.Client, v *view, uid bool, charset string, keys []*key) (string, []int, string, []int, bool, error) {
	ok, os, _, err := sendSearch(c, uid, charset, keys)
	if err != nil {
		return "", nil, "", nil, false, err
	}
	wk, ws := oracle(keys, v, uid)
	good := ok == wk && (wk != "SEL" || sameInts(os, ws))
	return ok, os, wk, ws, good, nil
}

func canonKeys(keys []*key) []*key {
	// canonical rendering choices (upper-case keywords, quoted strings, two-digit days)
	var out []*key
	for _, k := range keys {
		c := *k
		c.Lower, c.StrForm, c.FldForm, c.DateQ, c.Day1 = false, 1, 1, false, false
		c.Sub = canonKeys(k.Sub)
		out = append(out, &c)
	}
	return out
}

// shrink: smaller key lists that still fail
func (h *harness) shrink(c *imapc.Client, v *view, uid bool, charset string, keys []*key) []*key {
	cur := canonKeys(keys)
	fails := func(ks []*key) bool {
		if len(ks) == 0 {
			return false
		}
		_, _, _, _, good, err := h.check(c, v, uid, charset, ks)
		return err == nil && !good
	}
	if !fails(cur) {
		return keys
	}
	for iter := 0; iter < 60; iter++ {
		var cands [][]*key
		for i := range cur {
			if len(cur) > 1 {
				cands = append(cands, append(append([]*key{}, cur[:i]...), cur[i+1:]...))
			}
			for _, s := range cur[i].Sub {
				x := append(append([]*key{}, cur[:i]...), s)
				cands = append(cands, append(x, cur[i+1:]...))
			}
			if cur[i].Kind == "LIST" {
				x := append(append([]*key{}, cur[:i]...), cur[i].Sub...)
				cands = append(cands, append(x, cur[i+1:]...))
			}
			if len(cur[i].Set) > 1 {
				for j := range cur[i].Set {
					cp := *cur[i]
					cp.Set = []wrange{cur[i].Set[j]}
					x := append(append([]*key{}, cur[:i]...), &cp)
					cands = append(cands, append(x, cur[i+1:]...))
				}
			}
		}
		progress := false
		for _, cd := range cands {
			sz := 0
			for _, k := range cd {
				sz += k.size()
			}
			cz := 0
			for _, k := range cur {
				cz += k.size()
			}
			if (sz < cz || (sz == cz && len(keysText(cd)) < len(keysText(cur)))) && fails(cd) {
				cur = cd
				progress = true
				break
			}
		}
		if !progress {
			break
		}
	}
	return cur
}

func (h *harness) runCase(c *imapc.Client, v *view, epoch int, uid bool, charset string, keys []*key, judged bool) error {
	res := h.ctx.Res
	h.nextID++
	cs := &c15case{ID: h.nextID, UID: uid, Box: v.Box, Class: v.Class, N: len(v.Msgs), Keys: keysText(keys), keys: keys, epoch: epoch, Judged: judged,
		Charset: charset, coqKeys: keysCoq(keys, wireEncoder(charset))}
	pfx := ""
	if uid {
		pfx = "UID "
	}
	csfx := "" // in the canonical forms the keys are shown as text (UTF-8); the charset says how they went on the wire
	if charset != "" {
		csfx = "CHARSET " + charset + " "
	}
	h.ctx.Current(fmt.Sprintf("%sSEARCH %s | view=%s n=%d", pfx, cs.Keys, v.Class, len(v.Msgs)), cs)
	ok, os, wk, ws, good, err := h.check(c, v, uid, charset, keys)
	if err != nil {
		return err
	}
	cs.obsK, cs.obsS = ok, os
	cs.Obs, cs.Want = render(ok, os), render(wk, ws)
	if !judged {
		cs.Want = "(not judged)"
	}
	if judged && !good {
		sk := h.shrink(c, v, uid, charset, keys)
		ok2, os2, wk2, ws2, good2, err := h.check(c, v, uid, charset, sk)
		if err != nil {
			return err
		}
		if good2 { // shrinking lost the failure (should not happen): report the original
			sk, ok2, os2, wk2, ws2 = keys, ok, os, wk, ws
		}
		canon := fmt.Sprintf("%sSEARCH %s%s | view=%s n=%d -> %s want %s", pfx, csfx, keysText(sk), v.Class, len(v.Msgs), render(ok2, os2), render(wk2, ws2))
		if ok2 == "NO" || ok2 == "BAD" || ok2 == "OTHER" {
			// the refusal does not depend on the view's content beyond its class: keep the canonical form short
			canon = fmt.Sprintf("%sSEARCH %s%s | view=%s -> %s want a result", pfx, csfx, keysText(sk), v.Class, ok2)
			if wk2 == "BAD" {
				canon = fmt.Sprintf("%sSEARCH %s%s | view=%s -> %s want BAD", pfx, csfx, keysText(sk), v.Class, ok2)
			}
		}
		detail := fmt.Sprintf("sent: %sSEARCH %s ; answered %s ; the messages of the view that satisfy the keys: %s ; view:\n%s", pfx, cs.Keys, cs.Obs, cs.Want, describeView(v))
		res.Fail(canon, detail, map[string]interface{}{"case": cs, "shrunk_keys": keysText(sk), "view": describeViewJSON(v)})
	}
	top := &key{Kind: "LIST", Sub: keys}
	if judged {
		nt := wk == "BAD" || (wk == "SEL" && len(ws) > 0 && len(ws) < len(v.Msgs)) || top.depth() > 2
		if nt {
			res.Nontrivial(fmt.Sprintf("%v|%s|%s|%d|%s", uid, cs.Keys, v.Class, epoch, cs.Want))
		}
	}
	top.walk(func(k *key) { res.Count("key:" + k.Kind) })
	res.Count(fmt.Sprintf("depth:%d", top.depth()-1))
	res.Count("view:" + v.Class)
	res.Count("expect:" + wk)
	res.Count("answer:" + ok)
	res.Evaluations++
	res.Sample(cs)
	h.cases = append(h.cases, cs)
	return nil
}

func describeView(v *view) string {
	var sb strings.Builder
	for i, m := range v.Msgs {
		var fl []string
		for f := range m.Flags {
			fl = append(fl, f)
		}
		sort.Strings(fl)
		sent := "none"
		if m.Sent != nil {
			sent = m.Sent.imap(false)
		}
		sb.WriteString(fmt.Sprintf("  %d: uid=%d flags=%v size=%d internaldate=%s append-date-time=%q Date:=%q (date %s)\n", i+1, m.UID, fl, m.Size, m.IDate.imap(false), m.AppendDT, m.DateHdr, sent))
	}
	return sb.String()
}

func describeViewJSON(v *view) []map[string]interface{} {
	var out []map[string]interface{}
	for i, m := range v.Msgs {
		var fl []string
		for f := range m.Flags {
			fl = append(fl, f)
		}
		sort.Strings(fl)
		out = append(out, map[string]interface{}{"seq": i + 1, "uid": m.UID, "flags": fl, "size": m.Size, "internaldate": m.IDate.imap(false),
			"append_date_time": m.AppendDT, "literal": string(m.Lit)})
	}
	return out
}

func (h *harness) newEpoch(v *view) int {
	h.epochs = append(h.epochs, v.coq())
	return len(h.epochs) - 1
}

func (h *harness) randomCases(c *imapc.Client, v *view, epoch int, n int) error {
	for i := 0; i < n; i++ {
		charset := h.pickCharset()
		h.charset = charset
		keys := h.genKeys(v)
		h.charset = ""
		uid := h.rng.Chance(0.4)
		if err := h.runCase(c, v, epoch, uid, charset, keys, true); err != nil {
			return err
		}
		if h.rng.Chance(0.25) { // the other mode on the same keys: the same messages must be reported
			if err := h.runCase(c, v, epoch, !uid, charset, keys, true); err != nil {
				return err
			}
		}
	}
	return nil
}

// fixed regression cases (minimised earlier failures and the witnesses of the theorems), per view
func (h *harness) corpus(c *imapc.Client, v *view, epoch int) error {
	d := h.base
	if len(v.Msgs) > 0 {
		d = v.Msgs[0].IDate
	}
	L := func(kind string) *key { return &key{Kind: kind, StrForm: 1, FldForm: 1} }
	D := func(kind string, dd date) *key { k := L(kind); k.Date = dd; return k }
	S := func(kind, s string) *key { k := L(kind); k.Str = s; return k }
	H := func(f, s string) *key { k := L("HEADER"); k.Fld, k.Str = f, s; return k }
	N := func(k *key) *key { return &key{Kind: "NOT", Sub: []*key{k}} }
	O := func(a, b *key) *key { return &key{Kind: "OR", Sub: []*key{a, b}} }
	Q := func(n int64) *key {
		k := L("SEQSET")
		k.Set = []wrange{{A: wnum{N: bi(n)}, B: wnum{N: bi(n)}, Single: true}}
		return k
	}
	list := [][]*key{
		{L("ALL")},
		{D("SENTBEFORE", shiftDate(d, 1))}, {D("SENTSINCE", shiftDate(d, -1))}, {D("SENTON", d)},
		{O(L("ALL"), D("SENTBEFORE", d))}, {N(D("SENTSINCE", d))},
		{D("BEFORE", d)}, {D("ON", d)}, {D("SINCE", d)}, {D("BEFORE", shiftDate(d, 1))}, {D("SINCE", shiftDate(d, 1))},
		{N(D("SINCE", d)), N(D("BEFORE", d))},
		{H("X-Tag", "")}, {H("x-absent", "")}, {H("X-TAG", "a")}, {N(H("comments", ""))},
		{S("SUBJECT", "a")}, {S("TEXT", "quick brown")}, {S("BODY", "ZZZZ")},
		{Q(int64(len(v.Msgs) + 1))}, {N(Q(int64(len(v.Msgs) + 1)))}, {O(L("ALL"), Q(4294967297))},
		{&key{Kind: "LIST", Sub: []*key{L("ALL")}}}, {&key{Kind: "LIST", Sub: []*key{L("SEEN"), L("UNSEEN")}}},
		{O(L("SEEN"), L("UNSEEN"))}, {L("NEW")}, {L("OLD")}, {L("RECENT")},
	}
	for i, keys := range list {
		if err := h.runCase(c, v, epoch, i%3 == 1, "", keys, true); err != nil {
			return err
		}
	}
	// every kind of string key with a key outside ASCII in every 8-bit charset that can express a word of the view:
	// upper-cased on the wire (decode first, fold afterwards), plain and negated
	n := 0
	for _, charset := range []string{"ISO-8859-1", "windows-1252", "ISO-8859-15", "KOI8-R", "UTF-8"} {
		for _, kind := range []string{"SUBJECT", "FROM", "TO", "CC", "BCC", "BODY", "TEXT", "HEADER"} {
			w, fld := h.findWide(v, kind, charset)
			if w == "" {
				continue
			}
			k := S(kind, strings.ToUpper(w))
			if kind == "HEADER" {
				k = H(fld, strings.ToUpper(w))
			}
			k.StrForm = 1 + n%2
			n++
			for _, keys := range [][]*key{{k}, {N(k)}} {
				if err := h.runCase(c, v, epoch, n%3 == 0, charset, keys, true); err != nil {
					return err
				}
			}
		}
	}
	// a string that spans a fold (CRLF SP) of the field, for every key that reads a header field, plain and negated
	for _, kind := range []string{"FROM", "TO", "CC", "BCC", "SUBJECT", "HEADER"} {
		w, fld := h.findCross(v, kind)
		if w == "" {
			continue
		}
		k := S(kind, w)
		if kind == "HEADER" {
			k = H(fld, w)
		}
		n++
		for _, keys := range [][]*key{{k}, {N(k)}} {
			if err := h.runCase(c, v, epoch, n%2 == 0, "", keys, true); err != nil {
				return err
			}
		}
	}
	return nil
}

// findCross: a needle made of the two whole tokens around a fold of a field the key kind looks at, on which the two
// readings of "unfolded" agree (i.e. the fold is CRLF SP); for HEADER also the field name.
func (h *harness) findCross(v *view, kind string) (string, string) {
	for _, m := range v.Msgs {
		var fs []*hfield
		if kind == "HEADER" {
			for i := range m.Hdrs {
				if n := strings.ToLower(m.Hdrs[i].Name); strings.HasPrefix(n, "x-") || n == "comments" || n == "keywords" || n == "cc" {
					fs = append(fs, &m.Hdrs[i])
				}
			}
		} else if f := m.firstField(kind); f != nil {
			fs = append(fs, f)
		}
		for _, f := range fs {
			for _, c := range f.Cross {
				n := c[0] + " " + c[1]
				if isASCII(n) && v.readingsAgree(n) && ciContains(f.Value, n) {
					return n, f.Name
				}
			}
		}
	}
	return "", ""
}

// findWide: a word with characters outside ASCII that occurs in the part of some message the key kind looks at and that
// the charset can express ("" if there is none); for HEADER also the field name.
func (h *harness) findWide(v *view, kind, charset string) (string, string) {
	for _, m := range v.Msgs {
		texts := map[string]string{}
		switch kind {
		case "BODY":
			texts[""] = m.Body
		case "TEXT":
			texts[""] = string(m.Lit)
		case "HEADER":
			for _, hf := range m.Hdrs {
				if strings.HasPrefix(strings.ToLower(hf.Name), "x-") || strings.EqualFold(hf.Name, "subject") {
					texts[hf.Name] = hf.Value
				}
			}
		default:
			texts[""] = m.first(kind)
		}
		var names []string
		for n := range texts {
			names = append(names, n)
		}
		sort.Strings(names)
		for _, n := range names {
			for _, w := range reWord.FindAllString(texts[n], -1) {
				if _, ok := encodeFor(charset, w); ok && !isASCII(w) {
					return w, n
				}
			}
		}
	}
	return "", ""
}

// ---------- scenario ----------

func runC15(ctx *common.Ctx) error {
	verifhook.Reset()
	if ctx.Replay != "" { // a replay file names the seed and tier of the run that found the failing case: run that again
		if b, err := os.ReadFile(ctx.Replay); err == nil {
			var rp struct {
				Seed int64  `json:"seed"`
				Tier string `json:"tier"`
			}
			if json.Unmarshal(b, &rp) == nil && rp.Seed != 0 {
				ctx.Seed, ctx.Rng = rp.Seed, common.NewRng(rp.Seed)
				if rp.Tier != "" {
					ctx.Tier = rp.Tier
				}
				ctx.Res.Seed, ctx.Res.Tier = ctx.Seed, ctx.Tier
			}
		}
	}
	s, err := srv.Start(srv.Options{})
	if err != nil {
		return err
	}
	defer s.Stop()
	h := &harness{ctx: ctx, s: s, rng: ctx.Rng, base: date{2024, 1, 2}}
	h.base = shiftDate(h.base, ctx.Rng.Range(0, 400))
	res := ctx.Res
	res.Rule = "random key trees (depth <= 5, all 38 keys, strings as atom/quoted/literal, sets relative to the view) sent as SEARCH and UID SEARCH against views whose per-message data the generator knows (flags, size, INTERNALDATE as reported by the server, headers incl. folded/odd-case/repeated names, Date: incl. unparsable, body), incl. a view that still holds messages expunged by another session; non-trivial = distinct cases whose expected answer is BAD, or a proper non-empty subset of the view, or whose key tree has depth >= 2"

	a, err := s.Login()
	if err != nil {
		return err
	}
	defer a.Close()
	idA := verifhook.CurrentStateID()

	per := ctx.Budget(70, 200)
	rounds := 2
	sizes := map[string]int{"mixed": 9, "plain": 12, "held": 8}
	if ctx.Tier == "thorough" {
		rounds = 3
		sizes = map[string]int{"mixed": 14, "plain": 24, "held": 12}
	}

	type boxSpec struct {
		name, class string
		n           int
		garbage     map[int]bool
		multipart   map[int]bool
		expungeSome bool
	}
	specs := []boxSpec{
		{"plain", "plain-with-uid-gaps", sizes["plain"], nil, map[int]bool{3: true}, true},
		{"mixed", "one-unparsable-Date", sizes["mixed"], map[int]bool{4: true}, map[int]bool{1: true}, false},
		{"single", "single-message", 1, nil, nil, false},
		{"nothing", "empty", 0, nil, nil, false},
	}
	for _, sp := range specs {
		pool, err := h.buildBox(a, sp.name, sp.n, sp.garbage, sp.multipart)
		if err != nil {
			return err
		}
		r, err := a.Cmd("SELECT " + sp.name)
		if e := must(r, err, "select"); e != nil {
			return e
		}
		if sp.expungeSome && sp.n >= 6 {
			r, err := a.Cmd("STORE 2,5 +FLAGS.SILENT (\\Deleted)")
			if e := must(r, err, "store"); e != nil {
				return e
			}
			r, err = a.Cmd("EXPUNGE")
			if e := must(r, err, "expunge"); e != nil {
				return e
			}
		}
		v := &view{Box: sp.name, Class: sp.class}
		for round := 0; round < rounds; round++ {
			if err := refresh(a, v, pool); err != nil {
				return err
			}
			if err := h.randomStores(a, v, h.rng.Range(2, 5)); err != nil {
				return err
			}
			if err := refresh(a, v, pool); err != nil {
				return err
			}
			ep := h.newEpoch(v)
			if round == 0 {
				if err := h.corpus(a, v, ep); err != nil {
					return err
				}
			}
			n := per
			if sp.n <= 1 {
				n = per / 3
			}
			if err := h.randomCases(a, v, ep, n); err != nil {
				return err
			}
		}
	}

	// ---- a view that still holds messages expunged by another session ----
	{
		pool, err := h.buildBox(a, "held", sizes["held"], nil, nil)
		if err != nil {
			return err
		}
		r, err := a.Cmd("SELECT held")
		if e := must(r, err, "select held"); e != nil {
			return e
		}
		va := &view{Box: "held", Class: "holds-messages-expunged-elsewhere"}
		if err := refresh(a, va, pool); err != nil {
			return err
		}
		if err := h.randomStores(a, va, 3); err != nil {
			return err
		}
		// nothing may be marked \\Deleted at this point: the other session's EXPUNGE below has to remove exactly its three
		r, err = a.Cmd("STORE 1:* -FLAGS.SILENT (\\Deleted)")
		if e := must(r, err, "clear deleted"); e != nil {
			return e
		}
		if err := refresh(a, va, pool); err != nil {
			return err
		}
		verifhook.SetHold(func(id int64) bool { return id == idA })
		b, err := s.Login()
		if err != nil {
			return err
		}
		defer b.Close()
		r, err = b.Cmd("SELECT held")
		if e := must(r, err, "B select held"); e != nil {
			return e
		}
		n := len(va.Msgs)
		del := fmt.Sprintf("2,%d,%d", n/2+1, n)
		for _, cmd := range []string{"STORE " + del + " +FLAGS.SILENT (\\Deleted)", "EXPUNGE", "STORE 1 +FLAGS.SILENT (\\Flagged kwb)", "STORE 2 -FLAGS.SILENT (\\Seen)"} {
			r, err = b.Cmd(cmd)
			if e := must(r, err, "B "+cmd); e != nil {
				return e
			}
		}
		if verifhook.Held(idA) == 0 {
			return fmt.Errorf("hold scenario: no update was held for the first session")
		}
		res.Count("held-updates")
		// A still sees all n messages with its own flags
		ep := h.newEpoch(va)
		if err := h.corpus(a, va, ep); err != nil {
			return err
		}
		if err := h.randomCases(a, va, ep, per); err != nil {
			return err
		}
		// the literal-reading keys on every expunged-elsewhere message explicitly
		for _, m := range va.Msgs {
			k := &key{Kind: "TEXT", Str: m.Tag, StrForm: 1}
			if err := h.runCase(a, va, ep, false, "", []*key{k}, true); err != nil {
				return err
			}
		}
		// B's own (smaller) view of the same mailbox
		vb := &view{Box: "held", Class: "same-mailbox-other-session"}
		if err := refresh(b, vb, pool); err != nil {
			return err
		}
		// refresh wrote B's flags into the shared message records: give B its own copies
		vb.Msgs = cloneMsgs(vb.Msgs)
		if err := refresh(a, va, pool); err != nil { // restore A's flags (A's view is unchanged: updates are held)
			return err
		}
		if len(va.Msgs) != n {
			return fmt.Errorf("hold scenario: the first session's view changed while its updates were held (%d -> %d)", n, len(va.Msgs))
		}
		epb := h.newEpoch(vb)
		if err := h.randomCases(b, vb, epb, per/2); err != nil {
			return err
		}
		// release: A learns about the expunges at its next command
		k := verifhook.Held(idA)
		verifhook.SetHold(nil)
		verifhook.Release(idA, k)
		if !verifhook.WaitQuiet(idA, 30*time.Second) {
			// updates are applied when the session handles its next command
		}
		r, err = a.Cmd("NOOP")
		if e := must(r, err, "noop"); e != nil {
			return e
		}
		verifhook.WaitQuiet(idA, 30*time.Second)
		r, err = a.Cmd("NOOP")
		if e := must(r, err, "noop"); e != nil {
			return e
		}
		va2 := &view{Box: "held", Class: "after-release"}
		if err := refresh(a, va2, pool); err != nil {
			return err
		}
		if len(va2.Msgs) != n-3 {
			res.Notes = append(res.Notes, fmt.Sprintf("after release the first session sees %d messages (expected %d)", len(va2.Msgs), n-3))
		}
		ep2 := h.newEpoch(va2)
		if err := h.randomCases(a, va2, ep2, per/2); err != nil {
			return err
		}
	}

	// ---- a view that still holds messages deleted by the CONNECTOR (imap.MessageDeleted: the rows are marked deleted) ----
	if err := h.connectorDeleted(a, idA, per, sizes["held"]); err != nil {
		return err
	}

	// ---- a message whose header block does not parse (created by the connector): model correspondence only ----
	if err := h.brokenHeaderBox(a); err != nil {
		res.Notes = append(res.Notes, "broken-header scenario skipped: "+err.Error())
	}

	// ---- model cases ----
	var extra strings.Builder
	used := map[int]bool{}
	for _, cs := range h.cases {
		used[cs.epoch] = true
	}
	for i, def := range h.epochs {
		if used[i] {
			extra.WriteString(fmt.Sprintf("Definition view_%d : list msgdata :=\n  %s.\n", i, def))
		}
	}
	var lines []string
	for _, cs := range h.cases {
		obs := "OOther"
		switch cs.obsK {
		case "SEL":
			obs = "OSel " + common.CoqNList(cs.obsS)
		case "BAD":
			obs = "OBad"
		case "NO":
			obs = "ONo"
		}
		lines = append(lines, fmt.Sprintf("mkCase %d %s %s view_%d %s (%s)", cs.ID, common.CoqBool(cs.UID), charsetCoq[cs.Charset], cs.epoch, cs.coqKeys, obs))
	}
	res.ModelCases = len(lines)
	return common.WriteCases(ctx.Out, "Run.RunC15", "case", lines, extra.String())
}

// connectorDeleted: the first session has a mailbox selected; the connector reports two of its messages as deleted (on the
// server side / in another client). The session's updates are held, so it has not been told: its view still holds all
// messages and SEARCH has to answer about all of them, whatever the keys read (snapshot, database row, literal).
func (h *harness) connectorDeleted(a *imapc.Client, idA int64, per, n int) error {
	res := h.ctx.Res
	conn := h.s.Conn0()
	pool, err := h.buildBox(a, "conndel", n, nil, nil)
	if err != nil {
		return err
	}
	r, err := a.Cmd("SELECT conndel")
	if e := must(r, err, "select conndel"); e != nil {
		return e
	}
	va := &view{Box: "conndel", Class: "holds-messages-deleted-by-the-connector"}
	if err := refresh(a, va, pool); err != nil {
		return err
	}
	if err := h.randomStores(a, va, 3); err != nil {
		return err
	}
	if err := refresh(a, va, pool); err != nil {
		return err
	}
	verifhook.SetHold(func(id int64) bool { return id == idA })
	defer verifhook.SetHold(nil)
	var gone []*message
	for _, pos := range []int{2, len(va.Msgs)} {
		m := va.Msgs[pos-1]
		var rid imap.MessageID
		for id, rm := range conn.Messages {
			if strings.Contains(string(rm.Literal), "X-Marker: "+m.Tag+"\r\n") {
				rid = id
			}
		}
		if rid == "" {
			return fmt.Errorf("connector-deleted scenario: remote id of %s not found", m.Tag)
		}
		if perr, acked := conn.Push(imap.NewMessagesDeleted(rid), 30*time.Second); !acked || perr != nil {
			return fmt.Errorf("connector-deleted scenario: push: acked=%v err=%v", acked, perr)
		}
		gone = append(gone, m)
	}
	if verifhook.Held(idA) == 0 {
		return fmt.Errorf("connector-deleted scenario: no update was held for the session")
	}
	res.Count("connector-deleted-messages-in-view")
	ep := h.newEpoch(va) // the view is what it was
	if err := h.corpus(a, va, ep); err != nil {
		return err
	}
	// every kind of key that reads the database row or the literal, aimed at the deleted messages, plain / NOT / OR / UID
	L := func(kind string) *key { return &key{Kind: kind, StrForm: 1, FldForm: 1} }
	for i, m := range gone {
		big1, zero := L("SMALLER"), L("LARGER")
		big1.Num, zero.Num = bi(int64(m.Size+1)), bi(int64(m.Size-1))
		on, since, before := L("ON"), L("SINCE"), L("BEFORE")
		on.Date, since.Date, before.Date = m.IDate, m.IDate, shiftDate(m.IDate, 1)
		text, body, hdr, subj := L("TEXT"), L("BODY"), L("HEADER"), L("SUBJECT")
		text.Str, hdr.Fld, hdr.Str = m.Tag, "X-Marker", m.Tag
		body.Str = strings.Fields(m.Body)[0]
		subj.Str = "a"
		for j, k := range []*key{big1, zero, on, since, before, text, body, hdr, subj} {
			for _, keys := range [][]*key{{k}, {{Kind: "NOT", Sub: []*key{k}}}, {{Kind: "OR", Sub: []*key{L("SEEN"), k}}}} {
				if err := h.runCase(a, va, ep, (i+j)%2 == 0, "", keys, true); err != nil {
					return err
				}
			}
		}
	}
	if err := h.randomCases(a, va, ep, per/2); err != nil {
		return err
	}
	// release: the session learns about the deletions at its next command that may announce them
	k := verifhook.Held(idA)
	verifhook.SetHold(nil)
	verifhook.Release(idA, k)
	for i := 0; i < 2; i++ {
		verifhook.WaitQuiet(idA, 30*time.Second)
		r, err = a.Cmd("NOOP")
		if e := must(r, err, "noop"); e != nil {
			return e
		}
	}
	for _, m := range gone {
		delete(pool, m.Tag)
	}
	va2 := &view{Box: "conndel", Class: "after-connector-deletion-announced"}
	if err := refresh(a, va2, pool); err != nil {
		return err
	}
	if len(va2.Msgs) != len(va.Msgs)-len(gone) {
		res.Notes = append(res.Notes, fmt.Sprintf("after release the session sees %d messages (expected %d)", len(va2.Msgs), len(va.Msgs)-len(gone)))
	}
	return h.randomCases(a, va2, h.newEpoch(va2), per/3)
}

func cloneMsgs(ms []*message) []*message {
	out := make([]*message, len(ms))
	for i, m := range ms {
		c := *m
		c.Flags = map[string]bool{}
		for f := range m.Flags {
			c.Flags[f] = true
		}
		out[i] = &c
	}
	return out
}

// brokenHeaderBox: the connector announces a message whose header has a field name with a space in it; keys that need
// the parsed header then fail for the whole mailbox (answer NO), other keys work. What a correct answer would be for such
// a message is not defined by the property, so these cases are compared with the model only.
func (h *harness) brokenHeaderBox(a *imapc.Client) error {
	conn := h.s.Conn0()
	r, err := a.Cmd("CREATE broken")
	if e := must(r, err, "create broken"); e != nil {
		return e
	}
	mboxID, ok := conn.MailboxIDByName([]string{"broken"})
	if !ok {
		return fmt.Errorf("mailbox id not found")
	}
	good := genMessage(h.rng, h.newTag(), h.base, msgOpts{})
	r, err = a.CmdParts([]string{"APPEND broken \"" + good.AppendDT + "\" ", ""}, [][]byte{good.Lit})
	if e := must(r, err, "append"); e != nil {
		return e
	}
	bad := &message{Tag: h.newTag(), Flags: map[string]bool{}, HdrBroken: true}
	bad.Body = "alpha bravo\r\n"
	bad.Lit = []byte("Date: Mon, 01 Jan 2024 10:00:00 +0000\r\nFrom: a@example.com\r\nBad Key: charlie\r\nX-Marker: " + bad.Tag + "\r\nSubject: delta\r\n\r\n" + bad.Body)
	bad.Hdrs = []hfield{{Name: "Date", Value: "Mon, 01 Jan 2024 10:00:00 +0000"}, {Name: "From", Value: "a@example.com"}, {Name: "X-Marker", Value: bad.Tag}, {Name: "Subject", Value: "delta"}}
	for i := range bad.Hdrs {
		bad.Hdrs[i].ValueG = bad.Hdrs[i].Value
	}
	bad.Sent = &date{2024, 1, 1}
	id := conn.NewMessageID()
	when := time.Date(2024, 1, 5, 12, 0, 0, 0, time.UTC)
	up := imap.NewMessagesCreated(false, &imap.MessageCreated{
		Message:       imap.Message{ID: id, Flags: imap.NewFlagSet(), Date: when},
		Literal:       bad.Lit,
		MailboxIDs:    []imap.MailboxID{mboxID},
		ParsedMessage: &imap.ParsedMessage{Body: `("text" "plain" NIL NIL NIL "7bit" 13 1)`, Structure: `("text" "plain" NIL NIL NIL "7bit" 13 1 NIL NIL NIL NIL)`, Envelope: `(NIL "delta" NIL NIL NIL NIL NIL NIL NIL NIL)`},
	})
	if perr, acked := conn.Push(up, 30*time.Second); !acked || perr != nil {
		return fmt.Errorf("push: acked=%v err=%v", acked, perr)
	}
	r, err = a.Cmd("SELECT broken")
	if e := must(r, err, "select broken"); e != nil {
		return e
	}
	// cannot use refresh (the header fetch fails on the broken message): read the attributes that work
	r, err = a.Cmd("FETCH 1:* (UID FLAGS RFC822.SIZE INTERNALDATE)")
	if e := must(r, err, "fetch broken"); e != nil {
		return e
	}
	v := &view{Box: "broken", Class: "header-does-not-parse"}
	ms := []*message{good, bad}
	i := 0
	for _, l := range r.Untagged {
		e := imapc.ParseEv(l)
		if e.Kind != "FETCH" || i >= 2 {
			continue
		}
		m := ms[i]
		i++
		m.UID = e.UID
		m.Flags = map[string]bool{}
		for _, f := range e.Flags {
			m.Flags[f] = true
		}
		sm := reSize.FindStringSubmatch(l.Text)
		dm := reIDate.FindStringSubmatch(l.Text)
		if sm == nil || dm == nil {
			return fmt.Errorf("cannot read size/date")
		}
		m.Size, _ = strconv.Atoi(sm[1])
		day, _ := strconv.Atoi(strings.TrimSpace(dm[1]))
		mon := 0
		for j, n := range monthNames {
			if strings.EqualFold(n, dm[2]) {
				mon = j + 1
			}
		}
		yr, _ := strconv.Atoi(dm[3])
		m.IDate = date{yr, mon, day}
	}
	if i != 2 {
		return fmt.Errorf("expected 2 messages, saw %d", i)
	}
	v.Msgs = ms
	ep := h.newEpoch(v)
	n := h.ctx.Budget(40, 200)
	for j := 0; j < n; j++ {
		keys := h.genKeys(v)
		top := &key{Kind: "LIST", Sub: keys}
		needsHdr := false
		top.walk(func(k *key) {
			switch k.Kind {
			case "BCC", "CC", "FROM", "SUBJECT", "TO", "HEADER", "SENTBEFORE", "SENTON", "SENTSINCE":
				needsHdr = true
			}
		})
		// keys that do not read the parsed header are judged as usual
		if err := h.runCase(a, v, ep, h.rng.Chance(0.4), "", keys, !needsHdr); err != nil {
			return err
		}
	}
	return nil
}
