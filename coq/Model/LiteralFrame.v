(* C12/C13 — literal framing.
   Impl model of: internal/response/item_body_literal.go itemBodyLiteral.String and item_rfc822_literal.go
   itemRFC822Literal.String: fmt.Sprintf of `{len}CRLF` followed by the bytes; and a reader of such a literal.
   No proofs in this file. *)
From Coq Require Import List ZArith NArith Bool.
From Gluon Require Import Base.DecBytes.
Import ListNotations.

(* ---- literal framing: fmt.Sprintf("{%v}\r\n%s", len(lit), lit) ---- *)
Definition frame_literal (lit : bytes) : bytes :=
  [123%N] ++ dec (N.of_nat (length lit)) ++ [125%N; 13%N; 10%N] ++ lit.

(* a client reading a literal: '{' digits '}' CR LF and then exactly that many bytes *)
Definition read_literal (s : bytes) : option (bytes * bytes) :=
  match s with
  | 123%N :: t =>
    let '(d, r) := span_digits t in
    match undec d, r with
    | Some n, 125%N :: 13%N :: 10%N :: payload =>
      if (N.of_nat (length payload) <? n)%N then None
      else Some (firstn (N.to_nat n) payload, skipn (N.to_nat n) payload)
    | _, _ => None
    end
  | _ => None
  end.
