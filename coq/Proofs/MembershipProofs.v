(* C02 (membership part): a session that receives foreign updates in database order and then performs a permitting
   flush ends up with exactly the messages (ids and UIDs, in order) that the updates describe; and the database
   primitives add_rows / remove_rows change the mailbox rows exactly as the updates they emit describe. *)
From Coq Require Import List NArith Bool Lia Arith.
From Gluon Require Import Model.Responders Model.Session Proofs.PopProofs.
Import ListNotations.
Open Scope N_scope.

Definition idl := list (msgid * uid).

Definition idl_has (m : msgid) (l : idl) : bool := existsb (fun x => fst x =? m) l.
Fixpoint idl_insert (x : msgid * uid) (l : idl) : idl :=
  match l with [] => [x] | y :: r => if snd x <? snd y then x :: y :: r else y :: idl_insert x r end.
Fixpoint idl_remove (m : msgid) (l : idl) : idl :=
  match l with [] => [] | y :: r => if fst y =? m then r else y :: idl_remove m r end.

Definition ids_of (sn : snap) : idl := map (fun x => (sm_id x, sm_uid x)) sn.
Definition rows_ids (rows : list mrow) : idl := map (fun r => (r_id r, r_uid r)) rows.

(* what an update says about the membership of mailbox mb *)
Definition mem_apply (mb : N) (u : update) (l : idl) : idl :=
  match u with
  | UExists mb' items _ =>
      if mb' =? mb
      then fold_left (fun acc it => match it with (m, u', _) => if idl_has m acc then acc else idl_insert (m, u') acc end) items l
      else l
  | UExpunge mb' m => if mb' =? mb then idl_remove m l else l
  | UFlags _ _ _ _ | URemoteFlag _ _ _ => l
  end.

(* ---------- snapshot operations on the (id, uid) projection ---------- *)
Lemma ids_has m s : snap_has m s = idl_has m (ids_of s).
Proof. induction s as [|x r IH]; [reflexivity|]. cbn [snap_has existsb ids_of map idl_has fst]. f_equal. exact IH. Qed.

Lemma ids_insert x s : ids_of (snap_insert_by_uid x s) = idl_insert (sm_id x, sm_uid x) (ids_of s).
Proof. induction s as [|y r IH]; [reflexivity|]. cbn [snap_insert_by_uid ids_of map idl_insert snd].
  destruct (sm_uid x <? sm_uid y); cbn [map]; [reflexivity|]. f_equal. exact IH. Qed.

Lemma ids_remove m s : ids_of (snap_remove m s) = idl_remove m (ids_of s).
Proof. induction s as [|y r IH]; [reflexivity|]. cbn [snap_remove ids_of map idl_remove fst].
  destruct (sm_id y =? m); cbn [map]; [reflexivity|]. f_equal. exact IH. Qed.

Lemma ids_set_flags m f s : ids_of (snap_set_flags m f s) = ids_of s.
Proof. induction s as [|y r IH]; [reflexivity|]. cbn [snap_set_flags].
  destruct (sm_id y =? m) eqn:E; cbn [ids_of map sm_id sm_uid].
  - apply N.eqb_eq in E. subst m. reflexivity.
  - f_equal. exact IH. Qed.

Lemma idl_remove_absent m l : idl_has m l = false -> idl_remove m l = l.
Proof. induction l as [|y r IH]; [reflexivity|]. cbn [idl_has existsb idl_remove]. intros H.
  apply orb_false_iff in H as [H1 H2]. unfold msgid, uid in *. rewrite H1. f_equal. apply IH. exact H2. Qed.

Lemma seq_of_none_iff m s k0 : snap_seq_of m s k0 = None <-> snap_has m s = false.
Proof. revert k0. induction s as [|x r IH]; intros k0; cbn [snap_seq_of snap_has existsb]; [tauto|].
  destruct (sm_id x =? m); cbn [orb]; [split; discriminate|]. apply IH. Qed.

(* ---------- one responder on the projection ---------- *)
Definition resp_mem (r : responder) (l : idl) : idl :=
  match r with
  | RExists m u _ _ _ => if idl_has m l then l else idl_insert (m, u) l
  | RExpunge m => idl_remove m l
  | RFetch _ _ _ _ _ _ => l
  end.

Definition foreign_resp (r : responder) : Prop := match r with RExists _ _ _ _ og => og = false | _ => True end.

Lemma handle_mem r s : foreign_resp r ->
  exists s' out, handle r s = Some (s', out) /\ ids_of s' = resp_mem r (ids_of s).
Proof.
  destruct r as [m u f tg og | m | m f op au si fo]; cbn [foreign_resp handle resp_mem].
  - intros ->. rewrite <- ids_has. destruct (snap_has m s); [eexists _, _; split; reflexivity|].
    eexists _, _. split; [reflexivity|]. rewrite ids_insert. reflexivity.
  - intros _. destruct (snap_seq_of m s 1) as [k|] eqn:E.
    + eexists _, _. split; [reflexivity|]. apply ids_remove.
    + eexists _, _. split; [reflexivity|]. apply seq_of_none_iff in E. rewrite ids_has in E.
      rewrite idl_remove_absent by exact E. reflexivity.
  - intros _. destruct (snap_seq_of m s 1) as [k|]; [|eexists _, _; split; reflexivity].
    destruct (_ || si); eexists _, _; (split; [reflexivity|apply ids_set_flags]).
Qed.

Lemma run_responders_mem rs : forall s, Forall foreign_resp rs ->
  exists s' out, run_responders rs s = Some (s', out) /\ ids_of s' = fold_left (fun l r => resp_mem r l) rs (ids_of s).
Proof.
  induction rs as [|r t IH]; intros s Hf; cbn [run_responders fold_left]; [eexists _, _; split; reflexivity|].
  inversion Hf as [|? ? Hr Ht]; subst.
  destruct (handle_mem r s Hr) as (s1 & o1 & Hh & Hi). rewrite Hh.
  destruct (IH s1 Ht) as (s2 & o2 & Hr2 & Hi2). rewrite Hr2. eexists _, _. split; [reflexivity|].
  rewrite Hi2, Hi. reflexivity.
Qed.

(* ---------- delivering updates to an observer that does nothing else ---------- *)
(* the responders that delivering u (foreign for observer o) adds to the pending list *)
Definition delivered (u : update) (o : nat) (s : sess) : list responder :=
  if upd_filter u s then upd_responders u o s false else [].

Definition foreign_upd (o : nat) (u : update) : Prop :=
  match u with UExists _ _ (Some a) => a <> o | _ => True end.

Lemma delivered_foreign u o s : foreign_upd o u -> Forall foreign_resp (delivered u o s).
Proof.
  unfold delivered. destruct (upd_filter u s); [|constructor]. destruct u as [mb items og | mb m | mb parts og si | m fl ad];
    cbn [upd_responders foreign_upd].
  - intros H. apply Forall_forall. intros r Hr. apply in_map_iff in Hr as ([[m u'] f] & <- & _). cbn [foreign_resp].
    destruct og as [a|]; [|reflexivity]. destruct (Nat.eqb_spec a o); [contradiction|reflexivity].
  - intros _. repeat constructor.
  - intros _. apply Forall_forall. intros r Hr. apply in_concat in Hr as (l & Hl & Hr).
    apply in_map_iff in Hl as ([[ms f] op] & <- & _). apply in_map_iff in Hr as (m & <- & _). exact I.
  - intros _. repeat constructor.
Qed.

(* membership fold of the responders an update pushes = what the update says, provided a dropped update is a no-op *)
Lemma fold_exists_items mb items og o s l :
  foreign_upd o (UExists mb items og) ->
  fold_left (fun l r => resp_mem r l) (upd_responders (UExists mb items og) o s false) l
  = fold_left (fun acc it => match it with (m, u', _) => if idl_has m acc then acc else idl_insert (m, u') acc end) items l.
Proof.
  intros _. cbn [upd_responders]. revert l. induction items as [|[[m u'] f] t IH]; intros l; [reflexivity|].
  cbn [map fold_left resp_mem]. apply IH.
Qed.

Lemma fold_fetches_mem (rs : list responder) l :
  (forall r, In r rs -> match r with RFetch _ _ _ _ _ _ => True | _ => False end) ->
  fold_left (fun l r => resp_mem r l) rs l = l.
Proof.
  revert l. induction rs as [|r t IH]; intros l H; [reflexivity|]. cbn [fold_left].
  assert (Hr := H r (or_introl eq_refl)). destruct r; try contradiction. cbn [resp_mem]. apply IH.
  intros r' Hr'. apply H. right. exact Hr'.
Qed.

Lemma idl_has_insert m x l : idl_has m (idl_insert x l) = (fst x =? m) || idl_has m l.
Proof.
  unfold idl_has. induction l as [|y r IH]; cbn [idl_insert existsb].
  - reflexivity.
  - destruct (snd x <? snd y); cbn [existsb]; [reflexivity|]. rewrite IH.
    rewrite !orb_assoc. f_equal. apply orb_comm.
Qed.

Lemma idl_has_remove_sub m m' l : idl_has m (idl_remove m' l) = true -> idl_has m l = true.
Proof.
  unfold idl_has. induction l as [|y r IH]; cbn [idl_remove existsb]; [discriminate|].
  destruct (fst y =? m').
  - intros H. rewrite H. apply orb_true_r.
  - cbn [existsb]. intros H. apply orb_true_iff in H as [H|H]; [rewrite H; reflexivity|]. rewrite (IH H). apply orb_true_r.
Qed.

(* the pending list only ever adds a message through an exists responder *)
Lemma fold_has_origin rs : forall l m,
  idl_has m (fold_left (fun l r => resp_mem r l) rs l) = true ->
  idl_has m l = true \/ existsb (fun r => match r with RExists m' _ _ _ _ => m' =? m | _ => false end) rs = true.
Proof.
  induction rs as [|r t IH]; intros l m H; cbn [fold_left] in H; [left; exact H|].
  destruct (IH _ _ H) as [H1|H1]; [|right; cbn [existsb]; rewrite H1; apply orb_true_r].
  destruct r as [m' u f tg og | m' | m' f op au si fo]; cbn [resp_mem] in H1.
  - destruct (idl_has m' l) eqn:E; [left; exact H1|].
    rewrite idl_has_insert in H1. cbn [fst] in H1. apply orb_true_iff in H1 as [H1|H1]; [|left; exact H1].
    right. cbn [existsb]. rewrite H1. reflexivity.
  - left. eapply idl_has_remove_sub; eauto.
  - left. exact H1.
Qed.

Section Observer.
  Variable o : nat.          (* the observer's session number *)
  Variable mb : N.           (* its selected mailbox *)
  Variable snap0 : snap.     (* its snapshot *)

  Definition obs (pre : list responder) (q : list update) : sess := mkSess (Some mb) (mkS snap0 pre) q false.

  (* delivering the updates one by one (no flush in between) *)
  Fixpoint deliver_all (us : list update) (pre : list responder) : list responder :=
    match us with [] => pre | u :: t => deliver_all t (pre ++ delivered u o (obs pre [])) end.

  Lemma apply_update_obs u pre q :
    apply_update u o (obs pre q) false = Some (obs (pre ++ delivered u o (obs pre q)) q, []).
  Proof.
    unfold apply_update, delivered. destruct (upd_filter u (obs pre q)) eqn:F.
    - unfold push_responders. cbn [ss_idle obs]. unfold push. reflexivity.
    - rewrite app_nil_r. reflexivity.
  Qed.

  Lemma filter_indep_queue u pre q : upd_filter u (obs pre q) = upd_filter u (obs pre []).
  Proof. reflexivity. Qed.

  Lemma delivered_step u pre l0 :
    foreign_upd o u ->
    l0 = fold_left (fun l r => resp_mem r l) pre (ids_of snap0) ->
    fold_left (fun l r => resp_mem r l) (delivered u o (obs pre [])) l0 = mem_apply mb u l0.
  Proof.
    intros Hf Hl0. unfold delivered.
    destruct u as [mb' items og | mb' m | mb' parts og si | m fl ad]; cbn [upd_filter ss_sel obs mem_apply].
    - rewrite (N.eqb_sym mb mb'). destruct (mb' =? mb); [|reflexivity]. apply fold_exists_items. exact Hf.
    - rewrite (N.eqb_sym mb mb'). destruct (mb' =? mb); cbn [andb]; [|reflexivity].
      destruct (has_or_pending m (ss_st (obs pre []))) eqn:H; [reflexivity|].
      cbn [fold_left]. symmetry. apply idl_remove_absent.
      destruct (idl_has m l0) eqn:E; [|reflexivity]. exfalso. subst l0.
      apply fold_has_origin in E. unfold has_or_pending in H. cbn [ss_st obs s_snap s_res] in H.
      apply orb_false_iff in H as [H1 H2]. destruct E as [E|E]; [rewrite <- ids_has in E; congruence|congruence].
    - apply fold_fetches_mem. intros r Hr. cbn [upd_responders] in Hr. apply in_concat in Hr as (l & Hl & Hr).
      apply in_map_iff in Hl as ([[ms f] op] & <- & _). apply in_map_iff in Hr as (m & <- & _). exact I.
    - destruct (has_or_pending m (ss_st (obs pre []))); [|reflexivity]. reflexivity.
  Qed.

  Lemma deliver_all_mem us : forall pre, Forall (foreign_upd o) us ->
    fold_left (fun l r => resp_mem r l) (deliver_all us pre) (ids_of snap0)
    = fold_left (fun l u => mem_apply mb u l) us (fold_left (fun l r => resp_mem r l) pre (ids_of snap0)).
  Proof.
    induction us as [|u t IH]; intros pre Hf; cbn [deliver_all fold_left]; [reflexivity|].
    inversion Hf as [|? ? Hu Ht]; subst. rewrite (IH _ Ht). f_equal.
    rewrite fold_left_app. apply delivered_step; [exact Hu|reflexivity].
  Qed.

  Lemma deliver_all_foreign us : forall pre, Forall foreign_resp pre -> Forall (foreign_upd o) us ->
    Forall foreign_resp (deliver_all us pre).
  Proof.
    induction us as [|u t IH]; intros pre Hp Hf; cbn [deliver_all]; [exact Hp|].
    inversion Hf as [|? ? Hu Ht]; subst. apply IH; [|exact Ht]. apply Forall_app. split; [exact Hp|].
    apply delivered_foreign. exact Hu.
  Qed.

  (* The observer holds snapshot snap0 with nothing pending; the foreign updates us are delivered to it in order; it
     then performs a permitting flush (NOOP). Its snapshot then contains exactly the messages the updates describe. *)
  Theorem observer_membership us : Forall (foreign_upd o) us ->
    exists st' out,
      flush_raw true (mkS snap0 (deliver_all us [])) = Some (st', out) /\
      s_res st' = [] /\
      ids_of (s_snap st') = fold_left (fun l u => mem_apply mb u l) us (ids_of snap0).
  Proof.
    intros Hf. unfold flush_raw, pop_responders. rewrite pop_go_true. cbn [s_res s_snap].
    destruct (run_responders_mem (deliver_all us []) snap0 (deliver_all_foreign us [] (Forall_nil _) Hf)) as (s' & out & Hr & Hi).
    rewrite Hr. eexists _, _. split; [reflexivity|]. split; [reflexivity|].
    cbn [s_snap]. rewrite Hi. rewrite (deliver_all_mem us [] Hf). reflexivity.
  Qed.
End Observer.

(* ---------- the database side: rows change exactly as the emitted updates say ---------- *)
Lemma rows_ids_remove m rows : rows_ids (rows_remove m rows) = filter (fun x => negb (fst x =? m)) (rows_ids rows).
Proof. induction rows as [|r t IH]; [reflexivity|]. cbn [rows_remove filter rows_ids map fst].
  destruct (r_id r =? m); cbn [negb map]; [exact IH|]. f_equal. exact IH. Qed.

(* message ids are unique within a mailbox: removing by filter = removing the first occurrence *)
Fixpoint idl_nodup (l : idl) : Prop := match l with [] => True | x :: r => idl_has (fst x) r = false /\ idl_nodup r end.

Lemma filter_absent m (l : idl) : idl_has m l = false -> filter (fun x => negb (fst x =? m)) l = l.
Proof.
  unfold idl_has. induction l as [|z t IH]; [reflexivity|]. cbn [existsb filter]. intros H.
  apply orb_false_iff in H as [A B]. unfold msgid, uid in *. rewrite A. cbn [negb]. f_equal. apply IH. exact B.
Qed.

Lemma filter_remove_nodup m l : idl_nodup l -> filter (fun x => negb (fst x =? m)) l = idl_remove m l.
Proof.
  induction l as [|y r IH]; [reflexivity|]. cbn [idl_nodup filter idl_remove]. intros [H1 H2].
  unfold msgid, uid in *. destruct (fst y =? m) eqn:E; cbn [negb].
  - apply N.eqb_eq in E. subst m. apply filter_absent. exact H1.
  - f_equal. apply IH. exact H2.
Qed.

Theorem remove_rows_matches_update w mb m :
  idl_nodup (rows_ids (mbox_of w mb)) -> (N.to_nat mb < length (w_mbox w))%nat ->
  let '(w1, ups) := remove_rows w mb [m] in
  ups = [UExpunge mb m] /\
  rows_ids (mbox_of w1 mb) = mem_apply mb (UExpunge mb m) (rows_ids (mbox_of w mb)).
Proof.
  intros Hnd Hlt. cbn [remove_rows fold_left map]. split; [reflexivity|].
  cbn [mem_apply]. rewrite N.eqb_refl. unfold mbox_of at 1, set_mbox. cbn [w_mbox].
  assert (G: forall (l : list (list mrow)) k v, (k < length l)%nat -> nth k (nth_upd k (fun _ => v) l) [] = v).
  { induction l as [|a t IH]; intros [|k] v H; cbn [length] in H; cbn [nth_upd nth]; try lia; [reflexivity|]. apply IH. lia. }
  rewrite G by exact Hlt. rewrite rows_ids_remove. apply filter_remove_nodup. exact Hnd.
Qed.

(* adding a message with the mailbox's next UID, which lies above every UID in the mailbox, appends it — which is what
   inserting by UID does *)
Fixpoint idl_all_lt (u : uid) (l : idl) : Prop := match l with [] => True | y :: r => snd y < u /\ idl_all_lt u r end.

Lemma idl_insert_end x l : idl_all_lt (snd x) l -> idl_insert x l = l ++ [x].
Proof. induction l as [|y r IH]; [reflexivity|]. cbn [idl_all_lt idl_insert app]. intros [H1 H2].
  destruct (N.ltb_spec (snd x) (snd y)); [lia|]. f_equal. apply IH. exact H2. Qed.

Theorem add_row_matches_update w mb m :
  (N.to_nat mb < length (w_mbox w))%nat ->
  idl_all_lt (next_of w mb) (rows_ids (mbox_of w mb)) -> idl_has m (rows_ids (mbox_of w mb)) = false ->
  let '(w1, items) := add_rows w mb [m] in
  items = [(m, next_of w mb, flags_of (w_flags w) m)] /\
  rows_ids (mbox_of w1 mb) = mem_apply mb (UExists mb items None) (rows_ids (mbox_of w mb)).
Proof.
  intros Hlt Hall Hno. cbn [add_rows]. split; [reflexivity|].
  cbn [mem_apply fold_left]. rewrite N.eqb_refl, Hno.
  unfold msgid, uid in *. rewrite (idl_insert_end (m, next_of w mb) _ Hall).
  unfold mbox_of at 1, set_next, set_mbox. cbn [w_mbox].
  assert (G: forall (l : list (list mrow)) k v, (k < length l)%nat -> nth k (nth_upd k (fun _ => v) l) [] = v).
  { induction l as [|a t IH]; intros [|k] v H; cbn [length] in H; cbn [nth_upd nth]; try lia; [reflexivity|]. apply IH. lia. }
  rewrite G by exact Hlt. unfold rows_ids. rewrite map_app. reflexivity.
Qed.
