// Harness for C18: commands are gated by authentication state, users are isolated, login jail.
//
// Drives an in-process gluon server over the IMAP wire with 3 users (own scriptable connectors, overlapping mailbox
// names).  Oracle (independent of the Coq model): a Go reference of the protocol state of every connection decides the
// class of every tagged answer; after every examined step a fresh view (new connection: LIST, LSUB, STATUS, EXAMINE,
// FETCH) of EVERY user's mailboxes must be unchanged unless that user's own authenticated connection acted; data
// returned to a connection must carry the marker of its user; connectors of other users must not be called.
// cases.v carries the command sequences and observed answer classes for Model/AuthGate.v (Run/RunC18.v).
package main

import (
	"crypto/sha256"
	"encoding/json"
	"fmt"
	"os"
	"sort"
	"strings"
	"time"

	"verifharness/common"
	"verifharness/hconn"
	"verifharness/imapc"
	"verifharness/srv"
)

func main() { common.Main("C18", runC18) }

// applyReplay: a replay file written by bin/check names the seed and tier of the run that failed; the harness is
// deterministic for a seed, so replaying = running again with them.
func applyReplay(ctx *common.Ctx) {
	if ctx.Replay == "" {
		return
	}
	b, err := os.ReadFile(ctx.Replay)
	if err != nil {
		return
	}
	var r struct {
		Seed int64  `json:"seed"`
		Tier string `json:"tier"`
	}
	if json.Unmarshal(b, &r) != nil {
		return
	}
	if r.Seed != 0 {
		ctx.Seed, ctx.Rng, ctx.Res.Seed = r.Seed, common.NewRng(r.Seed), r.Seed
	}
	if r.Tier == "quick" || r.Tier == "thorough" {
		ctx.Tier, ctx.Res.Tier = r.Tier, r.Tier
	}
}

// ---- users ----
type user struct {
	idx   int
	names []string
	pass  string
	tag   string // marker prefix of this user's messages
}

var users = []user{
	{0, []string{"alice", "alice@example.com"}, "pw-alice", "u0"},
	{1, []string{"bob"}, "pw-bob", "u1"},
	{2, []string{"carol"}, "pw-carol", "u2"},
}

// ---- commands ----
type cmd struct {
	K      string // Coq constructor
	Line   string // wire text ("" for special handling)
	Class  string // any notauth auth selected logout idle starttls
	Target int    // mailbox number for SELECT/EXAMINE (model argument)
	Name   string // LOGIN
	Pass   string
	Append string   // APPEND target mailbox
	RoRes  string   // handler result when the selected mailbox is read-only (default = Res)
	Res    string   // handler result when admitted: OK NO BAD
	Data   string   // "" | "body" (answers carry message literals) | "list"
	Parts  []string // with Lits: the command is sent with synchronising literals (parts[0] {n} lit[0] parts[1] …)
	Lits   [][]byte
}

const (
	stNotAuth = iota
	stAuth
	stSel
	stClosed
)

type conn struct {
	id    int
	c     *imapc.Client
	state int
	user  int
	ro    bool
}

func stateName(c *conn) string {
	switch c.state {
	case stNotAuth:
		return "not-authenticated"
	case stAuth:
		return "authenticated"
	case stSel:
		if c.ro {
			return "selected-ro"
		}
		return "selected"
	}
	return "closed"
}

func validUser(name, pass string) int {
	for _, u := range users {
		if pass != u.pass {
			continue
		}
		for _, n := range u.names {
			if n == name {
				return u.idx
			}
		}
	}
	return -1
}

// reference: the class of the answer and the state change. admitted = the command reached a handler of c.user.
func expect(c *conn, k cmd) (class string, admitted bool, next conn) {
	next = *c
	if c.state == stClosed {
		return "NONE", false, next
	}
	switch k.Class {
	case "starttls":
		// no TLS configuration: a tagged NO (the connection stays as it is); the property does not speak about
		// STARTTLS, so the older behaviour (connection ended without an answer) is accepted as well, see step()
		return "NO", false, next
	case "logout":
		next.state = stClosed
		return "BYE", false, next
	case "idle":
		if c.state == stNotAuth {
			return "NO", false, next
		}
		return "OK", true, next
	case "any":
		return "OK", c.state != stNotAuth, next
	case "notauth":
		if c.state != stNotAuth {
			return "BAD", false, next
		}
		if u := validUser(k.Name, k.Pass); u >= 0 {
			next.state, next.user = stAuth, u
			return "OK", false, next
		}
		return "NO", false, next
	case "auth":
		if c.state == stNotAuth {
			return "NO", false, next
		}
		if (k.K == "CSelect" || k.K == "CExamine") && k.Res == "OK" {
			next.state, next.ro = stSel, k.K == "CExamine"
		}
		return k.Res, true, next
	case "selected":
		if c.state != stSel {
			return "NO", false, next
		}
		r := k.Res
		if c.ro && k.RoRes != "" {
			r = k.RoRes
		}
		if (k.K == "CClose" || k.K == "CUnselect") && r == "OK" {
			next.state = stAuth
		}
		return r, true, next
	}
	return "NO", false, next
}

func resCode(class string) int {
	switch class {
	case "OK":
		return 0
	case "NO":
		return 1
	case "BAD":
		return 2
	case "BYE":
		return 3
	}
	return 4
}

func coqRes(class string) string {
	return map[string]string{"OK": "ROk", "NO": "RNo", "BAD": "RBad", "BYE": "RBye", "NONE": "RNone"}[class]
}

// ---- harness state ----
type hs struct {
	ctx       *common.Ctx
	s         *srv.Server
	conns     []*hconn.Conn
	views     []string // baseline fresh view per user
	pool      []map[string]int
	newN      int
	cases     []string
	caseID    int
	steps     []string // Coq steps of the current scenario
	viewN     int
	idHistory []string // what the ID-isolation scenario has done so far (for failure reports)
	marker    string   // marker prefix of the next appended message (user of the acting connection)
	log       []string // wire log of the current scenario (for failure reports)
}

func nameHash(s string) int {
	h := 0
	for _, b := range []byte(s) {
		h = (h*31 + int(b)) % 1000003
	}
	return h
}

// run sends the command on the connection and returns the class of the tagged answer plus the answer.
func (x *hs) send(c *conn, k cmd) (string, imapc.Result) {
	cl := c.c
	switch {
	case k.Class == "idle":
		tag := cl.NextTag()
		if err := cl.SendRaw([]byte(tag + " IDLE\r\n")); err != nil {
			return "NONE", imapc.Result{Closed: true}
		}
		var res imapc.Result
		for {
			l, err := cl.ReadLine(30 * time.Second)
			if err != nil {
				return "NONE", imapc.Result{Closed: true}
			}
			if strings.HasPrefix(l.Text, "+") {
				_ = cl.SendRaw([]byte("DONE\r\n"))
				r, err := cl.ReadUntilTag(tag)
				if err != nil {
					return "NONE", r
				}
				return r.Status, r
			}
			if strings.HasPrefix(l.Text, tag+" ") {
				sp := strings.SplitN(l.Text[len(tag)+1:], " ", 2)
				res.Status = sp[0]
				if len(sp) > 1 {
					res.Text = sp[1]
				}
				return res.Status, res
			}
			res.Untagged = append(res.Untagged, l)
		}
	case k.Append != "":
		r, err := cl.Append(k.Append, "", common.Message(fmt.Sprintf("%s-new-%d", x.marker, x.newN), "appended by the harness"))
		if err != nil {
			return "NONE", r
		}
		return r.Status, r
	case len(k.Parts) > 0:
		r, err := cl.CmdParts(k.Parts, k.Lits)
		if err != nil || r.Status == "" {
			return "NONE", r
		}
		return r.Status, r
	default:
		r, err := cl.Cmd(k.Line)
		if err != nil || r.Status == "" {
			return "NONE", r
		}
		if k.Class == "logout" && r.Status == "OK" {
			for _, u := range r.Untagged {
				if strings.HasPrefix(u.Text, "* BYE") {
					return "BYE", r
				}
			}
		}
		return r.Status, r
	}
}

// step runs one command on a connection, checks the gate oracle and the data oracle, records the model step.
func (x *hs) step(c *conn, k cmd, scen string) (admitted bool, wasUser int) {
	res := x.ctx.Res
	before := stateName(c)
	want, adm, next := expect(c, k)
	wasUser = -1
	if c.state == stAuth || c.state == stSel {
		wasUser = c.user
	}
	canon := fmt.Sprintf("gate state=%s cmd=%s", before, k.K)
	x.ctx.Current(canon, map[string]interface{}{"scenario": scen, "log": x.log, "line": k.Line})
	// the Append literal carries the marker of the acting connection's user when it has one
	x.marker = "anon"
	if wasUser >= 0 {
		x.marker = users[wasUser].tag
	}
	if k.Append != "" {
		x.newN++
	}
	got, r := x.send(c, k)
	x.log = append(x.log, fmt.Sprintf("[%d %s] %s %s -> %s %s", c.id, before, k.K, k.Line, got, r.Text))
	res.Evaluations++
	res.Count("state:" + before)
	res.Count("class:" + k.Class)
	res.Nontrivial(fmt.Sprintf("%s/%s/%s", before, k.K, want))
	if k.Class == "starttls" && got == "NONE" && c.state != stClosed {
		want, next.state = "NONE", stClosed
	}
	if got != want {
		res.Fail(fmt.Sprintf("%s expected=%s observed=%s", canon, want, got),
			fmt.Sprintf("connection in state %s sent %q: answer class %s (%s), the reference expects %s; scenario %s: %s", before, k.Line, got, r.Text, want, scen, strings.Join(x.log, " | ")),
			map[string]interface{}{"scenario": scen, "log": x.log})
	}
	// data oracle: what an admitted command returns belongs to the connection's user
	if got == "OK" && wasUser >= 0 {
		mark := users[wasUser].tag
		for _, u := range r.Untagged {
			for _, lit := range u.Lits {
				s := string(lit)
				if i := strings.Index(s, "X-Marker: "); i >= 0 {
					m := s[i+10:]
					if !strings.HasPrefix(m, mark+"-") {
						res.Fail(fmt.Sprintf("isolation foreign-message-returned cmd=%s", k.K),
							fmt.Sprintf("connection of %s received a message with marker %q; scenario %s: %s", users[wasUser].names[0], strings.SplitN(m, "\r", 2)[0], scen, strings.Join(x.log, " | ")),
							map[string]interface{}{"scenario": scen, "log": x.log})
					}
				}
			}
			if k.Data == "list" && strings.HasPrefix(u.Text, "* L") {
				for _, o := range users {
					if o.idx != wasUser && strings.Contains(u.Text, "only-"+o.tag) {
						res.Fail(fmt.Sprintf("isolation foreign-mailbox-listed cmd=%s", k.K),
							fmt.Sprintf("connection of %s was shown %q; scenario %s", users[wasUser].names[0], u.Text, scen),
							map[string]interface{}{"scenario": scen, "log": x.log})
					}
				}
			}
		}
	}
	// model step: argument = 8 * target + expected handler result (what the handler answers when the gate admits)
	hres := k.Res
	if c.state == stSel && c.ro && k.RoRes != "" {
		hres = k.RoRes
	}
	if hres == "" {
		hres = "OK"
	}
	x.steps = append(x.steps, fmt.Sprintf("mkStep %d %s %d %d %d %s", c.id, k.K, 8*k.Target+resCode(hres), nameHash(k.Name), nameHash(k.Pass), coqRes(got)))
	// follow the OBSERVED answer for SELECT/EXAMINE/CLOSE/LOGIN so that one wrong answer is reported once
	if got == want {
		*c = conn{id: c.id, c: c.c, state: next.state, user: next.user, ro: next.ro}
	} else if got == "NONE" {
		c.state = stClosed
	}
	if c.state == stClosed {
		c.c.Close()
	}
	return adm && got == want, wasUser
}

func credsCoq() string {
	var p []string
	for _, u := range users {
		var ns []string
		for _, n := range u.names {
			ns = append(ns, fmt.Sprint(nameHash(n)))
		}
		p = append(p, fmt.Sprintf("(%d, ([%s], %d))", u.idx+1, strings.Join(ns, "; "), nameHash(u.pass)))
	}
	return "[" + strings.Join(p, "; ") + "]"
}

func (x *hs) endScenario() {
	if len(x.steps) > 0 {
		x.caseID++
		x.cases = append(x.cases, fmt.Sprintf("mkCase %d %s [%s]", x.caseID, credsCoq(), strings.Join(x.steps, ";\n    ")))
	}
	x.steps, x.log = nil, nil
}

// ---- fresh views ----
// \Marked / \Unmarked depend on \Recent, which the property does not speak about
func unmark(s string) string {
	return strings.ReplaceAll(strings.ReplaceAll(s, `\Marked`, ""), `\Unmarked`, "")
}

func (x *hs) view(u user) (string, error) {
	x.viewN++
	c, err := x.s.Login(u.names[x.viewN%len(u.names)], u.pass) // all accepted names of the user, in turn
	if err != nil {
		return "", err
	}
	defer c.Close()
	var sb strings.Builder
	var boxes []string
	r, err := c.Cmd(`LIST "" "*"`)
	if err != nil {
		return "", err
	}
	var lines []string
	for _, l := range r.Untagged {
		lines = append(lines, unmark(l.Text))
		if i := strings.Index(l.Text, ` "/" `); i >= 0 {
			boxes = append(boxes, strings.Trim(l.Text[i+5:], `"`))
		}
	}
	sort.Strings(lines)
	sb.WriteString(strings.Join(lines, "\n") + "\n")
	sort.Strings(boxes)
	r, err = c.Cmd(`LSUB "" "*"`)
	if err != nil {
		return "", err
	}
	var subs []string
	for _, l := range r.Untagged {
		subs = append(subs, unmark(l.Text))
	}
	sort.Strings(subs)
	sb.WriteString(strings.Join(subs, "\n") + "\n")
	for _, b := range boxes {
		r, err = c.Cmd("STATUS " + imapc.Quote(b) + " (MESSAGES UIDNEXT UIDVALIDITY)")
		if err != nil {
			return "", err
		}
		empty := false
		for _, l := range r.Untagged {
			sb.WriteString(l.Text + "\n")
			if strings.Contains(l.Text, "(MESSAGES 0 ") {
				empty = true
			}
		}
		if empty {
			continue
		}
		r, err = c.Cmd("EXAMINE " + imapc.Quote(b))
		if err != nil {
			return "", err
		}
		if r.Status != "OK" {
			sb.WriteString("EXAMINE " + b + " " + r.Status + "\n")
			continue
		}
		n := 0
		for _, e := range imapc.Evs(r) {
			if e.Kind == "EXISTS" {
				n = e.N
			}
		}
		if n > 0 {
			r, err = c.Cmd("FETCH 1:* (UID FLAGS BODY.PEEK[])")
			if err != nil {
				return "", err
			}
			evs := imapc.Evs(r)
			sort.SliceStable(evs, func(i, j int) bool { return evs[i].N < evs[j].N })
			for _, e := range evs {
				if e.Kind != "FETCH" {
					continue
				}
				var fl []string
				for _, f := range e.Flags {
					if f != `\recent` {
						fl = append(fl, f)
					}
				}
				sort.Strings(fl)
				h := ""
				if len(e.Lits) > 0 {
					h = fmt.Sprintf("%x", sha256.Sum256(e.Lits[0]))[:16]
				}
				sb.WriteString(fmt.Sprintf("  %s seq=%d uid=%d flags=%v body=%s\n", b, e.N, e.UID, fl, h))
			}
		}
	}
	_, _ = c.Cmd("LOGOUT")
	return sb.String(), nil
}

// checkViews compares the fresh view of every user with the baseline; `actor` (or -1) is the user whose own
// authenticated connection acted with an admitted command: only that user's view may differ (it becomes the baseline).
func (x *hs) checkViews(actor int, what, scen string) error {
	res := x.ctx.Res
	for _, u := range users {
		// connector isolation: no call reached the connector of a user who did not act
		calls := x.conns[u.idx].TakeCalls()
		if u.idx != actor && len(calls) > 0 {
			res.Fail("isolation foreign-connector-called "+what,
				fmt.Sprintf("connector of %s received %v although no connection of that user acted; scenario %s: %s", u.names[0], calls, scen, strings.Join(x.log, " | ")),
				map[string]interface{}{"scenario": scen, "log": x.log})
		}
		v, err := x.view(u)
		if err != nil {
			return fmt.Errorf("fresh view of %s: %w", u.names[0], err)
		}
		x.conns[u.idx].TakeCalls()
		res.Count("fresh-views")
		if v != x.views[u.idx] {
			if u.idx == actor {
				x.views[u.idx] = v
				continue
			}
			who := "other-user"
			if actor < 0 {
				who = "nobody-acted"
			}
			res.Fail(fmt.Sprintf("view-changed %s actor=%s", what, who),
				fmt.Sprintf("the mailboxes of %s changed although no authenticated connection of that user acted (%s); scenario %s: %s\n--- before\n%s--- after\n%s", u.names[0], what, scen, strings.Join(x.log, " | "), x.views[u.idx], v),
				map[string]interface{}{"scenario": scen, "log": x.log})
			x.views[u.idx] = v
		}
	}
	return nil
}

func (x *hs) dial(id int) (*conn, error) {
	c, err := x.s.Dial()
	if err != nil {
		return nil, err
	}
	c.Timeout = 30 * time.Second
	c.TagPfx = fmt.Sprintf("C%d", id)
	return &conn{id: id, c: c}, nil
}

// take returns the next unused name of a pool of the user.
func (x *hs) take(u int, pool string) string {
	i := x.pool[u][pool]
	if i >= poolSize {
		x.ctx.Res.Infra("pool %s of user %d exhausted", pool, u)
	}
	x.pool[u][pool] = i + 1
	return fmt.Sprintf("%s-%d", pool, i)
}

const poolSize = 4

// the command repertoire; u = the user whose pools are used (the user the connection is meant to act for)
func (x *hs) repertoire(u int, consume string) []cmd {
	pick := func(pool, forK string) string {
		if consume == forK {
			return x.take(u, pool)
		}
		return fmt.Sprintf("%s-%d", pool, x.pool[u][pool])
	}
	x.newN++
	other := users[(u+1)%len(users)]
	return []cmd{
		{K: "CCapability", Line: "CAPABILITY", Class: "any", Res: "OK"},
		{K: "CIDGet", Line: "ID NIL", Class: "any", Res: "OK"},
		{K: "CIDSet", Line: `ID ("name" "verif")`, Class: "any", Res: "OK"},
		{K: "CNoop", Line: "NOOP", Class: "any", Res: "OK"},
		{K: "CLogin", Line: fmt.Sprintf("LOGIN %s %s", users[u].names[0], users[u].pass), Class: "notauth", Name: users[u].names[0], Pass: users[u].pass},
		{K: "CLogin", Line: fmt.Sprintf("LOGIN %s %s", other.names[0], other.pass), Class: "notauth", Name: other.names[0], Pass: other.pass},
		{K: "CSelect", Line: "SELECT shared", Class: "auth", Res: "OK", Target: 1},
		{K: "CExamine", Line: "EXAMINE shared", Class: "auth", Res: "OK", Target: 1},
		{K: "CCreate", Line: fmt.Sprintf("CREATE new-%d", x.newN), Class: "auth", Res: "OK"},
		{K: "CDelete", Line: "DELETE " + pick("del", "CDelete"), Class: "auth", Res: "OK"},
		{K: "CRename", Line: func() string { n := pick("ren", "CRename"); return "RENAME " + n + " " + n + "-renamed" }(), Class: "auth", Res: "OK"},
		{K: "CSubscribe", Line: "SUBSCRIBE " + pick("unsub", "CSubscribe"), Class: "auth", Res: "OK"},
		{K: "CUnsubscribe", Line: "UNSUBSCRIBE " + pick("sub", "CUnsubscribe"), Class: "auth", Res: "OK"},
		{K: "CList", Line: `LIST "" "*"`, Class: "auth", Res: "OK", Data: "list"},
		{K: "CLSub", Line: `LSUB "" "*"`, Class: "auth", Res: "OK", Data: "list"},
		{K: "CStatus", Line: "STATUS shared (MESSAGES UNSEEN)", Class: "auth", Res: "OK"},
		{K: "CAppend", Append: "shared", Line: "APPEND shared {literal}", Class: "auth", Res: "OK"},
		{K: "CCheck", Line: "CHECK", Class: "selected", Res: "OK"},
		{K: "CClose", Line: "CLOSE", Class: "selected", Res: "OK"},
		{K: "CExpunge", Line: "EXPUNGE", Class: "selected", Res: "OK", RoRes: "NO"},
		{K: "CUIDExpunge", Line: "UID EXPUNGE 1:*", Class: "selected", Res: "OK", RoRes: "NO"},
		{K: "CUnselect", Line: "UNSELECT", Class: "selected", Res: "OK"},
		{K: "CSearch", Line: "SEARCH ALL", Class: "selected", Res: "OK"},
		{K: "CFetch", Line: "FETCH 1 (FLAGS BODY.PEEK[])", Class: "selected", Res: "OK", Data: "body"},
		{K: "CStore", Line: `STORE 1 +FLAGS (\Flagged)`, Class: "selected", Res: "OK", RoRes: "NO"},
		{K: "CCopy", Line: "COPY 1 Archive", Class: "selected", Res: "OK", RoRes: "NO"},
		{K: "CMove", Line: "MOVE 1 Archive", Class: "selected", Res: "OK", RoRes: "NO"},
		{K: "CUID", Line: "UID FETCH 1:* (FLAGS BODY.PEEK[])", Class: "selected", Res: "OK", Data: "body"},
		{K: "CUID", Line: `UID STORE 1:* +FLAGS (\Seen)`, Class: "selected", Res: "OK", RoRes: "NO"},
		{K: "CLogout", Line: "LOGOUT", Class: "logout"},
		{K: "CIdle", Line: "IDLE", Class: "idle", Res: "OK"},
		{K: "CStartTLS", Line: "STARTTLS", Class: "starttls"},
	}
}

var setups = map[string][]string{
	"not-authenticated": {},
	"authenticated":     {"login"},
	"selected":          {"login", "select"},
	"selected-ro":       {"login", "examine"},
	"after-close":       {"login", "select", "close"},
	"after-unselect":    {"login", "examine", "unselect"},
	// CLOSE / UNSELECT leave the selected state whichever way the mailbox was selected
	"after-close-ro":    {"login", "examine", "close"},
	"after-unselect-rw": {"login", "select", "unselect"},
}

func (x *hs) setupCmd(u int, what string) cmd {
	switch what {
	case "login":
		return cmd{K: "CLogin", Line: fmt.Sprintf("LOGIN %s %s", users[u].names[0], users[u].pass), Class: "notauth", Name: users[u].names[0], Pass: users[u].pass}
	case "select":
		return cmd{K: "CSelect", Line: "SELECT shared", Class: "auth", Res: "OK", Target: 1}
	case "examine":
		return cmd{K: "CExamine", Line: "EXAMINE shared", Class: "auth", Res: "OK", Target: 1}
	case "close":
		return cmd{K: "CClose", Line: "CLOSE", Class: "selected", Res: "OK"}
	case "unselect":
		return cmd{K: "CUnselect", Line: "UNSELECT", Class: "selected", Res: "OK"}
	}
	return cmd{}
}

// ensureMessages keeps at least 3 messages in the user's `shared` (MOVE takes them away).
func (x *hs) ensureMessages(u int) error {
	c, err := x.s.Login(users[u].names[0], users[u].pass)
	if err != nil {
		return err
	}
	defer c.Close()
	r, err := c.Cmd("STATUS shared (MESSAGES)")
	if err != nil {
		return err
	}
	n := -1
	for _, l := range r.Untagged {
		fmt.Sscanf(l.Text[strings.Index(l.Text, "(MESSAGES ")+1:], "MESSAGES %d", &n)
	}
	if n >= 0 && n < 3 {
		for i := 0; i < 4; i++ {
			x.newN++
			if _, err := c.Append("shared", "", common.Message(fmt.Sprintf("%s-refill-%d", users[u].tag, x.newN), "refill")); err != nil {
				return err
			}
		}
		v, err := x.viewAfterOwn(u)
		if err != nil {
			return err
		}
		x.views[u] = v
	}
	_, _ = c.Cmd("LOGOUT")
	return nil
}

func (x *hs) viewAfterOwn(u int) (string, error) {
	v, err := x.view(users[u])
	x.conns[u].TakeCalls()
	return v, err
}

func runC18(ctx *common.Ctx) error {
	applyReplay(ctx)
	thorough := ctx.Tier == "thorough"
	res := ctx.Res
	res.Rule = "every command the parser knows x every protocol state (not authenticated, authenticated, selected, selected read-only, after SELECT+CLOSE, after EXAMINE+UNSELECT, after EXAMINE+CLOSE, after SELECT+UNSELECT) on fresh connections of rotating users, " +
		"random command sequences over 4 connections moving between states, all credential pairs, jail latency; non-trivial = distinct (state, command, expected class); " +
		"after every examined step fresh views of all 3 users are compared"
	x := &hs{ctx: ctx}
	var su []srv.User
	for _, u := range users {
		hc := hconn.New(u.names, u.pass)
		hc.IDPrefix = u.tag + "-"
		x.conns = append(x.conns, hc)
		su = append(su, srv.User{Names: u.names, Pass: u.pass, Conn: hc, ID: "user-" + u.tag})
		x.pool = append(x.pool, map[string]int{})
	}
	s, err := srv.Start(srv.Options{Users: su, JailTime: 0})
	if err != nil {
		return err
	}
	x.s = s
	defer stopBounded(s)

	// ---- initial mailboxes: same names for everybody, different contents ----
	for _, u := range users {
		c, err := s.Login(u.names[0], u.pass)
		if err != nil {
			return err
		}
		// a new user owns nothing but INBOX: anything else visible here belongs to somebody else
		if r, err := c.Cmd(`LIST "" "*"`); err == nil {
			for _, l := range r.Untagged {
				if strings.Contains(l.Text, "only-") || strings.Contains(l.Text, `"shared"`) {
					res.Evaluations++
					res.Fail("isolation new-user-sees-foreign-mailbox",
						fmt.Sprintf("LOGIN %s on a fresh server: LIST shows %q, a mailbox created by another user", u.names[0], l.Text),
						map[string]string{"user": u.names[0], "line": l.Text})
					return common.WriteCases(ctx.Out, "Run.RunC18", "case", nil, "")
				}
			}
		}
		boxes := []string{"shared", "Archive", "only-" + u.tag}
		for i := 0; i < poolSize; i++ {
			boxes = append(boxes, fmt.Sprintf("del-%d", i), fmt.Sprintf("ren-%d", i), fmt.Sprintf("sub-%d", i), fmt.Sprintf("unsub-%d", i))
		}
		for _, b := range boxes {
			if r, err := c.Cmd("CREATE " + b); err != nil || r.Status != "OK" {
				return fmt.Errorf("setup CREATE %s: %v %v", b, r.Text, err)
			}
		}
		for i := 0; i < poolSize; i++ {
			if r, err := c.Cmd(fmt.Sprintf("UNSUBSCRIBE unsub-%d", i)); err != nil || r.Status != "OK" {
				return fmt.Errorf("setup UNSUBSCRIBE: %v %v", r.Text, err)
			}
		}
		for i := 0; i < 6+u.idx; i++ {
			if r, err := c.Append("shared", "", common.Message(fmt.Sprintf("%s-m%d", u.tag, i), "body of "+u.tag)); err != nil || r.Status != "OK" {
				return fmt.Errorf("setup APPEND: %v %v", r.Text, err)
			}
		}
		if r, err := c.Append("INBOX", "", common.Message(fmt.Sprintf("%s-inbox", u.tag), "inbox of "+u.tag)); err != nil || r.Status != "OK" {
			return fmt.Errorf("setup APPEND: %v %v", r.Text, err)
		}
		_, _ = c.Cmd("LOGOUT")
		c.Close()
	}
	for _, u := range users {
		v, err := x.viewAfterOwn(u.idx)
		if err != nil {
			return err
		}
		x.views = append(x.views, v)
	}

	// ---- A. the command x state matrix ----
	stateNames := []string{"not-authenticated", "authenticated", "selected", "selected-ro", "after-close", "after-unselect",
		"after-close-ro", "after-unselect-rw"}
	rot := 0
	ncmds := len(x.repertoire(0, ""))
	for _, sn := range stateNames {
		for ci := 0; ci < ncmds; ci++ {
			if (sn == "after-close-ro" || sn == "after-unselect-rw") && x.repertoire(0, "")[ci].Class != "selected" {
				continue // the other classes are covered by after-close / after-unselect
			}
			u := rot % len(users)
			rot++
			if err := x.ensureMessages(u); err != nil {
				return err
			}
			c, err := x.dial(1)
			if err != nil {
				return err
			}
			scen := fmt.Sprintf("matrix state=%s", sn)
			for _, st := range setups[sn] {
				x.step(c, x.setupCmd(u, st), scen)
			}
			// will the command be admitted with an OK effect? then its pool names are consumed
			k0 := x.repertoire(u, "")[ci]
			_, adm, _ := expect(c, k0)
			consume := ""
			if adm {
				consume = k0.K
			}
			k := x.repertoire(u, consume)[ci]
			admitted, actorUser := x.step(c, k, scen)
			actor := -1
			if admitted {
				actor = actorUser
			}
			if err := x.checkViews(actor, fmt.Sprintf("state=%s cmd=%s", sn, k.K), scen); err != nil {
				return err
			}
			x.endScenario()
			if c.state != stClosed {
				c.c.Close()
			}
		}
	}

	// ---- B. random sequences over several connections ----
	nseq := ctx.Budget(6, 60)
	rng := ctx.Rng
	for q := 0; q < nseq; q++ {
		scen := fmt.Sprintf("random #%d", q)
		var cs []*conn
		for i := 0; i < 4; i++ {
			c, err := x.dial(i + 1)
			if err != nil {
				return err
			}
			cs = append(cs, c)
		}
		owner := []int{rng.Intn(3), rng.Intn(3), rng.Intn(3), rng.Intn(3)}
		steps := 30
		if thorough {
			steps = 60
		}
		for sidx := 0; sidx < steps; sidx++ {
			i := rng.Intn(len(cs))
			c := cs[i]
			if c.state == stClosed {
				continue
			}
			u := owner[i]
			rep := x.repertoire(u, "")
			// bias: logins early, few connection-ending commands, no DELETE/RENAME of pooled names here
			var k cmd
			for {
				k = rep[rng.Intn(len(rep))]
				if k.K == "CDelete" || k.K == "CRename" || k.K == "CSubscribe" || k.K == "CUnsubscribe" {
					continue
				}
				if (k.Class == "logout" || k.Class == "starttls") && rng.Intn(6) != 0 {
					continue
				}
				if c.state == stNotAuth && k.Class != "notauth" && rng.Intn(3) == 0 {
					continue
				}
				break
			}
			if k.K == "CLogin" && rng.Intn(4) == 0 { // wrong credentials of several kinds
				o := users[rng.Intn(3)]
				k = [](cmd){
					{K: "CLogin", Class: "notauth", Name: users[u].names[0], Pass: "wrong"},
					{K: "CLogin", Class: "notauth", Name: users[u].names[0], Pass: o.pass},
					{K: "CLogin", Class: "notauth", Name: "nobody", Pass: users[u].pass},
				}[rng.Intn(3)]
				k.Line = fmt.Sprintf("LOGIN %s %s", k.Name, k.Pass)
			}
			if k.K == "CMove" {
				if c.state == stSel && !c.ro {
					if err := x.ensureMessages(c.user); err != nil {
						return err
					}
				}
			}
			admitted, actorUser := x.step(c, k, scen)
			actor := -1
			if admitted {
				actor = actorUser
			}
			if err := x.checkViews(actor, fmt.Sprintf("state=%s cmd=%s", "random", k.K), scen); err != nil {
				return err
			}
		}
		x.endScenario()
		for _, c := range cs {
			if c.state != stClosed {
				c.c.Close()
			}
		}
	}

	// ---- C. credential pairs ----
	names := []string{"alice", "alice@example.com", "bob", "carol", "nobody", "ALICE", "alice ", ""}
	passes := []string{"pw-alice", "pw-bob", "pw-carol", "wrong", "PW-ALICE", "pw-alice ", ""}
	for _, n := range names {
		for _, p := range passes {
			scen := "credentials"
			c, err := x.dial(1)
			if err != nil {
				return err
			}
			k := cmd{K: "CLogin", Class: "notauth", Name: n, Pass: p, Line: fmt.Sprintf("LOGIN %s %s", imapc.Quote(n), imapc.Quote(p))}
			x.step(c, k, scen)
			res.Count("credential-pairs")
			// who is it now?  the reference says c.state/c.user; LIST must agree
			probe := cmd{K: "CList", Line: `LIST "" "only-*"`, Class: "auth", Res: "OK", Data: "list"}
			got, r := x.send(c, probe)
			x.log = append(x.log, "LIST only-* -> "+got)
			x.steps = append(x.steps, fmt.Sprintf("mkStep %d CList %d 0 0 %s", c.id, 0, coqRes(got)))
			if c.state == stNotAuth && got != "NO" {
				res.Fail("login wrong-credentials-authenticated", fmt.Sprintf("after LOGIN %q %q (no such credentials) LIST was answered %s", n, p, got), map[string]string{"name": n, "pass": p})
			}
			if c.state == stAuth {
				want := "only-" + users[c.user].tag
				ok := got == "OK"
				seen := 0
				for _, l := range r.Untagged {
					if strings.HasPrefix(l.Text, "* LIST") {
						seen++
						if !strings.Contains(l.Text, want) {
							ok = false
						}
					}
				}
				if !ok || seen != 1 {
					res.Fail("login authenticated-as-other-user", fmt.Sprintf("LOGIN %q %q: LIST only-* answered %s %v, expected exactly %s", n, p, got, r.Untagged, want), map[string]string{"name": n, "pass": p})
				}
			}
			x.endScenario()
			c.c.Close()
		}
	}
	if err := x.checkViews(-1, "after credential pairs", "credentials"); err != nil {
		return err
	}

	// ---- D. jail latency (own server; wall clock: only lower bounds are asserted) ----
	if err := x.jail(thorough, 200*time.Millisecond, false); err != nil {
		return err
	}
	// the CONFIGURED time counts: one round with a jail time above one second (only the lower bound is asserted: the
	// property is "not answered before the jail time has passed"; upper bounds on the wall clock would be flaky)
	if err := x.jail(thorough, 1300*time.Millisecond, true); err != nil {
		return err
	}
	if thorough {
		if err := x.jail(thorough, 2500*time.Millisecond, true); err != nil {
			return err
		}
	}

	// ---- E. user IDs: arbitrary IDs own separate storage; removing a user removes that user's files only ----
	if err := x.idIsolation(); err != nil {
		return err
	}
	if err := x.removeUserFiles(); err != nil {
		return err
	}
	if err := x.removeUserFailing(); err != nil {
		return err
	}

	// ---- F. the library's reference connector (connector.Dummy): credential matrix ----
	if err := x.dummyCredentials(); err != nil {
		return err
	}

	res.ModelCases = len(x.cases)
	return common.WriteCases(ctx.Out, "Run.RunC18", "case", x.cases, "")
}

// stopBounded closes the server but does not wait for ever: a defect of the implementation (e.g. a state that is never
// released) must not keep the harness from writing its result.
func stopBounded(s *srv.Server) {
	done := make(chan struct{})
	go func() {
		_ = s.Stop()
		close(done)
	}()
	select {
	case <-done:
	case <-time.After(20 * time.Second):
	}
}

// jail runs the login scripts against a server with the given configured jail time (onlyFirst: just the first script).
func (x *hs) jail(thorough bool, jailTime time.Duration, onlyFirst bool) error {
	res := x.ctx.Res
	const eps = 5 * time.Millisecond
	var su []srv.User
	for _, u := range users[:2] {
		su = append(su, srv.User{Names: u.names, Pass: u.pass, ID: "jail-" + u.tag})
	}
	s, err := srv.Start(srv.Options{Users: su, JailTime: jailTime})
	if err != nil {
		return err
	}
	defer stopBounded(s)
	old := x.s
	x.s = s
	defer func() { x.s = old }()
	type att struct {
		conn int
		name string
		pass string
		lit  bool // name and password travel as literals ({0} for an empty one), else as atoms / quoted strings
	}
	bad := func(c int) att { return att{conn: c, name: "alice", pass: "wrong"} }
	good := att{conn: 3, name: "bob", pass: "pw-bob"}
	// credentials with an empty part: failures like any other
	emptyPassQ := att{conn: 1, name: "alice", pass: ""}
	emptyPassL := att{conn: 2, name: "alice", pass: "", lit: true}
	emptyNameQ := att{conn: 1, name: "", pass: "pw-alice"}
	emptyNameL := att{conn: 2, name: "", pass: "pw-alice", lit: true}
	emptyBothQ := att{conn: 1, name: "", pass: ""}
	loginCmd := func(a att) cmd {
		k := cmd{K: "CLogin", Class: "notauth", Name: a.name, Pass: a.pass}
		if a.lit {
			k.Parts, k.Lits = []string{"LOGIN ", " ", ""}, [][]byte{[]byte(a.name), []byte(a.pass)}
			k.Line = fmt.Sprintf("LOGIN {%d} {%d}", len(a.name), len(a.pass))
		} else {
			k.Line = fmt.Sprintf("LOGIN %s %s", imapc.Quote(a.name), imapc.Quote(a.pass))
		}
		return k
	}
	// every script: ... three consecutive failures (possibly from different connections), then one more attempt
	scripts := [][]att{
		{bad(1), bad(1), bad(1), good},                                                             // same connection, 4th = valid credentials
		{bad(1), bad(2), {conn: 2, name: "nobody", pass: "pw-bob"}, bad(1)},                        // three connections/kinds, 4th fails too
		{bad(1), bad(1), {conn: 2, name: "alice", pass: "pw-alice"}, bad(1), bad(1), bad(2), good}, // a success resets the count
	}
	// two jail rounds in a row, no success in between: the 4th and the 7th attempt must wait
	scripts = append(scripts, []att{bad(1), bad(1), bad(1), bad(1), bad(1), bad(1), good})
	// every failed LOGIN counts and every LOGIN waits, whatever the credentials: empty name / empty password, as a quoted
	// empty string and as a {0} literal, as the failures that fill the counter and as the attempt during the jail
	scripts = append(scripts,
		[]att{emptyPassQ, emptyPassL, emptyNameQ, good},
		[]att{emptyNameL, emptyBothQ, emptyPassQ, emptyPassL, emptyPassQ, emptyNameL, bad(1)},
		[]att{bad(1), bad(2), bad(1), emptyPassQ},
		[]att{bad(1), bad(2), bad(1), emptyNameL})
	if thorough {
		scripts = append(scripts, []att{bad(1), bad(2), bad(1), bad(2), bad(1), bad(2), bad(1), bad(2), bad(1), good}) // three rounds
	}
	if onlyFirst {
		scripts = scripts[:1]
	}
	for si, sc := range scripts {
		scen := fmt.Sprintf("jail #%d (configured %v)", si, jailTime)
		cl := map[int]*conn{}
		gen := 0
		streak := 0
		var lastFailSent time.Time
		jailed := false
		for _, a := range sc {
			c := cl[a.conn]
			if c == nil || c.state != stNotAuth {
				var err error
				gen++
				if c, err = x.dial(a.conn + 10*gen); err != nil {
					return err
				}
				cl[a.conn] = c
			}
			k := loginCmd(a)
			x.ctx.Current("jail "+scen, x.log)
			sent := time.Now()
			x.step(c, k, scen)
			elapsed := time.Since(sent)
			if jailed {
				sinceThird := time.Since(lastFailSent)
				res.Count("jail-waits")
				res.Nontrivial(fmt.Sprintf("jail/%v/%d", jailTime, si))
				if sinceThird < jailTime-eps {
					res.Fail("jail next-attempt-answered-early",
						fmt.Sprintf("after three consecutive failed logins the next attempt was answered %v after the third failure was sent (jail time %v; the attempt itself took %v); %s", sinceThird, jailTime, elapsed, strings.Join(x.log, " | ")),
						map[string]interface{}{"script": si, "log": x.log})
				}
				jailed = false
			}
			if validUser(a.name, a.pass) >= 0 {
				streak = 0
			} else {
				streak++
				if streak == 3 {
					jailed, streak, lastFailSent = true, 0, sent
				}
			}
		}
		x.endScenario()
		for _, c := range cl {
			c.c.Close()
		}
		// let a pending jail expire so that the next script starts from a clean counter
		time.Sleep(jailTime + 50*time.Millisecond)
		c, err := s.Login("bob", "pw-bob")
		if err != nil {
			return err
		}
		c.Close()
	}
	return nil
}
