(* C03 — proofs about Model/TargetOrder.v *)
From Coq Require Import String Ascii.
From Coq Require Import List NArith Bool Sorting.Permutation Sorting.Sorted Lia.
From Gluon Require Import Model.RelDb Model.MailboxRef Model.TargetOrder.
Import ListNotations.
Open Scope list_scope.
Open Scope N_scope.

Definition uid_lt (p q : sel) : Prop := fst p < fst q.
Definition uid_le (p q : sel) : Prop := fst p <= fst q.

Lemma insert_uid_perm : forall p l, Permutation (insert_uid p l) (p :: l).
Proof.
  intros p l. induction l as [|q t IH]; [apply Permutation_refl|].
  cbn. destruct (fst p <=? fst q); [apply Permutation_refl|].
  eapply Permutation_trans; [apply perm_skip, IH | apply perm_swap].
Qed.

Lemma sort_uid_perm : forall l, Permutation (sort_uid l) l.
Proof.
  induction l as [|p t IH]; [apply Permutation_refl|].
  cbn. eapply Permutation_trans; [apply insert_uid_perm | apply perm_skip, IH].
Qed.

Lemma insert_uid_sorted : forall p l, StronglySorted uid_le l -> StronglySorted uid_le (insert_uid p l).
Proof.
  intros p l H. induction H as [|q t Ht IH Hq]; [repeat constructor|].
  cbn. destruct (fst p <=? fst q) eqn:E.
  - apply N.leb_le in E. constructor; [constructor; assumption|].
    constructor; [exact E|]. rewrite Forall_forall in *. intros x Hx. specialize (Hq x Hx). unfold uid_le in *. lia.
  - apply N.leb_gt in E. constructor; [exact IH|].
    rewrite Forall_forall in *. intros x Hx.
    apply (Permutation_in _ (insert_uid_perm p t)) in Hx. destruct Hx as [<-|Hx]; [unfold uid_le; lia | apply Hq, Hx].
Qed.

Lemma sort_uid_sorted : forall l, StronglySorted uid_le (sort_uid l).
Proof. induction l as [|p t IH]; [constructor | cbn; apply insert_uid_sorted, IH]. Qed.

(* with pairwise different UIDs the order is strict *)
Lemma sorted_le_nodup_lt : forall l, StronglySorted uid_le l -> NoDup (map fst l) -> StronglySorted uid_lt l.
Proof.
  intros l H. induction H as [|q t Ht IH Hq]; intro N; [constructor|].
  cbn in N. inversion N as [|? ? Hn N']; subst. constructor; [apply IH, N'|].
  rewrite Forall_forall in *. intros x Hx. specialize (Hq x Hx). unfold uid_le, uid_lt in *.
  assert (fst q <> fst x) by (intro E; apply Hn; rewrite E; apply in_map, Hx). lia.
Qed.

(* a strictly sorted list is determined by its elements *)
Lemma sorted_lt_perm_eq : forall l1 l2, StronglySorted uid_lt l1 -> StronglySorted uid_lt l2 -> Permutation l1 l2 -> l1 = l2.
Proof.
  induction l1 as [|a t1 IH]; intros l2 S1 S2 P.
  - apply Permutation_nil in P. symmetry; exact P.
  - destruct l2 as [|b t2]; [apply Permutation_sym, Permutation_nil in P; discriminate P|].
    inversion S1 as [|? ? S1' F1]; subst. inversion S2 as [|? ? S2' F2]; subst.
    rewrite Forall_forall in F1, F2.
    assert (Hab : a = b).
    { assert (Ha : In a (b :: t2)) by (apply (Permutation_in _ P); left; reflexivity).
      assert (Hb : In b (a :: t1)) by (apply (Permutation_in _ (Permutation_sym P)); left; reflexivity).
      destruct Ha as [Ha|Ha]; [symmetry; exact Ha|]. destruct Hb as [Hb|Hb]; [exact Hb|].
      specialize (F1 b Hb). specialize (F2 a Ha). unfold uid_lt in *. lia. }
    subst b. f_equal. apply IH; [exact S1' | exact S2' | apply Permutation_cons_inv with a; exact P].
Qed.

Lemma perm_map_fst_nodup : forall (l l' : list sel), Permutation l l' -> NoDup (map fst l) -> NoDup (map fst l').
Proof. intros l l' P N. apply (Permutation_NoDup (Permutation_map fst P)), N. Qed.

(* the sorted selection does not depend on the order in which the set named the messages *)
Lemma sort_uid_perm_invariant : forall l l', Permutation l l' -> NoDup (map fst l) -> sort_uid l = sort_uid l'.
Proof.
  intros l l' P N. apply sorted_lt_perm_eq.
  - apply sorted_le_nodup_lt; [apply sort_uid_sorted|]. apply (perm_map_fst_nodup l); [apply Permutation_sym, sort_uid_perm | exact N].
  - apply sorted_le_nodup_lt; [apply sort_uid_sorted|]. apply (perm_map_fst_nodup l); [|exact N].
    eapply Permutation_trans; [exact P | apply Permutation_sym, sort_uid_perm].
  - eapply Permutation_trans; [apply sort_uid_perm|]. eapply Permutation_trans; [exact P | apply Permutation_sym, sort_uid_perm].
Qed.

Lemma handed_over_perm_invariant : forall sorts, sorts = true -> forall req req', Permutation req req' -> NoDup (map fst req) ->
  handed_over sorts req = handed_over sorts req'.
Proof. intros sorts -> req req' P N. unfold handed_over. rewrite (sort_uid_perm_invariant req req' P N). reflexivity. Qed.

(* the messages reach the destination in the order of the session's view (ascending source UID) *)
Lemma in_request_spec : forall req p, in_request req p = true <-> In p req.
Proof.
  intros req [u m]. unfold in_request. rewrite existsb_exists. split.
  - intros [[u' m'] [H E]]. cbn in E. apply andb_true_iff in E. destruct E as [E1 E2].
    apply N.eqb_eq in E1, E2. subst. exact H.
  - intro H. exists (u, m). split; [exact H|]. cbn. rewrite !N.eqb_refl. reflexivity.
Qed.

Lemma filter_sorted : forall (f : sel -> bool) l, StronglySorted uid_lt l -> StronglySorted uid_lt (filter f l).
Proof.
  intros f l H. induction H as [|q t Ht IH Hq]; [constructor|].
  cbn. destruct (f q); [|exact IH]. constructor; [exact IH|].
  rewrite Forall_forall in *. intros x Hx. apply filter_In in Hx. apply Hq, Hx.
Qed.

Lemma sorted_lt_nodup : forall l, StronglySorted uid_lt l -> NoDup l.
Proof.
  intros l H. induction H as [|q t Ht IH Hq]; constructor; [|exact IH].
  intro Hin. rewrite Forall_forall in Hq. specialize (Hq q Hin). unfold uid_lt in Hq. lia.
Qed.

Lemma handed_over_is_source_order : forall sorts, sorts = true -> forall view req,
  StronglySorted uid_lt view -> NoDup (map fst req) -> (forall p, In p req -> In p view) ->
  handed_over sorts req = source_order view req.
Proof.
  intros sorts -> view req SV N Sub. unfold handed_over, source_order. f_equal.
  assert (SS : StronglySorted uid_lt (sort_uid req)).
  { apply sorted_le_nodup_lt; [apply sort_uid_sorted|]. apply (perm_map_fst_nodup req); [apply Permutation_sym, sort_uid_perm | exact N]. }
  apply sorted_lt_perm_eq; [exact SS | apply filter_sorted, SV|].
  apply NoDup_Permutation; [apply sorted_lt_nodup, SS | apply sorted_lt_nodup, filter_sorted, SV|].
  intro p. split; intro H.
  - apply (Permutation_in _ (sort_uid_perm req)) in H. apply filter_In. split; [apply Sub, H | apply in_request_spec, H].
  - apply filter_In in H. destruct H as [_ H]. apply in_request_spec in H.
    apply (Permutation_in _ (Permutation_sym (sort_uid_perm req))), H.
Qed.

(* hence COPY and MOVE have the same effect on the reference state for every way of writing the set *)
Lemma copy_perm_invariant : forall sorts, sorts = true -> forall s d req req' r, Permutation req req' -> NoDup (map fst req) ->
  ref_step (CCopy s d (handed_over sorts req)) r = ref_step (CCopy s d (handed_over sorts req')) r.
Proof. intros sorts H s d req req' r P N. rewrite (handed_over_perm_invariant sorts H req req' P N). reflexivity. Qed.

Lemma move_perm_invariant : forall sorts, sorts = true -> forall s d req req' r, Permutation req req' -> NoDup (map fst req) ->
  ref_step (CMove s d (handed_over sorts req)) r = ref_step (CMove s d (handed_over sorts req')) r.
Proof. intros sorts H s d req req' r P N. rewrite (handed_over_perm_invariant sorts H req req' P N). reflexivity. Qed.

(* the destination gets the messages at its end in exactly that order, with consecutive new UIDs *)
Lemma rb_append_msgs : forall ms x, map rr_msg (rb_rows (rb_append ms x)) = map rr_msg (rb_rows x) ++ ms.
Proof.
  induction ms as [|m t IH]; intro x; [cbn; rewrite app_nil_r; reflexivity|].
  cbn [rb_append]. rewrite IH. cbn [rb_rows]. rewrite map_app, <- app_assoc. reflexivity.
Qed.

Lemma rb_append_uids : forall ms x,
  map rr_uid (rb_rows (rb_append ms x)) = map rr_uid (rb_rows x) ++ map (fun i => rb_last x + N.of_nat i) (seq 1 (length ms)).
Proof.
  induction ms as [|m t IH]; intro x; [cbn; rewrite app_nil_r; reflexivity|].
  cbn [rb_append]. rewrite IH. cbn [rb_rows rb_last length seq map]. rewrite map_app, <- app_assoc. cbn [map app].
  f_equal. f_equal; try lia. rewrite <- (seq_shift (Datatypes.length t) 1), map_map. apply map_ext. intro i. lia.
Qed.

(* COPY/MOVE of a selection into another mailbox: the destination ends with the selected messages in source order *)
Lemma copy_destination_order : forall sorts, sorts = true -> forall view req y,
  StronglySorted uid_lt view -> NoDup (map fst req) -> (forall p, In p req -> In p view) ->
  let ts := handed_over sorts req in
  map rr_msg (rb_rows (rb_append ts (rb_remove ts y))) = map rr_msg (rb_rows (rb_remove ts y)) ++ source_order view req.
Proof.
  intros sorts H view req y SV N Sub ts. rewrite rb_append_msgs. unfold ts.
  rewrite (handed_over_is_source_order sorts H view req SV N Sub). reflexivity.
Qed.
