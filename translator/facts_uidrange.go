package main

// T1 extractor for C16: translates the index arithmetic of (*snapMsgList).uidRange
// (internal/state/snapshot_messages.go) statement by statement into a Gallina function over Z, and the two small
// bounds checks getWithSeqID / existsWithSeqID into Gallina predicates.
//
// uidRange is executed symbolically over an environment variable -> Gallina expression:
//
//	<len> := len(list.msg)                          -> env[<len>] = listLen
//	<i>, <ok|_> := list.binarySearchByUID(<param>)  -> env[<i>] = idx_<k>, env[<ok>] = ok_<k>   (k = 1 for the first
//	                                                   parameter of uidRange, 2 for the second)
//	if <cond> { return nil }                        -> `if <cond> then None else ...`
//	if <cond> { <v>++ } | { <v> = <e> }             -> env[<v>] = if <cond> then <e'> else env[<v>]
//	<x> := list.msg[<lo>:<hi>]                      -> `Some (<lo>, <hi>)`, translation of the decisions ends here
//
// After the slice only the known copy-out shape is accepted (make, one range loop that assigns
// result[i].Seq = imap.SeqID(<base> + i + 1) and result[i].snapMsg = v, return); the Seq expression is translated
// too. int is 64 bit; the indices are bounded by the list length, so + is emitted as plain Z addition and the lemma
// that uses the code (Proofs/UidRangeCodeProofs.v) is stated for list lengths below 2^62.
// Anything else makes the extractor fail, which produces a Coq file that does not compile.

import (
	"fmt"
	"go/ast"
	"go/token"
	"strings"
)

func init() { register("UidRange", factsUidRange) }

type uidTr struct {
	env   map[string]string // int variables
	benv  map[string]string // bool variables
	recv  string
	param []string
}

func (p *uidTr) intExpr(e ast.Expr) (string, error) {
	switch x := e.(type) {
	case *ast.ParenExpr:
		return p.intExpr(x.X)
	case *ast.Ident:
		if v, ok := p.env[x.Name]; ok {
			return v, nil
		}
		return "", fmt.Errorf("unknown identifier %q in integer expression", x.Name)
	case *ast.BasicLit:
		if x.Kind == token.INT {
			return "(" + x.Value + ")", nil
		}
	case *ast.CallExpr:
		// conversions int(..), imap.SeqID(..): identity on the value ranges of the lemma
		if len(x.Args) == 1 {
			switch f := x.Fun.(type) {
			case *ast.Ident:
				if f.Name == "int" || f.Name == "int64" {
					return p.intExpr(x.Args[0])
				}
			case *ast.SelectorExpr:
				if f.Sel.Name == "SeqID" {
					return p.intExpr(x.Args[0])
				}
			}
		}
	case *ast.BinaryExpr:
		a, err := p.intExpr(x.X)
		if err != nil {
			return "", err
		}
		b, err := p.intExpr(x.Y)
		if err != nil {
			return "", err
		}
		switch x.Op {
		case token.ADD:
			return "(" + a + " + " + b + ")", nil
		case token.SUB:
			return "(" + a + " - " + b + ")", nil
		}
	}
	return "", fmt.Errorf("unsupported integer expression %T", e)
}

func (p *uidTr) cond(e ast.Expr) (string, error) {
	switch x := e.(type) {
	case *ast.ParenExpr:
		return p.cond(x.X)
	case *ast.Ident:
		if v, ok := p.benv[x.Name]; ok {
			return v, nil
		}
		return "", fmt.Errorf("unknown boolean %q", x.Name)
	case *ast.UnaryExpr:
		if x.Op == token.NOT {
			a, err := p.cond(x.X)
			if err != nil {
				return "", err
			}
			return "(negb " + a + ")", nil
		}
	case *ast.BinaryExpr:
		if x.Op == token.LAND || x.Op == token.LOR {
			a, err := p.cond(x.X)
			if err != nil {
				return "", err
			}
			b, err := p.cond(x.Y)
			if err != nil {
				return "", err
			}
			if x.Op == token.LAND {
				return "(" + a + " && " + b + ")", nil
			}
			return "(" + a + " || " + b + ")", nil
		}
		a, err := p.intExpr(x.X)
		if err != nil {
			return "", err
		}
		b, err := p.intExpr(x.Y)
		if err != nil {
			return "", err
		}
		switch x.Op {
		case token.LSS:
			return "(" + a + " <? " + b + ")", nil
		case token.LEQ:
			return "(" + a + " <=? " + b + ")", nil
		case token.GTR:
			return "(" + b + " <? " + a + ")", nil
		case token.GEQ:
			return "(" + b + " <=? " + a + ")", nil
		case token.EQL:
			return "(" + a + " =? " + b + ")", nil
		case token.NEQ:
			return "(negb (" + a + " =? " + b + "))", nil
		}
	}
	return "", fmt.Errorf("unsupported condition %T", e)
}

// isListMsg recognises <recv>.msg
func (p *uidTr) isListMsg(e ast.Expr) bool {
	sel, ok := e.(*ast.SelectorExpr)
	if !ok || sel.Sel.Name != "msg" {
		return false
	}
	id, ok := sel.X.(*ast.Ident)
	return ok && id.Name == p.recv
}

func recvName(fd *ast.FuncDecl) string {
	if fd.Recv != nil && len(fd.Recv.List) == 1 && len(fd.Recv.List[0].Names) == 1 {
		return fd.Recv.List[0].Names[0].Name
	}
	return ""
}

func paramNames(fd *ast.FuncDecl) []string {
	var out []string
	for _, f := range fd.Type.Params.List {
		for _, n := range f.Names {
			out = append(out, n.Name)
		}
	}
	return out
}

func (p *uidTr) uidRange(fd *ast.FuncDecl) (code string, seq string, err error) {
	var pre []string // "if c then None else" prefixes
	sliceAt := -1
	var result string
	stmts := fd.Body.List
	for i, st := range stmts {
		switch s := st.(type) {
		case *ast.AssignStmt:
			if s.Tok == token.DEFINE && len(s.Lhs) == 1 && len(s.Rhs) == 1 {
				lhs, ok := s.Lhs[0].(*ast.Ident)
				if !ok {
					return "", "", fmt.Errorf("statement %d: unsupported definition", i)
				}
				if call, ok := s.Rhs[0].(*ast.CallExpr); ok {
					if f, ok := call.Fun.(*ast.Ident); ok && f.Name == "len" && len(call.Args) == 1 && p.isListMsg(call.Args[0]) {
						p.env[lhs.Name] = "listLen"
						continue
					}
				}
				if sl, ok := s.Rhs[0].(*ast.SliceExpr); ok && p.isListMsg(sl.X) && !sl.Slice3 && sl.Low != nil && sl.High != nil {
					lo, err := p.intExpr(sl.Low)
					if err != nil {
						return "", "", err
					}
					hi, err := p.intExpr(sl.High)
					if err != nil {
						return "", "", err
					}
					result = "Some (" + lo + ", " + hi + ")"
					p.env["#lo"] = lo
					sliceAt = i
				} else {
					return "", "", fmt.Errorf("statement %d: unsupported definition of %s", i, lhs.Name)
				}
			} else if s.Tok == token.DEFINE && len(s.Lhs) == 2 && len(s.Rhs) == 1 {
				call, ok := s.Rhs[0].(*ast.CallExpr)
				if !ok || len(call.Args) != 1 {
					return "", "", fmt.Errorf("statement %d: unsupported two-value definition", i)
				}
				sel, ok := call.Fun.(*ast.SelectorExpr)
				if !ok || sel.Sel.Name != "binarySearchByUID" {
					return "", "", fmt.Errorf("statement %d: call other than binarySearchByUID", i)
				}
				arg, ok := call.Args[0].(*ast.Ident)
				if !ok {
					return "", "", fmt.Errorf("statement %d: binarySearchByUID of a non-identifier", i)
				}
				k := 0
				for j, n := range p.param {
					if n == arg.Name {
						k = j + 1
					}
				}
				if k == 0 {
					return "", "", fmt.Errorf("statement %d: binarySearchByUID of %s, which is not a parameter", i, arg.Name)
				}
				if id, ok := s.Lhs[0].(*ast.Ident); ok && id.Name != "_" {
					p.env[id.Name] = fmt.Sprintf("idx%d", k)
				}
				if id, ok := s.Lhs[1].(*ast.Ident); ok && id.Name != "_" {
					p.benv[id.Name] = fmt.Sprintf("ok%d", k)
				}
			} else {
				return "", "", fmt.Errorf("statement %d: unsupported assignment", i)
			}
		case *ast.IfStmt:
			if s.Init != nil || s.Else != nil || len(s.Body.List) != 1 {
				return "", "", fmt.Errorf("statement %d: unsupported if shape", i)
			}
			c, err := p.cond(s.Cond)
			if err != nil {
				return "", "", err
			}
			switch b := s.Body.List[0].(type) {
			case *ast.ReturnStmt:
				if len(b.Results) != 1 {
					return "", "", fmt.Errorf("statement %d: return with %d values", i, len(b.Results))
				}
				if id, ok := b.Results[0].(*ast.Ident); !ok || id.Name != "nil" {
					return "", "", fmt.Errorf("statement %d: early return of something else than nil", i)
				}
				pre = append(pre, "if "+c+" then None else")
			case *ast.IncDecStmt:
				id, ok := b.X.(*ast.Ident)
				if !ok {
					return "", "", fmt.Errorf("statement %d: ++ of a non-identifier", i)
				}
				old, ok := p.env[id.Name]
				if !ok {
					return "", "", fmt.Errorf("statement %d: ++ of unknown %s", i, id.Name)
				}
				d := " + 1"
				if b.Tok == token.DEC {
					d = " - 1"
				}
				p.env[id.Name] = "(if " + c + " then (" + old + d + ") else " + old + ")"
			case *ast.AssignStmt:
				if b.Tok != token.ASSIGN || len(b.Lhs) != 1 || len(b.Rhs) != 1 {
					return "", "", fmt.Errorf("statement %d: unsupported assignment in if", i)
				}
				id, ok := b.Lhs[0].(*ast.Ident)
				if !ok {
					return "", "", fmt.Errorf("statement %d: assignment to a non-identifier", i)
				}
				old, ok := p.env[id.Name]
				if !ok {
					return "", "", fmt.Errorf("statement %d: assignment to unknown %s", i, id.Name)
				}
				nv, err := p.intExpr(b.Rhs[0])
				if err != nil {
					return "", "", err
				}
				p.env[id.Name] = "(if " + c + " then " + nv + " else " + old + ")"
			default:
				return "", "", fmt.Errorf("statement %d: unsupported statement in if", i)
			}
		default:
			return "", "", fmt.Errorf("statement %d: unsupported statement %T", i, st)
		}
		if sliceAt >= 0 {
			break
		}
	}
	if sliceAt < 0 {
		return "", "", fmt.Errorf("no slice of the message list found")
	}
	// copy-out: make, range loop, return
	rest := stmts[sliceAt+1:]
	if len(rest) != 3 {
		return "", "", fmt.Errorf("%d statements after the slice, 3 expected (make, copy loop, return)", len(rest))
	}
	loop, ok := rest[1].(*ast.RangeStmt)
	if !ok {
		return "", "", fmt.Errorf("copy loop expected after the slice")
	}
	if _, ok := rest[2].(*ast.ReturnStmt); !ok {
		return "", "", fmt.Errorf("return expected at the end")
	}
	key, ok := loop.Key.(*ast.Ident)
	if !ok {
		return "", "", fmt.Errorf("copy loop without index variable")
	}
	p.env[key.Name] = "i"
	for _, st := range loop.Body.List {
		as, ok := st.(*ast.AssignStmt)
		if !ok || len(as.Lhs) != 1 || len(as.Rhs) != 1 {
			return "", "", fmt.Errorf("unsupported statement in the copy loop")
		}
		sel, ok := as.Lhs[0].(*ast.SelectorExpr)
		if !ok {
			return "", "", fmt.Errorf("unsupported target in the copy loop")
		}
		if sel.Sel.Name == "Seq" {
			if seq, err = p.intExpr(as.Rhs[0]); err != nil {
				return "", "", err
			}
		}
	}
	if seq == "" {
		return "", "", fmt.Errorf("copy loop does not assign Seq")
	}
	return strings.Join(pre, "\n    ") + "\n    " + result, seq, nil
}

// boundsCheck translates getWithSeqID / existsWithSeqID: `index := int(id) - 1; listLen := len(list.msg);
// if <cond> { return <zero>, false | false }` -> the condition under which the function reports "no such message".
func (p *uidTr) boundsCheck(fd *ast.FuncDecl) (string, error) {
	params := paramNames(fd)
	if len(params) != 1 {
		return "", fmt.Errorf("%s: one parameter expected", fd.Name.Name)
	}
	p.env = map[string]string{params[0]: "id"}
	p.benv = map[string]string{}
	p.recv = recvName(fd)
	for i, st := range fd.Body.List {
		switch s := st.(type) {
		case *ast.AssignStmt:
			if s.Tok != token.DEFINE || len(s.Lhs) != 1 || len(s.Rhs) != 1 {
				return "", fmt.Errorf("%s statement %d: unsupported assignment", fd.Name.Name, i)
			}
			lhs, ok := s.Lhs[0].(*ast.Ident)
			if !ok {
				return "", fmt.Errorf("%s statement %d: unsupported target", fd.Name.Name, i)
			}
			if call, ok := s.Rhs[0].(*ast.CallExpr); ok {
				if f, ok := call.Fun.(*ast.Ident); ok && f.Name == "len" && len(call.Args) == 1 && p.isListMsg(call.Args[0]) {
					p.env[lhs.Name] = "listLen"
					continue
				}
			}
			v, err := p.intExpr(s.Rhs[0])
			if err != nil {
				return "", err
			}
			p.env[lhs.Name] = v
		case *ast.IfStmt:
			if s.Init != nil || s.Else != nil || len(s.Body.List) != 1 {
				return "", fmt.Errorf("%s statement %d: unsupported if shape", fd.Name.Name, i)
			}
			ret, ok := s.Body.List[0].(*ast.ReturnStmt)
			if !ok || len(ret.Results) == 0 {
				return "", fmt.Errorf("%s statement %d: if without return", fd.Name.Name, i)
			}
			last, ok := ret.Results[len(ret.Results)-1].(*ast.Ident)
			if !ok || last.Name != "false" {
				return "", fmt.Errorf("%s statement %d: the guarded return does not report false", fd.Name.Name, i)
			}
			// the statement after the if must be the positive return
			if i+2 != len(fd.Body.List) {
				return "", fmt.Errorf("%s: the bounds check is not the last decision", fd.Name.Name)
			}
			pos, ok := fd.Body.List[i+1].(*ast.ReturnStmt)
			if !ok || len(pos.Results) == 0 {
				return "", fmt.Errorf("%s: final return expected", fd.Name.Name)
			}
			if id, ok := pos.Results[len(pos.Results)-1].(*ast.Ident); !ok || id.Name != "true" {
				return "", fmt.Errorf("%s: the final return does not report true", fd.Name.Name)
			}
			return p.cond(s.Cond)
		default:
			return "", fmt.Errorf("%s statement %d: unsupported statement %T", fd.Name.Name, i, st)
		}
	}
	return "", fmt.Errorf("%s: no bounds check found", fd.Name.Name)
}

func factsUidRange(t *T) (string, error) {
	const file = "internal/state/snapshot_messages.go"
	f, err := t.ParseFile(file)
	if err != nil {
		return "", err
	}
	fd := FuncDecl(f, "snapMsgList", "uidRange")
	if fd == nil {
		return "", fmt.Errorf("snapMsgList.uidRange not found")
	}
	p := &uidTr{env: map[string]string{}, benv: map[string]string{}, recv: recvName(fd), param: paramNames(fd)}
	if len(p.param) != 2 {
		return "", fmt.Errorf("uidRange: two parameters expected")
	}
	code, seq, err := p.uidRange(fd)
	if err != nil {
		return "", fmt.Errorf("uidRange: %v", err)
	}
	var checks [2]string
	for i, name := range []string{"getWithSeqID", "existsWithSeqID"} {
		g := FuncDecl(f, "snapMsgList", name)
		if g == nil {
			return "", fmt.Errorf("snapMsgList.%s not found", name)
		}
		if checks[i], err = (&uidTr{}).boundsCheck(g); err != nil {
			return "", err
		}
	}
	var b strings.Builder
	b.WriteString("(* C16: snapMsgList.uidRange, getWithSeqID and existsWithSeqID of " + file + ", translated statement by statement.\n")
	b.WriteString("   idx1/ok1 and idx2/ok2 are the results of binarySearchByUID on the first and second parameter, listLen is\n")
	b.WriteString("   len(list.msg). None = `return nil`; Some (lo, hi) = the slice list.msg[lo:hi] that is copied out.\n\n")
	b.WriteString(strings.ReplaceAll(t.Src(file, fd), "*)", "* )") + "\n*)\n")
	b.WriteString("From Coq Require Import ZArith Bool.\nLocal Open Scope Z_scope.\nLocal Open Scope bool_scope.\n\n")
	b.WriteString("Definition uid_range_code (listLen idx1 idx2 : Z) (ok1 ok2 : bool) : option (Z * Z) :=\n    " + code + ".\n\n")
	b.WriteString("(* sequence number given to the i-th message of the slice *)\n")
	b.WriteString("Definition uid_range_seq_code (listLen idx1 idx2 : Z) (ok1 ok2 : bool) (i : Z) : Z := " + seq + ".\n\n")
	b.WriteString("(* getWithSeqID id reports `no such message` exactly when: *)\n")
	b.WriteString("Definition get_with_seq_fails_code (listLen id : Z) : bool := " + checks[0] + ".\n")
	b.WriteString("(* existsWithSeqID id is false exactly when: *)\n")
	b.WriteString("Definition exists_with_seq_fails_code (listLen id : Z) : bool := " + checks[1] + ".\n")
	return b.String(), nil
}
