package main

// C07 harness: acknowledged state survives restart, crashes and failing storage steps.
//  1. trace correspondence: the store calls / transaction boundaries / statements of every operation kind are
//     recorded on the real server and emitted for coq/Run/RunC07.v, which compares them with the model's step list;
//  2. fault enumeration on the implementation: the server runs in a child process on a persistent directory; for every
//     step boundary k of every operation kind the child kills itself (SIGKILL) or the step returns an error; after the
//     restart (kill) / immediately (error) the wire view must be the before- or the after-view, every listed message
//     must fetch byte-exact, and after a restart no cache file without a row and no message marked deleted may remain.

import (
	"fmt"
	"os"
	"path/filepath"
	"regexp"
	"sort"
	"strings"
	"time"

	"verifharness/common"
	"verifharness/imapc"
)

func main() {
	if os.Getenv("VERIF_C07_CHILD") != "" {
		childMain()
		return
	}
	common.Main("C07", runC07)
}

type world struct {
	// remote ids of messages the connector accepted while its journal was off (it cannot deliver them after a restart)
	noRedeliver map[string]bool
	underFault  bool
	ctx  *common.Ctx
	dir  string
	p    *proc
	em   *emitter
	iter int
}

type sdata struct {
	c      *imapc.Client // session used by the operation
	holder *imapc.Client
	extra  map[string]string
}

type scenario struct {
	name    string
	prepare func(w *world, pfx string) (*sdata, error)
	run     func(w *world, pfx string, d *sdata) error // an error is expected when a fault fires
	async   bool                                        // the operation continues after the command returned
	done    func(w *world, pfx string) bool             // async operations: "the fault-free operation has finished"
	refuses bool                                        // the command is answered NO even without a fault (APPEND fallback)
	tear    bool                                        // also die inside the operation's store.Set calls
	// marker of the message an APPEND hands over: when the APPEND fails the server keeps the message in the recovery
	// mailbox instead (its designed alternative outcome) — the view "before + that copy" is then legitimate as well
	fallback string
	model   func(e *emitter, ref *refRun) string         // Gallina term of the model operation (emit.go)
}

func (w *world) push(u *upd) (string, error) {
	if u.Kind == "MessageUpdated" && w.underFault {
		// the journalled connector now holds the NEW literal whatever became of the update (a real connector would
		// deliver the update again); the cache file of this message is not among those the checkpoints remove
		w.noRedeliver[u.MsgRID] = true
	}
	r, err := w.p.call(req{Op: "push", Update: u})
	if err != nil {
		return "", err
	}
	if r.Ack != "ok" {
		return r.Ack, fmt.Errorf("update %s acknowledged with %s %s", u.Kind, r.Ack, r.Err)
	}
	return r.Ack, nil
}

func (w *world) mustPush(u *upd) error { _, err := w.push(u); return err }

func closeAll(d *sdata) {
	if d == nil {
		return
	}
	if d.c != nil {
		d.c.Close()
	}
	if d.holder != nil {
		d.holder.Close()
	}
}

func mk(pfx, s string) string { return pfx + s }

func appendMsg(c *imapc.Client, mbox, marker, flags string) error {
	r, err := c.Append(mbox, flags, literalOf(marker))
	if err != nil {
		return err
	}
	if r.Status != "OK" {
		return fmt.Errorf("APPEND %s: %s %s", mbox, r.Status, r.Text)
	}
	return nil
}

func cmds(c *imapc.Client, lines ...string) error {
	for _, l := range lines {
		if _, err := okCmd(c, l); err != nil {
			return err
		}
	}
	return nil
}

// two mailboxes A, B (created through the connector so that their remote ids are known) with n messages in A
func prepAB(w *world, pfx string, n int, alsoB bool) (*sdata, error) {
	c, err := w.p.login()
	if err != nil {
		return nil, err
	}
	d := &sdata{c: c, extra: map[string]string{}}
	if err := w.mustPush(&upd{Kind: "MailboxCreated", MboxRID: mk(pfx, "a"), Name: mk(pfx, "A")}); err != nil {
		return d, err
	}
	if err := w.mustPush(&upd{Kind: "MailboxCreated", MboxRID: mk(pfx, "b"), Name: mk(pfx, "B")}); err != nil {
		return d, err
	}
	var items []mcItem
	for i := 1; i <= n; i++ {
		mbs := []string{mk(pfx, "a")}
		if alsoB && i == 1 {
			mbs = append(mbs, mk(pfx, "b"))
		}
		items = append(items, mcItem{RID: fmt.Sprintf("%sr%d", pfx, i), Marker: fmt.Sprintf("%sm%d", pfx, i), Mboxes: mbs})
	}
	if n > 0 {
		if err := w.mustPush(&upd{Kind: "MessagesCreated", Items: items}); err != nil {
			return d, err
		}
	}
	return d, nil
}

func scenarios(tier string) []scenario {
	batch := 3
	if tier == "thorough" {
		batch = 1001
	}
	sel := func(d *sdata, mbox string) error { return cmds(d.c, "SELECT "+imapc.Quote(mbox)) }
	return []scenario{
		{name: "append", fallback: "new", tear: true,
			prepare: func(w *world, pfx string) (*sdata, error) { return prepAB(w, pfx, 1, false) },
			run: func(w *world, pfx string, d *sdata) error {
				return appendMsg(d.c, mk(pfx, "A"), mk(pfx, "new"), "")
			}, model: modelAppend},
		{name: "appendrecovered", refuses: true, tear: true,
			// the connector refuses the message: APPEND answers NO and keeps the message in the recovery mailbox
			prepare: func(w *world, pfx string) (*sdata, error) { return prepAB(w, pfx, 1, false) },
			run: func(w *world, pfx string, d *sdata) error {
				if _, err := w.p.call(req{Op: "failnext", Name: "CreateMessage"}); err != nil {
					return err
				}
				return appendMsg(d.c, mk(pfx, "A"), mk(pfx, "rec"), "")
			}, model: modelAppendRecovered},
		{name: "copy",
			prepare: func(w *world, pfx string) (*sdata, error) {
				d, err := prepAB(w, pfx, 3, true)
				if err != nil {
					return d, err
				}
				return d, sel(d, mk(pfx, "A"))
			},
			run:   func(w *world, pfx string, d *sdata) error { return cmds(d.c, "COPY 2:3 "+imapc.Quote(mk(pfx, "B"))) },
			model: modelCopy},
		{name: "move",
			prepare: func(w *world, pfx string) (*sdata, error) {
				d, err := prepAB(w, pfx, 3, true)
				if err != nil {
					return d, err
				}
				return d, sel(d, mk(pfx, "A"))
			},
			run:   func(w *world, pfx string, d *sdata) error { return cmds(d.c, "MOVE 2:3 "+imapc.Quote(mk(pfx, "B"))) },
			model: modelMove},
		{name: "expunge",
			prepare: func(w *world, pfx string) (*sdata, error) {
				d, err := prepAB(w, pfx, 4, true)
				if err != nil {
					return d, err
				}
				if err := sel(d, mk(pfx, "A")); err != nil {
					return d, err
				}
				return d, cmds(d.c, `STORE 1,3 +FLAGS.SILENT (\Deleted)`)
			},
			run:   func(w *world, pfx string, d *sdata) error { return cmds(d.c, "EXPUNGE") },
			model: modelExpunge},
		{name: "store",
			prepare: func(w *world, pfx string) (*sdata, error) {
				d, err := prepAB(w, pfx, 3, true)
				if err != nil {
					return d, err
				}
				return d, sel(d, mk(pfx, "A"))
			},
			run:   func(w *world, pfx string, d *sdata) error { return cmds(d.c, `STORE 1:2 +FLAGS.SILENT (\Flagged kw1)`) },
			model: modelStore},
		{name: "create",
			prepare: func(w *world, pfx string) (*sdata, error) {
				c, err := w.p.login()
				return &sdata{c: c}, err
			},
			run:   func(w *world, pfx string, d *sdata) error { return cmds(d.c, "CREATE "+imapc.Quote(mk(pfx, "P/Q/R"))) },
			model: modelCreate},
		{name: "delete",
			prepare: func(w *world, pfx string) (*sdata, error) { return prepAB(w, pfx, 2, true) },
			run:     func(w *world, pfx string, d *sdata) error { return cmds(d.c, "DELETE "+imapc.Quote(mk(pfx, "A"))) },
			model:   modelDelete},
		{name: "unsubscribe",
			prepare: func(w *world, pfx string) (*sdata, error) { return prepAB(w, pfx, 1, false) },
			run:     func(w *world, pfx string, d *sdata) error { return cmds(d.c, "UNSUBSCRIBE "+imapc.Quote(mk(pfx, "A"))) },
		},
		{name: "rename",
			prepare: func(w *world, pfx string) (*sdata, error) {
				c, err := w.p.login()
				d := &sdata{c: c}
				if err != nil {
					return d, err
				}
				if err := cmds(c, "CREATE "+imapc.Quote(mk(pfx, "A")), "CREATE "+imapc.Quote(mk(pfx, "A/sub"))); err != nil {
					return d, err
				}
				return d, appendMsg(c, mk(pfx, "A"), mk(pfx, "m1"), "")
			},
			run: func(w *world, pfx string, d *sdata) error {
				return cmds(d.c, "RENAME "+imapc.Quote(mk(pfx, "A"))+" "+imapc.Quote(mk(pfx, "N/A2")))
			}, model: modelRename},
		{name: "conncreate", tear: true,
			prepare: func(w *world, pfx string) (*sdata, error) { return prepAB(w, pfx, 1, false) },
			run: func(w *world, pfx string, d *sdata) error {
				var items []mcItem
				for i := 0; i < batch; i++ {
					mbs := []string{mk(pfx, "a")}
					if i == 1 {
						mbs = []string{mk(pfx, "b"), mk(pfx, "a")}
					}
					items = append(items, mcItem{RID: fmt.Sprintf("%sn%d", pfx, i), Marker: fmt.Sprintf("%sn%d", pfx, i), Mboxes: mbs})
				}
				return w.mustPush(&upd{Kind: "MessagesCreated", Items: items})
			}, model: modelConnCreate},
		{name: "connupdate", tear: true,
			prepare: func(w *world, pfx string) (*sdata, error) { return prepAB(w, pfx, 2, true) },
			run: func(w *world, pfx string, d *sdata) error {
				return w.mustPush(&upd{Kind: "MessageUpdated", MsgRID: mk(pfx, "r1"), Marker: mk(pfx, "upd"), Mboxes: []string{mk(pfx, "b")}})
			}, model: modelConnUpdate},
		{name: "conndelete",
			prepare: func(w *world, pfx string) (*sdata, error) { return prepAB(w, pfx, 2, true) },
			run: func(w *world, pfx string, d *sdata) error {
				return w.mustPush(&upd{Kind: "MessageDeleted", MsgRID: mk(pfx, "r1")})
			}, model: modelConnDelete},
		{name: "sessionend", async: true,
			prepare: func(w *world, pfx string) (*sdata, error) {
				d, err := prepAB(w, pfx, 2, true)
				if err != nil {
					return d, err
				}
				// the session keeps both messages in its snapshot, so their rows stay (marked) until it ends
				if err := sel(d, mk(pfx, "A")); err != nil {
					return d, err
				}
				if err := w.mustPush(&upd{Kind: "MessageDeleted", MsgRID: mk(pfx, "r1")}); err != nil {
					return d, err
				}
				return d, w.mustPush(&upd{Kind: "MessageDeleted", MsgRID: mk(pfx, "r2")})
			},
			run: func(w *world, pfx string, d *sdata) error {
				_, err := d.c.Cmd("LOGOUT")
				return err
			},
			// finished when the purge has removed every row that was marked for deletion
			done: func(w *world, pfx string) bool {
				s, err := w.snap()
				if err != nil {
					return true
				}
				for _, m := range s.Ms {
					if m.Deleted {
						return false
					}
				}
				return true
			}, model: modelSessionEnd},
	}
}

// sameEntries compares two rendered views as sets of mailbox entries.
func sameEntries(a, b string) bool {
	split := func(v string) []string {
		var out []string
		for _, p := range strings.Split(strings.TrimSpace(v), "} ") {
			p = strings.TrimSuffix(strings.TrimSpace(p), "}")
			if p != "" {
				out = append(out, p)
			}
		}
		sort.Strings(out)
		return out
	}
	return strings.Join(split(a), "|") == strings.Join(split(b), "|")
}

var reUIDVMask = regexp.MustCompile(`\{v\d+ `)

func maskUIDV(v string) string { return reUIDVMask.ReplaceAllString(v, "{v# ") }

// sameBoxesKeepUIDV: every mailbox named in both views has the same UIDVALIDITY
func uidvKept(before, after string) bool {
	get := func(v string) map[string]string {
		m := map[string]string{}
		for _, part := range strings.Split(v, "} ") {
			if i := strings.Index(part, "{v"); i > 0 {
				rest := part[i+2:]
				if j := strings.Index(rest, " "); j > 0 {
					m[part[:i]] = rest[:j]
				}
			}
		}
		return m
	}
	b, a := get(before), get(after)
	for n, v := range b {
		if x, ok := a[n]; ok && x != v {
			return false
		}
	}
	return true
}

// boundaryKinds lists, in order, the kind of every counted step boundary of a recorded (fault-free) run.
func boundaryKinds(ev []event) []string {
	var out []string
	for _, e := range ev {
		switch e.K {
		case "end-r", "rollback":
		case "init":
			out = append(out, "init")
		case "stmt", "stmt-err":
			out = append(out, "stmt")
		case "del-err":
			out = append(out, "del")
		default:
			out = append(out, e.K)
		}
	}
	return out
}

type refRun struct {
	pfx         string
	n           int
	before      string
	after       string
	events      []event
	snapBefore  *dbSnap
	snapAfter   *dbSnap
	filesBefore []string
	filesAfter  []string
}

// quiesce waits until no store / database activity has been seen for a few polls (sessions that ended keep purging
// asynchronously; such activity must not be counted as boundaries of the operation under test).
func (w *world) quiesce() { w.quiesceN(4, 3*time.Millisecond) }

func (w *world) quiesceN(need int, step time.Duration) {
	last, same := -1, 0
	for i := 0; i < 2000; i++ {
		r, err := w.p.call(req{Op: "seen"})
		if err != nil {
			return
		}
		if r.Total == last && r.Open == 0 { // nothing new, and no database / store call in progress
			same++
			if same >= need {
				return
			}
		} else {
			same = 0
		}
		last = r.Total
		time.Sleep(step)
	}
}

func (w *world) settle(async bool) {
	if async {
		time.Sleep(60 * time.Millisecond)
		w.quiesceN(12, 5*time.Millisecond)
	}
}

// settleUntil waits (up to 15 s) until cond holds, then until the server is quiet: for the traced reference run of an
// operation that goes on after its command was answered (purge at the end of a session), whose trace must be complete.
func (w *world) settleUntil(cond func() bool) {
	for i := 0; i < 1500; i++ {
		if cond() {
			break
		}
		time.Sleep(10 * time.Millisecond)
	}
	w.quiesceN(12, 5*time.Millisecond)
}

func (w *world) snap() (*dbSnap, error) {
	r, err := w.p.call(req{Op: "snap"})
	if err != nil {
		return nil, err
	}
	return r.Snap, nil
}

// cleanQuit closes the server. A close that hangs (observed: removeState returns early on a failed read without
// releasing the user's WaitGroup, so Close waits for ever) loses nothing; it is recorded as a note, the process is
// killed and the check goes on with a restart (the hang itself is a teardown matter, property C19).
func (w *world) cleanQuit(what string) {
	hung, err := w.p.quit()
	if hung {
		w.ctx.Res.Notes = append(w.ctx.Res.Notes, "server Close() did not return within 20 s after injected errors ("+what+"); killed instead")
		w.ctx.Res.Count("close-hung")
	} else if err != nil {
		w.ctx.Res.Notes = append(w.ctx.Res.Notes, "close returned an error ("+what+"): "+err.Error())
	}
}

func (w *world) restart(arm string) error {
	p, err := startChild(w.dir, arm, false)
	w.p = p
	return err
}

// leftovers checks, after a restart: no cache file without a message row, no message marked deleted.
func (w *world) leftovers() (string, error) {
	s, err := w.snap()
	if err != nil {
		return "", err
	}
	rows := map[string]bool{}
	var bad []string
	for _, m := range s.Ms {
		rows[m.IID] = true
		if m.Deleted {
			bad = append(bad, "message marked deleted still present: "+m.RID)
		}
	}
	for _, f := range storeFiles(w.dir) {
		if !rows[f] {
			bad = append(bad, "cache file without a message row: "+f)
		}
	}
	return strings.Join(bad, "; "), nil
}

// checkpoint: the restart comparison is TOTAL. After every scenario the complete client-visible state (LSUB, every
// mailbox with UIDVALIDITY / UIDNEXT, every message with UID, flags, RFC822.SIZE and exact bytes) is taken, then
//   close; the cache files of a few listed messages the connector can deliver again are removed; reopen
//   -> same state (first FETCH after the loss); same state again (FETCH served from the refilled cache);
//   kill; restart -> same state; no cache file without a row, no row marked for deletion.
func (w *world) checkpoint(what string) error {
	res := w.ctx.Res
	canon := "close + reopen / cache loss / kill + restart after: " + what
	w.ctx.Current(canon, nil)
	w.quiesceN(12, 5*time.Millisecond)
	f1, bad, err := fullState(w.p)
	if err != nil {
		return err
	}
	if len(bad) > 0 {
		res.Fail("listed-message-not-fetchable | before the restart, after: "+what, strings.Join(bad, "; "), nil)
	}
	// cache files to lose: listed messages with a connector remote id (not recovered, not waiting for the purge)
	snap, err := w.snap()
	if err != nil {
		return err
	}
	listed := map[string]bool{}
	for _, r := range snap.Rows {
		listed[r.Msg] = true
	}
	var lose []string
	for _, m := range snap.Ms {
		if listed[m.IID] && !m.Deleted && !strings.HasPrefix(m.RID, "DELETED-") && !strings.HasPrefix(m.RID, "GLUON-RECOVERED-MESSAGE") && !w.noRedeliver[m.RID] {
			lose = append(lose, m.IID)
		}
	}
	sort.Strings(lose) // internal ids are random: an arbitrary but small selection
	if len(lose) > 6 {
		lose = lose[:6]
	}
	w.cleanQuit(what)
	for _, id := range lose {
		os.Remove(filepath.Join(storeDirOf(w.dir), id))
	}
	if err := w.restart(""); err != nil {
		res.Fail("restart-failed | "+canon, err.Error(), nil)
		return err
	}
	cmp := func(when string, restarted bool) error {
		f, bad, err := fullState(w.p)
		if err != nil {
			return err
		}
		res.Evaluations++
		if f != f1 {
			res.Fail("state-changed-across-restart | "+canon+" | "+when, firstDiff(f1, f), nil)
		}
		if len(bad) > 0 {
			res.Fail("listed-message-not-fetchable | "+canon+" | "+when, strings.Join(bad, "; "), nil)
		}
		if restarted {
			if lo, e := w.leftovers(); e == nil && lo != "" {
				res.Fail("leftovers-after-restart | "+canon+" | "+when, lo, nil)
			}
		}
		return nil
	}
	res.Nontrivial(canon)
	if err := cmp(fmt.Sprintf("after close + reopen with %d cache files lost (first FETCH)", len(lose)), true); err != nil {
		return err
	}
	if err := cmp("second FETCH after the cache loss", false); err != nil {
		return err
	}
	w.p.kill()
	if err := w.restart(""); err != nil {
		res.Fail("restart-failed | "+canon, err.Error(), nil)
		return err
	}
	return cmp("after kill + restart", true)
}

func runC07(ctx *common.Ctx) error {
	res := ctx.Res
	res.Rule = "every step boundary (store call, transaction begin, statement, commit) of one instance of each operation kind (APPEND, COPY, MOVE, EXPUNGE, STORE, CREATE with parents, DELETE, RENAME with inferiors, connector MessagesCreated batch / MessageUpdated with a new literal / MessageDeleted, end of session purge, start-up clean-up) x {process killed, step returns an error}; non-trivial = distinct (operation, boundary, fault) whose fault actually fired"
	dir, err := os.MkdirTemp("", "verif-c07-*")
	if err != nil {
		return err
	}
	defer os.RemoveAll(dir)
	defer os.Remove(dir + ".stderr")
	w := &world{ctx: ctx, dir: dir, em: &emitter{}, noRedeliver: map[string]bool{}}
	if err := w.restart(""); err != nil {
		return err
	}
	defer func() {
		if w.p != nil {
			w.p.kill()
		}
	}()
	if os.Getenv("VERIF_C07_ONLY") == "store" { // development aid: only the cache-file scenarios
		if err := w.tornRefillScenario(); err != nil {
			return err
		}
		if err := w.repairScenario(); err != nil {
			return err
		}
		return common.WriteCases(ctx.Out, "Run.RunC07", "case", nil, "")
	}
	if os.Getenv("VERIF_C07_ONLY") == "chunks" { // development aid: only the chunk-size scenarios
		for _, n := range []int{1003} {
			if err := w.chunkScenario(n); err != nil {
				return err
			}
		}
		return common.WriteCases(ctx.Out, "Run.RunC07", "case", nil, "")
	}
	for si, sc := range scenarios(ctx.Tier) {
		if err := w.runScenario(si, sc); err != nil {
			return fmt.Errorf("scenario %s: %w", sc.name, err)
		}
		if err := w.checkpoint(sc.name); err != nil {
			return fmt.Errorf("checkpoint after %s: %w", sc.name, err)
		}
	}
	// the start-up clean-up is examined on a directory of its own (few objects => few boundaries)
	w.p.kill()
	dir2, err := os.MkdirTemp("", "verif-c07-*")
	if err != nil {
		return err
	}
	defer os.RemoveAll(dir2)
	defer os.Remove(dir2 + ".stderr")
	w.dir = dir2
	if err := w.restart(""); err != nil {
		return err
	}
	if err := w.startupScenario(); err != nil {
		return fmt.Errorf("scenario startup: %w", err)
	}
	if err := w.checkpoint("startup"); err != nil {
		return err
	}
	if err := w.resurrectScenario(); err != nil {
		return fmt.Errorf("scenario resurrect: %w", err)
	}
	if err := w.checkpoint("delete + re-create"); err != nil {
		return err
	}
	if err := w.recoveryMoveScenario(); err != nil {
		return fmt.Errorf("scenario recovery move: %w", err)
	}
	if err := w.checkpoint("COPY / MOVE out of the recovery mailbox"); err != nil {
		return err
	}
	// statements over message lists run in chunks of db.ChunkLimit: one size just above it (thorough: more sizes)
	sizes := []int{1003}
	if ctx.Tier == "thorough" {
		sizes = []int{999, 1000, 1001, 1003, 2001}
	}
	for _, n := range sizes {
		if err := w.chunkScenario(n); err != nil {
			return fmt.Errorf("scenario chunks (%d): %w", n, err)
		}
	}
	if err := w.tornRefillScenario(); err != nil {
		return fmt.Errorf("scenario torn refill: %w", err)
	}
	if err := w.repairScenario(); err != nil {
		return fmt.Errorf("scenario repair: %w", err)
	}
	if err := w.redownloadScenario(); err != nil {
		return fmt.Errorf("scenario redownload: %w", err)
	}
	res.ModelCases = len(w.em.lines)
	return common.WriteCases(ctx.Out, "Run.RunC07", "case", w.em.lines, "")
}

func (w *world) runScenario(si int, sc scenario) error {
	res := w.ctx.Res
	// ---- reference run: boundary count, trace, after-view ----
	ref := &refRun{pfx: fmt.Sprintf("R%d_", si)}
	d, err := sc.prepare(w, ref.pfx)
	if err != nil {
		closeAll(d)
		return fmt.Errorf("prepare: %w", err)
	}
	if ref.before, _, err = viewOf(w.p, ref.pfx); err != nil {
		return err
	}
	w.quiesceN(12, 5*time.Millisecond) // the traced run must not contain the tail of an earlier session's purge
	if ref.snapBefore, err = w.snap(); err != nil {
		return err
	}
	ref.filesBefore = storeFiles(w.dir)
	w.p.call(req{Op: "trace_start"})
	w.p.call(req{Op: "arm", K: 1 << 30, Mode: "fail"})
	if err := sc.run(w, ref.pfx, d); err != nil && !sc.refuses {
		closeAll(d)
		return fmt.Errorf("reference run: %w", err)
	}
	if sc.async && sc.done != nil {
		w.settleUntil(func() bool { return sc.done(w, ref.pfx) })
	} else {
		w.settle(sc.async)
	}
	r, err := w.p.call(req{Op: "disarm"})
	if err != nil {
		return err
	}
	ref.n = r.Seen
	tr, err := w.p.call(req{Op: "trace_take"})
	if err != nil {
		return err
	}
	ref.events = tr.Events
	if ref.snapAfter, err = w.snap(); err != nil {
		return err
	}
	ref.filesAfter = storeFiles(w.dir)
	closeAll(d)
	var bad []string
	if ref.after, bad, err = viewOf(w.p, ref.pfx); err != nil {
		return err
	}
	if len(bad) > 0 {
		res.Fail("fetch-after-clean-run | "+sc.name, strings.Join(bad, "; "), ref.after)
	}
	if ref.after == ref.before && !sc.async {
		return fmt.Errorf("the operation did not change the view: %s", ref.before)
	}
	w.em.emit(sc, ref)
	if os.Getenv("VERIF_C07_DEBUG") != "" {
		fmt.Fprintf(os.Stderr, "== %s n=%d\n", sc.name, ref.n)
		for _, e := range ref.events {
			fmt.Fprintf(os.Stderr, "   %s %s w=%v %v\n", e.K, e.N, e.W, len(e.Args))
		}
	}
	res.Count("boundaries:" + sc.name + fmt.Sprintf("=%d", ref.n))

	// ---- faults ----
	kinds := boundaryKinds(ref.events)
	modes := []string{"fail", "cancel", "kill"}
	if sc.tear {
		// the process dies INSIDE a store.Set of the operation, leaving a prefix of the cache file (see tearLength)
		for cut := 0; cut <= 4; cut++ {
			modes = append(modes, fmt.Sprintf("tear%d", cut))
		}
	}
	for _, mode := range modes {
		tear := strings.HasPrefix(mode, "tear")
		for k := 0; k < ref.n; k++ {
			if tear {
				// the FIRST store.Set of the operation (thorough: every one of the first twelve boundaries)
				first := -1
				for i, kd := range kinds {
					if kd == "set" {
						first = i
						break
					}
				}
				if k >= len(kinds) || kinds[k] != "set" || (w.ctx.Tier != "thorough" && k != first) || k > first+12 {
					continue
				}
			}
			// large batches (thorough tier): the first and last 30 boundaries and every 53rd in between
			if ref.n > 80 && k >= 30 && k < ref.n-30 && k%53 != 0 {
				continue
			}
			// "cancel": the context of a write transaction is cancelled between its last statement and COMMIT
			if mode == "cancel" && (k >= len(kinds) || kinds[k] != "commit" || sc.async) {
				continue
			}
			pfx := fmt.Sprintf("%s%d_%d_", strings.ToUpper(mode[:1]), si, k)
			if tear {
				pfx = fmt.Sprintf("T%s_%d_%d_", mode[4:], si, k)
			}
			canon := fmt.Sprintf("%s boundary=%d/%d fault=%s", sc.name, k, ref.n, mode)
			w.ctx.Current(canon, map[string]any{"scenario": sc.name, "k": k, "mode": mode})
			d, err := sc.prepare(w, pfx)
			if err != nil {
				closeAll(d)
				return fmt.Errorf("prepare %s: %w", canon, err)
			}
			before, _, err := viewOf(w.p, pfx)
			if err != nil {
				return err
			}
			w.quiesce()
			armReq := req{Op: "arm", K: k, Mode: mode}
			if tear {
				armReq.Mode = "tear"
				fmt.Sscanf(mode, "tear%d", &armReq.Cut)
			}
			if _, err := w.p.call(armReq); err != nil {
				return err
			}
			w.underFault = true
			runErr := sc.run(w, pfx, d)
			w.underFault = false
			fired := false
			diedOnError := false
			if mode == "kill" || tear {
				if w.p.died(3 * time.Second) {
					fired = true
					closeAll(d)
					if err := w.restart(""); err != nil {
						res.Fail("restart-failed | "+canon, err.Error(), nil)
						return fmt.Errorf("restart after %s: %w", canon, err)
					}
				} else {
					w.p.call(req{Op: "disarm"})
					closeAll(d)
				}
			} else {
				w.settle(sc.async)
				r, err := w.p.call(req{Op: "disarm"})
				if err != nil {
					// the server process died although the step only returned an error
					closeAll(d)
					if !w.p.died(5 * time.Second) {
						return err
					}
					tail := ""
					if b, e := os.ReadFile(w.dir + ".stderr"); e == nil {
						if len(b) > 3000 {
							b = b[len(b)-3000:]
						}
						tail = string(b)
					}
					// not a C07 violation by itself (the process died: the restart must show the before- or after-state,
					// which is checked below exactly as for a kill); recorded for the report
					res.Notes = append(res.Notes, "server process exited when a step returned an error ("+canon+"): "+tail)
					res.Count("died-on-injected-error")
					if err := w.restart(""); err != nil {
						return err
					}
					diedOnError = true
					fired = true
				} else {
					fired = r.Fired
					closeAll(d)
				}
			}
			res.Evaluations++
			res.Count("fault:" + mode)
			if !fired {
				res.Count("not-fired:" + sc.name)
				continue
			}
			res.Nontrivial(canon)
			after, bad, err := viewOf(w.p, pfx)
			if err != nil {
				return err
			}
			expAfter := strings.ReplaceAll(ref.after, ref.pfx, pfx)
			verdict := ""
			switch {
			case after == before:
				verdict = "before"
			case maskUIDV(after) == maskUIDV(expAfter) && uidvKept(before, after):
				verdict = "after"
			case sc.fallback != "" && sameEntries(after, before+" "+recoveryName+"{"+pfx+sc.fallback+"[]}"):
				verdict = "fallback"
			}
			res.Count("verdict:" + sc.name + ":" + mode + ":" + verdict)
			detail := fmt.Sprintf("before: %s | after the fault: %s | expected after-view: %s | run error: %v", before, after, expAfter, runErr)
			if verdict == "" {
				res.Fail("neither-before-nor-after | "+canon, detail, nil)
			}
			if len(bad) > 0 {
				res.Fail("listed-message-not-fetchable | "+canon, strings.Join(bad, "; ")+" | "+detail, nil)
			}
			// the acknowledgement must match what the database holds: a command answered OK / an update acknowledged
			// without error whose effect is not there (transaction rolled back) is a lie about acknowledged state
			if mode != "kill" && !tear && !diedOnError && !sc.async && runErr == nil && verdict == "before" {
				res.Fail("acknowledged-but-not-applied | "+canon, "the operation was acknowledged as successful but the view is the one before it | "+detail, nil)
			}
			if mode == "kill" || tear || diedOnError {
				lo, err := w.leftovers()
				if err != nil {
					return err
				}
				if lo != "" {
					res.Fail("leftovers-after-restart | "+canon, lo, nil)
				}
			}
			res.Sample(map[string]string{"case": canon, "verdict": verdict})
		}
		if mode == "cancel" || tear {
			continue
		}
		if mode == "fail" {
			// a clean restart after the injected errors: nothing may be lost, left-overs are removed
			pfxAll := fmt.Sprintf("F%d_", si)
			before, _, err := viewOf(w.p, pfxAll)
			if err != nil {
				return err
			}
			w.cleanQuit(sc.name)
			if err := w.restart(""); err != nil {
				return err
			}
			after, bad, err := viewOf(w.p, pfxAll)
			if err != nil {
				return err
			}
			canon := sc.name + " close+reopen after injected errors"
			if after != before {
				res.Fail("restart-changed-view | "+canon, fmt.Sprintf("before: %s | after: %s", before, after), nil)
			}
			if len(bad) > 0 {
				res.Fail("listed-message-not-fetchable | "+canon, strings.Join(bad, "; "), nil)
			}
			if lo, err := w.leftovers(); err == nil && lo != "" {
				res.Fail("leftovers-after-restart | "+canon, lo, nil)
			}
			res.Evaluations++
		}
	}
	return nil
}
