package sess

// Scenario is a scripted history (corpus): minimised shapes of defects found earlier and of seeded changes.
type Scenario struct {
	Name string
	K    int
	Bulk bool
	Ops  []Op
}

func cmd(s int, c string) Op     { return Op{Kind: "cmd", S: s, Cmd: c} }
func sel(s, mb int) Op           { return Op{Kind: "cmd", S: s, Cmd: "select", Mb: mb} }
func app(s, mb int, f ...int) Op { return Op{Kind: "cmd", S: s, Cmd: "append", Mb: mb, Flags: f} }
func store(s int, ps []int, op string, silent bool, f ...int) Op {
	return Op{Kind: "cmd", S: s, Cmd: "store", Ps: ps, FOp: op, Flags: f, Silent: silent}
}
func cp(s int, ps []int, mb int) Op    { return Op{Kind: "cmd", S: s, Cmd: "copy", Ps: ps, Mb: mb} }
func mv(s int, ps []int, mb int) Op    { return Op{Kind: "cmd", S: s, Cmd: "move", Ps: ps, Mb: mb} }
func fb(s int, c string, ps ...int) Op { return Op{Kind: "cmd", S: s, Cmd: c, Ps: ps} }
func drain(s int) Op                   { return Op{Kind: "drain", S: s} }
func dl(s int) Op                      { return Op{Kind: "deliver", S: s} }
func byuid(o Op) Op                    { o.ByUID = true; return o }         // the UID form of the command
func all(o Op) Op                      { o.All = true; return o }           // the message set 1:*
func label(o Op) Op                    { o.Label = true; return o }         // a MOVE answered by a connector with label semantics
func ro(o Op) Op                       { o.RO = true; return o }            // the same command in a session that used EXAMINE
func qs(s int) Op                      { return Op{Kind: "quiesce", S: s} } // deliver all, NOOP, probe, compare with a fresh session

func Corpus() []Scenario {
	return []Scenario{
		{Name: "pending-exists-then-expunge", K: 2, Ops: []Op{ // D9 (repaired): expunge of a message whose EXISTS is pending
			sel(0, 0), sel(1, 0), app(1, 0, 1), cmd(1, "expunge"), drain(0), cmd(0, "noop"), cmd(0, "probe")}},
		{Name: "pending-exists-then-flags", K: 2, Ops: []Op{
			sel(0, 0), sel(1, 0), app(1, 0), store(1, []int{1}, "add", false, 3, 4), {Kind: "conn", Cmd: "flag", Msg: 1, Flag: 2, Add: true},
			drain(0), cmd(0, "noop"), cmd(0, "probe")}},
		{Name: "cross-mailbox-flags", K: 2, Ops: []Op{ // one message in two mailboxes, \Deleted in the other one
			sel(0, 0), sel(1, 1), app(0, 0), cp(0, []int{1}, 1), drain(1), cmd(1, "noop"), cmd(1, "probe"),
			store(1, []int{1}, "add", false, 1), drain(0), cmd(0, "noop"), sel(0, 0), cmd(0, "probe"),
			store(0, []int{1}, "set", false, 3), drain(1), cmd(1, "noop"), cmd(1, "probe"), cmd(0, "noop"), cmd(0, "probe"),
			store(0, []int{1}, "add", false, 4), drain(1), cmd(1, "search"), cmd(1, "probe"), cmd(0, "probe"),
			store(0, []int{1}, "rem", false, 3), drain(1), cmd(1, "noop"), cmd(1, "probe"), cmd(0, "probe")}},
		{Name: "held-expunge-then-commands", K: 2, Ops: []Op{ // removals held back across FETCH/STORE/SEARCH, announced by NOOP
			sel(0, 0), sel(1, 0), app(0, 0), app(0, 0), app(0, 0), drain(1), cmd(1, "noop"), cmd(1, "probe"),
			store(0, []int{2}, "add", false, 1), cmd(0, "expunge"), drain(1), cmd(1, "search"), fb(1, "fetchbody", 1),
			store(1, []int{3}, "add", false, 3), cmd(1, "searchbad"), cmd(1, "probe"), cmd(1, "noop"), cmd(1, "probe")}},
		{Name: "readd-while-held", K: 2, Ops: []Op{ // message removed and put back while the observer only runs FETCH
			sel(0, 0), sel(1, 0), app(0, 0), app(0, 0), drain(1), cmd(1, "noop"), cmd(1, "probe"),
			mv(0, []int{1}, 1), sel(0, 1), mv(0, []int{1}, 0), drain(1), cmd(1, "probe"), cmd(1, "search"), cmd(1, "noop"), cmd(1, "probe")}},
		{Name: "readd-while-held-then-flags", K: 2, Ops: []Op{ // as above, then a flag change on the new instance while the removal is still held
			sel(0, 0), sel(1, 0), app(0, 0), app(0, 0), drain(1), cmd(1, "noop"), cmd(1, "probe"),
			mv(0, []int{1}, 1), sel(0, 1), mv(0, []int{1}, 0), sel(0, 0), store(0, []int{2}, "add", false, 3),
			drain(1), cmd(1, "search"), cmd(1, "probe"), qs(1)}},
		{Name: "new-message-behind-held-readd-then-flags", K: 2, Ops: []Op{ // a NEW message queues behind the held re-add and is then flagged: the flag change waits with it
			sel(0, 0), sel(1, 0), app(0, 0), app(0, 0), drain(1), cmd(1, "noop"), cmd(1, "probe"),
			mv(0, []int{1}, 1), sel(0, 1), mv(0, []int{1}, 0), sel(0, 0), app(0, 0), store(0, []int{3}, "add", false, 3),
			drain(1), cmd(1, "search"), cmd(1, "probe"), qs(1)}},
		{Name: "examined-mailbox-fetch-marks-nothing", K: 2, Ops: []Op{ // EXAMINE: a body fetch leaves no \Seen in the database nor in the session's own view
			sel(1, 0), app(1, 0), app(1, 0, 3), drain(0), ro(sel(0, 0)), cmd(0, "probe"),
			ro(fb(0, "fetchbody", 1)), cmd(0, "probe"), ro(fb(0, "fetchflagsbody", 1, 2)), cmd(0, "probe"), cmd(1, "noop"), cmd(1, "probe"), qs(0), qs(1)}},
		{Name: "examined-mailbox-refuses-changes", K: 2, Ops: []Op{ // EXAMINE: STORE/EXPUNGE/COPY/MOVE are refused; pending removals stay pending
			sel(1, 0), app(1, 0, 1), app(1, 0), drain(0), ro(sel(0, 0)), cmd(0, "probe"), cmd(1, "expunge"), drain(0),
			ro(store(0, []int{1}, "add", false, 3)), ro(cmd(0, "expunge")), ro(cp(0, []int{1}, 1)), ro(mv(0, []int{2}, 1)), cmd(0, "probe"), qs(0), qs(1)}},
		{Name: "uid-forms-hold-removals-back", K: 2, Ops: []Op{ // UID STORE / UID FETCH / UID SEARCH with a removal pending: no EXPUNGE, [EXPUNGEISSUED] where due
			sel(0, 0), sel(1, 0), app(0, 0, 1), app(0, 0), app(0, 0), drain(1), cmd(1, "noop"), cmd(1, "probe"),
			cmd(0, "expunge"), drain(1), byuid(store(1, []int{2}, "add", false, 3)), cmd(1, "probe"), byuid(store(1, []int{3}, "add", true, 4)),
			byuid(fb(1, "fetchbody", 2)), byuid(cmd(1, "search")), cmd(1, "probe"), qs(1)}},
		{Name: "close-removes-silently-and-drops-pending-news", K: 2, Ops: []Op{ // CLOSE: \Deleted messages go without EXPUNGE; pending news do not survive into the next mailbox
			sel(0, 0), sel(1, 0), app(0, 0, 1), app(0, 0), app(0, 0, 1), drain(1), cmd(1, "noop"), cmd(1, "probe"),
			app(0, 0), store(0, []int{2}, "add", false, 3), drain(1), cmd(1, "search"), cmd(1, "close"), sel(1, 1), cmd(1, "noop"), cmd(1, "probe"),
			drain(0), cmd(0, "noop"), cmd(0, "probe"), qs(0), sel(1, 0), qs(1)}},
		{Name: "unselect-drops-pending-news", K: 2, Ops: []Op{ // UNSELECT: nothing removed, nothing sent; held removals do not reach the next mailbox
			sel(0, 0), sel(1, 0), app(0, 0, 1), app(0, 0), drain(1), cmd(1, "noop"), cmd(1, "probe"),
			cmd(0, "expunge"), app(0, 0), drain(1), cmd(1, "search"), cmd(1, "unselect"), cmd(1, "noop"), sel(1, 1), cmd(1, "noop"), cmd(1, "probe"),
			sel(1, 0), qs(1), qs(0)}},
		{Name: "message-sets-are-sets", K: 2, Ops: []Op{ // 3,1 and 2,3,2: resolved in ascending order; COPY/MOVE keep the source order
			sel(0, 0), sel(1, 1), app(0, 0), app(0, 0), app(0, 0), store(0, []int{3, 1}, "add", false, 3), cp(0, []int{3, 1}, 1), mv(0, []int{2, 3, 2}, 1),
			cmd(0, "probe"), drain(1), cmd(1, "noop"), cmd(1, "probe"), byuid(store(1, []int{3, 2}, "add", false, 4)), cmd(1, "probe"), qs(1), qs(0)}},
		{Name: "more-messages-than-one-statement-takes", K: 3, Ops: []Op{ // db.ChunkLimit+3 messages: STORE 1:* and COPY 1:* reach every one of them, in the database and in every session
			sel(0, 0), sel(1, 0), sel(2, 1), {Kind: "conn", Cmd: "newbulk", Mb: 0, Count: 1003}, drain(0), drain(1), drain(2),
			cmd(0, "noop"), cmd(1, "noop"), all(store(0, nil, "add", true, 1)), drain(1), drain(2), qs(1),
			all(store(0, nil, "rem", true, 1)), all(store(0, nil, "add", true, 4)), all(cp(0, nil, 1)), drain(1), drain(2), qs(2), qs(1), qs(0)}},
		{Name: "label-style-move-keeps-the-source", K: 3, Ops: []Op{ // the connector answers "do not remove": the message stays in the source, for the database and for every session
			sel(0, 0), sel(1, 0), sel(2, 1), app(0, 0), app(0, 0, 3), drain(1), drain(2), cmd(1, "noop"), cmd(1, "probe"),
			label(mv(0, []int{1}, 1)), cmd(0, "probe"), drain(1), drain(2), cmd(2, "noop"), cmd(2, "probe"), qs(1), qs(0), qs(2),
			label(mv(0, []int{1, 2}, 1)), drain(1), drain(2), qs(2), qs(1), qs(0)}},
		{Name: "pending-exists-then-readd", K: 2, Ops: []Op{ // appended, removed and put back before the observer heard of it at all
			sel(0, 0), sel(1, 0), app(0, 0), mv(0, []int{1}, 1), sel(0, 1), mv(0, []int{1}, 0), sel(0, 0),
			drain(1), cmd(1, "search"), cmd(1, "probe"), qs(1)}},
		{Name: "held-readd-below-announced", K: 2, Ops: []Op{ // a message is put back (held) and a newer one is announced meanwhile
			sel(0, 0), sel(1, 0), app(0, 0), drain(1), cmd(1, "noop"), cmd(1, "probe"),
			mv(0, []int{1}, 1), sel(0, 1), mv(0, []int{1}, 0), sel(0, 0), app(0, 0),
			drain(1), cmd(1, "search"), cmd(1, "probe"), qs(1)}},
		{Name: "failing-fetch-leaves-no-trace", K: 1, Ops: []Op{ // FETCH BODY[9] of a single-part message: NO, and no \\Seen in the view
			sel(0, 0), app(0, 0), app(0, 0, 3), cmd(0, "probe"), fb(0, "fetchbadpart", 1), cmd(0, "probe"), fb(0, "fetchbadpart", 2), cmd(0, "noop"), cmd(0, "probe")}},
		{Name: "move-of-expunged-message-announces", K: 2, Ops: []Op{ // a MOVE that moves nothing is still a command that permits EXPUNGE
			sel(0, 0), sel(1, 0), app(0, 0), app(0, 0), drain(1), cmd(1, "noop"), cmd(1, "probe"),
			store(0, []int{1}, "add", false, 1), cmd(0, "expunge"), drain(1), cmd(1, "search"), mv(1, []int{1}, 1), cmd(1, "probe"), qs(1)}},
		{Name: "status-announces-held-removal", K: 2, Ops: []Op{ // STATUS (of another mailbox) flushes the selected mailbox with EXPUNGE permitted
			sel(0, 0), sel(1, 0), app(0, 0), app(0, 0), drain(1), cmd(1, "noop"), cmd(1, "probe"),
			store(0, []int{2}, "add", false, 1), cmd(0, "expunge"), drain(1), cmd(1, "search"),
			{Kind: "cmd", S: 1, Cmd: "status", Mb: 1}, cmd(1, "probe"), qs(1)}},
		{Name: "check-announces-held-removal", K: 2, Ops: []Op{ // CHECK permits EXPUNGE: a removal (and a re-add) held back by SEARCH is announced by it
			sel(0, 0), sel(1, 0), app(0, 0), app(0, 0), drain(1), cmd(1, "noop"), cmd(1, "probe"),
			store(0, []int{2}, "add", false, 1), cmd(0, "expunge"), cp(0, []int{1}, 0), drain(1), cmd(1, "search"),
			cmd(1, "check"), cmd(1, "probe"), qs(1)}},
		{Name: "forward-flags-complete-in-database", K: 2, Ops: []Op{ // STORE ($Forwarded) means $Forwarded and Forwarded, in the database too
			sel(0, 0), sel(1, 0), app(0, 0), app(0, 0), drain(1), cmd(1, "noop"),
			store(0, []int{1}, "set", false, 6), store(0, []int{2}, "add", false, 7, 4), drain(1), qs(1), qs(0),
			store(0, []int{1}, "rem", false, 7), drain(1), qs(1), qs(0)}},
		{Name: "connector-delete-of-message-in-two-mailboxes", K: 2, Ops: []Op{ // every mailbox that held the message gets its EXPUNGE
			sel(0, 0), sel(1, 1), app(0, 0), app(0, 0), cp(0, []int{1, 2}, 1), drain(1), cmd(1, "noop"), cmd(1, "probe"),
			{Kind: "conn", Cmd: "delete", Msg: 1}, drain(0), drain(1), qs(0), qs(1)}},
		{Name: "connector-adds-to-mailbox-and-flags-at-once", K: 2, Ops: []Op{ // one MessageMailboxesUpdated: membership updates reach the sessions before the flag updates
			sel(0, 0), sel(1, 1), app(0, 0), app(0, 0), drain(1), cmd(1, "noop"), cmd(1, "probe"),
			{Kind: "conn", Cmd: "setmbox", Msg: 1, Mbs: []int{0, 1}, Flag: 2, Add: true}, {Kind: "conn", Cmd: "flag", Msg: 1, Flag: 2, Add: true, Virt: true},
			drain(0), drain(1), qs(1), qs(0)}},
		{Name: "idle-bulk", K: 2, Bulk: true, Ops: []Op{
			sel(0, 0), sel(1, 0), cmd(1, "idle"), app(0, 0), app(0, 0, 2), drain(1), store(0, []int{1}, "add", false, 3), drain(1),
			cmd(1, "done"), cmd(1, "probe")}},
		{Name: "idle-immediate", K: 2, Ops: []Op{
			sel(0, 0), sel(1, 0), app(0, 0), drain(1), cmd(1, "idle"), app(0, 0, 2), dl(1), store(0, []int{1}, "add", false, 1), dl(1),
			cmd(0, "expunge"), drain(1), cmd(1, "done"), cmd(1, "probe")}},
		{Name: "fetch-flags-body", K: 2, Ops: []Op{
			sel(0, 0), sel(1, 0), app(0, 0), app(0, 0, 2), fb(0, "fetchflagsbody", 1, 2), cmd(0, "probe"), drain(1), cmd(1, "noop"), cmd(1, "probe"),
			fb(1, "fetchflagsbody", 1), cmd(1, "probe")}},
		{Name: "silent-store-on-own-held-readd", K: 1, Ops: []Op{ // repaired (b461893): the own .SILENT store that reaches the new instance is announced
			sel(0, 0), app(0, 0), fb(0, "fetchflagsbody", 1), cp(0, []int{1}, 0), store(0, []int{1}, "rem", false, 2), fb(0, "fetchbody", 1),
			store(0, []int{1}, "add", true, 3), cmd(0, "noop"), cmd(0, "probe")}},
		{Name: "own-overtakes-queued", K: 2, Ops: []Op{ // known finding D10: expected to be reported as known
			sel(0, 0), sel(1, 0), app(1, 0), app(0, 0), cmd(0, "probe"), drain(0), cmd(0, "noop"), cmd(0, "probe")}},
	}
}
