package main

type emitter struct{ lines []string }

func (e *emitter) emit(sc scenario, ref *refRun) {}
func (e *emitter) emitStartup(ev []event)          {}

func modelAppend(pfx string, ref *refRun) string      { return "" }
func modelCopy(pfx string, ref *refRun) string        { return "" }
func modelMove(pfx string, ref *refRun) string        { return "" }
func modelExpunge(pfx string, ref *refRun) string     { return "" }
func modelStore(pfx string, ref *refRun) string       { return "" }
func modelCreate(pfx string, ref *refRun) string      { return "" }
func modelDelete(pfx string, ref *refRun) string      { return "" }
func modelRename(pfx string, ref *refRun) string      { return "" }
func modelConnCreate(pfx string, ref *refRun) string  { return "" }
func modelConnUpdate(pfx string, ref *refRun) string  { return "" }
func modelConnDelete(pfx string, ref *refRun) string  { return "" }
func modelSessionEnd(pfx string, ref *refRun) string  { return "" }
