// Correspondence harness for property C03: random multi-session sequences of APPEND, STORE, EXPUNGE / UID EXPUNGE /
// CLOSE, COPY and MOVE over the wire against an in-process gluon server; after every command the content of every
// mailbox as a FRESH session sees it is compared with a reference model written from the property text (model.go);
// the same runs are written as Gallina terms for Run/RunC03.v.
//
// Process structure: the command started by the driver is the PARENT; it draws the parameters of every scenario from
// ctx.Rng and runs each scenario (and every re-run of the shrinker) in a CHILD process (the same binary, environment
// variable C03_CHILD), so that a panic inside gluon ends one scenario (reported as a failure "server panic") and not
// the whole run.  The child starts one in-process server for its scenario.
package main

import (
	"bytes"
	"context"
	"encoding/json"
	"fmt"
	"os"
	"os/exec"
	"path/filepath"
	"regexp"
	"sort"
	"strings"
	"time"

	"github.com/ProtonMail/gluon/db"

	"verifharness/common"
)

func main() { common.Main("C03", runC03) }

// childSpec is what the parent asks a child to do.
type childSpec struct {
	ID     int    `json:"id"`
	Kind   string `json:"kind"` // "small": generate; "ops": run the given list
	Label  string `json:"label"`
	K      int    `json:"k"`
	N      int    `json:"n,omitempty"`   // small: number of commands
	Ops    []op   `json:"ops,omitempty"` // ops: the list
	Record bool   `json:"record,omitempty"`
}

type childResult struct {
	K       int            `json:"k"`
	Ops     []op           `json:"ops"`
	Steps   []string       `json:"steps"`
	Evals   int            `json:"evals"`
	Fail    *failure       `json:"fail,omitempty"`
	Dist    map[string]int `json:"dist,omitempty"`
	Nontriv []string       `json:"nontriv,omitempty"`
	// filled by the parent when the child died
	Crashed bool   `json:"crashed,omitempty"`
	Panic   string `json:"panic,omitempty"`
}

const childFile = "child.json"

// ---- child ----

func runOps(k int, ops []op, prep func(w *world)) (*world, error) {
	w, err := startWorld(k)
	if err != nil {
		return nil, err
	}
	defer w.stop()
	if prep != nil {
		prep(w)
	}
	for _, o := range ops {
		if err := w.exec(o); err != nil {
			return w, err
		}
		if w.fail != nil {
			break
		}
	}
	return w, nil
}

func runChild(ctx *common.Ctx, spec childSpec) error {
	prep := func(w *world) {
		if spec.Record {
			w.record, w.res, w.ctx, w.label = true, ctx.Res, ctx, spec.Label
		}
	}
	var w *world
	var err error
	switch spec.Kind {
	case "ops":
		w, err = runOps(spec.K, spec.Ops, prep)
	case "small":
		w, err = startWorld(spec.K)
		if err != nil {
			return err
		}
		prep(w)
		g := &generator{rng: ctx.Rng, left: spec.N, k: spec.K}
		err = func() error {
			defer w.stop()
			for _, o := range g.setup() {
				if err := w.exec(o); err != nil {
					return err
				}
			}
			for w.fail == nil {
				o, ok, err := g.next(w)
				if err != nil {
					return err
				}
				if !ok {
					break
				}
				if err := w.exec(o); err != nil {
					return err
				}
			}
			return nil
		}()
	default:
		return fmt.Errorf("unknown child kind %q", spec.Kind)
	}
	if err != nil {
		ops := ""
		if w != nil {
			ops = opsString(w.ops)
		}
		return fmt.Errorf("%s (%s): %w", spec.Label, ops, err)
	}
	cr := childResult{K: spec.K, Ops: w.ops, Steps: w.steps, Evals: w.evals, Fail: w.fail, Dist: ctx.Res.Distribution}
	for k := range w.nontriv {
		cr.Nontriv = append(cr.Nontriv, k)
	}
	sort.Strings(cr.Nontriv)
	b, err := json.Marshal(cr)
	if err != nil {
		return err
	}
	return os.WriteFile(filepath.Join(ctx.Out, childFile), b, 0o644)
}

// ---- parent ----

var rePanic = regexp.MustCompile(`(?m)^(panic: .*|fatal error: .*)$`)

// spawn runs one child.  A child that dies (panic inside gluon) gives Crashed = true with the commands of its
// current.json; an infrastructure error of the child is returned as error.
func spawn(ctx *common.Ctx, spec childSpec, seed int64) (*childResult, error) {
	sb, _ := json.Marshal(spec)
	out := filepath.Join(ctx.Out, childFile)
	os.Remove(out)
	cctx, cancel := context.WithTimeout(context.Background(), 20*time.Minute)
	defer cancel()
	cmd := exec.CommandContext(cctx, os.Args[0], "-out", ctx.Out, "-seed", fmt.Sprint(seed), "-tier", ctx.Tier)
	cmd.Env = append(os.Environ(), "C03_CHILD="+string(sb))
	var stderr bytes.Buffer
	cmd.Stderr = &stderr
	t0 := time.Now()
	runErr := cmd.Run()
	if os.Getenv("C03_TIMING") != "" {
		fmt.Fprintf(os.Stderr, "%s %s: %.2fs\n", spec.Label, spec.Kind, time.Since(t0).Seconds())
	}
	if runErr == nil {
		b, err := os.ReadFile(out)
		if err != nil {
			return nil, fmt.Errorf("%s: child wrote no result: %v", spec.Label, err)
		}
		var cr childResult
		if err := json.Unmarshal(b, &cr); err != nil {
			return nil, err
		}
		return &cr, nil
	}
	text := stderr.String()
	if m := rePanic.FindString(text); m != "" {
		cr := &childResult{K: spec.K, Crashed: true, Panic: m}
		if spec.Kind == "ops" {
			cr.Ops = spec.Ops
			return cr, nil
		}
		// the commands sent so far are in current.json
		b, err := os.ReadFile(filepath.Join(ctx.Out, "current.json"))
		if err == nil {
			var cur struct {
				Case struct {
					Ops []op `json:"ops"`
				} `json:"case"`
			}
			if json.Unmarshal(b, &cur) == nil {
				cr.Ops = cur.Case.Ops
			}
		}
		return cr, nil
	}
	if len(text) > 2000 {
		text = text[:2000]
	}
	return nil, fmt.Errorf("%s: child failed (%v): %s", spec.Label, runErr, strings.TrimSpace(text))
}

func droppable(ops []op, i int) bool {
	if i == len(ops)-1 {
		return false
	}
	if ops[i].Setup {
		for j, o := range ops {
			if j != i && o.S == ops[i].S {
				return false
			}
		}
	}
	return true
}

var reDigits = regexp.MustCompile(`\d+`)

// sameFailure: same kind of command and same kind of difference (a crash: same panic text up to numbers).
func failKey(cr *childResult) string {
	if cr.Crashed {
		return "panic/" + reDigits.ReplaceAllString(cr.Panic, "#")
	}
	if cr.Fail != nil {
		return cr.Fail.Kind
	}
	return ""
}

func failingPrefix(cr *childResult) []op {
	if cr.Crashed || cr.Fail == nil {
		return append([]op{}, cr.Ops...)
	}
	return append([]op{}, cr.Ops[:cr.Fail.Idx+1]...)
}

// shrink drops commands greedily (latest first) while a failure of the same kind persists; every attempt is a child
// run on a fresh server; at most maxRuns attempts.
func shrink(ctx *common.Ctx, label string, k int, first *childResult, maxRuns int) (*childResult, int, error) {
	best := first
	cur := failingPrefix(first)
	key := failKey(first)
	runs := 0
	for i := len(cur) - 2; i >= 0 && runs < maxRuns; i-- {
		if i >= len(cur)-1 || !droppable(cur, i) {
			continue
		}
		cand := append(append([]op{}, cur[:i]...), cur[i+1:]...)
		runs++
		cr, err := spawn(ctx, childSpec{Kind: "ops", Label: label + " (shrinking)", K: k, Ops: cand}, 0)
		if err != nil {
			return best, runs, err
		}
		if failKey(cr) == key {
			best = cr
			cur = failingPrefix(cr)
		}
	}
	return best, runs, nil
}

// replay runs the command list of a JSON file {"sessions":k,"ops":[...]} (the shape of current.json's and of a
// failure's "case") in this process with a wire trace on stderr.
func replay(ctx *common.Ctx) error {
	b, err := os.ReadFile(ctx.Replay)
	if err != nil {
		return err
	}
	type body struct {
		Sessions int  `json:"sessions"`
		Ops      []op `json:"ops"`
		Shrunk   []op `json:"shrunk"`
	}
	var in struct {
		Case *body `json:"case"`
		body
	}
	if err := json.Unmarshal(b, &in); err != nil {
		return err
	}
	bd := in.body
	if in.Case != nil {
		bd = *in.Case
	}
	if len(bd.Shrunk) > 0 {
		bd.Ops = bd.Shrunk
	}
	trace = true
	w, err := runOps(bd.Sessions, bd.Ops, nil)
	if w != nil && w.fail != nil {
		fmt.Fprintf(os.Stderr, "FAILURE %s: %s\n", w.fail.Kind, w.fail.Detail)
		ctx.Res.Fail(opsString(w.ops[:w.fail.Idx+1])+" => "+w.fail.Detail, w.fail.Kind, nil)
	} else if err == nil {
		fmt.Fprintln(os.Stderr, "no failure")
	}
	return err
}

type scenario struct {
	ID    int      `json:"id"`
	K     int      `json:"sessions"`
	Batch int      `json:"batch,omitempty"`
	Ops   []string `json:"ops"`
	Fail  string   `json:"failure,omitempty"`
}

func runC03(ctx *common.Ctx) error {
	if ctx.Replay != "" {
		return replay(ctx)
	}
	if c := os.Getenv("C03_CHILD"); c != "" {
		var spec childSpec
		if err := json.Unmarshal([]byte(c), &spec); err != nil {
			return err
		}
		return runChild(ctx, spec)
	}
	res := ctx.Res
	rng := ctx.Rng
	res.Rule = "random command sequences (APPEND, [UID] STORE +/-/= FLAGS[.SILENT], EXPUNGE, UID EXPUNGE, CLOSE, [UID] COPY, [UID] MOVE, NOOP, re-SELECT / EXAMINE also while news of the mailbox that is left are pending) of 1-3 sessions over 3 mailboxes on the wire, ~30% steered into stale targets / copy onto itself / destination already holds the message, plus batch scenarios around db.ChunkLimit (1001 messages in the quick tier; 999..2001 in the thorough tier); after every command the content of every mailbox seen by a fresh session (uid, X-Marker entity, \\Deleted, lower-cased flag set, in sequence order) is compared with the reference model; non-trivial = distinct (command kind, situation)"
	start := time.Now()
	nSmall := ctx.Budget(20, 220)
	var lines []string
	maxCases := 60
	scen := 0
	shrinkBudget := ctx.Budget(160, 3000) // re-runs of the shrinker in total

	finish := func(sc *scenario, label string, cr *childResult, batch bool) error {
		res.Evaluations += cr.Evals
		for k, v := range cr.Dist {
			res.Distribution[k] += v
		}
		for _, n := range cr.Nontriv {
			res.Nontrivial(n)
		}
		for _, o := range cr.Ops {
			sc.Ops = append(sc.Ops, o.String())
		}
		// scenarios on which the property oracle already failed are reported by the oracle; the model is compared on the others
		if len(lines) < maxCases && !cr.Crashed && cr.Fail == nil && len(cr.Steps) > 0 {
			lines = append(lines, coqCase(sc.ID, cr.Steps))
		}
		res.Count(fmt.Sprintf("sessions:%d", cr.K))
		if cr.Fail == nil && !cr.Crashed {
			res.Count("scenario:ok")
			res.Sample(sc)
			return nil
		}
		res.Count("scenario:failed")
		best := cr
		if !batch {
			cap := 40
			if shrinkBudget < cap {
				cap = shrinkBudget
			}
			b, runs, err := shrink(ctx, label, cr.K, cr, cap)
			shrinkBudget -= runs
			if err != nil {
				res.Notes = append(res.Notes, fmt.Sprintf("scenario %d: shrinking stopped by an infrastructure error: %v", sc.ID, err))
			}
			best = b
			res.Distribution["shrink-runs"] += runs
		}
		ops := failingPrefix(best)
		var kind, detail string
		if best.Crashed {
			kind, detail = "panic", "server "+best.Panic
		} else {
			kind, detail = best.Fail.Kind, best.Fail.Detail
		}
		text := ""
		if best.Fail != nil && best.Fail.Text != "" {
			text = " (tagged response: " + best.Fail.Text + ")"
		}
		sc.Fail = kind + ": " + detail
		canon := opsString(ops) + " => " + detail
		res.Fail(canon, fmt.Sprintf("scenario %d (%d sessions), %s at command %d of the shrunk sequence: %s", sc.ID, cr.K, kind, len(ops), detail+text),
			map[string]interface{}{"scenario": sc.ID, "sessions": cr.K, "kind": kind, "shrunk": ops, "original": sc.Ops})
		res.Count("failure:" + kind)
		return nil
	}

	// ---- corpus: fixed scripts (minimised earlier failures and the basic behaviours every run must exercise) ----
	sel := func(si int, b string) op { return op{Kind: "SELECT", S: si, Box: b, Setup: true} }
	app := func(si int, b string, fl ...string) op { return op{Kind: "APPEND", S: si, Box: b, Flags: fl} }
	sto := func(si int, set, act string, fl ...string) op {
		if fl == nil {
			fl = []string{}
		}
		return op{Kind: "STORE", S: si, Set: set, Act: act, Flags: fl}
	}
	corpus := []struct {
		name string
		k    int
		ops  []op
	}{
		{"deleted-flag-per-mailbox", 1, []op{sel(0, "b1"), app(0, "b1", `\Deleted`, "Foo"), app(0, "b1", "bar"), app(0, "b1"),
			{Kind: "COPY", S: 0, Set: "1", Box: "b2"}, sto(0, "1:3", "-", `\Deleted`), sto(0, "2:3", "+", `\Deleted`), sto(0, "2,3", "-", `\Deleted`),
			sto(0, "1:3", "=", `\Deleted`), {Kind: "EXPUNGE", S: 0}}},
		{"flag-case-and-sets", 1, []op{sel(0, "b1"), app(0, "b1", "Foo", `\Seen`), app(0, "b1", "foo"), app(0, "b1"),
			sto(0, "1:3", "-", "FOO"), sto(0, "1:3", "=", `\Seen`, "x"), sto(0, "1:2", "+", "X", "y"), sto(0, "2:3", "-", "Y", `\seen`),
			sto(0, "1:3", "="), sto(0, "1", "+", "$Forwarded"), sto(0, "1", "-", "forwarded"), sto(0, "3", "+", "a,b")}},
		{"copy-move-present-and-self", 1, []op{sel(0, "b1"), app(0, "b1", "k1"), app(0, "b1", "k2"), app(0, "b1", "k3"),
			{Kind: "COPY", S: 0, Set: "1:2", Box: "b2"}, {Kind: "COPY", S: 0, Set: "2:3", Box: "b2"}, {Kind: "MOVE", S: 0, Set: "1,3", Box: "b2"},
			{Kind: "COPY", S: 0, Set: "1", Box: "b3"}, {Kind: "SELECT", S: 0, Box: "b2"}, {Kind: "MOVE", S: 0, UID: true, Set: "1:*", Box: "b3"},
			{Kind: "COPY", S: 0, Set: "1:*", Box: "nobox"}}},
		{"flag-change-through-other-mailbox-keeps-deleted", 2, []op{sel(0, "b1"), sel(1, "b2"), app(0, "b1", "c1"), app(0, "b1", "c2"),
			{Kind: "COPY", S: 0, Set: "1:2", Box: "b2"}, sto(0, "1", "+", `\Deleted`), sto(1, "1", "+", "other"), {Kind: "EXPUNGE", S: 0},
			sto(0, "1", "+", `\Deleted`), sto(1, "2", "=", `\Seen`), {Kind: "CLOSE", S: 0, Box: "b1"}}},
		{"read-only-selection-changes-nothing", 2, []op{sel(0, "b1"), sel(1, "b1"), app(0, "b1", "r1"), app(0, "b1", "r2", `\Deleted`), app(0, "b1", "r3"),
			sto(0, "1", "+", `\Deleted`), {Kind: "EXAMINE", S: 1, Box: "b1"}, sto(1, "3", "+", "x"), sto(1, "1:2", "-", `\Deleted`), {Kind: "EXPUNGE", S: 1},
			{Kind: "UIDEXPUNGE", S: 1, Set: "1:*"}, {Kind: "MOVE", S: 1, Set: "1", Box: "b2"}, {Kind: "COPY", S: 1, Set: "2:3", Box: "b2"}, app(1, "b1", "r4"),
			{Kind: "CLOSE", S: 1, Box: "b1"}, {Kind: "EXAMINE", S: 0, Box: "b1"}, {Kind: "CLOSE", S: 0, Box: "b2"}, {Kind: "EXPUNGE", S: 1}}},
		{"store-flags-update-shared-by-three-sessions", 3, []op{sel(0, "b1"), sel(1, "b1"), sel(2, "b2"), app(0, "b1", "t1"), app(0, "b1", "t2"),
			{Kind: "COPY", S: 0, Set: "1:2", Box: "b2"}, sto(2, "1", "+", `\Deleted`), sto(0, "1", "=", `\Answered`), {Kind: "NOOP", S: 2}, {Kind: "EXPUNGE", S: 1},
			sto(0, "2", "=", `\Deleted`, "k"), {Kind: "NOOP", S: 2}, {Kind: "CLOSE", S: 1, Box: "b1"}, {Kind: "EXPUNGE", S: 2}}},
		{"switch-mailbox-with-pending-news", 2, []op{sel(0, "b1"), sel(1, "b1"), app(0, "b1", "p1"), app(0, "b1", "p2"), app(0, "b1", "p3"), app(0, "b2", "q1"),
			{Kind: "NOOP", S: 1}, {Kind: "MOVE", S: 0, Set: "3", Box: "b1"}, {Kind: "SELECT", S: 1, Box: "b2"}, {Kind: "NOOP", S: 1}, sto(1, "1:*", "+", `\Answered`),
			app(0, "b2", "q2"), {Kind: "EXAMINE", S: 1, Box: "b3"}, {Kind: "SELECT", S: 1, Box: "b1"}, app(0, "b1", "p4"), {Kind: "SELECT", S: 1, Box: "b2"},
			sto(1, "1:*", "+", `\Deleted`), {Kind: "EXPUNGE", S: 1}}},
		{"copy-move-sets-not-ascending", 1, []op{sel(0, "b1"), app(0, "b1", "k1"), app(0, "b1", "k2"), app(0, "b1", "k3"), app(0, "b1", "k4"), app(0, "b1", "k5"),
			{Kind: "MOVE", S: 0, Set: "3,1", Box: "b2"}, {Kind: "COPY", S: 0, Set: "3:2,1", Box: "b2"}, {Kind: "SELECT", S: 0, Box: "b2"},
			{Kind: "MOVE", S: 0, UID: true, Set: "4,2:3,2", Box: "b3"}, {Kind: "COPY", S: 0, UID: true, Set: "5,1", Box: "b1"}, {Kind: "MOVE", S: 0, Set: "*,1", Box: "b2"},
			{Kind: "SELECT", S: 0, Box: "b3"}, {Kind: "COPY", S: 0, Set: "2,2:3,1", Box: "b3"}, {Kind: "MOVE", S: 0, UID: true, Set: "6:4", Box: "b1"}}},
		{"deleted-taken-back-seen-by-the-other-session", 2, []op{sel(0, "b1"), sel(1, "b1"), app(0, "b1", "u1"), app(0, "b1", "u2"), app(0, "b1", "u3"),
			sto(0, "1:2", "+", `\Deleted`), {Kind: "NOOP", S: 1}, sto(0, "1", "-", `\Deleted`), {Kind: "NOOP", S: 1}, {Kind: "EXPUNGE", S: 1},
			sto(0, "1,3", "+", `\Deleted`, "k"), {Kind: "NOOP", S: 1}, sto(0, "1", "=", `\Seen`), sto(0, "3", "-", `\DELETED`, "k"), {Kind: "CLOSE", S: 1, Box: "b1"}}},
		{"stale-targets", 2, []op{sel(0, "b1"), sel(1, "b1"), app(0, "b1", "s1"), app(0, "b1", "s2"), {Kind: "COPY", S: 0, Set: "1", Box: "b2"},
			sto(0, "1", "+", `\Deleted`), {Kind: "EXPUNGE", S: 0}, sto(1, "1", "+", "late"), {Kind: "MOVE", S: 1, Set: "1", Box: "b2"},
			{Kind: "COPY", S: 1, Set: "1", Box: "b3"}, {Kind: "EXPUNGE", S: 1}}},
	}
	for _, c := range corpus {
		scen++
		label := fmt.Sprintf("scenario %d (corpus %s)", scen, c.name)
		ctx.Current(label+": "+opsString(c.ops), map[string]interface{}{"sessions": c.k, "ops": c.ops})
		cr, err := spawn(ctx, childSpec{ID: scen, Kind: "ops", Label: label, K: c.k, Ops: c.ops, Record: true}, 0)
		if err != nil {
			return err
		}
		res.Count("corpus:" + c.name)
		if err := finish(&scenario{ID: scen, K: c.k}, label, cr, false); err != nil {
			return err
		}
	}

	// ---- small scenarios ----
	for i := 0; i < nSmall; i++ {
		scen++
		k := 1 + rng.Pick(3)
		if rng.Chance(0.25) {
			k = 2
		}
		n := rng.Range(10, 30)
		if ctx.Tier == "thorough" {
			n = rng.Range(15, 50)
		}
		sub := rng.Int63()
		label := fmt.Sprintf("scenario %d seed=%d", scen, ctx.Seed)
		ctx.Current(label, nil)
		cr, err := spawn(ctx, childSpec{ID: scen, Kind: "small", Label: label, K: k, N: n, Record: true}, sub)
		if err != nil {
			return err
		}
		if err := finish(&scenario{ID: scen, K: k}, label, cr, false); err != nil {
			return err
		}
	}

	// ---- batch scenarios (statement batching limit db.ChunkLimit = 1000) ----
	type variant struct {
		name string
		ops  []op
	}
	variants := []variant{
		{"store-add+expunge", []op{
			{Kind: "STORE", Set: "1:*", Act: "+", Flags: []string{`\Deleted`, "x"}},
			{Kind: "EXPUNGE"}}},
		{"store-set+copy", []op{
			{Kind: "STORE", Set: "1:*", Act: "=", Flags: []string{"y", `\Seen`}},
			{Kind: "COPY", Set: "1:*", Box: "b2"}}},
		{"copy+move", []op{
			{Kind: "COPY", Set: "1:*", Box: "b2"},
			{Kind: "MOVE", Set: "1:*", Box: "b3"}}},
		{"move+store-remove", []op{
			{Kind: "MOVE", Set: "1:*", Box: "b3"},
			{Kind: "SELECT", Box: "b3"},
			{Kind: "STORE", Set: "1:*", Act: "-", Flags: []string{"Foo"}}}},
		{"move+back", []op{
			{Kind: "MOVE", Set: "1:*", Box: "b3"},
			{Kind: "SELECT", Box: "b3"},
			{Kind: "MOVE", Set: "2:3", Box: "b1"},
			{Kind: "COPY", Set: "1", Box: "b1"}}},
		{"copy+expunge+back", []op{
			{Kind: "COPY", Set: "1:*", Box: "b2"},
			{Kind: "STORE", Set: "1:*", Act: "+", Silent: true, Flags: []string{`\Deleted`}},
			{Kind: "EXPUNGE"},
			{Kind: "SELECT", Box: "b2"},
			{Kind: "COPY", Set: "1:2", Box: "b1"},
			{Kind: "MOVE", UID: true, Set: "3", Box: "b1"}}},
		{"store-keyword-add+remove", []op{
			{Kind: "STORE", Set: "1:*", Act: "+", Flags: []string{"kw"}},
			{Kind: "STORE", UID: true, Set: "2:*", Act: "+", Silent: true, Flags: []string{`\Flagged`, "kw2"}},
			{Kind: "STORE", Set: "1:*", Act: "-", Flags: []string{"KW"}},
			{Kind: "STORE", UID: true, Set: "1:*", Act: "-", Flags: []string{"kw2", "Foo"}}}},
		{"move-not-ascending", []op{
			{Kind: "MOVE", Set: "*,2:3,1", Box: "b2"},
			{Kind: "COPY", UID: true, Set: "*,5:4", Box: "b2"}}},
		{"uidstore-silent+close", []op{
			{Kind: "STORE", UID: true, Set: "1:*", Act: "+", Silent: true, Flags: []string{`\Deleted`}},
			{Kind: "CLOSE", Box: "b1"}}},
	}
	type batchRun struct {
		size int
		v    variant
	}
	var batches []batchRun
	if ctx.Tier == "thorough" {
		for _, size := range []int{999, 1000, 1001, 1999, 2000, 2001} {
			for _, v := range variants {
				batches = append(batches, batchRun{size, v})
			}
		}
		batches = append(batches, batchRun{db.ChunkLimit + 3, variants[6]})
	} else {
		// removing 1001 messages in one command and bringing some of them back (the membership index must have been cleaned), plus one other variant
		back := []variant{variants[4], variants[5]}
		batches = append(batches, batchRun{1001, back[rng.Pick(2)]})
		rest := append(append([]variant{}, variants[:4]...), variants[7:]...)
		batches = append(batches, batchRun{1001, rest[rng.Pick(len(rest))]})
		// more than one statement batch of flag rows: every message must get / lose the keyword (one size in the quick tier)
		batches = append(batches, batchRun{db.ChunkLimit + 3, variants[6]})
	}
	for _, b := range batches {
		scen++
		ops := []op{
			{Kind: "SELECT", Box: "b1", Setup: true},
			{Kind: "APPEND", Box: "b1", Flags: []string{"Foo"}, Count: b.size, NoCheck: true},
		}
		ops = append(ops, b.v.ops...)
		label := fmt.Sprintf("scenario %d seed=%d (batch %d %s)", scen, ctx.Seed, b.size, b.v.name)
		ctx.Current(label+": "+opsString(ops), map[string]interface{}{"sessions": 1, "ops": ops})
		cr, err := spawn(ctx, childSpec{ID: scen, Kind: "ops", Label: label, K: 1, Ops: ops, Record: true}, 0)
		if err != nil {
			return err
		}
		res.Count(fmt.Sprintf("batch:%d", b.size))
		res.Count("batch-variant:" + b.v.name)
		if err := finish(&scenario{ID: scen, K: 1, Batch: b.size}, label, cr, true); err != nil {
			return err
		}
	}

	os.Remove(filepath.Join(ctx.Out, childFile))
	res.ModelCases = len(lines)
	res.Notes = append(res.Notes, fmt.Sprintf("wall %.1fs, %d scenarios", time.Since(start).Seconds(), scen))
	return common.WriteCases(ctx.Out, "Run.RunC03", "case", lines, "")
}
