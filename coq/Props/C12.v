(* C12 — any message bytes yield well-formed ENVELOPE / BODY / BODYSTRUCTURE without crashing.
   Property theorems only; every proof is `exact <lemma>` and is followed by Print Assumptions.
   Models: Model/Rfc822Header.v (headerParser.next), Rfc822Split.v (Split, boundary scanner), Rfc822Sections.v
   (section tree), PList.v (grammar + checker), StructWriter.v (paramList writer and the call sequences of
   structure/envelope).  Runtime behaviour a Gallina model cannot exhibit — goroutine stack depth (recursive descent
   over nested multiparts / comments) and running time — is only exercised by the harness: this claim is PARTIAL there. *)
From Coq Require Import List NArith Bool Arith.
From Gluon Require Import Base.DecBytes Model.Rfc822Split Model.Rfc822Header Model.Rfc822Sections Model.LiteralFrame
  Model.PList Model.StructWriter
  Proofs.Rfc822HeaderProofs Proofs.Rfc822SectionsProofs Proofs.PListProofs Proofs.StructWriterProofs.
Import ListNotations.

(* ---- the header parser, for ANY bytes ---- *)
(* total: the loop over next() ends (the fuel given by the length of the header is never exhausted) *)
Theorem C12_header_parser_total : forall h, new_header h <> HFuel.
Proof. exact new_header_total. Qed.
Print Assumptions C12_header_parser_total.

(* on success every entry satisfies keyStart <= keyEnd <= valueStart <= valueEnd <= len *)
Theorem C12_header_parser_bounded : forall h es, new_header h = HOk es -> Forall (entry_bounded (length h)) es.
Proof. intros h es H. exact (tile_bounded _ _ _ (new_header_tile h es H)). Qed.
Print Assumptions C12_header_parser_bounded.

(* offsets strictly increase from entry to entry, entries do not overlap *)
Theorem C12_header_parser_monotone : forall h es, new_header h = HOk es -> strictly_increasing es.
Proof. intros h es H. exact (tile_increasing _ _ _ (new_header_tile h es H)). Qed.
Print Assumptions C12_header_parser_monotone.

(* ---- the boundary scanner, for ANY data and boundary ---- *)
(* it neither panics (no slice expression out of range) nor loops; every part it reports lies inside the data,
   strictly behind its start *)
Theorem C12_scanner_total_and_bounded : forall data boundary,
  match scan_parts data boundary with
  | SParts parts => Forall (fun p => 1 <= fst p /\ fst p + snd p <= length data) parts
  | SCrash | SFuel => False
  end.
Proof. exact scan_parts_ok. Qed.
Print Assumptions C12_scanner_total_and_bounded.

(* ---- sections, for ANY bytes and ANY media-type oracle ---- *)
(* every reported part lies inside the message and inside (the body of) its parent *)
Theorem C12_sections_nested : forall ctype_of lit t,
  section_tree ctype_of lit = TOk [t] -> tree_ok (length lit) 0 (length lit) t.
Proof. exact sections_nested. Qed.
Print Assumptions C12_sections_nested.

(* header ++ body = section *)
Theorem C12_section_header_plus_body : forall lit s, sect_ok (length lit) s ->
  sect_header lit s ++ sect_body lit s = sect_literal lit s.
Proof. exact sect_header_plus_body. Qed.
Print Assumptions C12_section_header_plus_body.

(* computing the tree terminates without crash, provided an empty Content-Type is not classified message/rfc822
   (the code defaults it to text/plain) *)
Theorem C12_sections_total : forall ctype_of, ctype_of [] <> CtMessage ->
  forall lit, exists t, section_tree ctype_of lit = TOk [t].
Proof. exact section_tree_total. Qed.
Print Assumptions C12_sections_total.

(* ---- the checker is the grammar ---- *)
Theorem C12_wf_plist_sound_and_complete : forall b, wf_plist b = true <-> WF b.
Proof. exact wf_plist_iff. Qed.
Print Assumptions C12_wf_plist_sound_and_complete.

(* ---- the writer: for EVERY tree and envelope the three texts are well-formed parenthesised lists ----
   esc v = what strconv.Quote puts between the quotes; hypothesis: it is the content of a lexically closed quoted
   string. *)
Theorem C12_writer_wellformed_structure : forall esc, (forall v, qc_ok (esc v) = true) ->
  forall t, wf_plist (write_body esc t) = true /\ wf_plist (write_bodystructure esc t) = true.
Proof. intros esc H t. exact (conj (writer_structure_wf esc H false t) (writer_structure_wf esc H true t)). Qed.
Print Assumptions C12_writer_wellformed_structure.

Theorem C12_writer_wellformed_envelope : forall esc, (forall v, qc_ok (esc v) = true) ->
  forall e, wf_plist (write_envelope esc e) = true.
Proof. exact writer_envelope_wf. Qed.
Print Assumptions C12_writer_wellformed_envelope.

(* ---- the written structure is that tree ----
   reading the text back gives exactly the syntax tree of the writer's call sequence over the MIME tree: type,
   subtype, parameters sorted by key, id, description, encoding, size, (envelope, embedded structure,) line count,
   extension data, children in order; the rendering of valid syntax trees is injective, so no other tree has this text. *)
Theorem C12_structure_of_built_message : forall esc, (forall v, qc_ok (esc v) = true) ->
  forall ext t, parse_plist (write_structure esc ext t) = Some (PList (ast_list esc (structure_calls ext t) true)).
Proof. exact writer_structure_reads_back. Qed.
Print Assumptions C12_structure_of_built_message.

Theorem C12_text_determines_tree : forall l1 l2, valid (PList l1) = true -> valid (PList l2) = true ->
  render (PList l1) = render (PList l2) -> l1 = l2.
Proof. exact render_injective. Qed.
Print Assumptions C12_text_determines_tree.

(* C12_depth (stack depth / running time of the recursive functions on deeply nested input): runtime, not provable on
   a Gallina model; exercised by the harness (nested multiparts, nested messages, comment nesting up to 16-24 MB). *)

(* ---- non-vacuity ---- *)
(* strconv.Quote as modelled for the correspondence run satisfies the hypothesis *)
Example C12_quote_hypothesis_satisfiable : forall v, qc_ok (esc_go v) = true.
Proof. exact esc_go_closed. Qed.

Example C12_wf_examples :
  (* (QaQ NIL ()(12)) accepted; (QaQNIL) : missing separator; ( 1) : space after the parenthesis; (Qa) : open quote
     -- Q stands for the double quote *)
  wf_plist [40;34;97;34;32;78;73;76;32;40;41;40;49;50;41;41]%N = true /\
  wf_plist [40;34;97;34;78;73;76;41]%N = false /\
  wf_plist [40;32;49;41]%N = false /\
  wf_plist [40;34;97;41]%N = false.
Proof. vm_compute. repeat split. Qed.

Example C12_structure_example :
  let leaf := MNode (mkHInfo str_text [112;108;97;105;110]%N [] [] [] [] [] None [] []) (mkEnv [] [] None None None None None None [] []) 5 1 None [] in
  write_body esc_go leaf = [40;34;116;101;120;116;34;32;34;112;108;97;105;110;34;32;40;41;32;78;73;76;32;78;73;76;32;78;73;76;32;53;32;49;41]%N.
Proof. vm_compute. reflexivity. Qed.
