package main

// T1 extractor for C16: translates the loop bodies of (*snapMsgList).resolveSeqInterval and resolveUIDInterval
// (internal/state/snapshot_messages.go) — the normalisation of one written range `a:b` into an interval — into Gallina
// functions over Z, by symbolic execution with branching:
//
//	for _, <rv> := range <param> { <body> }
//
// Environment: <rv>.Begin / <rv>.End (initially the parameters b / e of the generated function) and local variables.
//
//	<x>, err := list.resolveSeq(<e>) | list.resolveUID(<e>)   -> env[<x>] = (res <e>)
//	if err != nil { return nil, err }                         -> skipped (the error of resolveUID on an empty view is
//	                                                             handled by the model before any interval is resolved)
//	<a>, <b> = <c>, <d>   and   <a> = <c>                     -> parallel / single assignment
//	if <cond> { ... } else { ... }                            -> `if <cond> then ... else ...` (both arms continue with
//	                                                             the statements that follow)
//	res = append(res, <T>{begin: <x>, end: <y>})              -> the result (x, y)
//
// command.SeqNumValueAsterisk is emitted as the parameter `star`; its value is read from imap/command/seq_set.go.
// Conditions: == != < <= > >= over such expressions, && || !. Anything else makes the extractor fail.

import (
	"fmt"
	"go/ast"
	"go/token"
	"strings"
)

func init() { register("Interval", factsInterval) }

type ivTr struct {
	recv string
	rv   string
}

type ivEnv map[string]string

func (e ivEnv) clone() ivEnv {
	c := ivEnv{}
	for k, v := range e {
		c[k] = v
	}
	return c
}

// key returns the environment key of an assignable expression.
func (p *ivTr) key(e ast.Expr) (string, error) {
	switch x := e.(type) {
	case *ast.Ident:
		return x.Name, nil
	case *ast.SelectorExpr:
		if id, ok := x.X.(*ast.Ident); ok && id.Name == p.rv && (x.Sel.Name == "Begin" || x.Sel.Name == "End") {
			return "." + x.Sel.Name, nil
		}
	}
	return "", fmt.Errorf("unsupported assignable expression %T", e)
}

func (p *ivTr) expr(env ivEnv, e ast.Expr) (string, error) {
	switch x := e.(type) {
	case *ast.ParenExpr:
		return p.expr(env, x.X)
	case *ast.Ident:
		if v, ok := env[x.Name]; ok {
			return v, nil
		}
		return "", fmt.Errorf("unknown identifier %q", x.Name)
	case *ast.SelectorExpr:
		if x.Sel.Name == "SeqNumValueAsterisk" {
			return "star", nil
		}
		k, err := p.key(x)
		if err != nil {
			return "", err
		}
		if v, ok := env[k]; ok {
			return v, nil
		}
	}
	return "", fmt.Errorf("unsupported expression %T", e)
}

func (p *ivTr) cond(env ivEnv, e ast.Expr) (string, error) {
	switch x := e.(type) {
	case *ast.ParenExpr:
		return p.cond(env, x.X)
	case *ast.UnaryExpr:
		if x.Op == token.NOT {
			a, err := p.cond(env, x.X)
			if err != nil {
				return "", err
			}
			return "(negb " + a + ")", nil
		}
	case *ast.BinaryExpr:
		if x.Op == token.LAND || x.Op == token.LOR {
			a, err := p.cond(env, x.X)
			if err != nil {
				return "", err
			}
			b, err := p.cond(env, x.Y)
			if err != nil {
				return "", err
			}
			if x.Op == token.LAND {
				return "(" + a + " && " + b + ")", nil
			}
			return "(" + a + " || " + b + ")", nil
		}
		a, err := p.expr(env, x.X)
		if err != nil {
			return "", err
		}
		b, err := p.expr(env, x.Y)
		if err != nil {
			return "", err
		}
		switch x.Op {
		case token.LSS:
			return "(" + a + " <? " + b + ")", nil
		case token.LEQ:
			return "(" + a + " <=? " + b + ")", nil
		case token.GTR:
			return "(" + b + " <? " + a + ")", nil
		case token.GEQ:
			return "(" + b + " <=? " + a + ")", nil
		case token.EQL:
			return "(" + a + " =? " + b + ")", nil
		case token.NEQ:
			return "(negb (" + a + " =? " + b + "))", nil
		}
	}
	return "", fmt.Errorf("unsupported condition %T", e)
}

func mentionsErr(e ast.Expr) bool {
	found := false
	ast.Inspect(e, func(n ast.Node) bool {
		if id, ok := n.(*ast.Ident); ok && id.Name == "err" {
			found = true
		}
		return true
	})
	return found
}

// exec runs the statements; the result is a Gallina expression of type Z * Z.
func (p *ivTr) exec(env ivEnv, stmts []ast.Stmt, indent string) (string, error) {
	if len(stmts) == 0 {
		return "", fmt.Errorf("a path through the loop body ends without appending an interval")
	}
	st, rest := stmts[0], stmts[1:]
	switch s := st.(type) {
	case *ast.IfStmt:
		if s.Init != nil {
			return "", fmt.Errorf("if with init statement")
		}
		if mentionsErr(s.Cond) {
			// if err != nil { return nil, err }
			if len(s.Body.List) == 1 && s.Else == nil {
				if _, ok := s.Body.List[0].(*ast.ReturnStmt); ok {
					return p.exec(env, rest, indent)
				}
			}
			return "", fmt.Errorf("unsupported error handling")
		}
		c, err := p.cond(env, s.Cond)
		if err != nil {
			return "", err
		}
		thenStmts := append(append([]ast.Stmt{}, s.Body.List...), rest...)
		var elseStmts []ast.Stmt
		switch el := s.Else.(type) {
		case nil:
			elseStmts = rest
		case *ast.BlockStmt:
			elseStmts = append(append([]ast.Stmt{}, el.List...), rest...)
		case *ast.IfStmt:
			elseStmts = append([]ast.Stmt{el}, rest...)
		default:
			return "", fmt.Errorf("unsupported else")
		}
		a, err := p.exec(env.clone(), thenStmts, indent+"  ")
		if err != nil {
			return "", err
		}
		b, err := p.exec(env.clone(), elseStmts, indent+"  ")
		if err != nil {
			return "", err
		}
		return "if " + c + "\n" + indent + "then " + a + "\n" + indent + "else " + b, nil
	case *ast.AssignStmt:
		// x, err := list.resolveX(e)
		if s.Tok == token.DEFINE && len(s.Lhs) == 2 && len(s.Rhs) == 1 {
			call, ok := s.Rhs[0].(*ast.CallExpr)
			if ok && len(call.Args) == 1 {
				if sel, ok := call.Fun.(*ast.SelectorExpr); ok && (sel.Sel.Name == "resolveSeq" || sel.Sel.Name == "resolveUID") {
					if id, ok := sel.X.(*ast.Ident); ok && id.Name == p.recv {
						a, err := p.expr(env, call.Args[0])
						if err != nil {
							return "", err
						}
						x, ok := s.Lhs[0].(*ast.Ident)
						if !ok {
							return "", fmt.Errorf("unsupported target of a resolve call")
						}
						env[x.Name] = "(res " + a + ")"
						return p.exec(env, rest, indent)
					}
				}
			}
			return "", fmt.Errorf("unsupported two-value definition")
		}
		// res = append(res, T{begin: x, end: y})
		if s.Tok == token.ASSIGN && len(s.Lhs) == 1 && len(s.Rhs) == 1 {
			if call, ok := s.Rhs[0].(*ast.CallExpr); ok {
				if f, ok := call.Fun.(*ast.Ident); ok && f.Name == "append" && len(call.Args) == 2 {
					lit, ok := call.Args[1].(*ast.CompositeLit)
					if !ok {
						return "", fmt.Errorf("append of something else than a composite literal")
					}
					var b, e string
					for _, el := range lit.Elts {
						kv, ok := el.(*ast.KeyValueExpr)
						if !ok {
							return "", fmt.Errorf("interval literal without field names")
						}
						k, _ := kv.Key.(*ast.Ident)
						v, err := p.expr(env, kv.Value)
						if err != nil {
							return "", err
						}
						switch {
						case k != nil && k.Name == "begin":
							b = v
						case k != nil && k.Name == "end":
							e = v
						default:
							return "", fmt.Errorf("unknown field in the interval literal")
						}
					}
					if b == "" || e == "" {
						return "", fmt.Errorf("interval literal without begin or end")
					}
					if len(rest) != 0 {
						return "", fmt.Errorf("statements after the append")
					}
					return "(" + b + ", " + e + ")", nil
				}
			}
		}
		// (parallel) assignment
		if s.Tok == token.ASSIGN && len(s.Lhs) == len(s.Rhs) {
			vals := make([]string, len(s.Rhs))
			for i, r := range s.Rhs {
				v, err := p.expr(env, r)
				if err != nil {
					return "", err
				}
				vals[i] = v
			}
			for i, l := range s.Lhs {
				k, err := p.key(l)
				if err != nil {
					return "", err
				}
				if _, ok := env[k]; !ok {
					return "", fmt.Errorf("assignment to unknown %s", k)
				}
				env[k] = vals[i]
			}
			return p.exec(env, rest, indent)
		}
		return "", fmt.Errorf("unsupported assignment")
	}
	return "", fmt.Errorf("unsupported statement %T", st)
}

func (p *ivTr) function(f *ast.File, name string) (string, error) {
	fd := FuncDecl(f, "snapMsgList", name)
	if fd == nil {
		return "", fmt.Errorf("snapMsgList.%s not found", name)
	}
	p.recv = recvName(fd)
	params := paramNames(fd)
	if len(params) != 1 {
		return "", fmt.Errorf("%s: one parameter expected", name)
	}
	var loop *ast.RangeStmt
	for _, st := range fd.Body.List {
		if rs, ok := st.(*ast.RangeStmt); ok {
			if loop != nil {
				return "", fmt.Errorf("%s: more than one loop", name)
			}
			loop = rs
		}
	}
	if loop == nil {
		return "", fmt.Errorf("%s: no loop", name)
	}
	if x, ok := loop.X.(*ast.Ident); !ok || x.Name != params[0] {
		return "", fmt.Errorf("%s: the loop does not range over the parameter", name)
	}
	v, ok := loop.Value.(*ast.Ident)
	if !ok {
		return "", fmt.Errorf("%s: loop without value variable", name)
	}
	p.rv = v.Name
	out, err := p.exec(ivEnv{".Begin": "b", ".End": "e"}, loop.Body.List, "    ")
	if err != nil {
		return "", fmt.Errorf("%s: %v", name, err)
	}
	return out, nil
}

func factsInterval(t *T) (string, error) {
	const file = "internal/state/snapshot_messages.go"
	f, err := t.ParseFile(file)
	if err != nil {
		return "", err
	}
	seq, err := (&ivTr{}).function(f, "resolveSeqInterval")
	if err != nil {
		return "", err
	}
	uid, err := (&ivTr{}).function(f, "resolveUIDInterval")
	if err != nil {
		return "", err
	}
	// value of command.SeqNumValueAsterisk
	cf, err := t.ParseFile("imap/command/seq_set.go")
	if err != nil {
		return "", err
	}
	star := ""
	ast.Inspect(cf, func(n ast.Node) bool {
		vs, ok := n.(*ast.ValueSpec)
		if !ok || len(vs.Names) != 1 || vs.Names[0].Name != "SeqNumValueAsterisk" || len(vs.Values) != 1 {
			return true
		}
		if call, ok := vs.Values[0].(*ast.CallExpr); ok && len(call.Args) == 1 {
			if lit, ok := call.Args[0].(*ast.BasicLit); ok && lit.Kind == token.INT {
				star = lit.Value
			}
		}
		return false
	})
	if star == "" {
		return "", fmt.Errorf("const SeqNumValueAsterisk = SeqNum(<int>) not found in imap/command/seq_set.go")
	}
	var b strings.Builder
	b.WriteString("(* C16: the loop bodies of snapMsgList.resolveSeqInterval and resolveUIDInterval of " + file + ",\n")
	b.WriteString("   translated by symbolic execution: b / e are Begin / End of the written range, star is\n")
	b.WriteString("   command.SeqNumValueAsterisk, res is resolveSeq / resolveUID; the result is (begin, end) of the appended interval. *)\n")
	b.WriteString("From Coq Require Import ZArith Bool.\nLocal Open Scope Z_scope.\nLocal Open Scope bool_scope.\n\n")
	b.WriteString("Definition seqnum_asterisk_value : Z := " + star + ".\n\n")
	b.WriteString("Definition seq_interval_code (res : Z -> Z) (star b e : Z) : Z * Z :=\n    " + seq + ".\n\n")
	b.WriteString("Definition uid_interval_code (res : Z -> Z) (star b e : Z) : Z * Z :=\n    " + uid + ".\n")
	return b.String(), nil
}
