(* C10 — Every valid IMAP command parses to exactly the command that was written, independently of the encoding of its
   strings (atom / quoted / literal), of the letter case of keywords and of optional forms.
   Property theorems only; every proof is `exact <lemma>` and is followed by Print Assumptions.

   C10_roundtrip:  forall t c bs, EncLine t c bs -> parse (bs ++ rest) = Ok t c rest.
   The relation EncLine / EncCmd (Model/ImapPrinter.v: all encodings of a command line, defined with the RFC 3501
   character classes in byte terms) has constructors for ALL commands the server supports:
     CAPABILITY IDLE NOOP LOGOUT CHECK CLOSE EXPUNGE UNSELECT STARTTLS, SELECT EXAMINE CREATE DELETE SUBSCRIBE UNSUBSCRIBE,
     RENAME, LIST, LSUB, LOGIN, STATUS, APPEND (flag list, date-time, literal), COPY, MOVE, STORE, FETCH (macros, all
     attributes, BODY[section]<partial> with parts, HEADER.FIELDS[.NOT], MIME), SEARCH (CHARSET, every key, NOT / OR /
     parenthesised lists to any depth, dates), the UID forms of COPY MOVE STORE FETCH SEARCH, UID EXPUNGE, ID (NIL / list
     with NIL values), DONE.
   Limits of the statement (stated in the relations): numbers below 2^63 (ParseNumber rejects more), sequence numbers below
   2^32, literals shorter than the 30 MiB cap, fixed-width date/time fields as in RFC 3501 (2DIGIT / 4DIGIT, 1*2DIGIT for
   the search date-day), ID keys are not required to be distinct in the model (the Go AST is a map: harness).
   Independence of the chunking of the byte stream cannot be expressed in the model (it reads a byte list): harness only.
   That the generated token tables of the implementation accept the RFC classes is part of what is proved
   (C10_rfc_classes_accepted). *)
From Coq Require Import List NArith Bool String.
From Gluon Require Import Gen.FactsTokens Model.ImapTokens Model.ImapGrammar Model.ImapPrinter
  Proofs.ImapTokenFacts Proofs.ImapRoundTrip Proofs.ImapRoundTripFetch Proofs.ImapRoundTripSearch
  Proofs.ImapRoundTripCmd.
Import ListNotations.
Open Scope N_scope.

(* Round trip: any encoding of a command line, followed by anything, parses to exactly that tag and command and leaves
   exactly what followed. *)
Theorem C10_roundtrip : forall t c bs, EncLine t c bs -> forall rest fuel, (List.length bs < fuel)%nat ->
  parse_command fuel (bs ++ rest) = POk t c rest.
Proof. exact parse_roundtrip. Qed.
Print Assumptions C10_roundtrip.

(* Corollary: the result does not depend on which encoding was chosen — atom / quoted / literal per string, upper / lower
   case per keyword letter (EncKw, EncFold), n or n:n, parenthesised or bare flag list, leading zeros ... *)
Theorem C10_encoding_independent : forall t c b1 b2 rest1 rest2,
  EncLine t c b1 -> EncLine t c b2 ->
  exists r1 r2, parse_command (List.length b1 + 1) (b1 ++ rest1) = POk t c r1 /\
                parse_command (List.length b2 + 1) (b2 ++ rest2) = POk t c r2 /\ r1 = rest1 /\ r2 = rest2.
Proof. exact parse_encoding_independent. Qed.
Print Assumptions C10_encoding_independent.

(* Keywords are case-insensitive: a keyword is recognised in every mixture of upper and lower case. *)
Theorem C10_keyword_case_insensitive : forall kw k rest, EncKw kw k -> kw_ok kw = true ->
  tok_is TT_Char (cur_tok rest) = false -> p_kw (k ++ rest) = ROk (s2b kw) rest.
Proof. exact kw_step. Qed.
Print Assumptions C10_keyword_case_insensitive.

(* The RFC 3501 character classes (bytes) are accepted by the token tables generated from the implementation. *)
Theorem C10_rfc_classes_accepted :
  (forall b, rfc_atom_byte b = true -> is_atom_char (tok_of_byte b) = true) /\
  (forall b, rfc_astring_byte b = true -> is_astring_char (tok_of_byte b) = true) /\
  (forall b, rfc_list_byte b = true -> is_list_char (tok_of_byte b) = true) /\
  (forall b, rfc_tag_byte b = true -> is_tag_char (tok_of_byte b) = true) /\
  (forall b, rfc_quoted_raw b = true -> is_quoted_char (tok_of_byte b) = true) /\
  (forall b, is_digit_byte b = true -> tok_of_byte b = TT_Digit).
Proof. exact (conj atom_byte_ok (conj astring_byte_ok (conj list_byte_ok (conj tag_byte_ok (conj quoted_raw_ok digit_byte_ok))))). Qed.
Print Assumptions C10_rfc_classes_accepted.

(* Non-terminals shared with the commands the theorem does not cover yet *)
Theorem C10_astring_roundtrip : forall s bs rest, EncAString s bs -> is_astring_char (cur_tok rest) = false ->
  p_astring (bs ++ rest) = ROk s rest.
Proof. exact astring_rt. Qed.
Print Assumptions C10_astring_roundtrip.

Theorem C10_number_roundtrip : forall n ds rest, EncNum n ds -> tok_is TT_Digit (cur_tok rest) = false ->
  p_number (ds ++ rest) = ROk n rest.
Proof. exact number_rt. Qed.
Print Assumptions C10_number_roundtrip.

Theorem C10_seqset_roundtrip : forall s bs rest fuel, EncSeqSet s bs -> (List.length s <= S fuel)%nat -> F_seq rest ->
  p_seqset fuel (bs ++ rest) = ROk s rest.
Proof. exact seqset_rt. Qed.
Print Assumptions C10_seqset_roundtrip.

Theorem C10_flag_list_roundtrip : forall l bs rest fuel, EncFlagList l bs -> (List.length l <= S fuel)%nat ->
  p_flag_list fuel (bs ++ rest) = ROk l rest.
Proof. exact flag_list_rt. Qed.
Print Assumptions C10_flag_list_roundtrip.

(* the recursive non-terminals *)
Theorem C10_search_key_roundtrip : forall k e fuel rest, EncSKey k e -> (List.length e < fuel)%nat -> F_key rest ->
  p_search_key fuel fuel (e ++ rest) = ROk k rest.
Proof. exact key_rt. Qed.
Print Assumptions C10_search_key_roundtrip.

Theorem C10_fetch_att_roundtrip : forall a bs rest fuel, EncFetchAtt a bs -> F_att rest -> (List.length bs < fuel)%nat ->
  p_fetch_att fuel (bs ++ rest) = ROk a rest.
Proof. exact fetch_att_rt. Qed.
Print Assumptions C10_fetch_att_roundtrip.

Theorem C10_date_time_roundtrip : forall dt bs rest, EncDateTime dt bs -> p_date_time (bs ++ rest) = ROk dt rest.
Proof. exact date_time_rt. Qed.
Print Assumptions C10_date_time_roundtrip.

(* Flags: exactly which flag tokens are refused.  A flag token is an optional backslash followed by an atom; it is refused
   if and only if it has the backslash AND the atom is "recent" in any letter case (\Recent cannot be set by a client).
   The KEYWORD recent / Recent / RECENT (no backslash), like every keyword that collides case-insensitively with a system
   flag name (seen, DELETED, ...), is accepted and returned as written. *)
Theorem C10_flag_rejected_exactly : forall (bsl : bool) a rest, EncAtom a a -> is_atom_char (cur_tok rest) = false ->
  p_flag ((if bsl then [92] else []) ++ a ++ rest) =
    if bsl && bytes_eqb (lower a) (s2b "recent") then RErr EParse rest
    else ROk ((if bsl then [92] else []) ++ a) rest.
Proof. exact flag_token. Qed.
Print Assumptions C10_flag_rejected_exactly.

(* the keywords the model dispatches on are exactly the keys of the Go builder maps (read from the source) *)
Theorem C10_command_keywords_match :
  map s2b model_command_keywords = command_keywords /\ map s2b model_uid_keywords = uid_command_keywords.
Proof. split; reflexivity. Qed.
Print Assumptions C10_command_keywords_match.

(* ---- non-vacuity: two concrete encodings *)
Ltac in_bytes := let b := fresh in let H := fresh in intros b H; repeat (destruct H as [<-|H]; [reflexivity|]); contradiction.

(* a1 LoGiN {4}CRLF user, then the quoted string pa-backslash-doublequote-ss, CRLF: a literal, a quoted string with an
   escape, a mixed-case keyword *)
Example C10_login_example :
  EncLine (s2b "a1") (CLogin (s2b "user") [112; 97; 34; 115; 115])
          (s2b "a1 LoGiN {4}" ++ [13; 10] ++ s2b "user " ++ [34; 112; 97; 92; 34; 115; 115; 34; 13; 10]).
Proof.
  apply (EL_cmd (s2b "a1") _ (s2b "LoGiN" ++ 32 :: (123 :: [52] ++ [125; 13; 10] ++ s2b "user") ++ 32 :: [34; 112; 97; 92; 34; 115; 115; 34])).
  - split; [discriminate|]. split; [in_bytes|reflexivity].
  - apply EC_login.
    + reflexivity.
    + right. right. exists [52]. split; [reflexivity|]. split; [|split; [discriminate|reflexivity]].
      split; [discriminate|]. split; [in_bytes|]. split; [reflexivity|discriminate].
    + right. left. exists [112; 97; 92; 34; 115; 115]. split; [reflexivity|].
      repeat first [apply EQ_nil | (apply EQ_raw; [reflexivity|]) | (apply EQ_esc; [reflexivity|])].
Qed.

(* t UID store 1:*,3 +flags.SILENT (\Seen foo)CRLF *)
Example C10_uid_store_example :
  EncLine (s2b "t") (CSel true (SStore [(1, 0); (3, 3)] StAdd true [s2b "\Seen"; s2b "foo"]))
          (s2b "t UID store 1:*,3 +flags.SILENT (\Seen foo)" ++ [13; 10]).
Proof.
  apply (EL_cmd (s2b "t") _ (s2b "UID" ++ 32 :: (s2b "store" ++ 32 :: s2b "1:*,3" ++ 32 :: [43] ++ s2b "flags" ++ s2b ".SILENT" ++ 32 :: s2b "(\Seen foo)"))).
  - split; [discriminate|]. split; [in_bytes|reflexivity].
  - apply EC_uid; [reflexivity|].
    apply (ES_store [(1, 0); (3, 3)] StAdd true [s2b "\Seen"; s2b "foo"] (s2b "store") (s2b "1:*,3") [43] (s2b "flags") (s2b ".SILENT") (s2b "(\Seen foo)")).
    + reflexivity.
    + exists (s2b "1:*"), (s2b ",3"). split; [reflexivity|]. split.
      * right. exists [49], [42]. split; [reflexivity|]. split.
        -- right. split; [discriminate|]. split; [discriminate|]. split; [discriminate|]. split; [in_bytes|]. split; [reflexivity|discriminate].
        -- left. split; reflexivity.
      * apply (EST_cons EncSeqRange 44 (3, 3) [51] [] []); [|apply EST_nil].
        left. split; [reflexivity|]. right. split; [discriminate|]. split; [discriminate|].
        split; [discriminate|]. split; [in_bytes|]. split; [reflexivity|discriminate].
    + reflexivity.
    + reflexivity.
    + exists (s2b "SILENT"). split; reflexivity.
    + left. exists (s2b "\Seen foo"). split; [reflexivity|].
      exists (s2b "\Seen"), (s2b " foo"). split; [reflexivity|]. split.
      * split; [reflexivity|]. right. exists (s2b "Seen"). split; [reflexivity|]. split; [|reflexivity].
        split; [reflexivity|]. split; [discriminate|in_bytes].
      * apply (EST_cons EncFlag 32 (s2b "foo") (s2b "foo") [] []); [|apply EST_nil].
        split; [reflexivity|]. left. split; [reflexivity|]. split; [discriminate|in_bytes].
Qed.

(* t SEARCH or SEEN (nOt 1:3)CRLF  -- nested key tree *)
Example C10_search_example :
  EncLine (s2b "t") (CSel false (SSearch [] [SKOr (SKFlag KSeen) (SKList [SKNot (SKSeqSet [(1, 3)])])]))
          (s2b "t SEARCH or SEEN (nOt 1:3)" ++ [13; 10]).
Proof.
  apply (EL_cmd (s2b "t") _ (s2b "SEARCH" ++ s2b " or SEEN (nOt 1:3)")).
  - split; [discriminate|]. split; [in_bytes|reflexivity].
  - apply EC_sel. apply ES_search; [reflexivity|]. left. split; [reflexivity|]. split; [discriminate|].
    apply (ESKT_cons _ [] (s2b "or SEEN (nOt 1:3)") []); [|apply ESKT_nil].
    apply (ESK_or (SKFlag KSeen) (SKList [SKNot (SKSeqSet [(1, 3)])]) (s2b "or") (s2b "SEEN") (s2b "(nOt 1:3)")); [reflexivity| |].
    + apply ESK_flag. reflexivity.
    + apply (ESK_list (SKNot (SKSeqSet [(1, 3)])) [] (s2b "nOt 1:3") []); [|apply ESKT_nil].
      apply (ESK_not (SKSeqSet [(1, 3)]) (s2b "nOt") (s2b "1:3")); [reflexivity|]. apply ESK_seq.
      exists (s2b "1:3"), []. split; [reflexivity|]. split; [|apply EST_nil].
      right. exists [49], [51]. split; [reflexivity|].
      split; right; (split; [discriminate|]); (split; [discriminate|]); (split; [discriminate|]); (split; [in_bytes|]);
        (split; [reflexivity|discriminate]).
Qed.

(* t fetch 7 (UID body.peek[1.TEXT]<0.5>)CRLF *)
Example C10_fetch_example :
  EncLine (s2b "t") (CSel false (SFetch [(7, 7)] [FUid; FBodySection true (SecPart [1] (Some MTText)) (Some (0, 5))]))
          (s2b "t fetch 7 (UID body.peek[1.TEXT]<0.5>)" ++ [13; 10]).
Proof.
  apply (EL_cmd (s2b "t") _ (s2b "fetch" ++ 32 :: s2b "7" ++ 32 :: s2b "(UID body.peek[1.TEXT]<0.5>)")).
  - split; [discriminate|]. split; [in_bytes|reflexivity].
  - apply EC_sel. apply ES_fetch; [reflexivity| |].
    + exists [55], []. split; [reflexivity|]. split; [|apply EST_nil]. left. split; [reflexivity|].
      right. split; [discriminate|]. split; [discriminate|]. split; [discriminate|]. split; [in_bytes|]. split; [reflexivity|discriminate].
    + right. right. right. right. exists (s2b "UID body.peek[1.TEXT]<0.5>"). split; [reflexivity|].
      exists (s2b "UID"), (s2b " body.peek[1.TEXT]<0.5>"). split; [reflexivity|]. split; [apply EFA_uid; reflexivity|].
      apply (EST_cons EncFetchAtt 32 _ (s2b "body.peek[1.TEXT]<0.5>") [] []); [|apply EST_nil].
      apply (EFA_section true (SecPart [1] (Some MTText)) (Some (0, 5)) (s2b "body") (s2b ".peek") (s2b "1.TEXT") (s2b "<0.5>")).
      * reflexivity.
      * exists (s2b "peek"). split; reflexivity.
      * exists [49], (s2b ".TEXT"). split; [reflexivity|]. split.
        -- exists [49], []. split; [reflexivity|]. split; [|apply EST_nil].
           split; [|discriminate]. split; [discriminate|]. split; [in_bytes|]. split; [reflexivity|discriminate].
        -- exists (s2b "TEXT"). split; [reflexivity|]. apply EMT_text. reflexivity.
      * exists [48], [53]. split; [reflexivity|]. split.
        -- split; [discriminate|]. split; [in_bytes|]. split; [reflexivity|discriminate].
        -- split; [|discriminate]. split; [discriminate|]. split; [in_bytes|]. split; [reflexivity|discriminate].
Qed.

(* the keyword Recent is accepted, \Recent is refused *)
Example C10_recent_keyword_example :
  p_flag_list 10 (s2b "(Recent \Seen rEcEnT)" ++ [13]) = ROk [s2b "Recent"; s2b "\Seen"; s2b "rEcEnT"] [13]
  /\ (exists a, p_flag_list 10 (s2b "(\Recent)" ++ [13]) = RErr EParse a)
  /\ (exists a, p_flag_list 10 (s2b "(\rEcEnT)" ++ [13]) = RErr EParse a).
Proof. vm_compute. repeat split; eexists; reflexivity. Qed.

(* the theorem applied to the examples, and the same by evaluation of the model *)
Example C10_examples_parse :
  parse_command 100 ((s2b "a1 LoGiN {4}" ++ [13; 10] ++ s2b "user " ++ [34; 112; 97; 92; 34; 115; 115; 34; 13; 10]) ++ s2b "next")
  = POk (s2b "a1") (CLogin (s2b "user") [112; 97; 34; 115; 115]) (s2b "next")
  /\ parse_command 100 ((s2b "t UID store 1:*,3 +flags.SILENT (\Seen foo)" ++ [13; 10]) ++ [])
  = POk (s2b "t") (CSel true (SStore [(1, 0); (3, 3)] StAdd true [s2b "\Seen"; s2b "foo"])) [].
Proof.
  split.
  - apply (C10_roundtrip _ _ _ C10_login_example). vm_compute. repeat constructor.
  - apply (C10_roundtrip _ _ _ C10_uid_store_example). vm_compute. repeat constructor.
Qed.
Example C10_examples_parse_2 :
  parse_command 100 ((s2b "t SEARCH or SEEN (nOt 1:3)" ++ [13; 10]) ++ [])
  = POk (s2b "t") (CSel false (SSearch [] [SKOr (SKFlag KSeen) (SKList [SKNot (SKSeqSet [(1, 3)])])])) []
  /\ parse_command 100 ((s2b "t fetch 7 (UID body.peek[1.TEXT]<0.5>)" ++ [13; 10]) ++ [])
  = POk (s2b "t") (CSel false (SFetch [(7, 7)] [FUid; FBodySection true (SecPart [1] (Some MTText)) (Some (0, 5))])) [].
Proof.
  split.
  - apply (C10_roundtrip _ _ _ C10_search_example). vm_compute. repeat constructor.
  - apply (C10_roundtrip _ _ _ C10_fetch_example). vm_compute. repeat constructor.
Qed.
