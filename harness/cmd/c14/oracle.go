package main

// The property oracle for C14, written from the property text (reference hierarchy + RFC 3501 matching),
// independent of the Coq model.  Names are Go strings holding the bytes after modified-UTF-7 decoding.

import (
	"sort"
	"strings"
)

const recoveryName = "Recovered Messages"

type refRow struct {
	ID   int
	Name string
	Sub  bool
}

type refState struct {
	D     string
	Rows  []*refRow
	DSubs []string // subscribed names without a mailbox
	Next  int
}

func newRefState(d string) *refState {
	return &refState{D: d, Rows: []*refRow{{0, "INBOX", true}, {1, recoveryName, true}}, Next: 2}
}

func (s *refState) clone() *refState {
	c := &refState{D: s.D, Next: s.Next, DSubs: append([]string{}, s.DSubs...)}
	for _, r := range s.Rows {
		x := *r
		c.Rows = append(c.Rows, &x)
	}
	return c
}

func asciiFoldEq(a, b string) bool {
	if len(a) != len(b) {
		return false
	}
	for i := 0; i < len(a); i++ {
		x, y := a[i], b[i]
		if 'a' <= x && x <= 'z' {
			x -= 32
		}
		if 'a' <= y && y <= 'z' {
			y -= 32
		}
		if x != y {
			return false
		}
	}
	return true
}

func asciiLower(a string) string {
	b := []byte(a)
	for i, x := range b {
		if 'A' <= x && x <= 'Z' {
			b[i] = x + 32
		}
	}
	return string(b)
}

// INBOX is case-insensitive at the first level of hierarchy.
// With the empty delimiter (flat namespace) the whole name is the first level.
func canonFirst(d, n string) string {
	first, rest := n, ""
	if i := strings.Index(n, d); d != "" && i >= 0 {
		first, rest = n[:i], n[i:]
	}
	if asciiFoldEq(first, "INBOX") {
		return "INBOX" + rest
	}
	return n
}

func (s *refState) byName(n string) *refRow {
	for _, r := range s.Rows {
		if r.Name == n {
			return r
		}
	}
	return nil
}

func (s *refState) byID(id int) *refRow {
	for _, r := range s.Rows {
		if r.ID == id {
			return r
		}
	}
	return nil
}

func (s *refState) dropDSub(n string) bool {
	for i, x := range s.DSubs {
		if x == n {
			s.DSubs = append(s.DSubs[:i:i], s.DSubs[i+1:]...)
			return true
		}
	}
	return false
}

func (s *refState) add(n string) *refRow {
	r := &refRow{s.Next, n, true}
	s.Next++
	s.Rows = append(s.Rows, r)
	s.dropDSub(n)
	return r
}

func (s *refState) remove(r *refRow) {
	for i, x := range s.Rows {
		if x == r {
			s.Rows = append(s.Rows[:i:i], s.Rows[i+1:]...)
			return
		}
	}
}

// superiors of n, shortest first: every proper prefix that is followed by the delimiter.
func superiors(d, n string) []string {
	var out []string
	if d == "" { // flat namespace: no hierarchy
		return nil
	}
	for i := 0; i+len(d) <= len(n); i++ {
		if n[i:i+len(d)] == d {
			out = append(out, n[:i])
		}
	}
	return out
}

func isSuperior(d, p, n string) bool { return d != "" && strings.HasPrefix(n, p+d) }

// delimByte is the delimiter as a byte for the character-wise matchers; the empty delimiter is a byte that occurs in no name
func delimByte(d string) byte {
	if d == "" {
		return 0
	}
	return d[0]
}

// rules for a name that is about to exist
func badNewName(d, n string) bool {
	return strings.HasPrefix(asciiLower(n), asciiLower(recoveryName)) || n == "" ||
		(d != "" && (strings.HasPrefix(n, d) || strings.Contains(n, d+d)))
}

// the steps return true for OK, false for NO
func (s *refState) create(raw string) (bool, []string) {
	n := canonFirst(s.D, raw)
	if n == "INBOX" || badNewName(s.D, n) {
		return false, nil
	}
	n = strings.TrimSuffix(n, s.D)
	if s.byName(n) != nil {
		return false, nil
	}
	var created []string
	for _, p := range superiors(s.D, n) {
		if s.byName(p) == nil {
			s.add(p)
			created = append(created, p)
		}
	}
	s.add(n)
	return true, append(created, n)
}

func (s *refState) delete(raw string) bool {
	n := canonFirst(s.D, raw)
	if n == "INBOX" || asciiFoldEq(n, recoveryName) {
		return false
	}
	r := s.byName(n)
	if r == nil {
		return false
	}
	s.remove(r)
	if r.Sub {
		s.DSubs = append(s.DSubs, n)
	}
	return true
}

func (s *refState) rename(rawo, rawn string) (bool, []string) {
	o, n := canonFirst(s.D, rawo), canonFirst(s.D, rawn)
	if asciiFoldEq(o, recoveryName) || badNewName(s.D, n) {
		return false, nil
	}
	n = strings.TrimSuffix(n, s.D)
	src := s.byName(o)
	if src == nil || s.byName(n) != nil || isSuperior(s.D, o, n) {
		return false, nil
	}
	t := s.clone()
	var created []string
	for _, p := range superiors(t.D, n) {
		if t.byName(p) == nil {
			t.add(p)
			created = append(created, p)
		}
	}
	if o == "INBOX" {
		// the messages move to a new mailbox, INBOX and its inferiors stay
		t.add(n)
		*s = *t
		return true, append(created, n)
	}
	// the mailbox and all its inferiors move at once
	seen := map[string]bool{}
	var newNames []string
	for _, r := range t.Rows {
		if r.Name == o {
			r.Name = n
			newNames = append(newNames, n)
		} else if isSuperior(t.D, o, r.Name) {
			r.Name = n + r.Name[len(o):]
			newNames = append(newNames, r.Name)
		}
	}
	for _, r := range t.Rows {
		if seen[r.Name] {
			return false, nil // names stay unique: the whole RENAME is refused
		}
		seen[r.Name] = true
	}
	for _, x := range newNames {
		t.dropDSub(x)
	}
	*s = *t
	return true, created
}

func (s *refState) subscribe(raw string) bool {
	r := s.byName(canonFirst(s.D, raw))
	if r == nil || r.Sub {
		return false
	}
	r.Sub = true
	return true
}

func (s *refState) unsubscribe(raw string) bool {
	n := canonFirst(s.D, raw)
	r := s.byName(n)
	if r == nil {
		return s.dropDSub(n)
	}
	if !r.Sub {
		return false
	}
	r.Sub = false
	return true
}

func connName(d string, levels []string) string {
	if len(levels) > 0 && asciiFoldEq(levels[0], "INBOX") {
		levels = append([]string{"INBOX"}, levels[1:]...)
	}
	return strings.Join(levels, d)
}

// connector updates: true = acknowledged without error
func (s *refState) connCreate(known int, levels []string) (bool, bool) {
	if known >= 0 {
		return known != 1, false
	}
	n := connName(s.D, levels)
	if s.byName(n) != nil {
		return false, false
	}
	s.add(n)
	return true, true
}

func (s *refState) connDelete(id int) bool {
	if id == 1 {
		return false
	}
	if r := s.byID(id); r != nil {
		s.remove(r)
		s.dropDSub(r.Name)
	}
	return true
}

func (s *refState) connRename(id int, levels []string) bool {
	if id == 1 {
		return false
	}
	r := s.byID(id)
	if r == nil {
		return true
	}
	n := connName(s.D, levels)
	if r.Name == n {
		return true
	}
	if s.byName(n) != nil {
		return false
	}
	r.Name = n
	s.dropDSub(n)
	return true
}

// ---- RFC 3501 matching: "*" any characters, "%" any characters but the delimiter ----
func rfcMatch(d byte, p, s string) bool {
	memo := map[[2]int]bool{}
	seen := map[[2]int]bool{}
	var m func(i, j int) bool
	m = func(i, j int) bool {
		k := [2]int{i, j}
		if seen[k] {
			return memo[k]
		}
		var r bool
		switch {
		case i == len(p):
			r = j == len(s)
		case p[i] == '*':
			r = m(i+1, j) || (j < len(s) && m(i, j+1))
		case p[i] == '%':
			r = m(i+1, j) || (j < len(s) && s[j] != d && m(i, j+1))
		default:
			r = j < len(s) && s[j] == p[i] && m(i+1, j+1)
		}
		seen[k] = true
		memo[k] = r
		return r
	}
	return m(0, 0)
}

type listed struct {
	Name string
	Sel  bool // false: \Noselect
}

func refRoot(d, ref string) string {
	if i := strings.Index(ref, d); d != "" && i >= 0 {
		return ref[:i+len(d)]
	}
	return ""
}

// what LIST (lsub=false) or LSUB (lsub=true) must return, sorted by name
func (s *refState) list(lsub bool, ref, pat string) []listed {
	// the reference is a mailbox name: INBOX in any spelling is INBOX
	if asciiFoldEq(ref, "INBOX") {
		ref = "INBOX"
	}
	type off struct{ isRow bool }
	offered := map[string]off{}
	var order []string
	for _, r := range s.Rows {
		if r.ID == 1 { // the empty recovery mailbox is hidden
			continue
		}
		if lsub && !r.Sub {
			continue
		}
		if _, ok := offered[r.Name]; !ok {
			order = append(order, r.Name)
		}
		offered[r.Name] = off{true}
	}
	if lsub {
		for _, n := range s.DSubs {
			if _, ok := offered[n]; !ok {
				order = append(order, n)
				offered[n] = off{false}
			}
		}
	}
	var out []listed
	if pat == "" {
		// the special request for the hierarchy delimiter and the root name of the reference
		if len(order) == 0 {
			return nil
		}
		root := refRoot(s.D, ref)
		if o, ok := offered[root]; ok {
			return []listed{{root, o.isRow && root != ""}}
		}
		if lsub {
			return nil
		}
		return []listed{{root, false}}
	}
	p := canonFirst(s.D, ref+pat)
	endsPct := strings.HasSuffix(pat, "%")
	cands := map[string]bool{}
	for _, n := range order {
		cands[n] = true
		for _, sp := range superiors(s.D, n) {
			cands[sp] = true
		}
	}
	for c := range cands {
		if !rfcMatch(delimByte(s.D), p, c) {
			continue
		}
		if o, ok := offered[c]; ok {
			out = append(out, listed{c, o.isRow && c != ""})
		} else if !lsub || endsPct {
			out = append(out, listed{c, false})
		}
	}
	sort.Slice(out, func(i, j int) bool { return out[i].Name < out[j].Name })
	return out
}
