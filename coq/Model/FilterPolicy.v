(* C02: the filters of the state updates as read from the source (Gen/FactsFilters.v), interpreted over the session
   model, so that Model/Session.upd_filter can be checked against what the code says now. *)
From Coq Require Import String List NArith Bool.
From Gluon Require Import Gen.FactsFilters Model.FlushPolicy Model.Responders Model.Session.
Import ListNotations.
Open Scope list_scope.

(* source-level update type (or constructor) that each model update stands for *)
Definition src_filter_type (u : update) : option string :=
  match u with
  | UExists _ _ _ => lookup "ExistsStateUpdate"%string update_filter
  | UExpunge _ _ =>
      (* NewMessageIDAndMailboxIDResponderStateUpdate(id, mbox, NewExpunge(id)) *)
      match lookup "NewMessageIDAndMailboxIDResponderStateUpdate"%string ctor_filter with
      | Some "NewMessageAndMBoxIDStateFilter"%string => Some "MessageAndMBoxIDStateFilter"%string
      | _ => None end
  | UFlags _ _ _ _ =>
      match lookup "messageFlagsComboStateUpdate"%string update_filter,
            lookup "messageFlagsSetStateUpdate"%string update_filter,
            lookup "messageFlagsAddedStateUpdate"%string update_filter,
            lookup "messageFlagsRemovedStateUpdate"%string update_filter with
      | Some a, Some b, Some c, Some d =>
          if (String.eqb a b && String.eqb b c && String.eqb c d)%bool then Some a else None
      | _, _, _, _ => None end
  | URemoteFlag _ _ _ =>
      match lookup "RemoteAddMessageFlagsStateUpdate"%string update_filter,
            lookup "RemoteRemoveMessageFlagsStateUpdate"%string update_filter with
      | Some a, Some b => if String.eqb a b then Some a else None
      | _, _ => None end
  end.

Definition upd_mbox (u : update) : option N :=
  match u with UExists mb _ _ => Some mb | UExpunge mb _ => Some mb | _ => None end.
Definition upd_msg (u : update) : option msgid :=
  match u with UExpunge _ m => Some m | URemoteFlag m _ _ => Some m | _ => None end.

Definition atom_sem (a : fatom) (u : update) (s : sess) : option bool :=
  match a with
  | ASelected => Some (match ss_sel s with Some _ => true | None => false end)
  | AMboxEq => match upd_mbox u, ss_sel s with
               | Some mb, Some sel => Some (N.eqb sel mb)
               | Some _, None => Some false
               | None, _ => None end
  | AHasOrPending => match upd_msg u with Some m => Some (has_or_pending m (ss_st s)) | None => None end
  | AHasMsg => match upd_msg u with Some m => Some (snap_has m (s_snap (ss_st s))) | None => None end
  | AOther _ => None
  end.

Fixpoint atoms_sem (l : list fatom) (u : update) (s : sess) : option bool :=
  match l with
  | [] => Some true
  | a :: t => match atom_sem a u s, atoms_sem t u s with
              | Some x, Some y => Some (x && y) | _, _ => None end
  end.

(* the filter of update u on session s according to the source; None = not recognised *)
Definition src_filter (u : update) (s : sess) : option bool :=
  match src_filter_type u with
  | None => None
  | Some ty => match lookup ty filter_sem with None => None | Some atoms => atoms_sem atoms u s end
  end.
