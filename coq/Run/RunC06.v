(* Correspondence runner for C06: each case is one connector update pushed into the real server: the relational
   state read before it (through db.ReadOnly), the external inputs the update consumed (fresh internal ids, UIDVALIDITY
   values), the acknowledgement class and the relational state read after it.  [mismatches] lists the cases on which
   the model's acknowledgement or resulting state differs (states are compared in a canonical order). *)
From Coq Require Import List NArith Bool.
From Gluon Require Export Base.ListX Model.ConnUpdates.
Import ListNotations.
Open Scope N_scope.

Record case := mkCase { c_id : nat; c_state : cu_state; c_env : cu_env; c_upd : cu_update; c_ack : cu_ack; c_after : cu_state }.

Section Sort.
  Context {A : Type} (key : A -> N).
  Fixpoint kinsert (x : A) (l : list A) : list A :=
    match l with [] => [x] | y :: t => if key x <=? key y then x :: l else y :: kinsert x t end.
  Definition ksort (l : list A) : list A := fold_right kinsert [] l.
End Sort.

Definition big : N := 4294967296.

Definition opt_eqb (a b : option N) : bool :=
  match a, b with Some x, Some y => x =? y | None, None => true | _, _ => false end.
Definition mb_eqb (a b : cu_mb) : bool :=
  (mb_id a =? mb_id b) && (mb_rid a =? mb_rid b) && (mb_name a =? mb_name b) && (mb_uidv a =? mb_uidv b) && Bool.eqb (mb_sub a) (mb_sub b)
  && nlist_eqb (nsort (mb_flags a)) (nsort (mb_flags b)) && nlist_eqb (nsort (mb_perm a)) (nsort (mb_perm b))
  && nlist_eqb (nsort (mb_attrs a)) (nsort (mb_attrs b)).
Definition ms_eqb (a b : cu_ms) : bool :=
  (ms_id a =? ms_id b) && opt_eqb (ms_rid a) (ms_rid b) && (ms_lit a =? ms_lit b)
  && nlist_eqb (nsort (ms_flags a)) (nsort (ms_flags b)) && Bool.eqb (ms_del a) (ms_del b).
Definition me_eqb (a b : cu_me) : bool :=
  (me_mb a =? me_mb b) && (me_uid a =? me_uid b) && (me_ms a =? me_ms b) && (me_rid a =? me_rid b).
Definition pair_eqb (a b : N * N) : bool := (fst a =? fst b) && (snd a =? snd b).

(* rows waiting for the purge (marked deleted, remote id released, in no mailbox) disappear at an arbitrary later
   moment (end of some session) and cannot be addressed by any update: they are left out on both sides *)
Definition live_ms (s : cu_state) : list cu_ms :=
  filter (fun m => negb (ms_del m && match ms_rid m with None => true | Some _ => false end
                         && negb (existsb (fun e => me_ms e =? ms_id m) (st_me s)))) (st_ms s).

Definition state_eqb (a b : cu_state) : bool :=
  let mba := ksort mb_id (st_mb a) in
  let mbb := ksort mb_id (st_mb b) in
  list_eqb mb_eqb mba mbb
  && list_eqb ms_eqb (ksort ms_id (live_ms a)) (ksort ms_id (live_ms b))
  && list_eqb me_eqb (ksort (fun e => me_mb e * big + me_uid e) (st_me a)) (ksort (fun e => me_mb e * big + me_uid e) (st_me b))
  && nlist_eqb (map (fun m => cu_seq_of a (mb_id m)) mba) (map (fun m => cu_seq_of b (mb_id m)) mbb)
  && list_eqb pair_eqb (ksort (fun p => fst p * big + snd p) (st_dsub a)) (ksort (fun p => fst p * big + snd p) (st_dsub b)).

Definition ack_eqb (a b : cu_ack) : bool := match a, b with AOk, AOk => true | AErr, AErr => true | _, _ => false end.

Definition case_ok (c : case) : bool :=
  let '(s', a, _) := cu_apply (c_state c) (c_env c) (c_upd c) in
  ack_eqb a (c_ack c) && state_eqb s' (c_after c).

Definition mismatches (cs : list case) : list nat :=
  map c_id (filter (fun c => negb (case_ok c)) cs).
