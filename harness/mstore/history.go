package mstore

// RunHistory executes operations produced one at a time by `next` (which sees the current contents), calls `after`
// with the observation and the contents before/after, and returns the recorded steps (for cases.v) and the final dump.
// `after` returns false to stop the history (e.g. after a violation).
func RunHistory(w *World, next func(d Dump, i int) *Op, after func(i int, o Op, ob Obs, before, aft Dump) bool) ([]Step, Dump, error) {
	var steps []Step
	cur, err := w.DumpAll()
	if err != nil {
		return nil, cur, err
	}
	for i := 0; ; i++ {
		o := next(cur, i)
		if o == nil {
			break
		}
		ob, err := w.Do(*o)
		if err != nil {
			return steps, cur, err
		}
		oc := *o
		if ob.ModelOps == nil {
			steps = append(steps, Step{Op: &oc, Obs: ob, Dedup: w.Cfg.Dedup})
		} else {
			for i := range ob.ModelOps {
				mo := ob.ModelOps[i]
				steps = append(steps, Step{Op: &mo, Obs: Obs{Class: ob.Class}})
			}
		}
		if o.Kind == "restart" {
			steps = append(steps, Step{IsGen: true, Gen: w.G0 + 1})
		}
		aft, err := w.DumpAll()
		if err != nil {
			return steps, cur, err
		}
		cont := after(i, *o, ob, cur, aft)
		cur = aft
		if !cont {
			break
		}
	}
	return steps, cur, nil
}

// Replay runs a fixed list of operations.
func Replay(w *World, ops []Op, after func(i int, o Op, ob Obs, before, aft Dump) bool) ([]Step, Dump, error) {
	return RunHistory(w, func(d Dump, i int) *Op {
		if i >= len(ops) {
			return nil
		}
		return &ops[i]
	}, after)
}

// AsProbe tells whether err is a ProbeError (the implementation could not report its mailboxes any more).
func AsProbe(err error) (string, bool) {
	for e := err; e != nil; {
		if pe, ok := e.(*ProbeError); ok {
			return pe.What, true
		}
		u, ok := e.(interface{ Unwrap() error })
		if !ok {
			return "", false
		}
		e = u.Unwrap()
	}
	return "", false
}
