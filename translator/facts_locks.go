package main

// Extractor "Locks" -> coq/Gen/FactsLocks.v (property C19).
//
// Reads, with go/parser + go/ast only, every non-test file of the packages that own locks
// (., db, internal/backend, internal/session, internal/state, async, store, internal/db_impl/sqlite3, internal/utils, watcher)
// and computes the lock NESTINGS: which lock may be requested while which other lock is held.
//
//   - a lock operation is a call X.Lock() / X.RLock() / X.Unlock() / X.RUnlock(); the lock is named after the type that owns
//     it and the field path, e.g. `s.sessionsLock` in a method of Server -> "Server.sessionsLock", `q.cond.L` -> "QueuedChannel.cond.L";
//   - inside a function the statements are followed in order; `defer X.Unlock()` keeps X held to the end of the enclosing
//     function (literal), an explicit X.Unlock() releases it;
//   - calls made while locks are held are followed into the callee (methods resolved from the static type of the receiver
//     expression: receiver/parameter/field/result types as declared, `x := e` / range / map index as far as they can be
//     read off the syntax; a method name that only one type declares is resolved by its name; interface values are bound to
//     their only implementation by the table `ifaceImpl` below); a function literal handed to a callee is followed at the
//     place where the callee invokes its parameter (db.Client.Read/Write -> wrapTx -> op, user.forState -> fn, ...);
//     `go`, async.GoAnnotated, WaitGroup.Go, Group.Once/Periodic/..., time.AfterFunc start NEW threads: their literals are
//     followed with no lock held;
//   - the result is the set of edges (outer lock, inner lock, witness path). RLock and Lock are not distinguished (a
//     pending writer makes readers wait, so read locks take part in cycles as well).
//
// Also emitted: blocking waits (X.Wait() of a WaitGroup / QueuedChannel) reached while a lock is held, the locks that the
// state-release path (backend.user.removeState and everything it calls) may take, and the calls under a lock that could
// not be resolved (external packages and interface values without a binding) for inspection.
//
// If the analysis cannot find the functions it is anchored on it fails, and the dependent theorem no longer compiles.

import (
	"fmt"
	"go/ast"
	"go/parser"
	"go/token"
	"os"
	"path/filepath"
	"sort"
	"strings"
)

func init() { register("Locks", factsLocks) }

var lockDirs = []string{".", "db", "internal/backend", "internal/session", "internal/state", "async", "store", "internal/db_impl/sqlite3", "internal/utils", "watcher"}

// interface type -> the implementation the server uses
var ifaceImpl = map[string]string{
	"db.Client":               "sqlite3.Client",
	"state.UserInterface":     "backend.StateUserInterfaceImpl",
	"state.Connector":         "backend.stateConnectorImpl",
	"db.ClientInterface":      "sqlite3.Builder",
	"session.backendIface":    "backend.Backend",
	"state.AppendOnlyMailbox": "state.Mailbox",
}

// functions that run their function-literal argument on a new goroutine (or later): not within the caller's extent
var asyncSpawners = map[string]bool{
	"async.GoAnnotated": true, "async.WaitGroup.Go": true, "async.Group.Once": true, "async.Group.Periodic": true,
	"async.Group.Trigger": true, "async.Group.PeriodicOrTrigger": true, "time.AfterFunc": true, "logging.GoAnnotated": true,
}

type ltyp struct {
	Named string // "pkg.Type", "" if unknown / composite
	Elem  *ltyp  // element type of map / slice / array / chan
	Func  *ast.FuncType
}

type lfunc struct {
	key   string // pkg.Recv.Name or pkg.Name
	pkg   string
	recv  string
	name  string
	decl  *ast.FuncDecl
	file  *ast.File
	fpath string
	imps  map[string]string // import alias -> package name
}

type lclosure struct {
	lit  *ast.FuncLit
	fn   *lfunc // defining function (for imports / package)
	env  map[string]*ltyp
	clos map[string]*lclosure
}

type lockAn struct {
	t        *T
	funcs    map[string]*lfunc
	byName   map[string][]*lfunc         // method/function name -> decls
	fields   map[string]map[string]*ltyp // pkg.Type -> field -> type
	fieldFn  map[string]map[string]*ast.FuncType
	isIface  map[string]bool
	edges    map[[2]string]string
	edgeOrd  [][2]string
	locks    map[string]bool
	waits    map[[2]string]string
	unres    map[[2]string]bool
	memo     map[string]bool
	relLocks map[string]bool
	collect  *map[string]bool
}

func pkgNameOfDir(dir string) string {
	if dir == "." {
		return "gluon"
	}
	return filepath.Base(dir)
}

func (a *lockAn) typeFromExpr(e ast.Expr, f *lfunc) *ltyp {
	switch v := e.(type) {
	case nil:
		return nil
	case *ast.StarExpr:
		return a.typeFromExpr(v.X, f)
	case *ast.ParenExpr:
		return a.typeFromExpr(v.X, f)
	case *ast.Ident:
		switch v.Name {
		case "string", "int", "bool", "error", "byte", "int64", "int32", "uint32", "any":
			return nil
		}
		return &ltyp{Named: f.pkg + "." + v.Name}
	case *ast.SelectorExpr:
		if id, ok := v.X.(*ast.Ident); ok {
			p := id.Name
			if real, ok := f.imps[p]; ok {
				p = real
			}
			return &ltyp{Named: p + "." + v.Sel.Name}
		}
	case *ast.IndexExpr: // generic instantiation T[X]
		return a.typeFromExpr(v.X, f)
	case *ast.IndexListExpr:
		return a.typeFromExpr(v.X, f)
	case *ast.MapType:
		return &ltyp{Elem: a.typeFromExpr(v.Value, f)}
	case *ast.ArrayType:
		return &ltyp{Elem: a.typeFromExpr(v.Elt, f)}
	case *ast.ChanType:
		return &ltyp{Elem: a.typeFromExpr(v.Value, f)}
	case *ast.FuncType:
		return &ltyp{Func: v}
	}
	return nil
}

func recvTypeName(fd *ast.FuncDecl) string {
	if fd.Recv == nil || len(fd.Recv.List) != 1 {
		return ""
	}
	var base func(e ast.Expr) string
	base = func(e ast.Expr) string {
		switch x := e.(type) {
		case *ast.StarExpr:
			return base(x.X)
		case *ast.Ident:
			return x.Name
		case *ast.IndexExpr:
			return base(x.X)
		case *ast.IndexListExpr:
			return base(x.X)
		}
		return ""
	}
	return base(fd.Recv.List[0].Type)
}

func (a *lockAn) load() error {
	for _, dir := range lockDirs {
		ents, err := os.ReadDir(filepath.Join(a.t.Repo, dir))
		if err != nil {
			return err
		}
		pkg := pkgNameOfDir(dir)
		for _, e := range ents {
			n := e.Name()
			if e.IsDir() || !strings.HasSuffix(n, ".go") || strings.HasSuffix(n, "_test.go") {
				continue
			}
			rel := filepath.Join(dir, n)
			src, err := os.ReadFile(filepath.Join(a.t.Repo, rel))
			if err != nil {
				return err
			}
			if strings.Contains(string(src), "//go:build verif") && !strings.Contains(string(src), "//go:build !verif") {
				continue // the verification hooks are not part of the server
			}
			file, err := parser.ParseFile(a.t.Fset, filepath.Join(a.t.Repo, rel), src, 0)
			if err != nil {
				return err
			}
			imps := map[string]string{}
			for _, im := range file.Imports {
				p := strings.Trim(im.Path.Value, `"`)
				name := filepath.Base(p)
				alias := name
				if im.Name != nil {
					alias = im.Name.Name
				}
				imps[alias] = name
			}
			stub := &lfunc{pkg: pkg, imps: imps}
			for _, d := range file.Decls {
				switch x := d.(type) {
				case *ast.FuncDecl:
					if x.Body == nil {
						continue
					}
					lf := &lfunc{pkg: pkg, recv: recvTypeName(x), name: x.Name.Name, decl: x, file: file, fpath: rel, imps: imps}
					lf.key = pkg + "." + lf.name
					if lf.recv != "" {
						lf.key = pkg + "." + lf.recv + "." + lf.name
					}
					a.funcs[lf.key] = lf
					a.byName[lf.name] = append(a.byName[lf.name], lf)
				case *ast.GenDecl:
					if x.Tok != token.TYPE {
						continue
					}
					for _, sp := range x.Specs {
						ts := sp.(*ast.TypeSpec)
						tn := pkg + "." + ts.Name.Name
						switch st := ts.Type.(type) {
						case *ast.StructType:
							m := map[string]*ltyp{}
							for _, fl := range st.Fields.List {
								ft := a.typeFromExpr(fl.Type, stub)
								if len(fl.Names) == 0 { // embedded
									if ft != nil && ft.Named != "" {
										m[ft.Named[strings.LastIndex(ft.Named, ".")+1:]] = ft
									}
									continue
								}
								for _, nm := range fl.Names {
									m[nm.Name] = ft
								}
							}
							a.fields[tn] = m
						case *ast.InterfaceType:
							a.isIface[tn] = true
						}
					}
				}
			}
		}
	}
	return nil
}

func (a *lockAn) method(tn, name string) *lfunc {
	if impl, ok := ifaceImpl[tn]; ok {
		tn = impl
	}
	if f, ok := a.funcs[tn+"."+name]; ok {
		return f
	}
	// embedded fields
	if fs, ok := a.fields[tn]; ok {
		for fname, ft := range fs {
			if ft != nil && ft.Named != "" && strings.HasSuffix(ft.Named, "."+fname) {
				if f := a.method(ft.Named, name); f != nil {
					return f
				}
			}
		}
	}
	return nil
}

type lctx struct {
	fn    *lfunc
	env   map[string]*ltyp
	clos  map[string]*lclosure
	held  []string
	path  []string
	depth int
}

func (c *lctx) fork() *lctx {
	n := &lctx{fn: c.fn, env: c.env, clos: c.clos, held: append([]string{}, c.held...), path: c.path, depth: c.depth}
	return n
}

func (a *lockAn) typeOf(e ast.Expr, c *lctx) *ltyp {
	switch v := e.(type) {
	case *ast.Ident:
		return c.env[v.Name]
	case *ast.ParenExpr:
		return a.typeOf(v.X, c)
	case *ast.StarExpr:
		return a.typeOf(v.X, c)
	case *ast.UnaryExpr:
		return a.typeOf(v.X, c)
	case *ast.SelectorExpr:
		if id, ok := v.X.(*ast.Ident); ok {
			if _, isPkg := c.fn.imps[id.Name]; isPkg && c.env[id.Name] == nil {
				return nil
			}
		}
		t := a.typeOf(v.X, c)
		if t == nil || t.Named == "" {
			return nil
		}
		tn := t.Named
		if impl, ok := ifaceImpl[tn]; ok {
			tn = impl
		}
		if fs, ok := a.fields[tn]; ok {
			if ft, ok := fs[v.Sel.Name]; ok {
				return ft
			}
		}
		return nil
	case *ast.IndexExpr:
		t := a.typeOf(v.X, c)
		if t != nil && t.Elem != nil {
			return t.Elem
		}
		return nil
	case *ast.CallExpr:
		if f := a.resolve(v, c); f != nil && f.decl.Type.Results != nil && len(f.decl.Type.Results.List) > 0 {
			cc := &lfunc{pkg: f.pkg, imps: f.imps}
			return a.typeFromExpr(f.decl.Type.Results.List[0].Type, cc)
		}
		return nil
	case *ast.TypeAssertExpr:
		return a.typeFromExpr(v.Type, c.fn)
	case *ast.CompositeLit:
		return a.typeFromExpr(v.Type, c.fn)
	}
	return nil
}

var commonNames = map[string]bool{"Close": true, "Lock": true, "Unlock": true, "RLock": true, "RUnlock": true, "Read": true, "Write": true,
	"Get": true, "Set": true, "Delete": true, "String": true, "Wait": true, "Done": true, "New": true, "Init": true, "Error": true, "Send": true,
	"Apply": true, "Filter": true, "Add": true, "Go": true, "List": true, "Len": true, "close": true, "handle": true, "apply": true, "String_": true}

// resolve returns the callee of a call, or nil
func (a *lockAn) resolve(call *ast.CallExpr, c *lctx) *lfunc {
	switch fn := call.Fun.(type) {
	case *ast.Ident:
		if f, ok := a.funcs[c.fn.pkg+"."+fn.Name]; ok {
			return f
		}
	case *ast.IndexExpr: // generic function instantiation f[T](...)
		return a.resolve(&ast.CallExpr{Fun: fn.X, Args: call.Args}, c)
	case *ast.SelectorExpr:
		if id, ok := fn.X.(*ast.Ident); ok && c.env[id.Name] == nil {
			if real, isPkg := c.fn.imps[id.Name]; isPkg {
				if f, ok := a.funcs[real+"."+fn.Sel.Name]; ok {
					return f
				}
				return nil
			}
		}
		if t := a.typeOf(fn.X, c); t != nil && t.Named != "" {
			if f := a.method(t.Named, fn.Sel.Name); f != nil {
				return f
			}
			if _, known := a.fields[t.Named]; known || a.isIface[t.Named] {
				return nil // a known type that does not declare it (embedded foreign type / unbound interface)
			}
		}
		if !commonNames[fn.Sel.Name] {
			var ms []*lfunc
			for _, f := range a.byName[fn.Sel.Name] {
				if f.recv != "" {
					ms = append(ms, f)
				}
			}
			if len(ms) == 1 {
				return ms[0]
			}
		}
	}
	return nil
}

func exprText(e ast.Expr) string {
	switch v := e.(type) {
	case *ast.Ident:
		return v.Name
	case *ast.SelectorExpr:
		return exprText(v.X) + "." + v.Sel.Name
	case *ast.StarExpr:
		return exprText(v.X)
	case *ast.ParenExpr:
		return exprText(v.X)
	case *ast.CallExpr:
		return exprText(v.Fun) + "()"
	case *ast.IndexExpr:
		return exprText(v.X) + "[]"
	}
	return "?"
}

// lockName names the lock denoted by X in X.Lock()
func (a *lockAn) lockName(x ast.Expr, c *lctx) string {
	// find the longest prefix whose type is a known struct: Owner.fieldpath
	var path []string
	cur := x
	for {
		sel, ok := cur.(*ast.SelectorExpr)
		if !ok {
			break
		}
		path = append([]string{sel.Sel.Name}, path...)
		cur = sel.X
		if t := a.typeOf(cur, c); t != nil && t.Named != "" {
			tn := t.Named
			if impl, ok := ifaceImpl[tn]; ok {
				tn = impl
			}
			return tn[strings.LastIndex(tn, ".")+1:] + "." + strings.Join(path, ".")
		}
	}
	return exprText(x)
}

func (a *lockAn) addEdge(outer, inner string, c *lctx) {
	k := [2]string{outer, inner}
	if _, ok := a.edges[k]; !ok {
		a.edges[k] = strings.Join(c.path, " > ")
		a.edgeOrd = append(a.edgeOrd, k)
	}
}

func (a *lockAn) acquire(l string, c *lctx) {
	a.locks[l] = true
	if a.collect != nil {
		(*a.collect)[l] = true
	}
	for _, h := range c.held {
		a.addEdge(h, l, c)
	}
	c.held = append(c.held, l)
}

func (a *lockAn) release(l string, c *lctx) {
	for i := len(c.held) - 1; i >= 0; i-- {
		if c.held[i] == l {
			c.held = append(c.held[:i], c.held[i+1:]...)
			return
		}
	}
}

func isLockOp(name string) (acquire bool, ok bool) {
	switch name {
	case "Lock", "RLock":
		return true, true
	case "Unlock", "RUnlock":
		return false, true
	}
	return false, false
}

func (a *lockAn) bindParams(f *lfunc, call *ast.CallExpr, c *lctx) (map[string]*ltyp, map[string]*lclosure) {
	env := map[string]*ltyp{}
	clos := map[string]*lclosure{}
	if f.decl.Recv != nil && len(f.decl.Recv.List) == 1 && len(f.decl.Recv.List[0].Names) == 1 {
		env[f.decl.Recv.List[0].Names[0].Name] = &ltyp{Named: f.pkg + "." + f.recv}
	}
	i := 0
	for _, p := range f.decl.Type.Params.List {
		pt := a.typeFromExpr(p.Type, f)
		names := p.Names
		if len(names) == 0 {
			i++
			continue
		}
		for _, nm := range names {
			env[nm.Name] = pt
			if call != nil && i < len(call.Args) {
				switch arg := call.Args[i].(type) {
				case *ast.FuncLit:
					clos[nm.Name] = &lclosure{lit: arg, fn: c.fn, env: c.env, clos: c.clos}
				case *ast.Ident:
					if cl, ok := c.clos[arg.Name]; ok {
						clos[nm.Name] = cl
					}
				}
			}
			i++
		}
	}
	return env, clos
}

func (a *lockAn) walkFunc(f *lfunc, call *ast.CallExpr, c *lctx) {
	if c.depth > 40 {
		return
	}
	for _, p := range c.path {
		if p == f.key && call == nil {
			return
		}
	}
	cnt := 0
	for _, p := range c.path {
		if p == f.key {
			cnt++
		}
	}
	if cnt >= 2 {
		return // recursion
	}
	env, clos := a.bindParams(f, call, c)
	if len(clos) == 0 {
		mk := f.key + "|" + strings.Join(c.held, ",")
		if a.collect == nil {
			if a.memo[mk] {
				return
			}
			a.memo[mk] = true
		}
	}
	n := &lctx{fn: f, env: env, clos: clos, held: append([]string{}, c.held...), path: append(append([]string{}, c.path...), f.key), depth: c.depth + 1}
	a.walkBlock(f.decl.Body.List, n)
}

func (a *lockAn) walkClosure(cl *lclosure, c *lctx, label string) {
	if c.depth > 40 {
		return
	}
	env := map[string]*ltyp{}
	for k, v := range cl.env {
		env[k] = v
	}
	for _, p := range cl.lit.Type.Params.List {
		pt := a.typeFromExpr(p.Type, cl.fn)
		for _, nm := range p.Names {
			env[nm.Name] = pt
		}
	}
	n := &lctx{fn: cl.fn, env: env, clos: cl.clos, held: append([]string{}, c.held...), path: append(append([]string{}, c.path...), label), depth: c.depth + 1}
	a.walkBlock(cl.lit.Body.List, n)
}

func (a *lockAn) walkBlock(stmts []ast.Stmt, c *lctx) {
	for _, s := range stmts {
		a.walkStmt(s, c)
	}
}

func (a *lockAn) define(lhs []ast.Expr, rhs []ast.Expr, c *lctx) {
	if len(lhs) == len(rhs) {
		for i := range lhs {
			if id, ok := lhs[i].(*ast.Ident); ok && id.Name != "_" {
				if fl, ok := rhs[i].(*ast.FuncLit); ok {
					c.clos[id.Name] = &lclosure{lit: fl, fn: c.fn, env: c.env, clos: c.clos}
					continue
				}
				if t := a.typeOf(rhs[i], c); t != nil {
					c.env[id.Name] = t
				}
			}
		}
		return
	}
	if len(rhs) == 1 && len(lhs) >= 1 {
		if id, ok := lhs[0].(*ast.Ident); ok && id.Name != "_" {
			if t := a.typeOf(rhs[0], c); t != nil {
				c.env[id.Name] = t
			}
		}
	}
}

func (a *lockAn) walkStmt(s ast.Stmt, c *lctx) {
	switch v := s.(type) {
	case nil:
	case *ast.ExprStmt:
		a.walkExpr(v.X, c, false)
	case *ast.DeferStmt:
		// defer X.Unlock(): the lock stays held; other deferred calls run at the end with whatever is held then: followed here
		if sel, ok := v.Call.Fun.(*ast.SelectorExpr); ok {
			if acq, isOp := isLockOp(sel.Sel.Name); isOp && len(v.Call.Args) == 0 {
				if !acq {
					return
				}
			}
		}
		if fl, ok := v.Call.Fun.(*ast.FuncLit); ok {
			a.walkClosure(&lclosure{lit: fl, fn: c.fn, env: c.env, clos: c.clos}, c, "defer func")
			return
		}
		a.walkExpr(v.Call, c, false)
	case *ast.GoStmt:
		n := c.fork()
		n.held = nil
		n.depth = 0
		n.path = []string{c.fn.key, "go"}
		if fl, ok := v.Call.Fun.(*ast.FuncLit); ok {
			a.walkClosure(&lclosure{lit: fl, fn: c.fn, env: c.env, clos: c.clos}, n, "go func")
			return
		}
		a.walkExpr(v.Call, n, false)
	case *ast.AssignStmt:
		for _, r := range v.Rhs {
			a.walkExpr(r, c, false)
		}
		if v.Tok == token.DEFINE || v.Tok == token.ASSIGN {
			a.define(v.Lhs, v.Rhs, c)
		}
	case *ast.DeclStmt:
		if gd, ok := v.Decl.(*ast.GenDecl); ok && gd.Tok == token.VAR {
			for _, sp := range gd.Specs {
				vs := sp.(*ast.ValueSpec)
				for _, r := range vs.Values {
					a.walkExpr(r, c, false)
				}
				t := a.typeFromExpr(vs.Type, c.fn)
				for i, nm := range vs.Names {
					if t != nil {
						c.env[nm.Name] = t
					} else if i < len(vs.Values) {
						if tt := a.typeOf(vs.Values[i], c); tt != nil {
							c.env[nm.Name] = tt
						}
					}
				}
			}
		}
	case *ast.ReturnStmt:
		for _, r := range v.Results {
			a.walkExpr(r, c, false)
		}
	case *ast.BlockStmt:
		a.walkBlock(v.List, c)
	case *ast.IfStmt:
		a.walkStmt(v.Init, c)
		a.walkExpr(v.Cond, c, false)
		n := c.fork()
		a.walkBlock(v.Body.List, n)
		if v.Else != nil {
			m := c.fork()
			a.walkStmt(v.Else, m)
		}
	case *ast.ForStmt:
		a.walkStmt(v.Init, c)
		if v.Cond != nil {
			a.walkExpr(v.Cond, c, false)
		}
		n := c.fork()
		a.walkBlock(v.Body.List, n)
	case *ast.RangeStmt:
		a.walkExpr(v.X, c, false)
		if t := a.typeOf(v.X, c); t != nil && t.Elem != nil {
			if id, ok := v.Value.(*ast.Ident); ok && id != nil {
				c.env[id.Name] = t.Elem
			}
		}
		n := c.fork()
		a.walkBlock(v.Body.List, n)
	case *ast.SwitchStmt:
		a.walkStmt(v.Init, c)
		if v.Tag != nil {
			a.walkExpr(v.Tag, c, false)
		}
		for _, cc := range v.Body.List {
			n := c.fork()
			a.walkBlock(cc.(*ast.CaseClause).Body, n)
		}
	case *ast.TypeSwitchStmt:
		a.walkStmt(v.Init, c)
		// x := y.(type): give x the case's type when it is a single named type
		var bind string
		var src ast.Expr
		if as, ok := v.Assign.(*ast.AssignStmt); ok && len(as.Lhs) == 1 {
			if id, ok := as.Lhs[0].(*ast.Ident); ok {
				bind = id.Name
			}
			if ta, ok := as.Rhs[0].(*ast.TypeAssertExpr); ok {
				src = ta.X
			}
		}
		_ = src
		for _, cc := range v.Body.List {
			cl := cc.(*ast.CaseClause)
			n := c.fork()
			if bind != "" && len(cl.List) == 1 {
				env := map[string]*ltyp{}
				for k, vv := range c.env {
					env[k] = vv
				}
				if t := a.typeFromExpr(cl.List[0], c.fn); t != nil {
					env[bind] = t
				}
				n.env = env
			}
			a.walkBlock(cl.Body, n)
		}
	case *ast.SelectStmt:
		for _, cc := range v.Body.List {
			cl := cc.(*ast.CommClause)
			n := c.fork()
			a.walkStmt(cl.Comm, n)
			a.walkBlock(cl.Body, n)
		}
	case *ast.SendStmt:
		a.walkExpr(v.Value, c, false)
	case *ast.LabeledStmt:
		a.walkStmt(v.Stmt, c)
	case *ast.IncDecStmt, *ast.BranchStmt, *ast.EmptyStmt:
	}
}

func (a *lockAn) calleeName(call *ast.CallExpr, c *lctx) string {
	if sel, ok := call.Fun.(*ast.SelectorExpr); ok {
		if id, ok := sel.X.(*ast.Ident); ok && c.env[id.Name] == nil {
			if real, isPkg := c.fn.imps[id.Name]; isPkg {
				return real + "." + sel.Sel.Name
			}
		}
		if t := a.typeOf(sel.X, c); t != nil && t.Named != "" {
			return t.Named + "." + sel.Sel.Name
		}
	}
	return exprText(call.Fun)
}

func (a *lockAn) walkExpr(e ast.Expr, c *lctx, _ bool) {
	switch v := e.(type) {
	case nil:
	case *ast.CallExpr:
		// lock operations
		if sel, ok := v.Fun.(*ast.SelectorExpr); ok && len(v.Args) == 0 {
			if acq, isOp := isLockOp(sel.Sel.Name); isOp {
				// a gluon type with its own Lock method is a call, not a lock
				if f := a.resolve(v, c); f == nil {
					l := a.lockName(sel.X, c)
					if acq {
						a.acquire(l, c)
					} else {
						a.release(l, c)
					}
					return
				}
			}
			if sel.Sel.Name == "Wait" && len(c.held) > 0 {
				w := a.calleeName(v, c)
				if !strings.Contains(w, "cond") {
					for _, h := range c.held {
						k := [2]string{h, a.lockName(sel.X, c) + ".Wait"}
						if _, ok := a.waits[k]; !ok {
							a.waits[k] = strings.Join(c.path, " > ")
						}
					}
				}
			}
		}
		// arguments first (they are evaluated before the call); function literals are handled with the callee
		for _, arg := range v.Args {
			if _, isLit := arg.(*ast.FuncLit); !isLit {
				a.walkExpr(arg, c, false)
			}
		}
		if sel, ok := v.Fun.(*ast.SelectorExpr); ok {
			a.walkExpr(sel.X, c, false)
		}
		// invocation of a bound function parameter / local closure
		if id, ok := v.Fun.(*ast.Ident); ok {
			if cl, ok := c.clos[id.Name]; ok {
				a.walkClosure(cl, c, "func literal")
				return
			}
		}
		if fl, ok := v.Fun.(*ast.FuncLit); ok { // func(){...}()
			a.walkClosure(&lclosure{lit: fl, fn: c.fn, env: c.env, clos: c.clos}, c, "func literal")
			return
		}
		name := a.calleeName(v, c)
		f := a.resolve(v, c)
		async := asyncSpawners[name] || (f != nil && asyncSpawners[f.key])
		if async {
			n := c.fork()
			n.held = nil
			n.depth = 0
			n.path = []string{c.fn.key, name + " (new goroutine)"}
			for _, arg := range v.Args {
				if fl, ok := arg.(*ast.FuncLit); ok {
					a.walkClosure(&lclosure{lit: fl, fn: c.fn, env: c.env, clos: c.clos}, n, "func literal")
				}
			}
			return
		}
		if f != nil {
			a.walkFunc(f, v, c)
			return
		}
		// unresolved: function literals handed to it are assumed to run within the call (conservative)
		for _, arg := range v.Args {
			if fl, ok := arg.(*ast.FuncLit); ok {
				a.walkClosure(&lclosure{lit: fl, fn: c.fn, env: c.env, clos: c.clos}, c, "func literal passed to "+name)
			}
		}
		if len(c.held) > 0 {
			for _, h := range c.held {
				a.unres[[2]string{h, name}] = true
			}
		}
	case *ast.ParenExpr:
		a.walkExpr(v.X, c, false)
	case *ast.UnaryExpr:
		a.walkExpr(v.X, c, false)
	case *ast.BinaryExpr:
		a.walkExpr(v.X, c, false)
		a.walkExpr(v.Y, c, false)
	case *ast.SelectorExpr:
		a.walkExpr(v.X, c, false)
	case *ast.IndexExpr:
		a.walkExpr(v.X, c, false)
		a.walkExpr(v.Index, c, false)
	case *ast.StarExpr:
		a.walkExpr(v.X, c, false)
	case *ast.TypeAssertExpr:
		a.walkExpr(v.X, c, false)
	case *ast.CompositeLit:
		for _, el := range v.Elts {
			if kv, ok := el.(*ast.KeyValueExpr); ok {
				a.walkExpr(kv.Value, c, false)
			} else {
				a.walkExpr(el, c, false)
			}
		}
	case *ast.KeyValueExpr:
		a.walkExpr(v.Value, c, false)
	case *ast.FuncLit:
		// a literal that is stored or returned: followed as a root of its own (nothing held)
		n := c.fork()
		n.held = nil
		a.walkClosure(&lclosure{lit: v, fn: c.fn, env: c.env, clos: c.clos}, n, "func literal (stored)")
	}
}

func factsLocks(t *T) (string, error) {
	a := &lockAn{t: t, funcs: map[string]*lfunc{}, byName: map[string][]*lfunc{}, fields: map[string]map[string]*ltyp{},
		isIface: map[string]bool{}, edges: map[[2]string]string{}, locks: map[string]bool{}, waits: map[[2]string]string{},
		unres: map[[2]string]bool{}, memo: map[string]bool{}}
	if err := a.load(); err != nil {
		return "", err
	}
	for _, anchor := range []string{"backend.user.removeState", "backend.user.forState", "backend.user.close", "backend.Backend.Close",
		"backend.Backend.RemoveUser", "backend.Backend.GetState", "sqlite3.Client.wrapTx", "sqlite3.Client.Read", "async.QueuedChannel.Enqueue",
		"state.State.QueueUpdates", "backend.StateUserInterfaceImpl.QueueOrApplyStateUpdate", "session.Session.done", "gluon.Server.Close",
		"store.WriteControlledStore.Get", "state.State.ReleaseState"} {
		if a.funcs[anchor] == nil {
			return "", fmt.Errorf("anchor function %s not found", anchor)
		}
	}
	keys := make([]string, 0, len(a.funcs))
	for k := range a.funcs {
		keys = append(keys, k)
	}
	sort.Strings(keys)
	for _, k := range keys {
		f := a.funcs[k]
		a.walkFunc(f, nil, &lctx{fn: f, env: map[string]*ltyp{}, clos: map[string]*lclosure{}})
	}
	// locks the state-release path may take
	rel := map[string]bool{}
	a.collect = &rel
	for _, k := range []string{"state.State.ReleaseState", "backend.user.removeState"} {
		f := a.funcs[k]
		a.walkFunc(f, nil, &lctx{fn: f, env: map[string]*ltyp{}, clos: map[string]*lclosure{}})
	}
	a.collect = nil

	var sb strings.Builder
	sb.WriteString("(* Lock nestings read off the source (T1, extractor Locks): see /verif/translator/facts_locks.go for the method. *)\n")
	sb.WriteString("From Coq Require Import List String.\nImport ListNotations.\nOpen Scope string_scope.\n\n")
	var locks []string
	for l := range a.locks {
		locks = append(locks, l)
	}
	sort.Strings(locks)
	sb.WriteString("Definition lock_names : list string :=\n  [")
	for i, l := range locks {
		if i > 0 {
			sb.WriteString(";\n   ")
		}
		sb.WriteString(coqString(l))
	}
	sb.WriteString("].\n\n")
	sb.WriteString("(* (lock held, lock requested, one path on which this happens) *)\nDefinition lock_edges : list (string * string * string) :=\n  [")
	ek := append([][2]string{}, a.edgeOrd...)
	sort.Slice(ek, func(i, j int) bool {
		if ek[i][0] != ek[j][0] {
			return ek[i][0] < ek[j][0]
		}
		return ek[i][1] < ek[j][1]
	})
	for i, k := range ek {
		if i > 0 {
			sb.WriteString(";\n   ")
		}
		sb.WriteString("(" + coqString(k[0]) + ", " + coqString(k[1]) + ", " + coqString(a.edges[k]) + ")")
	}
	sb.WriteString("].\n\n")
	sb.WriteString("(* (lock held, what is waited for, path): blocking waits on wait groups / queues while a lock is held *)\nDefinition waits_under_lock : list (string * string * string) :=\n  [")
	var wk [][2]string
	for k := range a.waits {
		wk = append(wk, k)
	}
	sort.Slice(wk, func(i, j int) bool {
		if wk[i][0] != wk[j][0] {
			return wk[i][0] < wk[j][0]
		}
		return wk[i][1] < wk[j][1]
	})
	for i, k := range wk {
		if i > 0 {
			sb.WriteString(";\n   ")
		}
		sb.WriteString("(" + coqString(k[0]) + ", " + coqString(k[1]) + ", " + coqString(a.waits[k]) + ")")
	}
	sb.WriteString("].\n\n")
	var rl []string
	for l := range rel {
		rl = append(rl, l)
	}
	sort.Strings(rl)
	sb.WriteString("(* every lock that State.ReleaseState / user.removeState and the functions they call may take *)\nDefinition release_path_locks : list string :=\n  [")
	for i, l := range rl {
		if i > 0 {
			sb.WriteString("; ")
		}
		sb.WriteString(coqString(l))
	}
	sb.WriteString("].\n\n")
	var uk [][2]string
	for k := range a.unres {
		uk = append(uk, k)
	}
	sort.Slice(uk, func(i, j int) bool {
		if uk[i][0] != uk[j][0] {
			return uk[i][0] < uk[j][0]
		}
		return uk[i][1] < uk[j][1]
	})
	sb.WriteString("(* calls made under a lock that were not followed (other packages, interface values without a binding): for inspection *)\nDefinition unresolved_calls_under_lock : list (string * string) :=\n  [")
	for i, k := range uk {
		if i > 0 {
			sb.WriteString(";\n   ")
		}
		sb.WriteString("(" + coqString(k[0]) + ", " + coqString(k[1]) + ")")
	}
	sb.WriteString("].\n\n")
	sb.WriteString(fmt.Sprintf("Definition locks_functions_analysed : nat := %d.\n", len(a.funcs)))
	return sb.String(), nil
}
