(* C10/C11 — the facts about the GENERATED tables (Gen/FactsTokens.v) that the proofs rely on.  Every lemma here is
   closed by computation over the tables; when the code changes so that one of them no longer holds, this file stops
   compiling and names the fact (e.g. `quoted_char_eof`: IsQuotedChar(EOF) must be false or ParseQuoted never
   terminates at the end of the input). *)
From Coq Require Import List NArith Bool Lia.
From Gluon Require Import Gen.FactsTokens Model.ImapTokens.
Import ListNotations.
Open Scope N_scope.

(* ---- finite sweeps *)
Lemma byte_range_complete : forall b, b < 256 -> In b byte_range.
Proof.
  intros b Hb. unfold byte_range.
  apply in_map_iff. exists (N.to_nat b). split; [apply N2Nat.id|].
  apply in_seq. lia.
Qed.

Lemma forall_byte (P : N -> bool) :
  forallb P byte_range = true -> forall b, b < 256 -> P b = true.
Proof.
  intros H b Hb. rewrite forallb_forall in H. apply H. apply byte_range_complete; exact Hb.
Qed.

Lemma tok_of_byte_big : forall b, 256 <= b -> tok_of_byte b = TT_Error.
Proof.
  intros b Hb. unfold tok_of_byte. apply nth_overflow.
  change (length scan_table) with 256%nat. lia.
Qed.

(* every byte: a property of the token that holds for all table entries and for the default *)
Lemma forall_tok_of_byte (P : N -> N -> bool) :
  forallb (fun b => P b (tok_of_byte b)) byte_range = true ->
  (forall b, 256 <= b -> P b TT_Error = true) ->
  forall b, P b (tok_of_byte b) = true.
Proof.
  intros H Hd b. destruct (N.ltb_spec b 256) as [Hb|Hb].
  - exact (forall_byte (fun b => P b (tok_of_byte b)) H b Hb).
  - rewrite (tok_of_byte_big b Hb). apply Hd. exact Hb.
Qed.

(* ---- the scanner: end of input *)
Lemma scan_eof_is_EOF : scan_eof = TT_EOF /\ scan_eof_again = TT_EOF /\ scan_eof_value = 0.
Proof. repeat split. Qed.

(* ---- CR, LF, "}" are exactly the bytes 13, 10, 125 *)
Lemma tok_CR : forall b, tok_of_byte b = TT_CR <-> b = 13.
Proof.
  intro b. split.
  - intro H.
    assert (X : (negb (tok_of_byte b =? TT_CR) || (b =? 13)) = true).
    { apply (forall_tok_of_byte (fun b t => negb (t =? TT_CR) || (b =? 13))); [vm_compute; reflexivity|reflexivity]. }
    rewrite H, N.eqb_refl in X. cbn in X. apply N.eqb_eq. exact X.
  - intros ->. reflexivity.
Qed.
Lemma tok_LF : forall b, tok_of_byte b = TT_LF <-> b = 10.
Proof.
  intro b. split.
  - intro H.
    assert (X : (negb (tok_of_byte b =? TT_LF) || (b =? 10)) = true).
    { apply (forall_tok_of_byte (fun b t => negb (t =? TT_LF) || (b =? 10))); [vm_compute; reflexivity|reflexivity]. }
    rewrite H, N.eqb_refl in X. cbn in X. apply N.eqb_eq. exact X.
  - intros ->. reflexivity.
Qed.
Lemma tok_RCurly : forall b, tok_of_byte b = TT_RCurly <-> b = 125.
Proof.
  intro b. split.
  - intro H.
    assert (X : (negb (tok_of_byte b =? TT_RCurly) || (b =? 125)) = true).
    { apply (forall_tok_of_byte (fun b t => negb (t =? TT_RCurly) || (b =? 125))); [vm_compute; reflexivity|reflexivity]. }
    rewrite H, N.eqb_refl in X. cbn in X. apply N.eqb_eq. exact X.
  - intros ->. reflexivity.
Qed.
Lemma tok_SP : forall b, tok_of_byte b = TT_SP <-> b = 32.
Proof.
  intro b. split.
  - intro H.
    assert (X : (negb (tok_of_byte b =? TT_SP) || (b =? 32)) = true).
    { apply (forall_tok_of_byte (fun b t => negb (t =? TT_SP) || (b =? 32))); [vm_compute; reflexivity|reflexivity]. }
    rewrite H, N.eqb_refl in X. cbn in X. apply N.eqb_eq. exact X.
  - intros ->. reflexivity.
Qed.

(* a predicate on tokens that rejects CR and LF never accepts the bytes 13 and 10 *)
Definition rejects_crlf (f : N -> bool) : Prop := f TT_CR = false /\ f TT_LF = false.
Lemma rejects_crlf_byte : forall f b, rejects_crlf f -> f (tok_of_byte b) = true -> b <> 13 /\ b <> 10.
Proof.
  intros f b [Hc Hl] H. split; intros ->.
  - change (tok_of_byte 13) with TT_CR in H. congruence.
  - change (tok_of_byte 10) with TT_LF in H. congruence.
Qed.

(* ---- what the loops of the parser rely on to stop at the end of the input: no predicate accepts the EOF token *)
Lemma quoted_char_eof : is_quoted_char scan_eof = false.          (* D4: IsQuotedChar(EOF) *)
Proof. reflexivity. Qed.
Lemma quoted_special_eof : is_quoted_special scan_eof = false.
Proof. reflexivity. Qed.
Lemma quoted_escape_is_special : forall t, quoted_escape_ok t = is_quoted_special t.   (* the escape takes only \ and the double quote *)
Proof. intro t. reflexivity. Qed.
(* the scanner classifies every byte: ScanToken never fails on a byte (a failure is not a parser error: the reader would end) *)
Lemma scanner_total : forall b, b < 256 -> tok_of_byte b <> TT_Error.
Proof.
  intros b Hb E.
  assert (X : forallb (fun b => negb (tok_of_byte b =? TT_Error)) byte_range = true) by (vm_compute; reflexivity).
  pose proof (forall_byte _ X b Hb) as Y. cbv beta in Y. rewrite E in Y. discriminate Y.
Qed.
Lemma recent_only_with_backslash : recent_rejected_only_with_backslash = true.   (* the keyword recent is a valid flag *)
Proof. reflexivity. Qed.
(* the command builders never take a data character with a bare Advance(): every character is checked against a token class,
   so no builder can step over the CR LF that ends a line *)
Lemma builders_use_checked_tokens : builders_bare_advance_calls = 0 /\ parse_initial_advance_calls = 1.
Proof. split; reflexivity. Qed.
Lemma atom_char_eof : is_atom_char scan_eof = false.
Proof. reflexivity. Qed.
Lemma astring_char_eof : is_astring_char scan_eof = false.
Proof. reflexivity. Qed.
Lemma tag_char_eof : is_tag_char scan_eof = false.
Proof. reflexivity. Qed.
Lemma list_char_eof : is_list_char scan_eof = false.
Proof. reflexivity. Qed.
Lemma digit_not_eof : (scan_eof =? TT_Digit) = false.
Proof. reflexivity. Qed.

(* ---- a command line ends at its CRLF: no character class contains CR or LF *)
Lemma quoted_char_crlf : rejects_crlf is_quoted_char.              (* QUOTED-CHAR is a TEXT-CHAR *)
Proof. split; reflexivity. Qed.
Lemma quoted_special_crlf : rejects_crlf is_quoted_special.
Proof. split; reflexivity. Qed.
Lemma atom_char_crlf : rejects_crlf is_atom_char.
Proof. split; reflexivity. Qed.
Lemma astring_char_crlf : rejects_crlf is_astring_char.
Proof. split; reflexivity. Qed.
Lemma tag_char_crlf : rejects_crlf is_tag_char.
Proof. split; reflexivity. Qed.
Lemma list_char_crlf : rejects_crlf is_list_char.
Proof. split; reflexivity. Qed.

(* ---- guards of ParseLiteral and of the session (read from the source) *)
Lemma literal_guards_are_parser_errors :                            (* D20 *)
  literal_min_guard_is_parser_error = true /\ literal_cap_guard_is_parser_error = true.
Proof. split; reflexivity. Qed.
Lemma literal_zero_safe : (literal_min_size =? 0) = true -> literal_zero_returns_early = true.
Proof. vm_compute. intro H; first [reflexivity | discriminate H]. Qed.
Lemma literal_cap_value : literal_cap = 31457280.
Proof. reflexivity. Qed.
Lemma max_session_error_value : max_session_error = 20 /\ session_error_close_cmp_ge = true.
Proof. split; reflexivity. Qed.
Lemma session_facts :
  session_error_reset_on_success = true /\ session_bad_uses_command_tag = true /\
  parse_trailing_error_keeps_tag = true /\ reader_returns_on_iseof = false /\
  reader_ends_on_non_parser_error = true /\ reader_skips_rest_of_line = true /\
  starttls_unavailable_sends_no = true.
Proof. repeat split. Qed.

(* ---- ByteToLower *)
Lemma to_lower_13 : to_lower 13 = 13.
Proof. reflexivity. Qed.
Lemma to_lower_10 : to_lower 10 = 10.
Proof. reflexivity. Qed.
