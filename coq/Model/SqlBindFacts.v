(* Types of the facts that the translator (T1, /verif/translator/facts_sqlbind.go) extracts from
   /repo/internal/db_impl/sqlite3/{write_ops,read_ops}.go and /repo/db/client.go into Gen/FactsSqlBind.v,
   and the decidable checks that Props/C08.v evaluates on the GENERATED tables.

   For every loop   for _, chunk := range xslices.Chunk(X, N) { ... stmt_0 ... stmt_1 ... }
   and every SQL statement executed inside it the translator records
     - the Go method, the index of the statement in the loop body, the chunk size N (constant-folded) and its text,
     - the number of '?' placeholders of the statement as a symbolic sum of products  coef * len(v1) * len(v2) ...,
     - the number of bind arguments the code passes, in the same form,
     - from which slice the bind arguments are built: the loop variable (`chunk`) or the whole chunked slice.
   go-sqlite3 binds the first k arguments of a statement with k placeholders, silently ignores surplus arguments
   and fails when there are too few; so a statement is right only when both counts agree and the arguments come
   from the chunk.

   For every statement builder (fmt.Sprintf of a query text) the translator records the SQL verb and the Go
   identifier that is substituted for the table name. *)
From Coq Require Import String List NArith Bool.
Import ListNotations.
Open Scope string_scope.

(* which list a length refers to *)
Inductive lenvar :=
| VChunk                 (* len(chunk): the loop variable *)
| VWhole                 (* len(X): the slice that is being chunked *)
| VOther (name : string) (* any other slice, e.g. flagSlice *).

(* a count is a sum of terms  coef * len(v1) * len(v2) * ... ; a constant is a term without variables.
   The translator emits counts normalised (like terms merged, no zero coefficients). *)
Record term := mkTerm { t_coef : N; t_vars : list lenvar }.
Definition cnt := list term.

Inductive src := FromChunk | FromWhole | FromUnknown.

Record stmt_fact := mkStmtFact {
  sf_op : string;        (* Go method *)
  sf_idx : nat;          (* statement index inside the loop body (source order) *)
  sf_chunk : N;          (* chunk size, constant-folded *)
  sf_chunk_text : string;
  sf_ph : cnt;           (* placeholders *)
  sf_args : cnt;         (* bind arguments *)
  sf_args_src : src;
  sf_needs_even : bool   (* the placeholder count is written len(chunk)/2 groups of 2: right only for even chunks *)
}.

Record sql_fact := mkSqlFact {
  q_op : string;         (* Go method *)
  q_idx : nat;           (* index of the query text inside the method (source order) *)
  q_verb : string;       (* first word of the statement text *)
  q_table : string       (* Go expression substituted for the table name, or the literal table name *)
}.

Definition lenvar_eqb (a b : lenvar) : bool :=
  match a, b with
  | VChunk, VChunk => true
  | VWhole, VWhole => true
  | VOther x, VOther y => String.eqb x y
  | _, _ => false
  end.

Fixpoint lv_remove1 (x : lenvar) (l : list lenvar) : option (list lenvar) :=
  match l with
  | [] => None
  | y :: t => if lenvar_eqb x y then Some t
              else match lv_remove1 x t with Some t' => Some (y :: t') | None => None end
  end.

(* equality of the variable lists as multisets *)
Fixpoint lv_perm (a b : list lenvar) : bool :=
  match a with
  | [] => match b with [] => true | _ => false end
  | x :: t => match lv_remove1 x b with Some b' => lv_perm t b' | None => false end
  end.

Definition term_eqb (a b : term) : bool := N.eqb (t_coef a) (t_coef b) && lv_perm (t_vars a) (t_vars b).

Fixpoint term_remove1 (x : term) (l : list term) : option (list term) :=
  match l with
  | [] => None
  | y :: t => if term_eqb x y then Some t
              else match term_remove1 x t with Some t' => Some (y :: t') | None => None end
  end.

(* equality of two normalised counts: same terms up to order *)
Fixpoint cnt_eqb (a b : cnt) : bool :=
  match a with
  | [] => match b with [] => true | _ => false end
  | x :: t => match term_remove1 x b with Some b' => cnt_eqb t b' | None => false end
  end.

Definition src_is_chunk (s : src) : bool := match s with FromChunk => true | _ => false end.

Definition mentions_whole (c : cnt) : bool :=
  existsb (fun t => existsb (fun v => lenvar_eqb v VWhole) (t_vars t)) c.

(* the per-statement check *)
Definition groups_match (f : stmt_fact) : bool := cnt_eqb (sf_ph f) (sf_args f).

Definition stmt_ok (f : stmt_fact) : bool :=
  src_is_chunk (sf_args_src f) && groups_match f
  && negb (mentions_whole (sf_ph f)) && negb (mentions_whole (sf_args f))
  && N.ltb 0 (sf_chunk f)
  && (negb (sf_needs_even f) || N.even (sf_chunk f)).

Definition sql_verbs : list string := ["SELECT"; "INSERT"; "UPDATE"; "DELETE"; "DROP"; "CREATE"].

Definition str_in (s : string) (l : list string) : bool := existsb (String.eqb s) l.

(* suffix test *)
Fixpoint str_rev_aux (s acc : string) : string :=
  match s with EmptyString => acc | String c t => str_rev_aux t (String c acc) end.
Definition str_rev (s : string) : string := str_rev_aux s EmptyString.
Definition str_suffix (suf s : string) : bool := String.prefix (str_rev suf) (str_rev s).

(* a table position must be filled by a `...TableName` constant, the per-mailbox table name function, or a literal
   table name that the translator found spelled out in the query text (prefix "lit:") *)
Definition table_ident_ok (t : string) : bool :=
  str_suffix "TableName" t || String.eqb t "tableName" (* parameter of the createFlags closure in CreateMailbox *) || String.prefix "v1.MailboxMessageTableName(" t || String.prefix "lit:" t.

Definition sql_ok (q : sql_fact) : bool := str_in (q_verb q) sql_verbs && table_ident_ok (q_table q).

(* wrappers: every method of utils.ReadTracer / utils.WriteTracer must hand its call on to the method of the same name
   of the wrapped object with its own parameters in the same order *)
Record tracer_fact := mkTracerFact {
  tf_recv : string;       (* ReadTracer / WriteTracer *)
  tf_method : string;
  tf_callee : string;     (* method called on the wrapped object in the return statement ("?" = no such statement) *)
  tf_args_same : bool     (* the arguments are exactly the parameters, in order *)
}.
Definition tracer_ok (f : tracer_fact) : bool := String.eqb (tf_method f) (tf_callee f) && tf_args_same f.

(* bind order: for every statement whose placeholders are all written out as `?` and whose text names the column of each
   placeholder (`col` = ?   or   (`c1`, `c2`) VALUES (?,?)), the i-th placeholder's column constant and the declared Go
   type of the i-th bind argument when that argument is a parameter of the method ("?" otherwise) *)
Record bind_fact := mkBindFact {
  bf_op : string;
  bf_idx : nat;          (* statement index inside the method (source order of the executed calls) *)
  bf_pos : nat;          (* placeholder number *)
  bf_column : string;    (* Go expression substituted for the column name *)
  bf_arg : string;       (* source text of the bind argument *)
  bf_type : string       (* declared type of the argument, "?" if it is not a parameter *)
}.

(* which Go types may be bound to a column, decided by the column constant's name *)
Definition column_types (col : string) : option (list string) :=
  if str_suffix "FieldMessageRemoteID" col || str_suffix "FieldRemoteID" col then Some ["imap.MailboxID"; "imap.MessageID"]
  else if str_suffix "FieldMessageID" col || str_suffix "FieldMailboxID" col || str_suffix "FieldID" col
       then Some ["imap.InternalMailboxID"; "imap.InternalMessageID"; "int"]
  else if str_suffix "FieldName" col || str_suffix "FieldValue" col then Some ["string"]
  else if str_suffix "FieldUIDValidity" col || str_suffix "FieldUID" col then Some ["imap.UID"]
  else if str_suffix "FieldSubscribed" col || str_suffix "FieldDeleted" col || str_suffix "FieldRecent" col then Some ["bool"]
  else None.

Definition bind_ok (f : bind_fact) : bool :=
  if String.eqb (bf_type f) "?" then true
  else match column_types (bf_column f) with
       | Some l => str_in (bf_type f) l
       | None => true
       end.

Definition find_stmt (op : string) (idx : nat) (tbl : list stmt_fact) : option stmt_fact :=
  find (fun f => String.eqb (sf_op f) op && Nat.eqb (sf_idx f) idx) tbl.
