(* C06 — a FLAT list of k-tuples cut into chunks of n values (writeOps.CreateMessages: the (message id, flag) pairs of a
   MessagesCreated batch, chunked by db.ChunkLimit): the chunks consist of whole tuples iff k divides n.
   Chunk model: Model/CrashSteps.v cs_chunks (xslices.Chunk), cs_row_chunks, cs_flat_groups_ok. *)
From Coq Require Import List Arith NArith Bool Lia PeanoNat.
From Gluon Require Import Model.CrashSteps.
Import ListNotations.
Local Open Scope nat_scope.

Section ChunkTuples.
  Context {A : Type}.

  Lemma ct_skipn_len_app : forall (l1 l2 : list A) n, skipn (length l1 + n) (l1 ++ l2) = skipn n l2.
  Proof. induction l1 as [|x l1 IH]; intros l2 n; simpl; [reflexivity | apply IH]. Qed.

  Lemma ct_Forall_skipn : forall (P : list A -> Prop) n l, Forall P l -> Forall P (skipn n l).
  Proof.
    intros P n. induction n as [|n IH]; intros l H; simpl; [exact H|].
    destruct l as [|x l]; [constructor|]. inversion H; auto.
  Qed.

  Lemma ct_Forall_firstn : forall (P : list A -> Prop) n l, Forall P l -> Forall P (firstn n l).
  Proof.
    intros P n. induction n as [|n IH]; intros l H; simpl; [constructor|].
    destruct l as [|x l]; [constructor|]. inversion H; constructor; auto.
  Qed.

  Lemma chunks_fuel_step : forall (B : Type) f n (l : list B), l <> [] ->
    cs_chunks_fuel (S f) n l = firstn n l :: cs_chunks_fuel f n (skipn n l).
  Proof. intros B f n l H. destruct l; [congruence | reflexivity]. Qed.

  Lemma chunks_fuel_nil : forall (B : Type) f n, cs_chunks_fuel f n (@nil B) = [].
  Proof. intros B f n. destruct f; reflexivity. Qed.

  Variable k : nat.
  Hypothesis Hk : 0 < k.

  Definition rows_ok (rows : list (list A)) : Prop := Forall (fun r => length r = k) rows.

  Lemma rows_concat_length : forall rows, rows_ok rows -> length (concat rows) = length rows * k.
  Proof.
    induction rows as [|r rows IH]; intros H; simpl; [reflexivity|].
    inversion H as [|r' rows' Hr Hrows]. rewrite app_length, IH by exact Hrows. lia.
  Qed.

  Lemma firstn_rows : forall q rows, rows_ok rows -> firstn (q * k) (concat rows) = concat (firstn q rows).
  Proof.
    induction q as [|q IH]; intros rows H; simpl; [reflexivity|].
    destruct rows as [|r rows]; simpl; [apply firstn_nil|].
    inversion H as [|r' rows' Hr Hrows]. rewrite <- Hr at 1. rewrite firstn_app_2. f_equal. apply IH. exact Hrows.
  Qed.

  Lemma skipn_rows : forall q rows, rows_ok rows -> skipn (q * k) (concat rows) = concat (skipn q rows).
  Proof.
    induction q as [|q IH]; intros rows H; simpl; [reflexivity|].
    destruct rows as [|r rows]; simpl; [apply skipn_nil|].
    inversion H as [|r' rows' Hr Hrows]. rewrite <- Hr at 1. rewrite ct_skipn_len_app. apply IH. exact Hrows.
  Qed.

  Lemma chunks_fuel_rows : forall f1 f2 q rows, 0 < q -> rows_ok rows ->
    length (concat rows) <= f1 -> length rows <= f2 ->
    cs_chunks_fuel f1 (q * k) (concat rows) = map (@concat A) (cs_chunks_fuel f2 q rows).
  Proof.
    induction f1 as [|f1 IH]; intros f2 q rows Hq Hr H1 H2.
    - destruct rows as [|r rows]; [simpl concat; rewrite !chunks_fuel_nil; reflexivity|].
      exfalso. rewrite rows_concat_length in H1 by exact Hr. simpl in H1. lia.
    - destruct rows as [|r rows]; [simpl concat; rewrite !chunks_fuel_nil; reflexivity|].
      destruct f2 as [|f2]; [simpl in H2; lia|].
      assert (Hne : concat (r :: rows) <> []).
      { intro E. apply (f_equal (@length A)) in E. rewrite rows_concat_length in E by exact Hr. simpl in E. lia. }
      rewrite (chunks_fuel_step A f1 (q * k) _ Hne).
      rewrite (chunks_fuel_step (list A) f2 q (r :: rows)) by discriminate.
      cbn [map]. f_equal; [apply firstn_rows; exact Hr|].
      rewrite skipn_rows by exact Hr. apply IH.
      + exact Hq.
      + apply ct_Forall_skipn. exact Hr.
      + rewrite <- skipn_rows by exact Hr. rewrite skipn_length.
        assert (0 < q * k) by (apply Nat.mul_pos_pos; assumption). lia.
      + rewrite skipn_length. simpl length in *. lia.
  Qed.

  (* k | n: cutting the flat list into chunks of n values IS cutting the row list into chunks of n/k rows *)
  Lemma chunks_keep_tuples : forall n rows, 0 < n -> Nat.divide k n -> rows_ok rows ->
    cs_chunks n (concat rows) = cs_row_chunks k n rows.
  Proof.
    intros n rows Hn [q Hq] Hr. subst n. unfold cs_row_chunks. rewrite Nat.div_mul by lia.
    unfold cs_chunks. apply chunks_fuel_rows; try lia; try exact Hr.
  Qed.

  Lemma chunks_fuel_rows_ok : forall f q rows, rows_ok rows -> Forall rows_ok (cs_chunks_fuel f q rows).
  Proof.
    induction f as [|f IH]; intros q rows H; [constructor|].
    destruct rows as [|r rows]; [constructor|].
    rewrite chunks_fuel_step by discriminate. constructor.
    - apply ct_Forall_firstn. exact H.
    - apply IH. apply ct_Forall_skipn. exact H.
  Qed.

  (* hence every chunk has a whole number of tuples *)
  Lemma chunks_whole_tuples : forall n rows, 0 < n -> Nat.divide k n -> rows_ok rows ->
    Forall (fun c => Nat.divide k (length c)) (cs_chunks n (concat rows)).
  Proof.
    intros n rows Hn Hd Hr. rewrite chunks_keep_tuples by assumption. unfold cs_row_chunks.
    apply Forall_forall. intros c Hc. apply in_map_iff in Hc. destruct Hc as [rs [Hrs Hin]]. subst c.
    pose proof (chunks_fuel_rows_ok (length rows) (n / k) rows Hr) as HF.
    rewrite Forall_forall in HF. specialize (HF rs Hin).
    exists (length rs). apply rows_concat_length. exact HF.
  Qed.

  (* k does not divide n: as soon as there are more than n values the first chunk ends inside a tuple *)
  Lemma chunks_split_tuples : forall n (x : A), 0 < n -> ~ Nat.divide k n ->
    exists rows c, rows_ok rows /\ In c (cs_chunks n (concat rows)) /\ ~ Nat.divide k (length c).
  Proof.
    intros n x Hn Hnd. set (rows := repeat (repeat x k) n).
    assert (Hr : rows_ok rows).
    { apply Forall_forall. intros r Hin. apply repeat_spec in Hin. subst r. apply repeat_length. }
    assert (Hlen : length (concat rows) = n * k).
    { rewrite rows_concat_length by exact Hr. unfold rows. rewrite repeat_length. reflexivity. }
    exists rows, (firstn n (concat rows)). split; [exact Hr|]. split.
    - unfold cs_chunks. rewrite Hlen.
      assert (Hpos : 0 < n * k) by (apply Nat.mul_pos_pos; assumption).
      destruct (n * k) as [|m] eqn:E; [lia|].
      rewrite chunks_fuel_step; [left; reflexivity|].
      intro E0. rewrite E0 in Hlen. simpl in Hlen. lia.
    - rewrite firstn_length, Hlen.
      assert (n <= n * k) by (destruct k; [lia | rewrite Nat.mul_succ_r; lia]).
      rewrite Nat.min_l by assumption. exact Hnd.
  Qed.

  Lemma chunks_keep_tuples_iff : forall n (x : A), 0 < n ->
    (forall rows, rows_ok rows -> Forall (fun c => Nat.divide k (length c)) (cs_chunks n (concat rows)))
    <-> Nat.divide k n.
  Proof.
    intros n x Hn. split.
    - intros H. destruct (Nat.eq_dec (n mod k) 0) as [E|E].
      + apply Nat.mod_divide; [lia | exact E].
      + exfalso. assert (Hnd : ~ Nat.divide k n) by (intro D; apply E; apply Nat.mod_divide; [lia | exact D]).
        destruct (chunks_split_tuples n x Hn Hnd) as [rows [c [Hr [Hin Hc]]]].
        specialize (H rows Hr). rewrite Forall_forall in H. exact (Hc (H c Hin)).
    - intros Hd rows Hr. apply chunks_whole_tuples; assumption.
  Qed.
End ChunkTuples.

(* the check over the loops found in the source gives the divisibility the lemmas need *)
Lemma flat_groups_ok_spec : forall l, cs_flat_groups_ok l = true ->
  forall q k n, In (q, k, n) l -> q = k /\ 0 < N.to_nat k /\ Nat.divide (N.to_nat k) (N.to_nat n).
Proof.
  intros l H q k n Hin. unfold cs_flat_groups_ok in H. rewrite forallb_forall in H. specialize (H _ Hin). cbn in H.
  apply andb_true_iff in H. destruct H as [H H3]. apply andb_true_iff in H. destruct H as [H1 H2].
  apply N.eqb_eq in H1. apply N.ltb_lt in H2. apply N.eqb_eq in H3.
  split; [exact H1|]. split; [lia|].
  apply N.mod_divide in H3; [|lia]. destruct H3 as [c Hc]. exists (N.to_nat c). subst n.
  rewrite N2Nat.inj_mul. reflexivity.
Qed.

Lemma flat_groups_keep_rows : forall l, cs_flat_groups_ok l = true ->
  forall (A : Type) q k n (rows : list (list A)), In (q, k, n) l -> (0 < n)%N ->
  Forall (fun r => length r = N.to_nat k) rows ->
  cs_chunks (N.to_nat n) (concat rows) = cs_row_chunks (N.to_nat k) (N.to_nat n) rows.
Proof.
  intros l H A q k n rows Hin Hn Hr. destruct (flat_groups_ok_spec l H q k n Hin) as [_ [Hk Hd]].
  apply chunks_keep_tuples; [exact Hk | lia | exact Hd | exact Hr].
Qed.
