package main

import (
	"fmt"
	"go/ast"
	"go/token"
	"strings"
)

// FactsWrapTx (C08): internal/db_impl/sqlite3/client.go wrapTx. The branch taken when the transaction body returns an
// error: its top-level statements in order, for each whether control can leave the function inside it (return, goto,
// panic, os.Exit, log.Fatal*) and whether it calls <tx>.Rollback() unconditionally (as the statement itself or in the
// Init of an if). <tx> is the variable that receives BeginTx.
func init() { register("WrapTx", extractWrapTx) }

func stmtExits(n ast.Node) bool {
	found := false
	ast.Inspect(n, func(x ast.Node) bool {
		switch y := x.(type) {
		case *ast.FuncLit:
			return false
		case *ast.ReturnStmt:
			found = true
		case *ast.BranchStmt:
			if y.Tok == token.GOTO {
				found = true
			}
		case *ast.CallExpr:
			switch f := y.Fun.(type) {
			case *ast.Ident:
				if f.Name == "panic" {
					found = true
				}
			case *ast.SelectorExpr:
				if id, ok := f.X.(*ast.Ident); ok && (id.Name == "os" && f.Sel.Name == "Exit" || strings.HasPrefix(f.Sel.Name, "Fatal") || id.Name == "runtime" && f.Sel.Name == "Goexit") {
					found = true
				}
			}
		}
		return !found
	})
	return found
}

func isRollbackCall(e ast.Expr, tx string) bool {
	c, ok := e.(*ast.CallExpr)
	if !ok {
		return false
	}
	s, ok := c.Fun.(*ast.SelectorExpr)
	if !ok || s.Sel.Name != "Rollback" {
		return false
	}
	id, ok := s.X.(*ast.Ident)
	return ok && id.Name == tx
}

// callsRollbackUnconditionally: the statement evaluates <tx>.Rollback() whenever it is reached.
func callsRollbackUnconditionally(st ast.Stmt, tx string) bool {
	simple := func(s ast.Stmt) bool {
		switch x := s.(type) {
		case *ast.ExprStmt:
			return isRollbackCall(x.X, tx)
		case *ast.AssignStmt:
			for _, r := range x.Rhs {
				if isRollbackCall(r, tx) {
					return true
				}
			}
		}
		return false
	}
	if simple(st) {
		return true
	}
	if is, ok := st.(*ast.IfStmt); ok && is.Init != nil {
		return simple(is.Init)
	}
	return false
}

func extractWrapTx(t *T) (string, error) {
	const file = "internal/db_impl/sqlite3/client.go"
	f, err := t.ParseFile(file)
	if err != nil {
		return "", err
	}
	fd := FuncDecl(f, "Client", "wrapTx")
	if fd == nil || fd.Body == nil {
		return "", fmt.Errorf("%s: Client.wrapTx not found", file)
	}
	// parameters of function type (the transaction body)
	bodyParams := map[string]bool{}
	for _, p := range fd.Type.Params.List {
		if _, ok := p.Type.(*ast.FuncType); ok {
			for _, n := range p.Names {
				bodyParams[n.Name] = true
			}
		}
	}
	tx := ""
	var branch *ast.IfStmt
	for _, st := range fd.Body.List {
		if as, ok := st.(*ast.AssignStmt); ok && len(as.Rhs) == 1 && len(as.Lhs) >= 1 {
			if c, ok := as.Rhs[0].(*ast.CallExpr); ok && calleeName(c.Fun) == "BeginTx" {
				if id, ok := as.Lhs[0].(*ast.Ident); ok {
					tx = id.Name
				}
			}
		}
		if is, ok := st.(*ast.IfStmt); ok && is.Init != nil && branch == nil {
			if as, ok := is.Init.(*ast.AssignStmt); ok && len(as.Rhs) == 1 {
				if c, ok := as.Rhs[0].(*ast.CallExpr); ok {
					if id, ok := c.Fun.(*ast.Ident); ok && bodyParams[id.Name] && strings.HasSuffix(oneLine(t.Src(file, is.Cond)), "!= nil") {
						branch = is
					}
				}
			}
		}
	}
	if tx == "" || branch == nil {
		return "", fmt.Errorf("%s: wrapTx: BeginTx variable (%q) or the error branch of the body call not found", file, tx)
	}
	var rows []string
	for _, st := range branch.Body.List {
		src := oneLine(t.Src(file, st))
		if len(src) > 90 {
			src = src[:90] + "..."
		}
		rows = append(rows, fmt.Sprintf("(%s, %v, %v)", coqString(src), stmtExits(st), callsRollbackUnconditionally(st, tx)))
	}
	var b strings.Builder
	b.WriteString("From Coq Require Import List String Bool.\nImport ListNotations.\nOpen Scope string_scope.\n\n")
	fmt.Fprintf(&b, "(* %s wrapTx, branch `%s`: (statement, control can leave the function inside it,\n   it calls %s.Rollback() whenever it is reached) *)\n", file, oneLine(t.Src(file, branch.Init))+"; "+oneLine(t.Src(file, branch.Cond)), tx)
	if len(rows) == 0 {
		b.WriteString("Definition wraptx_error_branch : list (string * bool * bool) := [].\n")
	} else {
		fmt.Fprintf(&b, "Definition wraptx_error_branch : list (string * bool * bool) := [\n  %s\n].\n", strings.Join(rows, ";\n  "))
	}
	return b.String(), nil
}
