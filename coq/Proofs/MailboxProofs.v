(* Lemmas for C03: the command transactions of Model/MailboxActions.v (db operations at the impl level with facts that
   pass facts_ok, case-insensitive flag removal) simulate the reference semantics of Model/MailboxRef.v. *)
From Coq Require Import String Ascii.
From Coq Require Import List NArith Bool Arith Lia.
From Gluon Require Import Model.Chunks Model.SqlBindFacts Model.RelDb Model.RelDbFacts Model.MailboxRef Model.MailboxActions
  Proofs.ChunksProofs Proofs.RelDbProofs.
Import ListNotations.
Open Scope list_scope.
Open Scope N_scope.

(* ------------------------------------------------------------------ small facts *)
Lemma nmem_In : forall x l, nmem x l = true <-> In x l.
Proof.
  intros x l. unfold nmem. rewrite existsb_exists. split.
  - intros [y [Hy E]]. apply N.eqb_eq in E. subst. exact Hy.
  - intros H. exists x. split; [exact H | apply N.eqb_refl].
Qed.

Lemma nmem_false : forall x l, nmem x l = false <-> ~ In x l.
Proof. intros. rewrite <- nmem_In. destruct (nmem x l); split; congruence. Qed.

Lemma ci_refl : forall f, flag_eqb_ci f f = true.
Proof. intros. unfold flag_eqb_ci. apply String.eqb_refl. Qed.
Lemma ci_sym : forall a b, flag_eqb_ci a b = flag_eqb_ci b a.
Proof. intros. unfold flag_eqb_ci. apply String.eqb_sym. Qed.
Lemma ci_trans : forall a b c, flag_eqb_ci a b = true -> flag_eqb_ci b c = flag_eqb_ci a c.
Proof. intros a b c H. unfold flag_eqb_ci in *. apply String.eqb_eq in H. rewrite H. reflexivity. Qed.

Lemma nodupb_NoDup : forall l, nodupb l = true <-> NoDup l.
Proof.
  induction l as [|x t IH]; cbn [nodupb].
  - split; [constructor | reflexivity].
  - rewrite andb_true_iff, negb_true_iff, nmem_false, IH. split.
    + intros [H1 H2]. constructor; assumption.
    + intros H. inversion H; subst. split; assumption.
Qed.

Lemma filter_ext_in' : forall {A} (p q : A -> bool) l, (forall x, In x l -> p x = q x) -> filter p l = filter q l.
Proof.
  intros A p q l H. induction l as [|a t IH]; [reflexivity|]. cbn [filter].
  rewrite (H a (or_introl eq_refl)). rewrite IH; [reflexivity|]. intros x Hx. apply H. right. exact Hx.
Qed.

Lemma nmem_equiv : forall l1 l2 x, (forall y, In y l1 <-> In y l2) -> nmem x l1 = nmem x l2.
Proof.
  intros l1 l2 x H. destruct (nmem x l1) eqn:E1, (nmem x l2) eqn:E2; try reflexivity.
  - apply nmem_In in E1. apply H in E1. apply nmem_In in E1. congruence.
  - apply nmem_In in E2. apply H in E2. apply nmem_In in E2. congruence.
Qed.

(* ------------------------------------------------------------------ what the db operations do (impl level) *)
Section WithFacts.
  Variable F : list stmt_fact.
  Hypothesis HF : facts_ok F = true.
  Local Notation ci := true.

  Lemma ex_remove : forall b ids d, ex F ci (ORemoveMessages b ids) d = sp_remove_messages b ids d.
  Proof. intros. unfold ex. rewrite (remove_messages_refines F ci b ids d HF). reflexivity. Qed.
  Lemma ex_set_deleted : forall b ids v d, ex F ci (OSetDeleted b ids v) d = sp_set_deleted b ids v d.
  Proof. intros. unfold ex. rewrite (set_deleted_refines F ci b ids v d HF). reflexivity. Qed.
  Lemma ex_add_flag : forall ids f d, ex F ci (OAddFlag ids f) d = sp_add_flag ids f d.
  Proof. intros. unfold ex. rewrite (add_flag_refines F ci ids f d HF). reflexivity. Qed.
  Lemma ex_remove_flag : forall ids f d, ex F ci (ORemoveFlag ids f) d = sp_remove_flag ci ids f d.
  Proof. intros. unfold ex. rewrite (remove_flag_refines F ci ids f d HF). reflexivity. Qed.
  Lemma ex_set_flags : forall ids fs d, ex F ci (OSetFlags ids fs) d = sp_set_flags ids fs d.
  Proof. intros. unfold ex. rewrite (set_flags_refines F ci ids fs d HF). reflexivity. Qed.

  (* reads: the list is the spec list as a set *)
  Lemma ex_filter_contains : forall b ids d,
    match find_tab b (d_tabs d) with
    | Some t => exists l, ex F ci (OFilterContains b ids) d = Ok d (RNums l) /\
                forall m, In m l <-> (In m ids /\ existsb (fun x => N.eqb (r_msg x) m) (t_rows t) = true)
    | None => ex F ci (OFilterContains b ids) d = match ids with [] => Ok d (RNums []) | _ => Fail EOther end
    end.
  Proof.
    intros b ids d. pose proof (filter_contains_refines F ci b ids d HF) as H.
    unfold ex. cbn [exec_spec] in H. unfold sp_filter_contains, sel_contains in H.
    destruct (find_tab b (d_tabs d)) as [t|].
    - cbn [res_opt] in H. destruct (exec_impl F ci (OFilterContains b ids) d) as [d1 r1|e]; cbn in H; [|contradiction].
      destruct H as [Hd Hr]. subst d1. destruct r1; cbn in Hr; try discriminate.
      exists l. split; [reflexivity|]. intros m. rewrite Hr, in_map_iff. split.
      + intros [x [Hx Hin]]. apply filter_In in Hin. destruct Hin as [Hin Hm]. subst m. split.
        * apply nmem_In. exact Hm.
        * apply existsb_exists. exists x. split; [exact Hin | apply N.eqb_refl].
      + intros [Hm Hex]. apply existsb_exists in Hex. destruct Hex as [x [Hin E]]. apply N.eqb_eq in E.
        exists x. split; [exact E|]. apply filter_In. split; [exact Hin|]. rewrite E. apply nmem_In. exact Hm.
    - destruct ids; cbn [res_opt] in H.
      + destruct (exec_impl F ci (OFilterContains b []) d) as [d1 r1|e]; cbn in H; [|contradiction].
        destruct H as [Hd Hr]. subst d1. destruct r1; cbn in Hr; try discriminate.
        destruct l as [|y l]; [reflexivity|]. exfalso. apply (proj1 (Hr y)). left. reflexivity.
      + destruct (exec_impl F ci (OFilterContains b (n :: ids)) d) as [d1 r1|e]; cbn in H; [contradiction|]. subst. reflexivity.
  Qed.

  Lemma ex_get_flags : forall ids d, exists l, ex F ci (OGetMessagesFlags ids) d = Ok d (RMsgFlags l) /\
    forall x, In x l <-> exists g, In g (d_msgs d) /\ In (mg_id g) ids /\ x = (mg_id g, mg_remote g, flags_of (mg_id g) (d_flags d)).
  Proof.
    intros ids d. pose proof (get_messages_flags_refines F ci ids d HF) as H.
    unfold ex. cbn [exec_spec] in H. unfold sp_get_messages_flags, sel_msg_flags in H. cbn [res_opt] in H.
    destruct (exec_impl F ci (OGetMessagesFlags ids) d) as [d1 r1|e]; cbn in H; [|contradiction].
    destruct H as [Hd Hr]. subst d1. destruct r1; cbn in Hr; try discriminate.
    exists l. split; [reflexivity|]. intros x. rewrite Hr, in_map_iff. split.
    - intros [g [Hx Hin]]. apply filter_In in Hin. destruct Hin as [Hin Hm]. exists g.
      split; [exact Hin|]. split; [apply nmem_In; exact Hm | symmetry; exact Hx].
    - intros [g [Hin [Hm Hx]]]. exists g. split; [symmetry; exact Hx|]. apply filter_In. split; [exact Hin | apply nmem_In; exact Hm].
  Qed.
End WithFacts.

Section WithFacts2.
  Variable F : list stmt_fact.
  Hypothesis HF : facts_ok F = true.
  Local Notation ci := true.

  Lemma ex_ok : forall o d d' r, exec_spec ci o d = Ok d' r -> exists r', ex F ci o d = Ok d' r'.
  Proof.
    intros o d d' r H. pose proof (op_refines F ci o d HF) as R. rewrite H in R. unfold ex.
    destruct (exec_impl F ci o d) as [d1 r1|e]; cbn in R; [|contradiction]. destruct R as [E _]. subst. eexists. reflexivity.
  Qed.
  Lemma ex_fail : forall o d e, exec_spec ci o d = Fail e -> ex F ci o d = Fail e.
  Proof.
    intros o d e H. pose proof (op_refines F ci o d HF) as R. rewrite H in R. unfold ex.
    destruct (exec_impl F ci o d) as [d1 r1|e1]; cbn in R; [contradiction|]. subst. reflexivity.
  Qed.
  Lemma ex_common : forall o d, exec_spec ci o d = exec_common o d -> ex F ci o d = exec_common o d.
  Proof.
    intros o d H. destruct (exec_common o d) as [d' r|e] eqn:E.
    - destruct o; cbn [exec_spec] in H; unfold ex; cbn [exec_impl]; try (rewrite E; reflexivity);
        cbn [exec_common] in E; discriminate.
    - apply ex_fail. rewrite H. reflexivity.
  Qed.
End WithFacts2.

(* ------------------------------------------------------------------ tables and their abstraction *)
Definition held (d : db) (b m : N) : bool :=
  match find_tab b (d_tabs d) with
  | Some t => existsb (fun x => N.eqb (r_msg x) m) (t_rows t)
  | None => false
  end.

Definition rows_ok (d : db) (t : mtab) : Prop :=
  (forall x, In x (t_rows t) -> r_remote x = r_msg x /\ msg_exists (r_msg x) d = true) /\ NoDup (map r_msg (t_rows t)).

Record inv (d : db) : Prop := mkInv {
  i_boxes : forall t, In t (d_tabs d) -> mbox_exists (t_box t) d = true;
  i_tabs : NoDup (map t_box (d_tabs d));
  i_rows : forall t, In t (d_tabs d) -> rows_ok d t;
  i_msgs : forall g, In g (d_msgs d) -> mg_remote g = mg_id g;
  i_msgs_nodup : NoDup (map mg_id (d_msgs d));
  i_m2m : forall m b, pair_mem m b (d_m2m d) = held d b m;
  i_flags : forall p, In p (d_flags d) -> msg_exists (fst p) d = true
}.

Lemma find_tab_In : forall b ts t, find_tab b ts = Some t -> In t ts.
Proof. intros b ts t H. unfold find_tab in H. apply find_some in H. tauto. Qed.

Lemma find_tab_none : forall b ts, find_tab b ts = None -> forall t, In t ts -> t_box t <> b.
Proof.
  intros b ts H t Hin E. unfold find_tab in H. apply (find_none _ _ H) in Hin. apply N.eqb_neq in Hin. contradiction.
Qed.

Lemma find_tab_unique : forall ts b t, NoDup (map t_box ts) -> In t ts -> t_box t = b -> find_tab b ts = Some t.
Proof.
  induction ts as [|x ts IH]; intros b t Hnd Hin Hb; [contradiction|].
  unfold find_tab. cbn [find]. inversion Hnd as [|? ? Hx Hnd']; subst.
  destruct Hin as [E|Hin].
  - subst x. rewrite N.eqb_refl. reflexivity.
  - destruct (N.eqb (t_box x) (t_box t)) eqn:E.
    + apply N.eqb_eq in E. exfalso. apply Hx. rewrite E. apply in_map. exact Hin.
    + apply (IH (t_box t) t Hnd' Hin eq_refl).
Qed.

Lemma find_put_other : forall b b' ts t', t_box t' = b -> b' <> b -> find_tab b' (put_tab t' ts) = find_tab b' ts.
Proof.
  intros b b' ts t' Hb Hne. unfold find_tab, put_tab. induction ts as [|x ts IH]; [reflexivity|].
  cbn [map find]. destruct (N.eqb (t_box x) (t_box t')) eqn:E.
  - apply N.eqb_eq in E. rewrite Hb in *. 
    destruct (N.eqb b b') eqn:E1; [apply N.eqb_eq in E1; congruence|].
    destruct (N.eqb (t_box x) b') eqn:E2; [apply N.eqb_eq in E2; congruence|]. exact IH.
  - destruct (N.eqb (t_box x) b'); [reflexivity | exact IH].
Qed.

Lemma put_tab_boxes : forall t' ts, map t_box (put_tab t' ts) = map t_box ts.
Proof.
  intros t' ts. unfold put_tab. rewrite map_map. apply map_ext_in. intros x _.
  destruct (N.eqb (t_box x) (t_box t')) eqn:E; [apply N.eqb_eq in E; symmetry; exact E | reflexivity].
Qed.

Lemma In_put_tab : forall t' ts x, In x (put_tab t' ts) -> x = t' \/ (In x ts /\ t_box x <> t_box t').
Proof.
  intros t' ts x H. unfold put_tab in H. apply in_map_iff in H. destruct H as [y [Hy Hin]].
  destruct (N.eqb (t_box y) (t_box t')) eqn:E.
  - left. symmetry. exact Hy.
  - right. subst y. split; [exact Hin | apply N.eqb_neq; exact E].
Qed.

(* abstraction *)
Lemma find_rbox_abs : forall b ts, find (fun x => N.eqb (rb_id x) b) (map tab_abs ts) = option_map tab_abs (find_tab b ts).
Proof.
  intros b ts. unfold find_tab. induction ts as [|t ts IH]; [reflexivity|]. cbn [map find tab_abs rb_id].
  destruct (N.eqb (t_box t) b); [reflexivity | exact IH].
Qed.

Lemma put_rbox_abs : forall t' ts, put_rbox (tab_abs t') (map tab_abs ts) = map tab_abs (put_tab t' ts).
Proof.
  intros t' ts. unfold put_rbox, put_tab. rewrite !map_map. apply map_ext. intros x. cbn [tab_abs rb_id].
  destruct (N.eqb (t_box x) (t_box t')); reflexivity.
Qed.

Lemma rb_holds_abs : forall t m, rb_holds (tab_abs t) m = existsb (fun x => N.eqb (r_msg x) m) (t_rows t).
Proof.
  intros t m. unfold rb_holds, tab_abs. cbn [rb_rows]. induction (t_rows t) as [|x xs IH]; [reflexivity|].
  cbn [map existsb row_abs rr_msg]. rewrite IH. reflexivity.
Qed.

Lemma tab_del_abs : forall ids t, tab_abs (tab_del ids t) = rb_remove ids (tab_abs t).
Proof.
  intros ids t. unfold tab_del, rb_remove, tab_abs. cbn. f_equal.
  induction (t_rows t) as [|x xs IH]; [reflexivity|]. cbn [filter map row_abs rr_msg].
  destruct (negb (nmem (r_msg x) ids)); cbn [map]; [f_equal|]; exact IH.
Qed.

Lemma tab_setdel_abs : forall v ids t, tab_abs (tab_setdel v ids t) = rb_set_deleted ids v (tab_abs t).
Proof.
  intros v ids t. unfold tab_setdel, rb_set_deleted, tab_abs. cbn. f_equal. rewrite !map_map. apply map_ext.
  intros x. cbn [row_abs rr_msg]. destruct (nmem (r_msg x) ids); reflexivity.
Qed.

Lemma map_id_in : forall {A} (f : A -> A) l, (forall x, In x l -> f x = x) -> map f l = l.
Proof.
  intros A f l H. induction l as [|a t IH]; [reflexivity|]. cbn [map]. rewrite (H a (or_introl eq_refl)). f_equal.
  apply IH. intros x Hx. apply H. right. exact Hx.
Qed.

Lemma put_tab_same : forall ts b t, NoDup (map t_box ts) -> find_tab b ts = Some t -> put_tab t ts = ts.
Proof.
  intros ts b t Hnd Hf. unfold put_tab. apply map_id_in. intros x Hx.
  destruct (N.eqb (t_box x) (t_box t)) eqn:E; [|reflexivity]. apply N.eqb_eq in E.
  pose proof (find_tab_unique ts (t_box t) x Hnd Hx E) as H1.
  pose proof (find_tab_box _ _ _ Hf) as Hb. rewrite Hb in H1. rewrite Hf in H1. inversion H1. reflexivity.
Qed.

(* the explicit effect of adding messages at the end of a mailbox table *)
Fixpoint tab_append (ms : list N) (t : mtab) : mtab :=
  match ms with
  | [] => t
  | m :: r => tab_append r (mkTab (t_box t) (t_seq t + 1) (t_rows t ++ [mkRow (t_seq t + 1) m m false true]))
  end.

Lemma tab_append_box : forall ms t, t_box (tab_append ms t) = t_box t.
Proof. induction ms as [|m r IH]; intros t; [reflexivity|]. cbn [tab_append]. rewrite IH. reflexivity. Qed.

Lemma tab_append_abs : forall ms t, tab_abs (tab_append ms t) = rb_append ms (tab_abs t).
Proof.
  induction ms as [|m r IH]; intros t; [reflexivity|]. cbn [tab_append rb_append]. rewrite IH. f_equal.
  unfold tab_abs. cbn. rewrite map_app. reflexivity.
Qed.

Lemma tab_append_rows : forall ms t, exists new, t_rows (tab_append ms t) = t_rows t ++ new /\ map r_msg new = ms /\
  (forall x, In x new -> r_remote x = r_msg x).
Proof.
  induction ms as [|m r IH]; intros t.
  - exists []. rewrite app_nil_r. repeat split. intros x [].
  - cbn [tab_append]. destruct (IH (mkTab (t_box t) (t_seq t + 1) (t_rows t ++ [mkRow (t_seq t + 1) m m false true]))) as [new [H1 [H2 H3]]].
    exists (mkRow (t_seq t + 1) m m false true :: new). cbn [t_rows] in H1. rewrite H1, <- app_assoc. split; [reflexivity|].
    split; [cbn; rewrite H2; reflexivity|]. intros x [E|Hx]; [subst; reflexivity | apply H3; exact Hx].
Qed.

Lemma existsb_app_single : forall {A} (p : A -> bool) l x, existsb p (l ++ [x]) = existsb p l || p x.
Proof. intros. rewrite existsb_app. cbn. rewrite orb_false_r. reflexivity. Qed.

Lemma foldM_tab_ins : forall msgs ms t,
  NoDup ms ->
  (forall m, In m ms -> existsb (fun x => N.eqb (r_msg x) m) (t_rows t) = false
                      /\ existsb (fun x => N.eqb (r_remote x) m) (t_rows t) = false
                      /\ existsb (fun x => N.eqb (mg_id x) m) msgs = true) ->
  foldM (tab_ins1 msgs) (map (fun m => (m, m)) ms) t = Some (tab_append ms t).
Proof.
  intros msgs ms. induction ms as [|m r IH]; intros t Hnd H; [reflexivity|].
  cbn [map foldM tab_append]. unfold tab_ins1 at 1.
  destruct (H m (or_introl eq_refl)) as [H1 [H2 H3]]. rewrite H1, H2, H3. cbn [negb].
  inversion Hnd as [|? ? Hm Hnd']; subst. apply IH; [exact Hnd'|].
  intros m' Hm'. destruct (H m' (or_intror Hm')) as [G1 [G2 G3]]. cbn [t_rows].
  rewrite !existsb_app_single. cbn [r_msg r_remote]. rewrite G1, G2.
  assert (E : N.eqb m m' = false) by (apply N.eqb_neq; intros E; subst; contradiction).
  rewrite E. repeat split; auto.
Qed.

Lemma foldM_m2m_ins : forall d b ms l,
  NoDup ms -> mbox_exists b d = true ->
  (forall m, In m ms -> pair_mem m b l = false /\ msg_exists m d = true) ->
  foldM (m2m_ins1 d b) ms l = Some (l ++ map (fun m => (m, b)) ms).
Proof.
  intros d b ms. induction ms as [|m r IH]; intros l Hnd Hb H; cbn [foldM map].
  - rewrite app_nil_r. reflexivity.
  - unfold m2m_ins1 at 1. destruct (H m (or_introl eq_refl)) as [H1 H2]. rewrite H1, H2, Hb. cbn [negb].
    inversion Hnd as [|? ? Hm Hnd']; subst. rewrite (IH (l ++ [(m, b)]) Hnd' Hb).
    + rewrite <- app_assoc. reflexivity.
    + intros m' Hm'. destruct (H m' (or_intror Hm')) as [G1 G2]. split; [|exact G2].
      unfold pair_mem in *. rewrite existsb_app_single. rewrite G1. cbn [fst snd].
      assert (E : N.eqb m m' = false) by (apply N.eqb_neq; intros E; subst; contradiction).
      rewrite E. reflexivity.
Qed.

Lemma pair_mem_app : forall m b l1 l2, pair_mem m b (l1 ++ l2) = pair_mem m b l1 || pair_mem m b l2.
Proof. intros. unfold pair_mem. apply existsb_app. Qed.

Lemma pair_mem_map : forall m b b' ms, pair_mem m b (map (fun x => (x, b')) ms) = nmem m ms && N.eqb b' b.
Proof.
  intros m b b' ms. unfold pair_mem, nmem. induction ms as [|x r IH]; [reflexivity|]. cbn [map existsb fst snd].
  rewrite IH. rewrite (N.eqb_sym x m). destruct (N.eqb m x), (N.eqb b' b), (existsb (N.eqb m) r); reflexivity.
Qed.

Lemma pair_mem_filter : forall m b (p : N * N -> bool) l, pair_mem m b (filter p l) = pair_mem m b l && p (m, b).
Proof.
  intros m b p l. unfold pair_mem. induction l as [|x r IH]; [reflexivity|]. cbn [filter existsb].
  destruct (N.eqb (fst x) m && N.eqb (snd x) b) eqn:E.
  - apply andb_true_iff in E. destruct E as [E1 E2]. apply N.eqb_eq in E1, E2. destruct x as [x1 x2]. cbn [fst snd] in *. subst.
    destruct (p (m, b)) eqn:Ep.
    + cbn [existsb fst snd]. rewrite !N.eqb_refl. reflexivity.
    + rewrite IH. cbn [orb]. rewrite !andb_false_r. reflexivity.
  - destruct (p x); cbn [existsb orb]; [rewrite E; cbn [orb]|]; exact IH.
Qed.

(* ------------------------------------------------------------------ removing messages from a mailbox *)
Definition do_remove (b : N) (ids : list N) (t : mtab) (d : db) : db :=
  m2m_del_rows b ids (set_tabs d (put_tab (tab_del ids t) (d_tabs d))).

Lemma m2m_del_nil : forall b d, m2m_del_rows b [] d = d.
Proof. intros b d. destruct (m2m_del_hom b) as [H _]. specialize (H d). inversion H. rewrite H1. exact H1. Qed.

Lemma held_put : forall d b b' t' m, t_box t' = b -> (exists t, find_tab b (d_tabs d) = Some t) ->
  held (set_tabs d (put_tab t' (d_tabs d))) b' m =
  if N.eqb b' b then existsb (fun x => N.eqb (r_msg x) m) (t_rows t') else held d b' m.
Proof.
  intros d b b' t' m Hb [t Ht]. unfold held. cbn [d_tabs set_tabs].
  destruct (N.eqb b' b) eqn:E.
  - apply N.eqb_eq in E. subst b'. rewrite (find_put_same b (d_tabs d) t t' Ht Hb). reflexivity.
  - apply N.eqb_neq in E. rewrite (find_put_other b b' (d_tabs d) t' Hb E). reflexivity.
Qed.

Lemma existsb_filter_and : forall {A} (q p : A -> bool) l, existsb q (filter p l) = existsb (fun x => q x && p x) l.
Proof.
  intros A q p l. induction l as [|x r IH]; [reflexivity|]. cbn [filter existsb].
  destruct (p x); cbn [existsb]; rewrite IH; [rewrite andb_true_r | rewrite andb_false_r]; reflexivity.
Qed.

Lemma existsb_msg_filter : forall m ids rows,
  existsb (fun x => N.eqb (r_msg x) m) (filter (fun x => negb (nmem (r_msg x) ids)) rows)
  = existsb (fun x => N.eqb (r_msg x) m) rows && negb (nmem m ids).
Proof.
  intros m ids rows. rewrite existsb_filter_and. induction rows as [|x r IH]; [reflexivity|]. cbn [existsb]. rewrite IH.
  destruct (N.eqb (r_msg x) m) eqn:E.
  - apply N.eqb_eq in E. rewrite E. destruct (nmem m ids), (existsb (fun x0 => N.eqb (r_msg x0) m) r); reflexivity.
  - cbn [andb orb]. reflexivity.
Qed.

Lemma NoDup_map_filter : forall {A B} (f : A -> B) (p : A -> bool) l, NoDup (map f l) -> NoDup (map f (filter p l)).
Proof.
  intros A B f p l H. induction l as [|x r IH]; [constructor|]. cbn [map] in H. inversion H as [|? ? Hx Hr]; subst.
  cbn [filter]. destruct (p x); [|apply IH; exact Hr]. cbn [map]. constructor; [|apply IH; exact Hr].
  intros Hin. apply Hx. apply in_map_iff in Hin. destruct Hin as [y [Hy Hin]]. apply filter_In in Hin.
  apply in_map_iff. exists y. tauto.
Qed.

Lemma rows_ok_frame : forall d d' t, d_msgs d' = d_msgs d -> rows_ok d t -> rows_ok d' t.
Proof.
  intros d d' t Hm [H1 H2]. split; [|exact H2]. intros x Hx. destruct (H1 x Hx) as [A B]. split; [exact A|].
  unfold msg_exists in *. rewrite Hm. exact B.
Qed.

Lemma inv_do_remove : forall b ids t d, inv d -> find_tab b (d_tabs d) = Some t -> inv (do_remove b ids t d).
Proof.
  intros b ids t d I Ht. pose proof (find_tab_box _ _ _ Ht) as Hb.
  assert (Hb' : t_box (tab_del ids t) = b) by (unfold tab_del; cbn; exact Hb).
  constructor.
  - intros x Hx. cbn [do_remove m2m_del_rows d_tabs set_m2m set_tabs] in Hx.
    unfold mbox_exists, find_mbox. cbn [do_remove m2m_del_rows d_mboxes set_m2m set_tabs].
    apply In_put_tab in Hx. destruct Hx as [E|[Hx _]].
    + subst x. rewrite Hb', <- Hb. apply (i_boxes d I t (find_tab_In _ _ _ Ht)).
    + apply (i_boxes d I x Hx).
  - cbn [do_remove m2m_del_rows d_tabs set_m2m set_tabs]. rewrite put_tab_boxes. apply (i_tabs d I).
  - intros x Hx. cbn [do_remove m2m_del_rows d_tabs set_m2m set_tabs] in Hx.
    apply rows_ok_frame with (d := d); [reflexivity|].
    apply In_put_tab in Hx. destruct Hx as [E|[Hx _]].
    + subst x. destruct (i_rows d I t (find_tab_In _ _ _ Ht)) as [H1 H2]. split.
      * intros y Hy. unfold tab_del in Hy. cbn [t_rows] in Hy. apply filter_In in Hy. apply H1. tauto.
      * unfold tab_del. cbn [t_rows]. apply NoDup_map_filter. exact H2.
    + apply (i_rows d I x Hx).
  - apply (i_msgs d I).
  - apply (i_msgs_nodup d I).
  - intros m b'. unfold do_remove, m2m_del_rows. cbn [d_m2m set_m2m set_tabs].
    rewrite pair_mem_filter. cbn [fst snd]. rewrite (i_m2m d I).
    change (held (set_m2m (set_tabs d (put_tab (tab_del ids t) (d_tabs d))) (filter (fun p => negb (nmem (fst p) ids && N.eqb (snd p) b)) (d_m2m d))) b' m)
      with (held (set_tabs d (put_tab (tab_del ids t) (d_tabs d))) b' m).
    rewrite (held_put d b b' (tab_del ids t) m Hb' (ex_intro _ t Ht)).
    destruct (N.eqb b' b) eqn:E.
    + apply N.eqb_eq in E. subst b'. unfold tab_del. cbn [t_rows]. rewrite existsb_msg_filter.
      unfold held. rewrite Ht. rewrite andb_true_r. reflexivity.
    + rewrite andb_false_r. cbn [negb]. rewrite andb_true_r. reflexivity.
  - apply (i_flags d I).
Qed.

Lemma held_do_remove : forall b ids t d b' m, find_tab b (d_tabs d) = Some t ->
  held (do_remove b ids t d) b' m = if N.eqb b' b then held d b m && negb (nmem m ids) else held d b' m.
Proof.
  intros b ids t d b' m Ht. pose proof (find_tab_box _ _ _ Ht) as Hb.
  assert (Hb' : t_box (tab_del ids t) = b) by (unfold tab_del; cbn; exact Hb).
  change (held (do_remove b ids t d) b' m) with (held (set_tabs d (put_tab (tab_del ids t) (d_tabs d))) b' m).
  rewrite (held_put d b b' (tab_del ids t) m Hb' (ex_intro _ t Ht)).
  destruct (N.eqb b' b); [|reflexivity]. unfold tab_del. cbn [t_rows]. rewrite existsb_msg_filter. unfold held. rewrite Ht. reflexivity.
Qed.

Section Steps.
  Variable F : list stmt_fact.
  Hypothesis HF : facts_ok F = true.
  Local Notation ci := true.

  Lemma act_remove_unchecked_eq : forall b ids t d, inv d -> find_tab b (d_tabs d) = Some t ->
    act_remove_unchecked F ci b ids d = Ok (do_remove b ids t d) RUnit.
  Proof.
    intros b ids t d I Ht. unfold act_remove_unchecked. destruct ids as [|x ids].
    - unfold do_remove. rewrite tab_del_nil, (put_tab_same _ _ _ (i_tabs d I) Ht), db_eta_tabs, m2m_del_nil. reflexivity.
    - rewrite (ex_remove F HF). unfold sp_remove_messages. cbn [tab_del_rows]. unfold upd_tab. rewrite Ht. reflexivity.
  Qed.
End Steps.

(* ------------------------------------------------------------------ adding messages at the end of a mailbox *)
Definition do_add (b : N) (ids : list N) (t : mtab) (d : db) : db :=
  set_m2m (set_tabs d (put_tab (tab_append ids t) (d_tabs d))) (d_m2m d ++ map (fun m => (m, b)) ids).

Definition addable (d : db) (b : N) (ids : list N) : Prop :=
  NoDup ids /\ forall m, In m ids -> held d b m = false /\ msg_exists m d = true.

Lemma held_false_rows : forall d b t m, inv d -> find_tab b (d_tabs d) = Some t -> held d b m = false ->
  existsb (fun x => N.eqb (r_msg x) m) (t_rows t) = false /\ existsb (fun x => N.eqb (r_remote x) m) (t_rows t) = false.
Proof.
  intros d b t m I Ht H. unfold held in H. rewrite Ht in H. split; [exact H|].
  destruct (i_rows d I t (find_tab_In _ _ _ Ht)) as [H1 _].
  destruct (existsb (fun x => N.eqb (r_remote x) m) (t_rows t)) eqn:E; [|reflexivity].
  apply existsb_exists in E. destruct E as [x [Hx E]]. destruct (H1 x Hx) as [A _]. rewrite A in E.
  assert (existsb (fun x0 => N.eqb (r_msg x0) m) (t_rows t) = true) by (apply existsb_exists; exists x; tauto). congruence.
Qed.

Lemma map_fst_pairs : forall ids, map fst (pairs ids) = ids.
Proof. intros. unfold pairs. rewrite map_map. apply map_ext_id. reflexivity. Qed.

Lemma existsb_msg_append : forall m ids t,
  existsb (fun x => N.eqb (r_msg x) m) (t_rows (tab_append ids t)) = existsb (fun x => N.eqb (r_msg x) m) (t_rows t) || nmem m ids.
Proof.
  intros m ids. induction ids as [|i r IH]; intros t; cbn [tab_append nmem existsb].
  - rewrite orb_false_r. reflexivity.
  - rewrite IH. cbn [t_rows]. rewrite existsb_app_single. cbn [r_msg]. fold (nmem m r).
    rewrite (N.eqb_sym i m). rewrite orb_assoc. reflexivity.
Qed.

Lemma NoDup_app_disj : forall {A} (l1 l2 : list A), NoDup l1 -> NoDup l2 -> (forall x, In x l1 -> ~ In x l2) -> NoDup (l1 ++ l2).
Proof.
  intros A l1. induction l1 as [|a r IH]; intros l2 H1 H2 H; [exact H2|]. cbn [app]. inversion H1; subst.
  constructor.
  - intros Hin. apply in_app_or in Hin. destruct Hin as [Hin|Hin]; [contradiction | apply (H a (or_introl eq_refl) Hin)].
  - apply IH; auto. intros x Hx. apply H. right. exact Hx.
Qed.

Lemma inv_do_add : forall b ids t d, inv d -> find_tab b (d_tabs d) = Some t -> addable d b ids -> inv (do_add b ids t d).
Proof.
  intros b ids t d I Ht [Hnd Hadd]. pose proof (find_tab_box _ _ _ Ht) as Hb.
  assert (Hb' : t_box (tab_append ids t) = b) by (rewrite tab_append_box; exact Hb).
  constructor.
  - intros x Hx. cbn [do_add d_tabs set_m2m set_tabs] in Hx.
    unfold mbox_exists, find_mbox. cbn [do_add d_mboxes set_m2m set_tabs].
    apply In_put_tab in Hx. destruct Hx as [E|[Hx _]].
    + subst x. rewrite Hb', <- Hb. apply (i_boxes d I t (find_tab_In _ _ _ Ht)).
    + apply (i_boxes d I x Hx).
  - cbn [do_add d_tabs set_m2m set_tabs]. rewrite put_tab_boxes. apply (i_tabs d I).
  - intros x Hx. cbn [do_add d_tabs set_m2m set_tabs] in Hx.
    apply rows_ok_frame with (d := d); [reflexivity|].
    apply In_put_tab in Hx. destruct Hx as [E|[Hx _]]; [|apply (i_rows d I x Hx)].
    subst x. destruct (i_rows d I t (find_tab_In _ _ _ Ht)) as [H1 H2].
    destruct (tab_append_rows ids t) as [new [E1 [E2 E3]]]. split.
    + intros y Hy. rewrite E1 in Hy. apply in_app_or in Hy. destruct Hy as [Hy|Hy]; [apply H1; exact Hy|].
      split; [apply E3; exact Hy|]. apply Hadd. rewrite <- E2. apply in_map. exact Hy.
    + rewrite E1, map_app, E2. apply NoDup_app_disj; [exact H2 | exact Hnd|].
      intros m Hm Hin. destruct (Hadd m Hin) as [Hh _]. unfold held in Hh. rewrite Ht in Hh.
      apply in_map_iff in Hm. destruct Hm as [y [Ey Hy]].
      assert (existsb (fun x => N.eqb (r_msg x) m) (t_rows t) = true) by (apply existsb_exists; exists y; split; [exact Hy | apply N.eqb_eq; exact Ey]).
      congruence.
  - apply (i_msgs d I).
  - apply (i_msgs_nodup d I).
  - intros m b'. unfold do_add. cbn [d_m2m set_m2m].
    rewrite pair_mem_app, pair_mem_map, (i_m2m d I).
    change (held (set_m2m (set_tabs d (put_tab (tab_append ids t) (d_tabs d))) (d_m2m d ++ map (fun m0 => (m0, b)) ids)) b' m)
      with (held (set_tabs d (put_tab (tab_append ids t) (d_tabs d))) b' m).
    rewrite (held_put d b b' (tab_append ids t) m Hb' (ex_intro _ t Ht)). rewrite (N.eqb_sym b b').
    destruct (N.eqb b' b) eqn:E.
    + apply N.eqb_eq in E. subst b'. rewrite existsb_msg_append. unfold held. rewrite Ht. rewrite andb_true_r. reflexivity.
    + rewrite andb_false_r, orb_false_r. reflexivity.
  - apply (i_flags d I).
Qed.

Lemma held_do_add : forall b ids t d b' m, find_tab b (d_tabs d) = Some t ->
  held (do_add b ids t d) b' m = if N.eqb b' b then held d b m || nmem m ids else held d b' m.
Proof.
  intros b ids t d b' m Ht. pose proof (find_tab_box _ _ _ Ht) as Hb.
  assert (Hb' : t_box (tab_append ids t) = b) by (rewrite tab_append_box; exact Hb).
  change (held (do_add b ids t d) b' m) with (held (set_tabs d (put_tab (tab_append ids t) (d_tabs d))) b' m).
  rewrite (held_put d b b' (tab_append ids t) m Hb' (ex_intro _ t Ht)).
  destruct (N.eqb b' b); [|reflexivity]. rewrite existsb_msg_append. unfold held. rewrite Ht. reflexivity.
Qed.

Section Steps2.
  Variable F : list stmt_fact.
  Hypothesis HF : facts_ok F = true.
  Local Notation ci := true.

  Lemma st_add_eq : forall b ids t d, inv d -> find_tab b (d_tabs d) = Some t -> addable d b ids ->
    exists r, st_add F ci b ids d = Ok (do_add b ids t d) r.
  Proof.
    intros b ids t d I Ht [Hnd Hadd]. unfold st_add.
    rewrite (ex_common F HF (OGetCountAndUID b) d eq_refl). cbn [exec_common]. unfold op_get_count_and_uid, tab_or_fail.
    rewrite Ht. cbn [rbind].
    destruct ids as [|i ids].
    - exists (RSnap []). unfold ex. cbn [pairs map exec_impl im_add_messages]. unfold do_add. cbn [tab_append map].
      rewrite app_nil_r, (put_tab_same _ _ _ (i_tabs d I) Ht), db_eta_tabs, db_eta_m2m. reflexivity.
    - set (il := i :: ids) in *.
      assert (E1 : tab_ins_rows b (pairs il) d = Some (set_tabs d (put_tab (tab_append il t) (d_tabs d)))).
      { unfold il at 1. cbn [pairs map tab_ins_rows]. unfold upd_tab. rewrite Ht.
        change ((i, i) :: map (fun m => (m, m)) ids) with (map (fun m => (m, m)) il).
        rewrite (foldM_tab_ins (d_msgs d) il t Hnd); [reflexivity|].
        intros m Hm. destruct (Hadd m Hm) as [Hh He]. destruct (held_false_rows d b t m I Ht Hh) as [A B].
        repeat split; assumption. }
      assert (E2 : m2m_ins_rows b (pairs il) (set_tabs d (put_tab (tab_append il t) (d_tabs d))) = Some (do_add b il t d)).
      { unfold m2m_ins_rows. rewrite map_fst_pairs. cbn [d_m2m set_tabs].
        rewrite (foldM_ext _ (m2m_ins1 d b)) by reflexivity.
        rewrite (foldM_m2m_ins d b il (d_m2m d) Hnd); [reflexivity | |].
        - rewrite <- (find_tab_box _ _ _ Ht). apply (i_boxes d I t (find_tab_In _ _ _ Ht)).
        - intros m Hm. destruct (Hadd m Hm) as [Hh He]. split; [rewrite (i_m2m d I); exact Hh | exact He]. }
      assert (E3 : exists rows, sp_add_messages b (pairs il) d = Ok (do_add b il t d) (RSnap rows)).
      { unfold sp_add_messages. unfold il at 1. cbn [pairs map].
        change ((i, i) :: map (fun m => (m, m)) ids) with (pairs il). rewrite E1. cbn [obind]. rewrite E2.
        unfold sel_rows_in.
        assert (Hf : exists t', find_tab b (d_tabs (do_add b il t d)) = Some t').
        { exists (tab_append il t). cbn [do_add d_tabs set_m2m set_tabs]. apply (find_put_same b (d_tabs d) t _ Ht).
          rewrite tab_append_box. apply (find_tab_box _ _ _ Ht). }
        destruct Hf as [t' Hf]. rewrite Hf. eexists. reflexivity. }
      destruct E3 as [rows E3]. apply (ex_ok F HF (OAddMessages b (pairs il)) d _ _ E3).
  Qed.
End Steps2.

(* ------------------------------------------------------------------ flags as a predicate *)
Definition has (l : list (N * flag)) (m : N) (f : flag) : bool :=
  existsb (fun p => N.eqb (fst p) m && flag_eqb_ci (snd p) f) l.

Lemma db_has_flag_has : forall d m f, db_has_flag d m f = has (d_flags d) m f. Proof. reflexivity. Qed.
Lemma ref_has_flag_has : forall r m f, ref_has_flag r m f = has (rf_flags r) m f. Proof. reflexivity. Qed.

Lemma has_app : forall l1 l2 m f, has (l1 ++ l2) m f = has l1 m f || has l2 m f.
Proof. intros. unfold has. apply existsb_app. Qed.

Lemma has_single : forall m0 f0 m f, has [(m0, f0)] m f = N.eqb m0 m && flag_eqb_ci f0 f.
Proof. intros. unfold has. cbn. rewrite orb_false_r. reflexivity. Qed.

Lemma fl_has_has : forall m f l f', fl_has m f l = true -> flag_eqb_ci f f' = true -> has l m f' = true.
Proof.
  intros m f l f' H Hc. unfold fl_has in H. apply existsb_exists in H. destruct H as [p [Hp E]].
  apply andb_true_iff in E. destruct E as [E1 E2]. apply String.eqb_eq in E2.
  unfold has. apply existsb_exists. exists p. split; [exact Hp|]. rewrite E1, E2, Hc. reflexivity.
Qed.

(* INSERT OR IGNORE of a list of (message, flag) pairs: the predicate grows by exactly those pairs *)
Lemma foldM_ins_ignore_has : forall d X l,
  (forall p, In p X -> msg_exists (fst p) d = true) ->
  exists l', foldM (flag_ins_ignore1 d) X l = Some l' /\
             (forall m f, has l' m f = has l m f || has X m f) /\
             (forall q, In q l' -> In q l \/ In q X).
Proof.
  intros d X. induction X as [|p X IH]; intros l HX.
  - exists l. split; [reflexivity|]. split; [|intros; left; assumption]. intros. cbn. rewrite orb_false_r. reflexivity.
  - cbn [foldM]. unfold flag_ins_ignore1 at 1. rewrite (HX p (or_introl eq_refl)). cbn [negb].
    assert (HX' : forall q, In q X -> msg_exists (fst q) d = true) by (intros q Hq; apply HX; right; exact Hq).
    destruct (fl_has (fst p) (snd p) l) eqn:E.
    + destruct (IH l HX') as [l' [H1 [H2 H3]]]. exists l'. split; [exact H1|]. split.
      * intros m f. rewrite H2.
        change (p :: X) with ([p] ++ X). rewrite has_app. destruct p as [m0 f0]. rewrite has_single. cbn [fst snd] in E.
        destruct (N.eqb m0 m && flag_eqb_ci f0 f) eqn:E2; [|reflexivity].
        apply andb_true_iff in E2. destruct E2 as [A B]. apply N.eqb_eq in A. subst m0.
        rewrite (fl_has_has m f0 l f E B). reflexivity.
      * intros q Hq. destruct (H3 q Hq) as [A|A]; [left; exact A | right; right; exact A].
    + destruct (IH (l ++ [p]) HX') as [l' [H1 [H2 H3]]]. exists l'. split; [exact H1|]. split.
      * intros m f. rewrite H2, has_app.
        change (p :: X) with ([p] ++ X). rewrite has_app. rewrite orb_assoc. reflexivity.
      * intros q Hq. destruct (H3 q Hq) as [A|A]; [|right; right; exact A].
        apply in_app_or in A. destruct A as [A|[A|[]]]; [left; exact A | right; left; exact A].
Qed.

Lemma has_map_flag : forall ids fl m f, has (map (fun x => (x, fl)) ids) m f = nmem m ids && flag_eqb_ci fl f.
Proof.
  intros ids fl m f. unfold has, nmem. induction ids as [|i r IH]; [reflexivity|]. cbn [map existsb fst snd]. rewrite IH.
  rewrite (N.eqb_sym i m). destruct (N.eqb m i), (flag_eqb_ci fl f), (existsb (N.eqb m) r); reflexivity.
Qed.

Lemma sp_add_flag_has : forall ids fl d, (forall m, In m ids -> msg_exists m d = true) ->
  exists d', sp_add_flag ids fl d = Ok d' RUnit /\ d_tabs d' = d_tabs d /\ d_msgs d' = d_msgs d /\ d_m2m d' = d_m2m d /\
             d_mboxes d' = d_mboxes d /\
             (forall m f, db_has_flag d' m f = db_has_flag d m f || (nmem m ids && flag_eqb_ci fl f)) /\
             (forall q, In q (d_flags d') -> In q (d_flags d) \/ In (fst q) ids).
Proof.
  intros ids fl d H. unfold sp_add_flag, flags_add.
  assert (E : foldM (fun m l => flag_ins_ignore1 d (m, fl) l) ids (d_flags d)
              = foldM (flag_ins_ignore1 d) (map (fun m => (m, fl)) ids) (d_flags d)).
  { rewrite foldM_map. apply foldM_ext. reflexivity. }
  rewrite E. clear E.
  destruct (foldM_ins_ignore_has d (map (fun m => (m, fl)) ids) (d_flags d)) as [l' [H1 [H2 H3]]].
  - intros p Hp. apply in_map_iff in Hp. destruct Hp as [m [E Hm]]. subst p. apply H. exact Hm.
  - rewrite H1. exists (set_flags d l'). cbn [lift]. repeat split; try reflexivity.
    + intros m f. rewrite !db_has_flag_has. cbn [d_flags set_flags]. rewrite H2, has_map_flag. reflexivity.
    + cbn [d_flags set_flags]. intros q Hq. destruct (H3 q Hq) as [A|A]; [left; exact A|]. right.
      apply in_map_iff in A. destruct A as [m [E Hm]]. subst q. exact Hm.
Qed.

Lemma existsb_and_const : forall {A} (q p : A -> bool) (c : bool) l, (forall x, q x = true -> p x = c) ->
  existsb (fun x => q x && p x) l = existsb q l && c.
Proof.
  intros A q p c l H. induction l as [|x r IH]; [reflexivity|]. cbn [existsb]. rewrite IH.
  destruct (q x) eqn:E; [rewrite (H x E)|]; cbn [andb orb]; [destruct c, (existsb q r); reflexivity | reflexivity].
Qed.

Lemma has_filter_remove : forall ids fl l m f,
  has (filter (fun p => negb (nmem (fst p) ids && flag_eqb_ci (snd p) fl)) l) m f
  = has l m f && negb (nmem m ids && flag_eqb_ci f fl).
Proof.
  intros ids fl l m f. unfold has. rewrite existsb_filter_and. apply existsb_and_const.
  intros p Hp. apply andb_true_iff in Hp. destruct Hp as [A B]. apply N.eqb_eq in A. rewrite A.
  rewrite (ci_trans _ _ fl (eq_trans (ci_sym f (snd p)) B)). reflexivity.
Qed.

Lemma sp_remove_flag_has : forall ids fl d,
  exists d', sp_remove_flag true ids fl d = Ok d' RUnit /\ d_tabs d' = d_tabs d /\ d_msgs d' = d_msgs d /\ d_m2m d' = d_m2m d /\
             d_mboxes d' = d_mboxes d /\
             (forall m f, db_has_flag d' m f = db_has_flag d m f && negb (nmem m ids && flag_eqb_ci f fl)) /\
             (forall q, In q (d_flags d') -> In q (d_flags d)).
Proof.
  intros ids fl d. exists (flags_remove true fl ids d). repeat split; try reflexivity.
  - intros m f. rewrite !db_has_flag_has. unfold flags_remove. cbn [d_flags set_flags]. apply has_filter_remove.
  - unfold flags_remove. cbn [d_flags set_flags]. intros q Hq. apply filter_In in Hq. tauto.
Qed.

Lemma has_map_snd : forall i fs m f, has (map (fun g => (i, g)) fs) m f = N.eqb m i && fmem_ci f fs.
Proof.
  intros i fs m f. unfold has, fmem_ci. induction fs as [|g fs IHf]; [rewrite andb_false_r; reflexivity|].
  cbn [map existsb fst snd]. rewrite IHf.
  rewrite (N.eqb_sym i m), (ci_sym g f). destruct (N.eqb m i), (flag_eqb_ci f g), (existsb (flag_eqb_ci f) fs); reflexivity.
Qed.

Lemma has_cross : forall fs ids m f, has (flat_map (fun x => map (fun g => (x, g)) fs) ids) m f = nmem m ids && fmem_ci f fs.
Proof.
  intros fs ids m f. induction ids as [|i r IH]; [reflexivity|]. cbn [flat_map]. rewrite has_app, IH, has_map_snd. cbn [nmem existsb].
  fold (nmem m r). destruct (N.eqb m i), (nmem m r), (fmem_ci f fs); reflexivity.
Qed.

Lemma fmem_fmem_ci : forall g fs f, fmem g fs = true -> flag_eqb_ci g f = true -> fmem_ci f fs = true.
Proof.
  intros g fs f H Hc. unfold fmem in H. apply existsb_exists in H. destruct H as [x [Hx E]]. apply String.eqb_eq in E. subst x.
  unfold fmem_ci. apply existsb_exists. exists g. split; [exact Hx | rewrite ci_sym; exact Hc].
Qed.

Lemma sp_set_flags_has : forall ids fs d, (forall m, In m ids -> msg_exists m d = true) ->
  exists d', sp_set_flags ids fs d = Ok d' RUnit /\ d_tabs d' = d_tabs d /\ d_msgs d' = d_msgs d /\ d_m2m d' = d_m2m d /\
             d_mboxes d' = d_mboxes d /\
             (forall m f, db_has_flag d' m f = if nmem m ids then fmem_ci f fs else db_has_flag d m f) /\
             (forall q, In q (d_flags d') -> In q (d_flags d) \/ In (fst q) ids).
Proof.
  intros ids fs d H. unfold sp_set_flags. destruct fs as [|f0 fs].
  - exists (set_flags d (filter (fun p => negb (nmem (fst p) ids)) (d_flags d))). repeat split; try reflexivity.
    + intros m f. rewrite !db_has_flag_has. cbn [d_flags set_flags]. unfold has. rewrite existsb_filter_and.
      rewrite (existsb_and_const _ (fun p => negb (nmem (fst p) ids)) (negb (nmem m ids))).
      * destruct (nmem m ids); cbn [negb fmem_ci existsb]; [apply andb_false_r | apply andb_true_r].
      * intros p Hp. apply andb_true_iff in Hp. destruct Hp as [A _]. apply N.eqb_eq in A. rewrite A. reflexivity.
    + cbn [d_flags set_flags]. intros q Hq. apply filter_In in Hq. tauto.
  - set (fl := f0 :: fs). unfold flags_ins_cross.
    destruct (foldM_ins_ignore_has (flags_del_notin fl ids d) (flat_map (fun m => map (fun f => (m, f)) fl) ids)
                (d_flags (flags_del_notin fl ids d))) as [l' [H1 [H2 H3]]].
    + intros p Hp. apply in_flat_map in Hp. destruct Hp as [m [Hm Hp]]. apply in_map_iff in Hp. destruct Hp as [g [E _]]. subst p.
      apply (H m Hm).
    + rewrite H1. exists (set_flags (flags_del_notin fl ids d) l'). cbn [lift]. repeat split; try reflexivity.
      * intros m f. rewrite !db_has_flag_has. cbn [d_flags set_flags]. rewrite H2, has_cross.
        unfold flags_del_notin. cbn [d_flags set_flags]. unfold has at 1. rewrite existsb_filter_and.
        destruct (nmem m ids) eqn:Em; cbn [andb].
        -- destruct (fmem_ci f fl) eqn:Ef; [apply orb_true_r|]. rewrite orb_false_r.
           destruct (existsb _ (d_flags d)) eqn:E; [|reflexivity]. exfalso.
           apply existsb_exists in E. destruct E as [p [Hp E]]. apply andb_true_iff in E. destruct E as [E1 E2].
           apply andb_true_iff in E1. destruct E1 as [A B]. apply N.eqb_eq in A. rewrite A, Em in E2. cbn [andb] in E2.
           apply negb_true_iff in E2. apply negb_false_iff in E2. rewrite (fmem_fmem_ci _ _ _ E2 B) in Ef. discriminate.
        -- rewrite orb_false_r.
           rewrite (existsb_and_const (fun p => N.eqb (fst p) m && flag_eqb_ci (snd p) f)
                      (fun p => negb (nmem (fst p) ids && negb (fmem (snd p) fl))) true).
           ++ unfold has. apply andb_true_r.
           ++ intros p Hp. apply andb_true_iff in Hp. destruct Hp as [A _]. apply N.eqb_eq in A. rewrite A, Em. reflexivity.
      * cbn [d_flags set_flags]. intros q Hq. destruct (H3 q Hq) as [A|A].
        -- left. unfold flags_del_notin in A. cbn [d_flags set_flags] in A. apply filter_In in A. tauto.
        -- right. apply in_flat_map in A. destruct A as [m [Hm A]]. apply in_map_iff in A. destruct A as [g [E _]]. subst q. exact Hm.
Qed.

(* ---- the reference flag operations as predicate transformers ---- *)
Lemma has_ci_trans : forall l m f f', has l m f = true -> flag_eqb_ci f f' = true -> has l m f' = true.
Proof.
  intros l m f f' H Hc. unfold has in *. apply existsb_exists in H. destruct H as [p [Hp E]]. apply andb_true_iff in E.
  destruct E as [A B]. apply existsb_exists. exists p. split; [exact Hp|]. rewrite A. cbn [andb].
  rewrite <- (ci_trans (snd p) f f' B). exact Hc.
Qed.

Lemma rf_add_flag_has : forall ts f fl m' f',
  has (rf_add_flag ts f fl) m' f' = has fl m' f' || (nmem m' ts && flag_eqb_ci f f').
Proof.
  intros ts f. unfold rf_add_flag. induction ts as [|m r IH]; intros fl m' f'; cbn [fold_left nmem existsb].
  - rewrite orb_false_r. reflexivity.
  - fold (nmem m' r). rewrite IH. fold (has fl m f).
    destruct (has fl m f) eqn:E.
    + destruct (N.eqb m' m) eqn:Em; cbn [orb]; [|reflexivity]. apply N.eqb_eq in Em. subst m'.
      destruct (flag_eqb_ci f f') eqn:Ec; [|rewrite !andb_false_r; reflexivity].
      rewrite (has_ci_trans fl m f f' E Ec). reflexivity.
    + rewrite has_app, has_single. rewrite (N.eqb_sym m m').
      destruct (has fl m' f'), (N.eqb m' m), (nmem m' r), (flag_eqb_ci f f'); reflexivity.
Qed.

Lemma fold_add_flags_has : forall fs ts fl m' f',
  has (fold_left (fun acc f => rf_add_flag ts f acc) fs fl) m' f' = has fl m' f' || (nmem m' ts && fmem_ci f' fs).
Proof.
  induction fs as [|f fs IH]; intros ts fl m' f'; cbn [fold_left fmem_ci existsb].
  - rewrite andb_false_r, orb_false_r. reflexivity.
  - rewrite IH, rf_add_flag_has. fold (fmem_ci f' fs). rewrite (ci_sym f f').
    destruct (has fl m' f'), (nmem m' ts), (flag_eqb_ci f' f), (fmem_ci f' fs); reflexivity.
Qed.

Lemma fold_remove_flags_has : forall fs ts fl m' f',
  has (fold_left (fun acc f => rf_remove_flag ts f acc) fs fl) m' f' = has fl m' f' && negb (nmem m' ts && fmem_ci f' fs).
Proof.
  induction fs as [|f fs IH]; intros ts fl m' f'; cbn [fold_left fmem_ci existsb].
  - rewrite andb_false_r. cbn. rewrite andb_true_r. reflexivity.
  - rewrite IH. unfold rf_remove_flag. rewrite has_filter_remove. fold (fmem_ci f' fs).
    destruct (has fl m' f'), (nmem m' ts), (flag_eqb_ci f' f), (fmem_ci f' fs); reflexivity.
Qed.

Lemma rf_set_flags_has : forall ts fs fl m' f',
  has (rf_set_flags ts fs fl) m' f' = if nmem m' ts then fmem_ci f' fs else has fl m' f'.
Proof.
  intros ts fs fl m' f'. unfold rf_set_flags. rewrite fold_add_flags_has.
  unfold has at 1. rewrite existsb_filter_and.
  rewrite (existsb_and_const (fun p => N.eqb (fst p) m' && flag_eqb_ci (snd p) f') (fun p => negb (nmem (fst p) ts)) (negb (nmem m' ts))).
  - fold (has fl m' f'). destruct (nmem m' ts), (has fl m' f'), (fmem_ci f' fs); reflexivity.
  - intros p Hp. apply andb_true_iff in Hp. destruct Hp as [A _]. apply N.eqb_eq in A. rewrite A. reflexivity.
Qed.

(* flags_of and the predicate *)
Lemma fmem_ci_flags_of : forall f m l, fmem_ci f (flags_of m l) = has l m f.
Proof.
  intros f m l. unfold fmem_ci, flags_of, has. induction l as [|p r IH]; [reflexivity|]. cbn [filter existsb].
  destruct (N.eqb (fst p) m); cbn [map existsb andb]; [rewrite IH, (ci_sym f (snd p)); reflexivity | exact IH].
Qed.

Lemma msg_exists_In : forall m d, msg_exists m d = true <-> In m (map mg_id (d_msgs d)).
Proof.
  intros m d. unfold msg_exists. rewrite existsb_exists, in_map_iff. split.
  - intros [g [Hg E]]. apply N.eqb_eq in E. exists g. tauto.
  - intros [g [E Hg]]. exists g. split; [exact Hg | apply N.eqb_eq; exact E].
Qed.

(* ------------------------------------------------------------------ invariant: frame lemmas *)
Lemma held_frame : forall d d' b m, d_tabs d' = d_tabs d -> held d' b m = held d b m.
Proof. intros d d' b m H. unfold held. rewrite H. reflexivity. Qed.

Lemma msg_exists_frame : forall d d' m, d_msgs d' = d_msgs d -> msg_exists m d' = msg_exists m d.
Proof. intros d d' m H. unfold msg_exists. rewrite H. reflexivity. Qed.

Lemma mbox_exists_frame : forall d d' b, d_mboxes d' = d_mboxes d -> mbox_exists b d' = mbox_exists b d.
Proof. intros d d' b H. unfold mbox_exists, find_mbox. rewrite H. reflexivity. Qed.

Lemma inv_frame_flags : forall d d', inv d ->
  d_tabs d' = d_tabs d -> d_msgs d' = d_msgs d -> d_m2m d' = d_m2m d -> d_mboxes d' = d_mboxes d ->
  (forall q, In q (d_flags d') -> msg_exists (fst q) d = true) -> inv d'.
Proof.
  intros d d' I Ht Hm H2 Hb Hf. constructor.
  - intros t Hin. rewrite Ht in Hin. rewrite (mbox_exists_frame d d' _ Hb). apply (i_boxes d I t Hin).
  - rewrite Ht. apply (i_tabs d I).
  - intros t Hin. rewrite Ht in Hin. apply (rows_ok_frame d d' t Hm). apply (i_rows d I t Hin).
  - rewrite Hm. apply (i_msgs d I).
  - rewrite Hm. apply (i_msgs_nodup d I).
  - intros m b. rewrite H2, (held_frame d d' b m Ht). apply (i_m2m d I).
  - intros q Hq. rewrite (msg_exists_frame d d' _ Hm). apply Hf. exact Hq.
Qed.

Definition do_setdel (b : N) (v : bool) (ids : list N) (t : mtab) (d : db) : db :=
  set_tabs d (put_tab (tab_setdel v ids t) (d_tabs d)).

Lemma tab_setdel_nil : forall v t, tab_setdel v [] t = t.
Proof. intros v [b s rows]. unfold tab_setdel. cbn. f_equal. apply map_ext_id. reflexivity. Qed.

Lemma existsb_msg_setdel : forall v ids rows m,
  existsb (fun x => N.eqb (r_msg x) m)
    (map (fun x => if nmem (r_msg x) ids then mkRow (r_uid x) (r_msg x) (r_remote x) v (r_recent x) else x) rows)
  = existsb (fun x => N.eqb (r_msg x) m) rows.
Proof.
  intros v ids rows m. induction rows as [|x r IH]; [reflexivity|]. cbn [map existsb]. rewrite IH.
  destruct (nmem (r_msg x) ids); reflexivity.
Qed.

Lemma inv_do_setdel : forall b v ids t d, inv d -> find_tab b (d_tabs d) = Some t -> inv (do_setdel b v ids t d).
Proof.
  intros b v ids t d I Ht. pose proof (find_tab_box _ _ _ Ht) as Hb.
  assert (Hb' : t_box (tab_setdel v ids t) = b) by (unfold tab_setdel; cbn; exact Hb).
  constructor.
  - intros x Hx. cbn [do_setdel d_tabs set_tabs] in Hx. unfold mbox_exists, find_mbox. cbn [do_setdel d_mboxes set_tabs].
    apply In_put_tab in Hx. destruct Hx as [E|[Hx _]].
    + subst x. rewrite Hb', <- Hb. apply (i_boxes d I t (find_tab_In _ _ _ Ht)).
    + apply (i_boxes d I x Hx).
  - cbn [do_setdel d_tabs set_tabs]. rewrite put_tab_boxes. apply (i_tabs d I).
  - intros x Hx. cbn [do_setdel d_tabs set_tabs] in Hx. apply rows_ok_frame with (d := d); [reflexivity|].
    apply In_put_tab in Hx. destruct Hx as [E|[Hx _]]; [|apply (i_rows d I x Hx)].
    subst x. destruct (i_rows d I t (find_tab_In _ _ _ Ht)) as [H1 H2]. split.
    + intros y Hy. unfold tab_setdel in Hy. cbn [t_rows] in Hy. apply in_map_iff in Hy. destruct Hy as [z [E Hz]].
      destruct (H1 z Hz) as [A B]. destruct (nmem (r_msg z) ids); subst y; cbn; tauto.
    + unfold tab_setdel. cbn [t_rows]. rewrite map_map.
      rewrite (map_ext _ r_msg); [exact H2|]. intros z. destruct (nmem (r_msg z) ids); reflexivity.
  - apply (i_msgs d I).
  - apply (i_msgs_nodup d I).
  - intros m b'. unfold do_setdel. cbn [d_m2m set_tabs]. rewrite (i_m2m d I).
    rewrite (held_put d b b' (tab_setdel v ids t) m Hb' (ex_intro _ t Ht)).
    destruct (N.eqb b' b) eqn:E; [|reflexivity]. apply N.eqb_eq in E. subst b'.
    unfold tab_setdel. cbn [t_rows]. rewrite existsb_msg_setdel. unfold held. rewrite Ht. reflexivity.
  - apply (i_flags d I).
Qed.

Section Steps3.
  Variable F : list stmt_fact.
  Hypothesis HF : facts_ok F = true.
  Local Notation ci := true.

  Lemma ex_setdel_eq : forall b ids v t d, inv d -> find_tab b (d_tabs d) = Some t ->
    ex F ci (OSetDeleted b ids v) d = Ok (do_setdel b v ids t d) RUnit.
  Proof.
    intros b ids v t d I Ht. rewrite (ex_set_deleted F HF). unfold sp_set_deleted, tab_set_deleted. destruct ids as [|i ids].
    - unfold do_setdel. rewrite tab_setdel_nil, (put_tab_same _ _ _ (i_tabs d I) Ht), db_eta_tabs. reflexivity.
    - unfold upd_tab. rewrite Ht. reflexivity.
  Qed.

  (* STORE +FLAGS: the loop over the flags *)
  Definition cur_ids (cur : list (N * N * list flag)) : list N := map (fun x => fst (fst x)) cur.

  Lemma add_each_has : forall fs cur d,
    (forall x, In x cur -> msg_exists (fst (fst x)) d = true) ->
    (forall x f, In x cur -> fmem_ci f (snd x) = true -> db_has_flag d (fst (fst x)) f = true) ->
    exists d', add_each F ci cur fs d = Ok d' RUnit /\ d_tabs d' = d_tabs d /\ d_msgs d' = d_msgs d /\ d_m2m d' = d_m2m d /\
               d_mboxes d' = d_mboxes d /\
               (forall m f, db_has_flag d' m f = db_has_flag d m f || (nmem m (cur_ids cur) && fmem_ci f fs)) /\
               (forall q, In q (d_flags d') -> In q (d_flags d) \/ In (fst q) (cur_ids cur)).
  Proof.
    induction fs as [|f0 fs IH]; intros cur d H1 H2.
    - exists d. cbn [add_each]. repeat split; try reflexivity.
      + intros m f. cbn [fmem_ci existsb]. rewrite andb_false_r, orb_false_r. reflexivity.
      + intros q Hq. left. exact Hq.
    - cbn [add_each]. set (toflag := map (fun x => fst (fst x)) (filter (fun x => negb (fmem_ci f0 (snd x))) cur)).
      assert (Hsub : forall m, In m toflag -> In m (cur_ids cur)).
      { intros m Hm. unfold toflag in Hm. apply in_map_iff in Hm. destruct Hm as [x [E Hx]]. apply filter_In in Hx.
        unfold cur_ids. apply in_map_iff. exists x. tauto. }
      assert (Hex : forall m, In m toflag -> msg_exists m d = true).
      { intros m Hm. apply Hsub in Hm. unfold cur_ids in Hm. apply in_map_iff in Hm. destruct Hm as [x [E Hx]]. subst m. apply H1. exact Hx. }
      rewrite (ex_add_flag F HF).
      destruct (sp_add_flag_has toflag f0 d Hex) as [d1 [E1 [T1 [M1 [P1 [B1 [F1 S1]]]]]]]. rewrite E1. cbn [rbind].
      destruct (IH cur d1) as [d' [E' [T' [M' [P' [B' [F' S']]]]]]].
      + intros x Hx. rewrite (msg_exists_frame d d1 _ M1). apply H1. exact Hx.
      + intros x f Hx Hf. rewrite F1. rewrite (H2 x f Hx Hf). reflexivity.
      + exists d'. rewrite E'. repeat split; try congruence.
        * intros m f. rewrite F', F1. cbn [fmem_ci existsb]. fold (fmem_ci f fs).
          destruct (nmem m (cur_ids cur)) eqn:Ec; cbn [andb].
          -- (* m is one of the messages: either it is flagged now, or it already had the flag *)
             destruct (flag_eqb_ci f f0) eqn:Ef; cbn [orb].
             ++ rewrite (ci_sym f0 f), Ef. rewrite andb_true_r.
                destruct (nmem m toflag) eqn:Et; [rewrite orb_true_r; reflexivity|].
                (* not in toflag: every entry of m has f0 *)
                apply nmem_In in Ec. unfold cur_ids in Ec. apply in_map_iff in Ec. destruct Ec as [x [Ex Hx]].
                assert (Hhas : fmem_ci f0 (snd x) = true).
                { destruct (fmem_ci f0 (snd x)) eqn:Eh; [reflexivity|]. exfalso. apply nmem_false in Et. apply Et.
                  unfold toflag. apply in_map_iff. exists x. split; [exact Ex|]. apply filter_In. rewrite Eh. tauto. }
                pose proof (H2 x f0 Hx Hhas) as Hd. rewrite Ex in Hd. rewrite db_has_flag_has in Hd.
                rewrite db_has_flag_has. rewrite (has_ci_trans _ m f0 f Hd); [reflexivity|]. rewrite ci_sym. exact Ef.
             ++ rewrite (ci_sym f0 f), Ef. rewrite andb_false_r, orb_false_r. reflexivity.
          -- assert (Et : nmem m toflag = false).
             { apply nmem_false. intros Hm. apply Hsub in Hm. apply nmem_In in Hm. congruence. }
             rewrite Et. cbn [andb]. rewrite !orb_false_r. reflexivity.
        * intros q Hq. destruct (S' q Hq) as [A|A]; [|right; exact A]. destruct (S1 q A) as [A1|A1]; [left; exact A1 | right; apply Hsub; exact A1].
  Qed.

  (* STORE -FLAGS *)
  Lemma rem_each_has : forall fs cur d,
    (forall x f, In x cur -> fmem_ci f (snd x) = false -> db_has_flag d (fst (fst x)) f = false) ->
    exists d', rem_each F ci cur fs d = Ok d' RUnit /\ d_tabs d' = d_tabs d /\ d_msgs d' = d_msgs d /\ d_m2m d' = d_m2m d /\
               d_mboxes d' = d_mboxes d /\
               (forall m f, db_has_flag d' m f = db_has_flag d m f && negb (nmem m (cur_ids cur) && fmem_ci f fs)) /\
               (forall q, In q (d_flags d') -> In q (d_flags d)).
  Proof.
    induction fs as [|f0 fs IH]; intros cur d H2.
    - exists d. cbn [rem_each]. repeat split; try reflexivity.
      + intros m f. cbn [fmem_ci existsb]. rewrite andb_false_r. cbn. rewrite andb_true_r. reflexivity.
      + intros q Hq. exact Hq.
    - cbn [rem_each]. set (toflag := map (fun x => fst (fst x)) (filter (fun x => fmem_ci f0 (snd x)) cur)).
      assert (Hsub : forall m, In m toflag -> In m (cur_ids cur)).
      { intros m Hm. unfold toflag in Hm. apply in_map_iff in Hm. destruct Hm as [x [E Hx]]. apply filter_In in Hx.
        unfold cur_ids. apply in_map_iff. exists x. tauto. }
      rewrite (ex_remove_flag F HF).
      destruct (sp_remove_flag_has toflag f0 d) as [d1 [E1 [T1 [M1 [P1 [B1 [F1 S1]]]]]]]. rewrite E1. cbn [rbind].
      destruct (IH cur d1) as [d' [E' [T' [M' [P' [B' [F' S']]]]]]].
      + intros x f Hx Hf. rewrite F1. rewrite (H2 x f Hx Hf). reflexivity.
      + exists d'. rewrite E'. repeat split; try congruence.
        * intros m f. rewrite F', F1. cbn [fmem_ci existsb]. fold (fmem_ci f fs).
          destruct (nmem m (cur_ids cur)) eqn:Ec; cbn [andb].
          -- destruct (flag_eqb_ci f f0) eqn:Ef; cbn [orb].
             ++ destruct (nmem m toflag) eqn:Et; cbn [andb negb]; [rewrite !andb_false_r; reflexivity|].
                (* m has no entry with f0: it has no f either *)
                apply nmem_In in Ec. unfold cur_ids in Ec. apply in_map_iff in Ec. destruct Ec as [x [Ex Hx]].
                assert (Hno : fmem_ci f0 (snd x) = false).
                { destruct (fmem_ci f0 (snd x)) eqn:Eh; [|reflexivity]. exfalso. apply nmem_false in Et. apply Et.
                  unfold toflag. apply in_map_iff. exists x. split; [exact Ex|]. apply filter_In. tauto. }
                pose proof (H2 x f0 Hx Hno) as Hd. rewrite Ex in Hd.
                assert (Hf : db_has_flag d m f = false).
                { destruct (db_has_flag d m f) eqn:Eh; [|reflexivity]. rewrite db_has_flag_has in *.
                  rewrite (has_ci_trans _ m f f0 Eh Ef) in Hd. discriminate. }
                rewrite Hf. reflexivity.
             ++ cbn [negb]. rewrite andb_false_r. cbn [negb]. rewrite andb_true_r. reflexivity.
          -- assert (Et : nmem m toflag = false).
             { apply nmem_false. intros Hm. apply Hsub in Hm. apply nmem_In in Hm. congruence. }
             rewrite Et. cbn [andb negb]. rewrite !andb_true_r. reflexivity.
        * intros q Hq. apply S1. apply S'. exact Hq.
  Qed.
End Steps3.

(* ------------------------------------------------------------------ the simulation relation *)
Definition rel (d : db) (r : ref) : Prop := inv d /\ abs_eq d r.

Lemma abs_find : forall d r b, abs_eq d r -> find_rbox b r = option_map tab_abs (find_tab b (d_tabs d)).
Proof. intros d r b [A1 _]. unfold find_rbox. rewrite <- A1. apply find_rbox_abs. Qed.

Lemma nmem_map_msgs : forall m d, nmem m (map mg_id (d_msgs d)) = msg_exists m d.
Proof.
  intros m d. unfold nmem, msg_exists. induction (d_msgs d) as [|g l IH]; [reflexivity|]. cbn [map existsb].
  rewrite IH, (N.eqb_sym m (mg_id g)). reflexivity.
Qed.

Lemma targets_ok_db : forall d r ts, abs_eq d r -> targets_ok r ts = true ->
  NoDup ts /\ forall m, In m ts -> msg_exists m d = true.
Proof.
  intros d r ts [_ [A2 _]] H. unfold targets_ok in H. apply andb_true_iff in H. destruct H as [H1 H2]. split.
  - apply nodupb_NoDup. exact H1.
  - intros m Hm. rewrite forallb_forall in H2. specialize (H2 m Hm). rewrite <- A2, nmem_map_msgs in H2. exact H2.
Qed.

Lemma abs_put : forall d r d' t', abs_eq d r ->
  d_tabs d' = put_tab t' (d_tabs d) -> d_msgs d' = d_msgs d -> (forall m f, db_has_flag d' m f = db_has_flag d m f) ->
  abs_eq d' (set_boxes r (put_rbox (tab_abs t') (rf_boxes r))).
Proof.
  intros d r d' t' [A1 [A2 A3]] Ht Hm Hf. split; [|split].
  - cbn [rf_boxes set_boxes]. rewrite Ht, <- A1. symmetry. apply put_rbox_abs.
  - cbn [rf_msgs set_boxes]. rewrite Hm. exact A2.
  - intros m f. rewrite Hf. cbn [set_boxes]. unfold ref_has_flag. cbn [rf_flags]. apply A3.
Qed.

Lemma do_remove_nil : forall b t d, inv d -> find_tab b (d_tabs d) = Some t -> do_remove b [] t d = d.
Proof.
  intros b t d I Ht. unfold do_remove. rewrite tab_del_nil, (put_tab_same _ _ _ (i_tabs d I) Ht), db_eta_tabs, m2m_del_nil. reflexivity.
Qed.

Lemma filter_held : forall d b t ts l, find_tab b (d_tabs d) = Some t ->
  (forall m, In m l <-> (In m ts /\ existsb (fun x => N.eqb (r_msg x) m) (t_rows t) = true)) ->
  filter (fun m => nmem m l) ts = filter (held d b) ts.
Proof.
  intros d b t ts l Ht Hl. apply filter_ext_in'. intros m Hm. unfold held. rewrite Ht.
  destruct (existsb (fun x => N.eqb (r_msg x) m) (t_rows t)) eqn:E.
  - apply nmem_In. apply Hl. tauto.
  - apply nmem_false. intros Hin. apply Hl in Hin. destruct Hin as [_ Hin]. congruence.
Qed.

Lemma rows_filter_ext : forall (p q : rrow -> bool) x, (forall e, In e (rb_rows x) -> p e = q e) ->
  mkRB (rb_id x) (rb_last x) (filter p (rb_rows x)) = mkRB (rb_id x) (rb_last x) (filter q (rb_rows x)).
Proof. intros p q x H. f_equal. apply filter_ext_in'. exact H. Qed.

Lemma In_row_abs_held : forall t e, In e (rb_rows (tab_abs t)) -> existsb (fun x => N.eqb (r_msg x) (rr_msg e)) (t_rows t) = true.
Proof.
  intros t e H. unfold tab_abs in H. cbn [rb_rows] in H. apply in_map_iff in H. destruct H as [x [E Hx]]. subst e.
  apply existsb_exists. exists x. split; [exact Hx | apply N.eqb_refl].
Qed.

(* removing the held part of the targets = removing the targets *)
Lemma rb_remove_held : forall d b t ts, find_tab b (d_tabs d) = Some t ->
  rb_remove (filter (held d b) ts) (tab_abs t) = rb_remove ts (tab_abs t).
Proof.
  intros d b t ts Ht. unfold rb_remove. apply rows_filter_ext. intros e He. f_equal.
  pose proof (In_row_abs_held t e He) as Hh.
  destruct (nmem (rr_msg e) ts) eqn:E.
  - apply nmem_In. apply filter_In. split; [apply nmem_In; exact E|]. unfold held. rewrite Ht. exact Hh.
  - apply nmem_false. intros Hin. apply filter_In in Hin. destruct Hin as [Hin _]. apply nmem_In in Hin. congruence.
Qed.

Section Sim.
  Variable F : list stmt_fact.
  Hypothesis HF : facts_ok F = true.
  Local Notation ci := true.
  Local Notation istep := (impl_step F ci).

  Lemma act_remove_eq : forall b ts t d, inv d -> find_tab b (d_tabs d) = Some t ->
    act_remove F ci b ts d = Ok (do_remove b (filter (held d b) ts) t d) RUnit.
  Proof.
    intros b ts t d I Ht. unfold act_remove.
    pose proof (ex_filter_contains F HF b ts d) as H. rewrite Ht in H. destruct H as [l [E Hl]]. rewrite E. cbn [rbind nums_of].
    rewrite (filter_held d b t ts l Ht Hl).
    destruct (filter (held d b) ts) as [|x xs] eqn:Ef.
    - rewrite (do_remove_nil b t d I Ht). reflexivity.
    - apply (act_remove_unchecked_eq F HF b (x :: xs) t d I Ht).
  Qed.

  Lemma box_known_find : forall b d, box_known b d = match find_tab b (d_tabs d) with Some _ => true | None => false end.
  Proof. reflexivity. Qed.

  Lemma sim_expunge : forall b ts d r, rel d r -> cmd_wf (CExpunge b ts) r = true ->
    rel (fst (istep (CExpunge b ts) d)) (fst (ref_step (CExpunge b ts) r)) /\
    snd (istep (CExpunge b ts) d) = snd (ref_step (CExpunge b ts) r).
  Proof.
    intros b ts d r [I A] W. unfold impl_step. cbn [cmd_tx ref_step]. rewrite (abs_find d r b A), box_known_find.
    destruct (find_tab b (d_tabs d)) as [t|] eqn:Ht; cbn [option_map]; [|split; [split; assumption | reflexivity]].
    rewrite (act_remove_eq b ts t d I Ht). cbn [fst snd]. split; [|reflexivity]. split.
    - apply inv_do_remove; assumption.
    - cbn [cmd_wf] in W. apply andb_true_iff in W. destruct W as [W1 W2].
      replace (rb_expunge ts (tab_abs t)) with (tab_abs (tab_del (filter (held d b) ts) t)).
      + apply (abs_put d r _ (tab_del (filter (held d b) ts) t) A); reflexivity.
      + rewrite tab_del_abs, (rb_remove_held d b t ts Ht). unfold rb_remove, rb_expunge. apply rows_filter_ext.
        intros e He. f_equal. unfold expunge_view_ok in W2. rewrite <- (proj1 A), find_rbox_abs, Ht in W2. cbn [option_map] in W2.
        rewrite forallb_forall in W2. specialize (W2 e He).
        destruct (nmem (rr_msg e) ts); [|reflexivity]. cbn [negb orb] in W2. rewrite W2. reflexivity.
  Qed.
End Sim.

Section Sim2.
  Variable F : list stmt_fact.
  Hypothesis HF : facts_ok F = true.
  Local Notation ci := true.
  Local Notation istep := (impl_step F ci).

  Lemma ex_add_messages_eq : forall b ids t d, inv d -> find_tab b (d_tabs d) = Some t -> addable d b ids ->
    exists r, ex F ci (OAddMessages b (pairs ids)) d = Ok (do_add b ids t d) r.
  Proof.
    intros b ids t d I Ht Hadd. destruct (st_add_eq F HF b ids t d I Ht Hadd) as [r E]. unfold st_add in E.
    rewrite (ex_common F HF (OGetCountAndUID b) d eq_refl) in E. cbn [exec_common] in E.
    unfold op_get_count_and_uid, tab_or_fail in E. rewrite Ht in E. cbn [rbind] in E. exists r. exact E.
  Qed.

  Lemma find_do_remove_same : forall b ids t d, find_tab b (d_tabs d) = Some t ->
    find_tab b (d_tabs (do_remove b ids t d)) = Some (tab_del ids t).
  Proof.
    intros b ids t d Ht. cbn [do_remove m2m_del_rows d_tabs set_m2m set_tabs]. apply (find_put_same b (d_tabs d) t _ Ht).
    unfold tab_del. cbn. apply (find_tab_box _ _ _ Ht).
  Qed.

  Lemma find_do_remove_other : forall b b' ids t d, find_tab b (d_tabs d) = Some t -> b' <> b ->
    find_tab b' (d_tabs (do_remove b ids t d)) = find_tab b' (d_tabs d).
  Proof.
    intros b b' ids t d Ht Hne. cbn [do_remove m2m_del_rows d_tabs set_m2m set_tabs]. apply (find_put_other b b').
    - unfold tab_del. cbn. apply (find_tab_box _ _ _ Ht).
    - exact Hne.
  Qed.

  Lemma NoDup_filter : forall {A} (p : A -> bool) l, NoDup l -> NoDup (filter p l).
  Proof.
    intros A p l H. induction H as [|x l Hx Hl IH]; [constructor|]. cbn [filter]. destruct (p x); [|exact IH].
    constructor; [|exact IH]. intros Hin. apply filter_In in Hin. tauto.
  Qed.

  Lemma act_add_eq : forall b ts t d, inv d -> find_tab b (d_tabs d) = Some t ->
    NoDup ts -> (forall m, In m ts -> msg_exists m d = true) ->
    exists r, act_add F ci b ts d
              = Ok (do_add b ts (tab_del (filter (held d b) ts) t) (do_remove b (filter (held d b) ts) t d)) r.
  Proof.
    intros b ts t d I Ht Hnd Hex. unfold act_add.
    pose proof (ex_filter_contains F HF b ts d) as H. rewrite Ht in H. destruct H as [l [E Hl]]. rewrite E. cbn [rbind nums_of].
    rewrite (filter_held d b t ts l Ht Hl). set (rem := filter (held d b) ts).
    assert (E2 : match rem with [] => Ok d RUnit | _ :: _ => act_remove_unchecked F ci b rem d end = Ok (do_remove b rem t d) RUnit).
    { destruct rem as [|x xs] eqn:Er.
      - rewrite (do_remove_nil b t d I Ht). reflexivity.
      - apply (act_remove_unchecked_eq F HF b (x :: xs) t d I Ht). }
    rewrite E2. cbn [rbind].
    apply (st_add_eq F HF b ts (tab_del rem t) (do_remove b rem t d)).
    - apply inv_do_remove; assumption.
    - apply find_do_remove_same. exact Ht.
    - split; [exact Hnd|]. intros m Hm. split.
      + rewrite (held_do_remove b rem t d b m Ht), N.eqb_refl.
        destruct (held d b m) eqn:Eh; [|reflexivity]. cbn [andb].
        assert (In m rem) by (apply filter_In; split; assumption). apply nmem_In in H. rewrite H. reflexivity.
      + apply Hex. exact Hm.
  Qed.

  Lemma do_add_tabs : forall b ids t d, d_tabs (do_add b ids t d) = put_tab (tab_append ids t) (d_tabs d).
  Proof. reflexivity. Qed.
  Lemma do_remove_tabs : forall b ids t d, d_tabs (do_remove b ids t d) = put_tab (tab_del ids t) (d_tabs d).
  Proof. reflexivity. Qed.

  Lemma box_known_abs : forall d r b, abs_eq d r ->
    box_known b d = match find_rbox b r with Some _ => true | None => false end.
  Proof. intros d r b A. rewrite (abs_find d r b A), box_known_find. destruct (find_tab b (d_tabs d)); reflexivity. Qed.

  Lemma sim_copy : forall s b ts d r, rel d r -> cmd_wf (CCopy s b ts) r = true ->
    rel (fst (istep (CCopy s b ts) d)) (fst (ref_step (CCopy s b ts) r)) /\
    snd (istep (CCopy s b ts) d) = snd (ref_step (CCopy s b ts) r).
  Proof.
    intros s b ts d r [I A] W. unfold impl_step. cbn [cmd_tx ref_step].
    rewrite (abs_find d r s A), (abs_find d r b A), !box_known_find.
    destruct (find_tab s (d_tabs d)) as [ts0|] eqn:Hs; cbn [option_map andb]; [|split; [split; assumption | reflexivity]].
    destruct (find_tab b (d_tabs d)) as [t|] eqn:Ht; cbn [option_map]; [|split; [split; assumption | reflexivity]].
    cbn [cmd_wf] in W. destruct (targets_ok_db d r ts A W) as [Hnd Hex].
    destruct (act_add_eq b ts t d I Ht Hnd Hex) as [res E]. rewrite E. cbn [fst snd]. split; [|reflexivity].
    set (rem := filter (held d b) ts) in *. split.
    - apply inv_do_add.
      + apply inv_do_remove; assumption.
      + apply find_do_remove_same. exact Ht.
      + split; [exact Hnd|]. intros m Hm. split; [|apply Hex; exact Hm].
        rewrite (held_do_remove b rem t d b m Ht), N.eqb_refl.
        destruct (held d b m) eqn:Eh; [|reflexivity]. cbn [andb].
        assert (In m rem) by (apply filter_In; split; assumption). apply nmem_In in H. rewrite H. reflexivity.
    - replace (rb_append ts (rb_remove ts (tab_abs t))) with (tab_abs (tab_append ts (tab_del rem t))).
      + apply (abs_put d r _ (tab_append ts (tab_del rem t)) A); try reflexivity.
        rewrite do_add_tabs, do_remove_tabs. apply put_put. rewrite tab_append_box. reflexivity.
      + rewrite tab_append_abs, tab_del_abs. unfold rem. rewrite (rb_remove_held d b t ts Ht). reflexivity.
  Qed.
End Sim2.
