(* C14 — LIST / LSUB.  Impl model (code AFTER notes/C14-fix-1..3) of:
     internal/state/match.go   match, matchRoot, canon, getMatches, prepareMatch
     internal/state/state.go   List  (which mailboxes are offered to getMatches)
     internal/session          handle_list.go, handle_lsub.go (reference and pattern decoded from modified UTF-7)
   match() builds the regular expression
        (?s)^ QuoteMeta(canon(ref+pattern))  [$ unless the pattern ends in %]
   with  \*  replaced by  .*   and  %  by  [^<QuoteMeta(delimiter)>]*   and runs FindAllString(name, 1): the
   leftmost-first match of Go's regexp package (trusted; cross-checked against this model by the harness).
   The regular expressions that can arise are sequences of three kinds of token; rmatch is a backtracking matcher for
   exactly that class: every star is greedy, the first successful alternative wins.  The result is the matched prefix.
   Bytes vs runes: patterns and names are valid UTF-8 and the delimiter is ASCII, so rune-wise and byte-wise matching
   of this class coincide (assumed; exercised by the harness with non-ASCII names).
   No proofs in this file. *)
From Coq Require Import List NArith Bool.
From Gluon Require Import Model.MboxNames Model.WildcardSpec Model.MboxNamespace.
Import ListNotations.
Open Scope N_scope.

Inductive rtok := RLit (b : N) | RAny | RNonDelim.

(* QuoteMeta + the two ReplaceAll *)
Definition compile_tok (c : N) : rtok := if c =? STAR then RAny else if c =? PCT then RNonDelim else RLit c.
Definition compile (p : name) : list rtok := map compile_tok p.

(* x* greedy: first try one more x, then the rest of the expression *)
Fixpoint rstar (ok : N -> bool) (k : name -> option name) (s : name) : option name :=
  match s with
  | c :: t => if ok c then match rstar ok k t with
                           | Some p => Some (c :: p)
                           | None => k s
                           end
              else k s
  | [] => k []
  end.

Definition any_ok (c : N) : bool := true.
Definition nondelim_ok (d : N) (c : N) : bool := negb (c =? d).

Fixpoint rmatch (anch : bool) (d : N) (r : list rtok) : name -> option name :=
  match r with
  | [] => fun s => if anch then match s with [] => Some [] | _ => None end else Some []
  | RLit b :: r' => fun s => match s with
                             | c :: t => if c =? b then option_map (cons c) (rmatch anch d r' t) else None
                             | [] => None
                             end
  | RAny :: r' => rstar any_ok (rmatch anch d r')
  | RNonDelim :: r' => rstar (nondelim_ok d) (rmatch anch d r')
  end.

(* matchRoot *)
Definition match_root (d : N) (ref : name) : name :=
  if negb (existsb (N.eqb d) ref) then []
  else
    let res := (if mb_begins d ref then [d] else []) ++ hd [] (mb_split d ref) in
    if negb (name_eqb res []) && negb (name_eqb res [d]) then res ++ [d] else res.

(* match(ref, pattern, del, mailboxName) *)
Definition impl_match (d : N) (ref pat cand : name) : option name :=
  match pat with
  | [] => Some (match_root d ref)
  | _ => rmatch (negb (ends_pct pat)) d (compile (canon_first d (ref ++ pat))) cand
  end.

(* ---------- getMatches / prepareMatch ---------- *)
(* a matchMailbox: its name and whether EntMBox is set; Subscribed is the same (= lsub) for all of them *)
Definition mmbox := (name * bool)%type.

(* the map built from allMailboxes: a later entry replaces an earlier one of the same name *)
Definition mm_lookup (mbs : list mmbox) (n : name) : option mmbox :=
  find (fun m => name_eqb (fst m) n) (rev mbs).

(* result entry: name and "selectable" (false = \Noselect) *)
Definition lmatch := (name * bool)%type.

Definition prepare_match (lsub pct : bool) (matched : name) (ent : option mmbox) (is_not_superior : bool)
  : option lmatch :=
  let subscribed := match ent with Some _ => lsub | None => false end in
  if lsub && negb subscribed && (is_not_superior || negb pct) then None
  else if match ent with None => true | Some _ => false end
          || name_eqb matched [] || (lsub && negb subscribed)
       then Some (matched, false)
       else Some (matched, match ent with Some e => snd e | None => false end).

Definition lm_has (acc : list lmatch) (n : name) : bool := existsb (fun m => name_eqb (fst m) n) acc.

Definition get_matches (d : N) (lsub : bool) (ref pat : name) (mbs : list mmbox) : list lmatch :=
  fold_left
    (fun acc mb =>
       fold_left
         (fun acc cand =>
            match impl_match d ref pat cand with
            | None => acc
            | Some m =>
                if lm_has acc m then acc
                else match prepare_match lsub (ends_pct pat) m (mm_lookup mbs m) (name_eqb (fst mb) m) with
                     | Some x => acc ++ [x]
                     | None => acc
                     end
            end)
         (list_superiors d (fst mb) ++ [fst mb]) acc)
    mbs [].

(* State.List: the recovery mailbox is hidden while it is empty; LSUB offers the subscribed mailboxes and the
   subscriptions that outlived their mailbox *)
Definition visible_rows (st : nstate) : list mrow := filter (fun r => negb (m_id r =? REC_ID)) (st_rows st).
Definition list_input (st : nstate) (lsub : bool) : list mmbox :=
  if lsub then map (fun r => (m_name r, true)) (filter m_sub (visible_rows st))
               ++ map (fun n => (n, false)) (st_dsubs st)
  else map (fun r => (m_name r, true)) (visible_rows st).

(* the reference argument is a mailbox for the command parser: INBOX in any case is INBOX *)
Definition impl_list (d : N) (st : nstate) (lsub : bool) (ref pat : name) : list lmatch :=
  get_matches d lsub (parse_mailbox ref) pat (list_input st lsub).

(* ---------- Spec of LIST / LSUB: which (name, selectable) pairs are to be returned ---------- *)
(* the names offered: the visible mailboxes (LIST) or the subscribed names (LSUB) *)
Definition offered (st : nstate) (lsub : bool) : list name := map fst (list_input st lsub).
(* the offered name that is an existing mailbox (not only a subscription that outlived it) *)
Definition offered_selectable (st : nstate) (lsub : bool) (n : name) : bool :=
  existsb (fun m => name_eqb (fst m) n && snd m) (list_input st lsub) && negb (name_eqb n []).

Definition spec_listed (d : N) (st : nstate) (lsub : bool) (ref pat : name) (m : name) (sel : bool) : Prop :=
  wm d (list_pattern d ref pat) m /\
  ( (In m (offered st lsub) /\ sel = offered_selectable st lsub m)
    \/ (~ In m (offered st lsub) /\ (exists n, In n (offered st lsub) /\ is_superior d m n) /\
        sel = false /\ (lsub = true -> ends_pct pat = true)) ).
