package main

// Execution of one operation on the real db.Transaction / db.ReadOnly and projection of its result.

import (
	"context"
	"errors"
	"fmt"
	"strconv"
	"strings"
	"sync"
	"time"

	"github.com/ProtonMail/gluon/db"
	"github.com/ProtonMail/gluon/imap"
	"github.com/google/uuid"
)

type req struct {
	ID, Remote int
	Flags      []string
}

// op is one call of the db interface with harness-level (renamed) arguments.
type op struct {
	K                     string
	Box                   int
	Ids                   []int
	Pairs                 [][2]int
	Reqs                  []req
	Flag                  string
	Flags, Flags2, Flags3 []string
	B                     bool
	N1, N2, N3            int
}

// ids keeps the renaming between harness indices and the real identifiers.
type idmap struct {
	mu      sync.Mutex // the maps are also used by concurrent readers (overlap scenarios)
	seed    int64
	msgIdx  map[string]int // uuid string -> index
	extraRm map[string]int // remote ids not of the form r<i> (random ones) -> index
	nextRm  int
}

func newIDMap(seed int64) *idmap {
	return &idmap{seed: seed, msgIdx: map[string]int{}, extraRm: map[string]int{}, nextRm: 900000}
}

func (m *idmap) msgID(i int) imap.InternalMessageID {
	u := uuid.NewMD5(uuid.Nil, []byte(fmt.Sprintf("verif-c08-%d-%d", m.seed, i)))
	m.mu.Lock()
	m.msgIdx[u.String()] = i
	m.mu.Unlock()
	return imap.InternalMessageID{UUID: u}
}
func (m *idmap) msgIndex(id imap.InternalMessageID) int {
	m.mu.Lock()
	defer m.mu.Unlock()
	if i, ok := m.msgIdx[id.String()]; ok {
		return i
	}
	return -1
}

// remoteID is the inverse of remoteIndex: remote ids that the implementation invented (DELETED-<uuid>) keep their real text.
func (m *idmap) remoteID(i int) imap.MessageID {
	m.mu.Lock()
	defer m.mu.Unlock()
	for s, k := range m.extraRm {
		if k == i {
			return imap.MessageID(s)
		}
	}
	return imap.MessageID("r" + strconv.Itoa(i))
}
func mboxRemote(i int) imap.MailboxID { return imap.MailboxID("mb" + strconv.Itoa(i)) }
func mboxName(i int) string           { return "n" + strconv.Itoa(i) }
func (m *idmap) remoteIndex(s string) int {
	m.mu.Lock()
	defer m.mu.Unlock()
	if strings.HasPrefix(s, "r") {
		if n, err := strconv.Atoi(s[1:]); err == nil {
			return n
		}
	}
	if i, ok := m.extraRm[s]; ok {
		return i
	}
	m.nextRm++
	m.extraRm[s] = m.nextRm
	return m.nextRm
}
func idxOf(s, prefix string) int {
	if strings.HasPrefix(s, prefix) {
		if n, err := strconv.Atoi(s[len(prefix):]); err == nil {
			return n
		}
	}
	return -1
}

var baseDate = time.Date(2024, 1, 1, 10, 0, 0, 0, time.UTC)

func (m *idmap) createReq(q req) *db.CreateMessageReq {
	return &db.CreateMessageReq{
		Message:     imap.Message{ID: m.remoteID(q.Remote), Flags: imap.NewFlagSet(q.Flags...), Date: baseDate.Add(time.Duration(q.ID) * time.Second)},
		InternalID:  m.msgID(q.ID),
		LiteralSize: 100 + q.ID,
		Body:        "body" + strconv.Itoa(q.ID),
		Structure:   "struct" + strconv.Itoa(q.ID),
		Envelope:    "env" + strconv.Itoa(q.ID),
	}
}

func (m *idmap) msgIDs(l []int) []imap.InternalMessageID {
	r := make([]imap.InternalMessageID, len(l))
	for i, x := range l {
		r[i] = m.msgID(x)
	}
	return r
}

func (m *idmap) mboxOf(x *db.Mailbox) oMbox {
	return oMbox{ID: int(x.ID), Remote: idxOf(string(x.RemoteID), "mb"), Name: idxOf(x.Name, "n"), UIDV: int(x.UIDValidity), Sub: x.Subscribed}
}

func errClass(err error) string {
	if err == nil {
		return errNone
	}
	if errors.Is(err, db.ErrNotFound) {
		return errNF
	}
	return errOth
}

func flagSetSlice(fs imap.FlagSet) []string {
	if fs == nil {
		return nil
	}
	return fs.ToSlice()
}

// rowFlags returns the message flags of a returned row exactly as stored (the Flags column joined with db.FlagsSeparator)
// and checks that GetFlagSet() is that set plus \Deleted / \Recent exactly when the row says so.
func rowFlags(raw string, fs imap.FlagSet, deleted, recent bool) ([]string, error) {
	var stored []string
	if raw != "" {
		stored = strings.Split(raw, db.FlagsSeparator)
	}
	want := append([]string{}, stored...)
	if deleted {
		want = append(want, imap.FlagDeleted)
	}
	if recent {
		want = append(want, imap.FlagRecent)
	}
	w, g := normFlags(want), normFlags(flagSetSlice(fs))
	if strings.Join(w, " ") != strings.Join(g, " ") {
		return nil, fmt.Errorf("GetFlagSet() = %q but the row has flags %q deleted=%v recent=%v", g, stored, deleted, recent)
	}
	return stored, nil
}

var writeOnly = map[string]bool{
	"AddMessages": true, "RemoveMessages": true, "SetDeleted": true, "CreateMessages": true, "DeleteMessages": true,
	"AddFlag": true, "RemoveFlag": true, "SetFlags": true, "CreateMailbox": true, "GetOrCreateMailbox": true,
	"GetOrCreateMailboxAlt": true, "CreateMailboxIfNotExists": true, "DeleteMailbox": true, "RenameMailbox": true,
	"SetSubscribed": true, "SetUIDValidity": true, "UpdateRemoteMailboxID": true, "CreateMessageAndAdd": true,
	"MarkDeleted": true, "MarkDeletedRemote": true, "MarkDeletedRandomRemote": true, "UpdateRemoteMessageID": true,
	"ClearRecentOne": true, "ClearRecentAll": true, "AddDeletedSubscription": true, "RemoveDeletedSubscription": true,
	"StoreSettings": true, "AddFlagsToAllMailboxes": true, "AddPermFlagsToAllMailboxes": true,
}

// execOp runs o. tx is nil inside a Read.
func (m *idmap) execOp(ctx context.Context, rd db.ReadOnly, tx db.Transaction, o *op) (res, error) {
	box := imap.InternalMailboxID(o.Box)
	switch o.K {
	case "AddMessages":
		ps := make([]db.MessageIDPair, len(o.Pairs))
		for i, p := range o.Pairs {
			ps[i] = db.MessageIDPair{InternalID: m.msgID(p[0]), RemoteID: m.remoteID(p[1])}
		}
		rows, err := tx.AddMessagesToMailbox(ctx, box, ps)
		if err != nil {
			return res{}, err
		}
		out := res{K: "snap"}
		for i := range rows {
			r := &rows[i]
			fl, ferr := rowFlags(r.Flags, r.GetFlagSet(), r.Deleted, r.Recent)
			if ferr != nil {
				return res{K: "inconsistent", Fl: []string{ferr.Error()}}, nil
			}
			out.Snap = append(out.Snap, snapRow{int(r.UID), m.msgIndex(r.InternalID), m.remoteIndex(string(r.RemoteID)), r.Deleted, r.Recent, fl})
		}
		return out, nil
	case "RemoveMessages":
		return rUnit(), tx.RemoveMessagesFromMailbox(ctx, box, m.msgIDs(o.Ids))
	case "SetDeleted":
		return rUnit(), tx.SetMailboxMessagesDeletedFlag(ctx, box, m.msgIDs(o.Ids), o.B)
	case "CreateMessages":
		rs := make([]*db.CreateMessageReq, len(o.Reqs))
		for i, q := range o.Reqs {
			rs[i] = m.createReq(q)
		}
		return rUnit(), tx.CreateMessages(ctx, rs...)
	case "DeleteMessages":
		return rUnit(), tx.DeleteMessages(ctx, m.msgIDs(o.Ids))
	case "AddFlag":
		return rUnit(), tx.AddFlagToMessages(ctx, m.msgIDs(o.Ids), o.Flag)
	case "RemoveFlag":
		return rUnit(), tx.RemoveFlagFromMessages(ctx, m.msgIDs(o.Ids), o.Flag)
	case "SetFlags":
		return rUnit(), tx.SetFlagsOnMessages(ctx, m.msgIDs(o.Ids), imap.NewFlagSet(o.Flags...))
	case "FilterContains":
		ps := make([]db.MessageIDPair, len(o.Ids))
		for i, x := range o.Ids {
			ps[i] = db.MessageIDPair{InternalID: m.msgID(x), RemoteID: m.remoteID(x)}
		}
		l, err := rd.MailboxFilterContains(ctx, box, ps)
		if err != nil {
			return res{}, err
		}
		out := res{K: "nums"}
		for _, id := range l {
			out.Ns = append(out.Ns, m.msgIndex(id))
		}
		return out, nil
	case "GetMessagesFlags":
		l, err := rd.GetMessagesFlags(ctx, m.msgIDs(o.Ids))
		if err != nil {
			return res{}, err
		}
		out := res{K: "msgflags"}
		for _, x := range l {
			out.MF = append(out.MF, msgFlags{m.msgIndex(x.ID), m.remoteIndex(string(x.RemoteID)), flagSetSlice(x.FlagSet)})
		}
		return out, nil
	case "Translate":
		rs := make([]imap.MailboxID, len(o.Ids))
		for i, x := range o.Ids {
			rs[i] = mboxRemote(x)
		}
		l, err := rd.MailboxTranslateRemoteIDs(ctx, rs)
		if err != nil {
			return res{}, err
		}
		out := res{K: "nums"}
		for _, id := range l {
			out.Ns = append(out.Ns, int(id))
		}
		return out, nil
	case "CreateMailbox":
		mb, err := tx.CreateMailbox(ctx, mboxRemote(o.N1), mboxName(o.N2), imap.NewFlagSet(o.Flags...), imap.NewFlagSet(o.Flags2...), imap.NewFlagSet(o.Flags3...), imap.UID(o.N3))
		if err != nil {
			return res{}, err
		}
		return res{K: "mbox", Mb: m.mboxOf(mb)}, nil
	case "GetOrCreateMailbox":
		mb, err := tx.GetOrCreateMailbox(ctx, mboxRemote(o.N1), mboxName(o.N2), imap.NewFlagSet(o.Flags...), imap.NewFlagSet(o.Flags2...), imap.NewFlagSet(o.Flags3...), imap.UID(o.N3))
		if err != nil {
			return res{}, err
		}
		return res{K: "mbox", Mb: m.mboxOf(mb)}, nil
	case "GetOrCreateMailboxAlt":
		mb, err := tx.GetOrCreateMailboxAlt(ctx, imap.Mailbox{ID: mboxRemote(o.N1), Name: []string{mboxName(o.N2)}, Flags: imap.NewFlagSet(o.Flags...), PermanentFlags: imap.NewFlagSet(o.Flags2...), Attributes: imap.NewFlagSet(o.Flags3...)}, "/", imap.UID(o.N3))
		if err != nil {
			return res{}, err
		}
		return res{K: "mbox", Mb: m.mboxOf(mb)}, nil
	case "CreateMailboxIfNotExists":
		return rUnit(), tx.CreateMailboxIfNotExists(ctx, imap.Mailbox{ID: mboxRemote(o.N1), Name: []string{mboxName(o.N2)}, Flags: imap.NewFlagSet(o.Flags...), PermanentFlags: imap.NewFlagSet(o.Flags2...), Attributes: imap.NewFlagSet(o.Flags3...)}, "/", imap.UID(o.N3))
	case "DeleteMailbox":
		return rUnit(), tx.DeleteMailboxWithRemoteID(ctx, mboxRemote(o.N1))
	case "RenameMailbox":
		return rUnit(), tx.RenameMailboxWithRemoteID(ctx, mboxRemote(o.N1), mboxName(o.N2))
	case "SetSubscribed":
		return rUnit(), tx.SetMailboxSubscribed(ctx, box, o.B)
	case "SetUIDValidity":
		return rUnit(), tx.SetMailboxUIDValidity(ctx, box, imap.UID(o.N1))
	case "UpdateRemoteMailboxID":
		return rUnit(), tx.UpdateRemoteMailboxID(ctx, box, mboxRemote(o.N1))
	case "CreateMessageAndAdd":
		uid, fs, err := tx.CreateMessageAndAddToMailbox(ctx, box, m.createReq(o.Reqs[0]))
		if err != nil {
			return res{}, err
		}
		return res{K: "uidflags", N: int(uid), Fl: flagSetSlice(fs)}, nil
	case "MarkDeleted":
		return rUnit(), tx.MarkMessageAsDeleted(ctx, m.msgID(o.N1))
	case "MarkDeletedRemote":
		return rUnit(), tx.MarkMessageAsDeletedWithRemoteID(ctx, m.remoteID(o.N1))
	case "MarkDeletedRandomRemote":
		if err := tx.MarkMessageAsDeletedAndAssignRandomRemoteID(ctx, m.msgID(o.N1)); err != nil {
			return res{}, err
		}
		// learn the random remote id and rename it to the index the harness chose
		rid, err := tx.GetMessageRemoteID(ctx, m.msgID(o.N1))
		if err == nil && strings.HasPrefix(string(rid), "DELETED-") {
			m.mu.Lock()
			m.extraRm[string(rid)] = o.N2
			m.mu.Unlock()
		}
		return rUnit(), nil
	case "UpdateRemoteMessageID":
		return rUnit(), tx.UpdateRemoteMessageID(ctx, m.msgID(o.N1), m.remoteID(o.N2))
	case "ClearRecentOne":
		return rUnit(), tx.ClearRecentFlagInMailboxOnMessage(ctx, box, m.msgID(o.N1))
	case "ClearRecentAll":
		return rUnit(), tx.ClearRecentFlagsInMailbox(ctx, box)
	case "AddDeletedSubscription":
		return rUnit(), tx.AddDeletedSubscription(ctx, mboxName(o.N1), mboxRemote(o.N2))
	case "RemoveDeletedSubscription":
		n, err := tx.RemoveDeletedSubscriptionWithName(ctx, mboxName(o.N1))
		return rNum(n), err
	case "GetDeletedSubscriptions":
		mp, err := rd.GetDeletedSubscriptionSet(ctx)
		if err != nil {
			return res{}, err
		}
		out := res{K: "pairs"}
		for k, v := range mp {
			if k != v.RemoteID {
				return res{}, fmt.Errorf("deleted subscription map key %v differs from its value %v", k, v.RemoteID)
			}
			out.Ps = append(out.Ps, [2]int{idxOf(v.Name, "n"), idxOf(string(v.RemoteID), "mb")})
		}
		return out, nil
	case "StoreSettings":
		return rUnit(), tx.StoreConnectorSettings(ctx, "s"+strconv.Itoa(o.N1))
	case "GetSettings":
		s, has, err := rd.GetConnectorSettings(ctx)
		if err != nil {
			return res{}, err
		}
		if !has {
			return res{K: "optnum"}, nil
		}
		v := idxOf(s, "s")
		return res{K: "optnum", Opt: &v}, nil
	case "AddFlagsToAllMailboxes":
		return rUnit(), tx.AddFlagsToAllMailboxes(ctx, o.Flags...)
	case "AddPermFlagsToAllMailboxes":
		return rUnit(), tx.AddPermFlagsToAllMailboxes(ctx, o.Flags...)
	case "MailboxExistsID":
		b, err := rd.MailboxExistsWithID(ctx, box)
		return rBool(b), err
	case "MailboxExistsRemote":
		b, err := rd.MailboxExistsWithRemoteID(ctx, mboxRemote(o.N1))
		return rBool(b), err
	case "MailboxExistsName":
		b, err := rd.MailboxExistsWithName(ctx, mboxName(o.N1))
		return rBool(b), err
	case "GetMailboxByID":
		mb, err := rd.GetMailboxByID(ctx, box)
		if err != nil {
			return res{}, err
		}
		return res{K: "mbox", Mb: m.mboxOf(mb)}, nil
	case "GetMailboxByRemote":
		mb, err := rd.GetMailboxByRemoteID(ctx, mboxRemote(o.N1))
		if err != nil {
			return res{}, err
		}
		return res{K: "mbox", Mb: m.mboxOf(mb)}, nil
	case "GetMailboxByName":
		mb, err := rd.GetMailboxByName(ctx, mboxName(o.N1))
		if err != nil {
			return res{}, err
		}
		return res{K: "mbox", Mb: m.mboxOf(mb)}, nil
	case "GetMailboxIDFromRemote":
		id, err := rd.GetMailboxIDFromRemoteID(ctx, mboxRemote(o.N1))
		return rNum(int(id)), err
	case "GetMailboxName":
		s, err := rd.GetMailboxName(ctx, box)
		return rNum(idxOf(s, "n")), err
	case "GetMailboxNameWithRemoteID":
		s, err := rd.GetMailboxNameWithRemoteID(ctx, mboxRemote(o.N1))
		return rNum(idxOf(s, "n")), err
	case "GetMailboxCount":
		n, err := rd.GetMailboxCount(ctx)
		return rNum(n), err
	case "GetAllMailboxRemoteIDs":
		l, err := rd.GetAllMailboxesAsRemoteIDs(ctx)
		if err != nil {
			return res{}, err
		}
		out := res{K: "nums"}
		for _, x := range l {
			out.Ns = append(out.Ns, idxOf(string(x), "mb"))
		}
		return out, nil
	case "GetAllMailboxesNameAndRemoteID":
		l, err := rd.GetAllMailboxesNameAndRemoteID(ctx)
		if err != nil {
			return res{}, err
		}
		out := res{K: "pairs"}
		for _, x := range l {
			out.Ps = append(out.Ps, [2]int{idxOf(x.Name, "n"), idxOf(string(x.RemoteID), "mb")})
		}
		return out, nil
	case "GetAllMailboxesWithAttr":
		l, err := rd.GetAllMailboxesWithAttr(ctx)
		if err != nil {
			return res{}, err
		}
		out := res{K: "mboxattrs"}
		for _, x := range l {
			out.Mbs = append(out.Mbs, m.mboxOf(&x.Mailbox))
			out.Attrs = append(out.Attrs, flagSetSlice(x.Attributes))
		}
		return out, nil
	case "GetMailboxFlags":
		var fs imap.FlagSet
		var err error
		switch o.N1 {
		case 0:
			fs, err = rd.GetMailboxFlags(ctx, box)
		case 1:
			fs, err = rd.GetMailboxPermanentFlags(ctx, box)
		default:
			fs, err = rd.GetMailboxAttributes(ctx, box)
		}
		return rFlags(flagSetSlice(fs)), err
	case "GetMessageCount":
		n, err := rd.GetMailboxMessageCount(ctx, box)
		return rNum(n), err
	case "GetMessageCountWithRemoteID":
		n, err := rd.GetMailboxMessageCountWithRemoteID(ctx, mboxRemote(o.N1))
		return rNum(n), err
	case "GetRecentCount":
		n, err := rd.GetMailboxRecentCount(ctx, box)
		return rNum(n), err
	case "GetMailboxUID":
		u, err := rd.GetMailboxUID(ctx, box)
		return rNum(int(u)), err
	case "GetCountAndUID":
		n, u, err := rd.GetMailboxMessageCountAndUID(ctx, box)
		return res{K: "countuid", N: n, N2: int(u)}, err
	case "GetIDPairs":
		l, err := rd.GetMailboxMessageIDPairs(ctx, box)
		if err != nil {
			return res{}, err
		}
		out := res{K: "pairs"}
		for _, x := range l {
			out.Ps = append(out.Ps, [2]int{m.msgIndex(x.InternalID), m.remoteIndex(string(x.RemoteID))})
		}
		return out, nil
	case "Snapshot":
		l, err := rd.GetMailboxMessageForNewSnapshot(ctx, box)
		if err != nil {
			return res{}, err
		}
		out := res{K: "snap"}
		last := 0
		for i := range l {
			r := &l[i]
			if int(r.UID) <= last {
				return res{}, fmt.Errorf("snapshot rows not in ascending UID order: %d after %d", r.UID, last)
			}
			last = int(r.UID)
			fl, ferr := rowFlags(r.Flags, r.GetFlagSet(), r.Deleted, r.Recent)
			if ferr != nil {
				return res{K: "inconsistent", Fl: []string{ferr.Error()}}, nil
			}
			out.Snap = append(out.Snap, snapRow{int(r.UID), m.msgIndex(r.InternalID), m.remoteIndex(string(r.RemoteID)), r.Deleted, r.Recent, fl})
		}
		return out, nil
	case "MessageExists":
		b, err := rd.MessageExists(ctx, m.msgID(o.N1))
		return rBool(b), err
	case "MessageExistsRemote":
		b, err := rd.MessageExistsWithRemoteID(ctx, m.remoteID(o.N1))
		return rBool(b), err
	case "TotalMessageCount":
		n, err := rd.GetTotalMessageCount(ctx)
		return rNum(n), err
	case "GetMessageRemote":
		r, err := rd.GetMessageRemoteID(ctx, m.msgID(o.N1))
		if err != nil {
			return res{}, err
		}
		return rNum(m.remoteIndex(string(r))), nil
	case "GetMessageIDFromRemote":
		id, err := rd.GetMessageIDFromRemoteID(ctx, m.remoteID(o.N1))
		if err != nil {
			return res{}, err
		}
		return rNum(m.msgIndex(id)), nil
	case "GetMessageDeleted":
		b, err := rd.GetMessageDeletedFlag(ctx, m.msgID(o.N1))
		return rBool(b), err
	case "GetMessageNoEdges":
		x, err := rd.GetMessageNoEdges(ctx, m.msgID(o.N1))
		if err != nil {
			return res{}, err
		}
		i := m.msgIndex(x.ID)
		if x.Size != 100+i || x.Body != "body"+strconv.Itoa(i) || x.BodyStructure != "struct"+strconv.Itoa(i) || x.Envelope != "env"+strconv.Itoa(i) || !x.Date.Equal(baseDate.Add(time.Duration(i)*time.Second)) {
			return res{}, fmt.Errorf("message %d: stored fields differ: %+v", i, x)
		}
		return res{K: "msg", N: i, N2: m.remoteIndex(string(x.RemoteID)), B: x.Deleted}, nil
	case "GetMessageDateAndSize":
		dt, sz, err := rd.GetMessageDateAndSize(ctx, m.msgID(o.N1))
		if err != nil {
			return res{}, err
		}
		if sz != 100+o.N1 || !dt.Equal(baseDate.Add(time.Duration(o.N1)*time.Second)) {
			return res{}, fmt.Errorf("message %d: date/size differ: %v %d", o.N1, dt, sz)
		}
		return res{K: "msgds"}, nil
	case "GetImportedMessageData":
		x, err := rd.GetImportedMessageData(ctx, m.msgID(o.N1))
		if err != nil {
			return res{}, err
		}
		return res{K: "msg", N: m.msgIndex(x.ID), N2: m.remoteIndex(string(x.RemoteID)), B: x.Deleted, Fl: flagSetSlice(x.Flags)}, nil
	case "GetMessageMailboxes":
		l, err := rd.GetMessageMailboxIDs(ctx, m.msgID(o.N1))
		if err != nil {
			return res{}, err
		}
		out := res{K: "nums"}
		for _, x := range l {
			out.Ns = append(out.Ns, int(x))
		}
		return out, nil
	case "GetMarkedDeleted":
		l, err := rd.GetMessageIDsMarkedAsDelete(ctx)
		if err != nil {
			return res{}, err
		}
		out := res{K: "nums"}
		for _, x := range l {
			out.Ns = append(out.Ns, m.msgIndex(x))
		}
		return out, nil
	case "GetAllMessageIDs":
		mp, err := rd.GetAllMessagesIDsAsMap(ctx)
		if err != nil {
			return res{}, err
		}
		out := res{K: "nums"}
		for x := range mp {
			out.Ns = append(out.Ns, m.msgIndex(x))
		}
		return out, nil
	}
	return res{}, fmt.Errorf("harness: unknown op %s", o.K)
}
