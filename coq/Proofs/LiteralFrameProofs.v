(* C12/C13 — lemmas about literal framing. *)
From Coq Require Import List ZArith NArith Bool Lia.
From Gluon Require Import Base.DecBytes Model.LiteralFrame.
Import ListNotations.

Lemma span_digits_dec : forall n r,
  span_digits (dec n ++ 125%N :: r) = (dec n, 125%N :: r).
Proof. intros. apply span_digits_app; [apply dec_digits|reflexivity]. Qed.

(* every literal's announced length equals the bytes that follow: a reader that takes `{n}CRLF` and then n bytes
   gets the literal back and is positioned exactly behind it *)
Lemma read_frame_literal : forall lit rest, read_literal (frame_literal lit ++ rest) = Some (lit, rest).
Proof.
  intros lit rest. unfold frame_literal, read_literal.
  cbn [app]. rewrite <- app_assoc. cbn [app]. rewrite span_digits_dec.
  rewrite undec_dec. rewrite app_length.
  destruct (N.ltb_spec (N.of_nat (length lit + length rest)) (N.of_nat (length lit))) as [H|H]; [lia|].
  rewrite Nnat.Nat2N.id. rewrite firstn_app, skipn_app, Nat.sub_diag, firstn_all, skipn_all.
  cbn [firstn skipn app]. rewrite app_nil_r. reflexivity.
Qed.

Lemma frame_literal_length : forall lit, exists hdr,
  frame_literal lit = hdr ++ lit /\ hdr = [123%N] ++ dec (N.of_nat (length lit)) ++ [125%N; 13%N; 10%N].
Proof.
  intros lit. eexists. split; [|reflexivity]. unfold frame_literal. rewrite <- !app_assoc. reflexivity.
Qed.
