(* C08 — internal/db_impl/sqlite3/client.go wrapTx at the level of the connection: BEGIN, the transaction body, then
   COMMIT, or — when the body returns an error — ROLLBACK.  The body's error is an ARBITRARY value; `early e` says whether
   the error branch returns for the error e before it reaches tx.Rollback() (it must not, for any e: generated fact
   Gen/FactsWrapTx.v, `rollback_on_every_path`).

   A connection is the committed database plus, while a transaction is open, the uncommitted state of that transaction
   (its writes and locks). Reads of other connections see `committed`; an open transaction that nobody finishes is what
   "database schema is locked" reports. *)
From Coq Require Import String Ascii.
From Coq Require Import List Bool.
From Gluon Require Import Model.RelDb.
Import ListNotations.
Open Scope list_scope.

(* the error branch reaches the rollback on every path: no statement before the first one that calls Rollback
   unconditionally lets control leave the function, and there is such a statement *)
Fixpoint rollback_on_every_path (branch : list (string * bool * bool)) : bool :=
  match branch with
  | [] => false
  | (_, exits, rollback) :: t => if rollback then true else negb exits && rollback_on_every_path t
  end.

Section WrapTx.
  Variables state err res : Type.

  Record conn := mkConn { committed : state; open_tx : option state }.

  (* the body works on the transaction's private state and returns a result or an error *)
  Definition tx_body : Type := state -> state * (res + err).

  Definition wrap_tx (early : err -> bool) (body : tx_body) (c : conn) : conn * (res + err) :=
    let sr := body (committed c) in
    match snd sr with
    | inl r => (mkConn (fst sr) None, inl r)                                   (* tx.Commit() *)
    | inr e => if early e then (mkConn (committed c) (Some (fst sr)), inr e)   (* returned before tx.Rollback(): left open *)
               else (mkConn (committed c) None, inr e)                         (* tx.Rollback() *)
    end.

  (* what the next Read / Write of the client finds *)
  Definition usable (c : conn) : bool := match open_tx c with None => true | Some _ => false end.
End WrapTx.

Arguments mkConn {state}.
Arguments committed {state}.
Arguments open_tx {state}.
Arguments wrap_tx {state err res}.
Arguments usable {state}.

(* the functional transaction of Model/RelDb.v as a body: the operations in order; `abort = Some e`: the callback returns
   e after the last operation; a failing operation returns its own error *)
Definition ops_body {err : Type} (ex : op -> db -> result) (op_err : err) (ops : list op) (abort : option err) : db -> db * (list rval + err) :=
  fun d => match run_ops ex ops d [] with
           | Some (d', rs) => match abort with Some e => (d', inr e) | None => (d', inl rs) end
           | None => (d, inr op_err)
           end.
