(* Basic lemmas about Model.MailStore / Model.UidValidityGen / Gen.FactsLimits shared by the proofs of C04, C17, C20. *)
From Coq Require Import List ZArith NArith Bool Lia.
From Gluon Require Import Gen.FactsLimits Model.UidValidityGen Model.MailStore.
Import ListNotations.
Open Scope Z_scope.

(* ---------- the translated limit checks ---------- *)
Definition two62 : Z := 4611686018427387904.
Definition cfg_ok (c : cfg) : Prop :=
  0 <= c_max_mbox c < two62 /\ 0 <= c_max_msgs c < two62 /\ 0 <= c_max_uidv c < two62 /\ 0 <= c_max_uid c < two62.

Lemma wrap64_small : forall z, - 9223372036854775808 <= z < 9223372036854775808 -> wrap64 z = z.
Proof.
  intros z H. unfold wrap64.
  rewrite Z.mod_small by lia. lia.
Qed.

Lemma lim_count_spec : forall c n, - 9223372036854775808 <= n < 9223372036854775808 -> lim_count c n = (c_max_mbox c <=? n).
Proof.
  intros c n H. unfold lim_count, CheckMailBoxCount.
  rewrite wrap64_small by lia.
  destruct (n >=? c_max_mbox c) eqn:E; destruct (c_max_mbox c <=? n) eqn:F; try reflexivity; lia.
Qed.

Lemma lim_msgs_spec : forall c e k, 0 <= e < two62 -> 0 <= k < two62 ->
  lim_msgs c e k = negb (e + k <=? c_max_msgs c).
Proof.
  intros c e k He Hk. unfold lim_msgs, CheckMailBoxMessageCount, two62 in *.
  rewrite !(wrap64_small e), !(wrap64_small k) by lia.
  rewrite (wrap64_small (e + k)) by lia.
  destruct (e + k >? c_max_msgs c) eqn:A; destruct (e + k <? e) eqn:B; destruct (e + k <=? c_max_msgs c) eqn:C;
    cbn [orb negb]; try reflexivity; lia.
Qed.

Lemma lim_uid_spec : forall c e k, 0 <= e < two62 -> 0 <= k < two62 ->
  lim_uid c e k = negb (e + k <=? c_max_uid c).
Proof.
  intros c e k He Hk. unfold lim_uid, CheckUIDCount, two62 in *.
  rewrite !(wrap64_small e), !(wrap64_small k) by lia.
  rewrite (wrap64_small (e + k)) by lia.
  destruct (e + k >? c_max_uid c) eqn:A; destruct (e + k <? e) eqn:B; destruct (e + k <=? c_max_uid c) eqn:C;
    cbn [orb negb]; try reflexivity; lia.
Qed.

Lemma lim_uidv_spec : forall c v, 0 <= v < two62 -> lim_uidv c v = (c_max_uidv c <=? v).
Proof.
  intros c v H. unfold lim_uidv, CheckUIDValidity, two62 in *.
  rewrite wrap64_small by lia.
  destruct (v >=? c_max_uidv c) eqn:E; destruct (c_max_uidv c <=? v) eqn:F; try reflexivity; lia.
Qed.

Lemma zlen_nonneg : forall A (l : list A), 0 <= zlen l.
Proof. intros. unfold zlen. lia. Qed.
Lemma zlen_app : forall A (a b : list A), zlen (a ++ b) = zlen a + zlen b.
Proof. intros. unfold zlen. rewrite app_length. lia. Qed.
Lemma zlen_cons : forall A (x : A) l, zlen (x :: l) = 1 + zlen l.
Proof. intros. unfold zlen. cbn [length]. lia. Qed.
Lemma zlen_map : forall A B (f : A -> B) l, zlen (map f l) = zlen l.
Proof. intros. unfold zlen. rewrite map_length. reflexivity. Qed.
Lemma zlen_filter_le : forall A (f : A -> bool) l, zlen (filter f l) <= zlen l.
Proof.
  intros A f l. unfold zlen. induction l as [|x t IH]; cbn [filter length]; [lia|].
  destruct (f x); cbn [length]; lia.
Qed.

(* room: with sane numbers the two checks say exactly that k more messages fit *)
Lemma room_true : forall c m k, cfg_ok c -> 0 <= k < two62 -> zlen (mb_rows m) < two62 -> 0 <= mb_seq m -> mb_seq m + 1 < two62 ->
  room c m k = true -> zlen (mb_rows m) + k <= c_max_msgs c /\ mb_seq m + 1 + k <= c_max_uid c.
Proof.
  intros c m k Hc Hk Hr Hs0 Hs H. unfold room in H.
  rewrite lim_msgs_spec in H by (pose proof (zlen_nonneg _ (mb_rows m)); lia).
  rewrite lim_uid_spec in H by lia.
  rewrite !negb_involutive in H. apply andb_prop in H. destruct H as [A B].
  apply Z.leb_le in A. apply Z.leb_le in B. lia.
Qed.

Lemma room_fits : forall c m k, cfg_ok c -> 0 <= k -> 0 <= mb_seq m ->
  zlen (mb_rows m) + k <= c_max_msgs c -> mb_seq m + 1 + k <= c_max_uid c -> room c m k = true.
Proof.
  intros c m k Hc Hk Hs A B. unfold room.
  destruct Hc as (_ & H1 & _ & H2). pose proof (zlen_nonneg _ (mb_rows m)).
  rewrite lim_msgs_spec by (unfold two62 in *; lia).
  rewrite lim_uid_spec by (unfold two62 in *; lia).
  rewrite !negb_involutive. apply andb_true_intro. split; apply Z.leb_le; lia.
Qed.

(* ---------- names ---------- *)
Lemma path_eqb_eq : forall a b, path_eqb a b = true <-> a = b.
Proof.
  induction a as [|x a IH]; destruct b as [|y b]; cbn [path_eqb]; split; intro H; try reflexivity; try discriminate.
  - apply andb_prop in H. destruct H as [H1 H2]. apply N.eqb_eq in H1. apply IH in H2. subst. reflexivity.
  - inversion H; subst. rewrite N.eqb_refl. cbn [andb]. apply IH. reflexivity.
Qed.
Lemma path_eqb_refl : forall a, path_eqb a a = true.
Proof. intro a. apply path_eqb_eq. reflexivity. Qed.
Lemma path_eqb_neq : forall a b, path_eqb a b = false <-> a <> b.
Proof.
  intros a b. split; intro H.
  - intro E. apply path_eqb_eq in E. congruence.
  - destruct (path_eqb a b) eqn:E; [apply path_eqb_eq in E; contradiction | reflexivity].
Qed.

Lemma nodup_snoc : forall A (l : list A) x, NoDup l -> ~ In x l -> NoDup (l ++ [x]).
Proof.
  induction l as [|y t IH]; intros x Hn Hx; cbn [app]; [constructor; [intros []|constructor]|].
  inversion Hn as [|? ? Hy Ht]; subst. constructor.
  - intro H. apply in_app_or in H. destruct H as [H|[H|[]]]; [contradiction|]. apply Hx. left. symmetry. assumption.
  - apply IH; [assumption|]. intro H. apply Hx. right. assumption.
Qed.

(* ---------- mailbox list ---------- *)
Lemma find_name_in : forall p l m, find_name p l = Some m -> In m l /\ mb_name m = p.
Proof.
  induction l as [|x t IH]; cbn [find_name]; intros m H; [discriminate|].
  destruct (path_eqb (mb_name x) p) eqn:E.
  - inversion H; subst. split; [left; reflexivity | apply path_eqb_eq; assumption].
  - apply IH in H. destruct H. split; [right|]; assumption.
Qed.
Lemma find_id_in : forall i l m, find_id i l = Some m -> In m l /\ mb_id m = i.
Proof.
  induction l as [|x t IH]; cbn [find_id]; intros m H; [discriminate|].
  destruct (N.eqb (mb_id x) i) eqn:E.
  - inversion H; subst. split; [left; reflexivity | apply N.eqb_eq; assumption].
  - apply IH in H. destruct H. split; [right|]; assumption.
Qed.
Lemma find_id_none : forall i l, find_id i l = None -> forall m, In m l -> mb_id m <> i.
Proof.
  induction l as [|x t IH]; cbn [find_id]; intros H m Hin; [contradiction|].
  destruct (N.eqb (mb_id x) i) eqn:E; [discriminate|].
  destruct Hin as [<-|Hin]; [apply N.eqb_neq; assumption | apply IH; assumption].
Qed.
Lemma find_id_nodup : forall l m, NoDup (map mb_id l) -> In m l -> find_id (mb_id m) l = Some m.
Proof.
  induction l as [|x t IH]; intros m Hn Hin; [contradiction|].
  cbn [find_id]. cbn [map] in Hn. inversion Hn as [|? ? Hx Ht]; subst.
  destruct Hin as [<-|Hin]; [rewrite N.eqb_refl; reflexivity|].
  destruct (N.eqb (mb_id x) (mb_id m)) eqn:E.
  - apply N.eqb_eq in E. exfalso. apply Hx. rewrite E. apply in_map. assumption.
  - apply IH; assumption.
Qed.
Lemma nodup_same_id : forall l a b, NoDup (map mb_id l) -> In a l -> In b l -> mb_id a = mb_id b -> a = b.
Proof.
  intros l a b Hn Ha Hb E.
  pose proof (find_id_nodup l a Hn Ha) as H1. pose proof (find_id_nodup l b Hn Hb) as H2.
  rewrite E in H1. congruence.
Qed.

Lemma in_upd : forall i f l m', In m' (upd i f l) -> exists m, In m l /\ m' = (if N.eqb (mb_id m) i then f m else m).
Proof. intros i f l m' H. unfold upd in H. apply in_map_iff in H. destruct H as (m & E & Hin). exists m. split; [assumption | symmetry; assumption]. Qed.
Lemma in_upd_intro : forall i f l m, In m l -> In (if N.eqb (mb_id m) i then f m else m) (upd i f l).
Proof. intros. unfold upd. apply in_map_iff. exists m. split; [reflexivity | assumption]. Qed.
Lemma upd_ids : forall i f l, (forall m, mb_id (f m) = mb_id m) -> map mb_id (upd i f l) = map mb_id l.
Proof.
  intros i f l Hf. unfold upd. rewrite map_map. apply map_ext. intro m.
  destruct (N.eqb (mb_id m) i); [apply Hf | reflexivity].
Qed.
Lemma upd_length : forall i f l, length (upd i f l) = length l.
Proof. intros. unfold upd. apply map_length. Qed.
Lemma in_del : forall i l m, In m (del i l) <-> In m l /\ mb_id m <> i.
Proof.
  intros i l m. unfold del. rewrite filter_In. split; intros [A B]; split; try assumption.
  - apply negb_true_iff in B. apply N.eqb_neq. assumption.
  - apply negb_true_iff. apply N.eqb_neq. assumption.
Qed.
Lemma del_nodup : forall i l, NoDup (map mb_id l) -> NoDup (map mb_id (del i l)).
Proof.
  intros i l. unfold del. induction l as [|x t IH]; cbn [filter map]; intro H; [constructor|].
  inversion H as [|? ? Hx Ht]; subst.
  destruct (negb (N.eqb (mb_id x) i)); cbn [map]; [|apply IH; assumption].
  constructor; [|apply IH; assumption].
  intro Hin. apply Hx. apply in_map_iff in Hin. destruct Hin as (y & E & Hy).
  apply filter_In in Hy. destruct Hy as [Hy _]. rewrite <- E. apply in_map. assumption.
Qed.

(* find_name through a map that keeps the answer of the name test *)
Lemma find_name_map : forall p g l m, find_name p l = Some m ->
  (forall x, In x l -> path_eqb (mb_name (g x)) p = path_eqb (mb_name x) p) ->
  find_name p (map g l) = Some (g m).
Proof.
  induction l as [|x t IH]; cbn [find_name map]; intros m H Hg; [discriminate|].
  rewrite (Hg x) by (left; reflexivity).
  destruct (path_eqb (mb_name x) p).
  - inversion H; subst. reflexivity.
  - apply IH; [assumption | intros y Hy; apply Hg; right; assumption].
Qed.
Lemma find_name_map_weak : forall p g l m, find_name p l = Some m ->
  (forall x, In x l -> path_eqb (mb_name x) p = false -> path_eqb (mb_name (g x)) p = false) ->
  path_eqb (mb_name (g m)) p = true ->
  find_name p (map g l) = Some (g m).
Proof.
  induction l as [|x t IH]; cbn [find_name map]; intros m H Hg Hm; [discriminate|].
  destruct (path_eqb (mb_name x) p) eqn:E.
  - inversion H; subst. rewrite Hm. reflexivity.
  - rewrite (Hg x) by (try (left; reflexivity); assumption).
    apply IH; [assumption | intros y Hy; apply Hg; right; assumption | assumption].
Qed.
Lemma find_name_map_none : forall p g l, find_name p l = None ->
  (forall x, In x l -> path_eqb (mb_name (g x)) p = path_eqb (mb_name x) p) ->
  find_name p (map g l) = None.
Proof.
  induction l as [|x t IH]; cbn [find_name map]; intros H Hg; [reflexivity|].
  rewrite (Hg x) by (left; reflexivity).
  destruct (path_eqb (mb_name x) p); [discriminate|].
  apply IH; [assumption | intros y Hy; apply Hg; right; assumption].
Qed.
Lemma find_name_upd : forall p i f l m, (forall x, mb_name (f x) = mb_name x) -> find_name p l = Some m ->
  find_name p (upd i f l) = Some (if N.eqb (mb_id m) i then f m else m).
Proof.
  intros p i f l m Hf H. unfold upd.
  apply (find_name_map p (fun m => if N.eqb (mb_id m) i then f m else m) l m H).
  intros x _. destruct (N.eqb (mb_id x) i); [rewrite Hf|]; reflexivity.
Qed.
Lemma find_name_app : forall p l x m, find_name p l = Some m -> find_name p (l ++ x) = Some m.
Proof.
  induction l as [|y t IH]; cbn [find_name app]; intros x m H; [discriminate|].
  destruct (path_eqb (mb_name y) p); [assumption | apply IH; assumption].
Qed.
Lemma find_name_filter : forall p (keep : mbox -> bool) l m, find_name p l = Some m -> keep m = true ->
  find_name p (filter keep l) = Some m.
Proof.
  induction l as [|y t IH]; cbn [find_name filter]; intros m H K; [discriminate|].
  destruct (path_eqb (mb_name y) p) eqn:E.
  - inversion H; subst. rewrite K. cbn [find_name]. rewrite E. reflexivity.
  - destruct (keep y); [cbn [find_name]; rewrite E|]; apply IH; assumption.
Qed.
Lemma find_id_upd : forall j i f l, (forall x, mb_id (f x) = mb_id x) ->
  find_id j (upd i f l) = match find_id j l with Some m => Some (if N.eqb (mb_id m) i then f m else m) | None => None end.
Proof.
  intros j i f l Hf. unfold upd. induction l as [|x t IH]; cbn [find_id map]; [reflexivity|].
  assert (E : mb_id (if N.eqb (mb_id x) i then f x else x) = mb_id x) by (destruct (N.eqb (mb_id x) i); [apply Hf | reflexivity]).
  rewrite E. destruct (N.eqb (mb_id x) j); [reflexivity | apply IH].
Qed.
Lemma find_id_app : forall i l x m, find_id i l = Some m -> find_id i (l ++ x) = Some m.
Proof.
  induction l as [|y t IH]; cbn [find_id app]; intros x m H; [discriminate|].
  destruct (N.eqb (mb_id y) i); [assumption | apply IH; assumption].
Qed.
Lemma find_id_app_new : forall i l x, find_id i l = None -> find_id i (l ++ [x]) = if N.eqb (mb_id x) i then Some x else None.
Proof.
  induction l as [|y t IH]; cbn [find_id app]; intros x H; [reflexivity|].
  destruct (N.eqb (mb_id y) i); [discriminate | apply IH; assumption].
Qed.

(* ---------- rows ---------- *)
Lemma assign_length : forall ms q, length (assign q ms) = length ms.
Proof. induction ms as [|m t IH]; intro q; cbn [assign length]; [reflexivity | rewrite IH; reflexivity]. Qed.
Lemma assign_range : forall ms q r, In r (assign q ms) -> q < fst r <= q + zlen ms.
Proof.
  induction ms as [|m t IH]; intros q r H; cbn [assign] in H; [contradiction|].
  rewrite zlen_cons. pose proof (zlen_nonneg _ t).
  destruct H as [<-|H]; cbn [fst]; [lia|]. apply IH in H. lia.
Qed.
Lemma assign_msgs : forall ms q, map snd (assign q ms) = ms.
Proof. induction ms as [|m t IH]; intro q; cbn [assign map snd]; [reflexivity | rewrite IH; reflexivity]. Qed.
Lemma assign_nth : forall ms q n m, nth_error ms n = Some m -> In (q + 1 + Z.of_nat n, m) (assign q ms).
Proof.
  induction ms as [|x t IH]; intros q n m H; destruct n as [|n]; cbn [nth_error] in H; try discriminate.
  - inversion H; subst. cbn [assign]. left. f_equal. lia.
  - cbn [assign]. right. replace (q + 1 + Z.of_nat (S n)) with ((q + 1) + 1 + Z.of_nat n) by lia. apply IH. assumption.
Qed.
(* strictly increasing in list order *)
Fixpoint rows_incr (l : list row) : Prop :=
  match l with [] => True | r :: t => (forall r', In r' t -> fst r < fst r') /\ rows_incr t end.
Lemma assign_incr : forall ms q, rows_incr (assign q ms).
Proof.
  induction ms as [|m t IH]; intro q; cbn [assign rows_incr]; [exact I|].
  split; [|apply IH]. intros r' H. apply assign_range in H. cbn [fst]. lia.
Qed.

Lemma select_rows_in : forall rows uids r, In r (select_rows rows uids) -> In r rows.
Proof.
  intros rows uids r. induction uids as [|u t IH]; cbn [select_rows]; intro H; [contradiction|].
  destruct (find_row u rows) eqn:E.
  - destruct H as [<-|H]; [|apply IH; assumption].
    clear IH. induction rows as [|x xs IHx]; cbn [find_row] in E; [discriminate|].
    destruct (Z.eqb (fst x) u); [inversion E; left; reflexivity | right; apply IHx; assumption].
  - apply IH; assumption.
Qed.
Lemma select_rows_length : forall rows uids, (length (select_rows rows uids) <= length uids)%nat.
Proof.
  intros rows uids. induction uids as [|u t IH]; cbn [select_rows length]; [lia|].
  destruct (find_row u rows); cbn [length]; lia.
Qed.
Lemma zdedup_length : forall l, (length (zdedup l) <= length l)%nat.
Proof. induction l as [|x t IH]; cbn [zdedup length]; [lia|]. destruct (zmem x t); cbn [length]; lia. Qed.
Lemma zinsert_length : forall x l, length (zinsert x l) = S (length l).
Proof. induction l as [|y t IH]; cbn [zinsert length]; [reflexivity|]. destruct (Z.leb x y); cbn [length]; [reflexivity | rewrite IH; reflexivity]. Qed.
Lemma zsort_length : forall l, length (zsort l) = length l.
Proof. induction l as [|x t IH]; cbn [zsort fold_right length]; [reflexivity|]. fold (zsort t). rewrite zinsert_length, IH. reflexivity. Qed.
Lemma selection_in : forall m uids r, In r (selection m uids) -> In r (mb_rows m).
Proof. intros m uids r H. unfold selection in H. apply select_rows_in in H. assumption. Qed.
Lemma selection_length : forall m uids, zlen (selection m uids) <= zlen uids.
Proof.
  intros m uids. unfold selection, zlen.
  pose proof (select_rows_length (mb_rows m) (zsort (zdedup uids))). pose proof (zsort_length (zdedup uids)). pose proof (zdedup_length uids). lia.
Qed.

(* ---------- the UIDVALIDITY generator ---------- *)
Lemma uv_loop_spec : forall fuel ts last, ts <= u32max -> (Z.to_nat (last - ts + 1) + 1 <= fuel)%nat ->
  uv_loop fuel ts last = if last >=? ts then (if last >=? u32max then UvErr else UvOk (last + 1)) else UvOk ts.
Proof.
  induction fuel as [|f IH]; intros ts last Hts Hf; [lia|].
  cbn [uv_loop]. destruct (last >=? ts) eqn:E; [|reflexivity].
  destruct (ts =? u32max) eqn:E2.
  - apply Z.eqb_eq in E2. subst ts. destruct (last >=? u32max) eqn:E3; [reflexivity | congruence].
  - apply Z.eqb_neq in E2. rewrite IH by lia.
    destruct (last >=? ts + 1) eqn:E4.
    + reflexivity.
    + assert (last = ts) by lia. subst. destruct (ts >=? u32max) eqn:E5; [lia|reflexivity].
Qed.
Lemma uv_generate_closed : forall now last, uv_generate now last = uv_closed now last.
Proof.
  intros now last. unfold uv_generate, uv_closed.
  destruct ((now <? 0) || (now >? u32max)) eqn:E; [reflexivity|].
  apply orb_false_iff in E. destruct E as [E1 E2].
  apply uv_loop_spec; lia.
Qed.
(* every generated value is strictly above the previous one, whatever the clock says *)
Lemma uv_generate_gt : forall now last v, uv_generate now last = UvOk v -> last < v /\ v <= u32max.
Proof.
  intros now last v H. rewrite uv_generate_closed in H. unfold uv_closed in H.
  destruct ((now <? 0) || (now >? u32max)) eqn:E; [discriminate|].
  apply orb_false_iff in E. destruct E as [E1 E2].
  destruct (last >=? now) eqn:E3.
  - destruct (last >=? u32max) eqn:E4; [discriminate|]. inversion H; subst. lia.
  - inversion H; subst. lia.
Qed.
Lemma uv_generate_ge_clock : forall now last v, uv_generate now last = UvOk v -> now <= v.
Proof.
  intros now last v H. rewrite uv_generate_closed in H. unfold uv_closed in H.
  destruct ((now <? 0) || (now >? u32max)) eqn:E; [discriminate|].
  destruct (last >=? now) eqn:E3.
  - destruct (last >=? u32max) eqn:E4; [discriminate|]. inversion H; subst. lia.
  - inversion H; subst. lia.
Qed.
Lemma uv_generate_never_fuel : forall now last, uv_generate now last <> UvFuel.
Proof.
  intros now last. rewrite uv_generate_closed. unfold uv_closed.
  destruct ((now <? 0) || (now >? u32max)); [discriminate|].
  destruct (last >=? now); [destruct (last >=? u32max)|]; discriminate.
Qed.

(* ---------- find_id through list changes ---------- *)
Lemma find_id_map : forall j g l, (forall x, mb_id (g x) = mb_id x) ->
  find_id j (map g l) = option_map g (find_id j l).
Proof.
  intros j g l Hg. induction l as [|x t IH]; cbn [find_id map option_map]; [reflexivity|].
  rewrite Hg. destruct (N.eqb (mb_id x) j); [reflexivity | exact IH].
Qed.
Lemma find_id_filter : forall j (keep : mbox -> bool) l m, find_id j l = Some m -> keep m = true ->
  find_id j (filter keep l) = Some m.
Proof.
  induction l as [|y t IH]; cbn [find_id filter]; intros m H K; [discriminate|].
  destruct (N.eqb (mb_id y) j) eqn:E.
  - inversion H; subst. rewrite K. cbn [find_id]. rewrite E. reflexivity.
  - destruct (keep y); [cbn [find_id]; rewrite E|]; apply IH; assumption.
Qed.
