package main

// Watchdog: a store call that does not return is a finding, not a reason for the harness to hang.
// Every Get/Set/Delete/List of the sequential scenarios runs in its own goroutine; if it has not returned after
// callTimeout the harness records an oracle failure that names the input (what was stored, how the file was damaged, the
// file itself when it is small), writes cases.v and result.json and ends the process - the stuck call cannot be
// cancelled.  The concurrent scenarios have one watchdog for the whole scenario.

import (
	"encoding/hex"
	"fmt"
	"io"
	"os"
	"time"

	"github.com/ProtonMail/gluon/imap"
	"github.com/ProtonMail/gluon/store"

	"verifharness/common"
)

const callTimeout = 15 * time.Second

// what the harness is doing right now (set by the scenarios; read when a call does not return)
type situation struct {
	Scenario string      `json:"scenario"`
	Damage   string      `json:"damage,omitempty"` // class of the damage done to the file, "" = intact
	Input    interface{} `json:"input,omitempty"`
	File     string      `json:"file,omitempty"` // path of the file the call works on
}

type watched struct {
	x    *h
	impl store.Store
	name string
}

func (x *h) watch(impl store.Store, name string) *watched {
	return &watched{x: x, impl: impl, name: name}
}

// hang records the failure and ends the process.
func (x *h) hang(op string) {
	res := x.ctx.Res
	sit := x.sit
	damage := sit.Damage
	if damage == "" {
		damage = "intact file"
	}
	canon := fmt.Sprintf("%s-does-not-return: %s", op, damage)
	c := map[string]interface{}{"situation": sit, "timeout": callTimeout.String(),
		"theorem": "Props/C09.v C09_truncated_is_error: every strict prefix of a store file is an error (the model's Get always answers); C09_get_set / C09_history_list_exact for intact files"}
	if sit.File != "" {
		if b, err := os.ReadFile(sit.File); err == nil {
			c["file_size"] = len(b)
			if len(b) <= 4096 {
				c["file_hex"] = hex.EncodeToString(b)
			} else {
				c["file_head_hex"] = hex.EncodeToString(b[:64])
			}
		}
	}
	res.Evaluations++
	res.Fail(canon, fmt.Sprintf("store.%s did not return within %v (%s; %s): the call neither yields the stored bytes nor an error", op, callTimeout, sit.Scenario, damage), c)
	res.Notes = append(res.Notes, "the run was ended after a store call that does not return; later scenarios were not run")
	x.finish()
	os.Exit(0)
}

// finish writes cases.v and result.json.
func (x *h) finish() {
	x.ctx.Res.ModelCases = len(x.cases)
	_ = common.WriteCases(x.ctx.Out, "Run.RunC09", "case", x.cases, "")
	_ = x.ctx.Res.Write(x.ctx.Out)
}

func (w *watched) guard(op string, f func()) {
	done := make(chan struct{})
	go func() {
		defer close(done)
		f()
	}()
	select {
	case <-done:
	case <-time.After(callTimeout):
		w.x.hang(op)
	}
}

func (w *watched) Get(id imap.InternalMessageID) (b []byte, err error) {
	w.guard("get", func() { b, err = w.impl.Get(id) })
	return
}

func (w *watched) Set(id imap.InternalMessageID, r io.Reader) (err error) {
	w.guard("set", func() { err = w.impl.Set(id, r) })
	return
}

func (w *watched) Delete(ids ...imap.InternalMessageID) (err error) {
	w.guard("delete", func() { err = w.impl.Delete(ids...) })
	return
}

func (w *watched) List() (l []imap.InternalMessageID, err error) {
	w.guard("list", func() { l, err = w.impl.List() })
	return
}

func (w *watched) Close() error { return w.impl.Close() }

// scenarioWatchdog ends the run if a concurrent scenario does not finish.
func (x *h) scenarioWatchdog(name string, limit time.Duration, f func()) {
	done := make(chan struct{})
	go func() {
		defer close(done)
		f()
	}()
	select {
	case <-done:
	case <-time.After(limit):
		x.sit = situation{Scenario: name}
		x.hang("concurrent-scenario")
	}
}
