(* C03 — Mailbox contents follow the reference semantics of the message commands.
   Property theorems only; every proof is `exact <lemma>` (or a computation) and is followed by Print Assumptions.

   Spec: Model/MailboxRef.v  (`ref_step`, `run_spec`): per mailbox the ordered list of (uid, message, \Deleted, \Recent)
         and the next UID; per message entity a case-insensitive flag set shared by all mailboxes.
   Impl: Model/MailboxActions.v (`impl_step`, `run_impl`): each command is the transaction that internal/state
         builds from the action* helpers over the relational index at the implementation level of Model/RelDb.v
         (chunked statements with the generated bind-argument facts, flag removal with the generated NOCASE fact).
   `rel d r` = the index d satisfies its invariants (keys, foreign keys, membership relation = mailbox tables) and
   presents exactly the reference state r to a fresh session (`abs_eq`: same rows in the same order with the same
   UIDs, \Deleted, \Recent and next UID in every mailbox; same message entities; same flags up to case).

   Commands carry resolved targets (the acting session's view is an input).  `run_wf`: targets are duplicate-free lists
   of existing entities (C16), an appended message is a new entity, and — for EXPUNGE — what the session sees as
   \Deleted is \Deleted in the mailbox (`expunge_view_ok`). *)
From Coq Require Import String Ascii.
From Coq Require Import List NArith Bool.
From Gluon Require Import Model.Chunks Model.SqlBindFacts Model.RelDb Model.RelDbFacts Model.MailboxRef Model.MailboxActions
  Proofs.RelDbProofs Proofs.MailboxProofs Gen.FactsSqlBind Model.SessionNews Proofs.SessionNewsProofs Gen.FactsResponders
  Model.TargetOrder Proofs.TargetOrderProofs Gen.FactsTargetOrder.
From Coq Require Import Sorting.Permutation Sorting.Sorted.
Import ListNotations.
Open Scope list_scope.
Open Scope N_scope.

(* FULL STATEMENT (not provable for the faithful model, see C03_refines_refuted):
     forall F cs d r, facts_ok F = true -> rel d r -> (targets of every command are duplicate-free existing entities,
       appended messages are new) -> rel (run_impl F true cs d) (run_spec cs r).
   Proved: the same with the additional EXPUNGE view condition inside run_wf, for every command sequence of any
   length, any number of targets (batching is discharged by C08 for every chunk size in F), any interleaving of
   sessions (their views are the targets). *)
Theorem C03_refines_partial : forall F, facts_ok F = true -> forall cs d r, rel d r -> run_wf cs r = true ->
  rel (run_impl F true cs d) (run_spec cs r).
Proof. exact run_sim. Qed.
Print Assumptions C03_refines_partial.

(* in particular what a fresh session sees is the reference state *)
Theorem C03_contents_equal_reference : forall F, facts_ok F = true -> forall cs d r, rel d r -> run_wf cs r = true ->
  abs_eq (run_impl F true cs d) (run_spec cs r).
Proof. exact (fun F HF cs d r R W => proj2 (run_sim F HF cs d r R W)). Qed.
Print Assumptions C03_contents_equal_reference.

(* one command: related states stay related and the tagged answers (OK / NO) agree *)
Theorem C03_step : forall F, facts_ok F = true -> forall c d r, rel d r -> cmd_wf c r = true ->
  rel (fst (impl_step F true c d)) (fst (ref_step c r)) /\ snd (impl_step F true c d) = snd (ref_step c r).
Proof. exact step_sim. Qed.
Print Assumptions C03_step.

(* a command answered NO leaves every mailbox (the whole index) unchanged *)
Theorem C03_failed_command_no_effect : forall F ci c d, snd (impl_step F ci c d) = NO -> fst (impl_step F ci c d) = d.
Proof. exact failed_no_effect_gen. Qed.
Print Assumptions C03_failed_command_no_effect.

(* flags are case-insensitive: STORE -FLAGS (f) removes every spelling of f from all targets *)
Theorem C03_flags_case_insensitive : forall F, facts_ok F = true -> forall b ts f f' d r, rel d r ->
  cmd_wf (CStore b SRemove [f] ts) r = true ->
  snd (impl_step F true (CStore b SRemove [f] ts) d) = OK ->
  flag_eqb_ci f deleted_flag = false -> flag_eqb_ci f f' = true ->
  forall m, In m ts -> db_has_flag (fst (impl_step F true (CStore b SRemove [f] ts) d)) m f' = false.
Proof. exact store_remove_any_case. Qed.
Print Assumptions C03_flags_case_insensitive.

(* ---- the current source ---- *)
Theorem C03_facts_ok : facts_ok stmt_facts = true /\ remove_flag_nocase = true.
Proof. vm_compute. split; reflexivity. Qed.
Print Assumptions C03_facts_ok.

Theorem C03_current_source_refines : forall cs d r, rel d r -> run_wf cs r = true ->
  rel (run_impl stmt_facts remove_flag_nocase cs d) (run_spec cs r).
Proof. exact (fun cs d r => run_sim_ci stmt_facts remove_flag_nocase cs d r (proj1 C03_facts_ok) (proj2 C03_facts_ok)). Qed.
Print Assumptions C03_current_source_refines.

(* ---- the news a session is told (Model/SessionNews.v) ---- *)
(* EXPUNGE / CLOSE remove what the session's snapshot marks \Deleted and message sets are resolved over the snapshot's rows,
   so the content of the mailboxes depends on what the responders of OTHER sessions' commands do to the snapshot.

   Source facts (regenerated on every run): inside the handle methods of internal/state/responders.go the flag set of the
   update — one Go map shared by all responders created from the update — is only read (receiver of FlagSet methods
   that do not change their receiver according to imap/flags.go, argument of FlagSet methods), the in-place methods are
   only applied to variables declared in the method, and the FetchFlagOpSet case of fetch.handle takes a copy. *)
Theorem C03_responders_only_read_the_update : 
  responder_facts_ok handle_flagset_uses handle_inplace_calls flagset_methods flagset_mutators fetch_set_clones = true.
Proof. vm_compute. reflexivity. Qed.
Print Assumptions C03_responders_only_read_the_update.

(* +FLAGS, -FLAGS and FLAGS updates all decide "came from a different mailbox" by comparing mailboxes: a session of the
   SAME mailbox as the STORE takes over the change of \Deleted (set as well as taken back), so that what it marks \Deleted
   stays what the mailbox marks \Deleted (expunge_view_ok) *)
Theorem C03_flag_updates_compare_mailboxes : newfetch_ok newfetch_calls = true.
Proof. vm_compute. reflexivity. Qed.
Print Assumptions C03_flag_updates_compare_mailboxes.

(* State.close drops the pending responders; the snapshot is only replaced by Select / Examine after a close guarded by
   `snap != nil`, and by close itself *)
Theorem C03_close_drops_pending_news : close_resets_res = true /\ setsnap_ok setsnap_calls = true.
Proof. vm_compute. split; reflexivity. Qed.
Print Assumptions C03_close_drops_pending_news.

(* one STORE FLAGS (replace form) handed to any number of sessions flushing in any order: with the copy every session
   computes the specified function of the update, independently of the sessions that flushed before it *)
Theorem C03_set_update_order_irrelevant : forall (fl : Type) from (u : mflags fl) ss,
  flush_set fetch_set_clones from u ss = map (handle_set from u) ss.
Proof. exact (fun fl => flush_set_spec fl fetch_set_clones eq_refl). Qed.
Print Assumptions C03_set_update_order_irrelevant.

(* and what its snapshot then marks \Deleted is what ITS mailbox marks \Deleted in the index after the STORE (the EXPUNGE
   view condition of run_wf is kept by flag updates issued through any mailbox) *)
Theorem C03_set_update_keeps_deleted_per_mailbox : forall (fl : Type) from (u : mflags fl) ss i s,
  nth_error ss i = Some s -> s_has s = true ->
  exists s', nth_error (flush_set fetch_set_clones from u ss) i = Some s' /\ s_box s' = s_box s /\
    snd (s_cur s') = box_deleted_after from u (s_box s) (snd (s_cur s)).
Proof. exact (fun fl => flush_set_deleted_agrees fl fetch_set_clones eq_refl). Qed.
Print Assumptions C03_set_update_keeps_deleted_per_mailbox.

(* without the copy: a session of another mailbox, in which the message is \Deleted, flushes first; the session of the
   mailbox of the STORE then marks the message \Deleted (and its EXPUNGE removes it) although the index says it is not *)
Theorem C03_shared_update_refuted :
  map (fun s => snd (s_cur s)) (flush_set false 1 (tt, false) shared_demo) = [true; true] /\
  map (fun s => snd (s_cur s)) (map (handle_set 1 (tt, false)) shared_demo) = [true; false] /\
  map (fun s => box_deleted_after 1 (tt, false) (s_box s) (snd (s_cur s))) shared_demo = [true; false] /\
  map (fun s => snd (s_cur s)) (flush_set false 1 (tt, false) (rev shared_demo)) = [false; true].
Proof. exact flush_set_shared_refuted. Qed.
Print Assumptions C03_shared_update_refuted.

(* a session that selects another mailbox while news of the one it leaves are pending is shown, at its next flush,
   exactly the rows of the new mailbox as read from the index *)
Theorem C03_switch_mailbox_with_pending_news : forall load b ns s, sess_wf s ->
  flush_news (select_impl close_resets_res load b (fold_right push_news s ns)) = mkSess (Some (b, load b)) [].
Proof. exact (pushes_then_select_then_flush close_resets_res eq_refl). Qed.
Print Assumptions C03_switch_mailbox_with_pending_news.

Theorem C03_switch_without_reset_refuted :
  let s := push_news (NExists 11 2) (mkSess (Some (1, [(1, 10)])) []) in
  let load := fun b => if N.eqb b 2 then [(1, 20)] else [(1, 10); (2, 11)] in
  ss_snap (flush_news (select_impl false load 2 s)) = Some (2, [(1, 20); (2, 11)]) /\
  ss_snap (flush_news (select_impl true load 2 s)) = Some (2, [(1, 20)]).
Proof. exact select_without_reset_refuted. Qed.
Print Assumptions C03_switch_without_reset_refuted.

(* ---- the order in which COPY / MOVE hand the selection over (Model/TargetOrder.v) ---- *)
(* source fact: Mailbox.Copy and Mailbox.Move sort the selected messages (stable, ascending source UID) before anything
   else looks at them *)
Theorem C03_copy_move_sort_first : target_order_ok target_order_facts = true.
Proof. vm_compute. reflexivity. Qed.
Print Assumptions C03_copy_move_sort_first.

(* whatever order the message set names the messages in (`3,1`, `4:2,1`, ...: any permutation of the selection), COPY and
   MOVE have the same effect on every mailbox *)
Theorem C03_copy_order_of_request_irrelevant : forall s d req req' r, Permutation req req' -> NoDup (map fst req) ->
  ref_step (CCopy s d (handed_over (sorts_first target_order_facts "Copy") req)) r =
  ref_step (CCopy s d (handed_over (sorts_first target_order_facts "Copy") req')) r.
Proof. exact (copy_perm_invariant (sorts_first target_order_facts "Copy") eq_refl). Qed.
Print Assumptions C03_copy_order_of_request_irrelevant.

Theorem C03_move_order_of_request_irrelevant : forall s d req req' r, Permutation req req' -> NoDup (map fst req) ->
  ref_step (CMove s d (handed_over (sorts_first target_order_facts "Move") req)) r =
  ref_step (CMove s d (handed_over (sorts_first target_order_facts "Move") req')) r.
Proof. exact (move_perm_invariant (sorts_first target_order_facts "Move") eq_refl). Qed.
Print Assumptions C03_move_order_of_request_irrelevant.

(* and the destination receives the messages, at its end, in the order of the session's view (ascending source UID) *)
Theorem C03_destination_order_is_source_order : forall view req y,
  StronglySorted uid_lt view -> NoDup (map fst req) -> (forall p, In p req -> In p view) ->
  let ts := handed_over (sorts_first target_order_facts "Move") req in
  map rr_msg (rb_rows (rb_append ts (rb_remove ts y))) = map rr_msg (rb_rows (rb_remove ts y)) ++ source_order view req.
Proof. exact (copy_destination_order (sorts_first target_order_facts "Move") eq_refl). Qed.
Print Assumptions C03_destination_order_is_source_order.

(* without the sort the request order shows: MOVE 3,1 *)
Theorem C03_unsorted_request_refuted :
  handed_over false [(3, 30); (1, 10)] = [30; 10] /\ handed_over true [(3, 30); (1, 10)] = [10; 30] /\
  source_order [(1, 10); (2, 20); (3, 30)] [(3, 30); (1, 10)] = [10; 30].
Proof. vm_compute. repeat split; reflexivity. Qed.
Print Assumptions C03_unsorted_request_refuted.

(* ---- non-vacuity ---- *)
(* the empty index and an index with two empty mailboxes are related to the corresponding reference states *)
Example C03_rel_empty : rel empty_db empty_ref.
Proof. exact rel_empty. Qed.
Example C03_rel_two_mailboxes : rel db2 ref2.
Proof. exact rel_db2. Qed.

(* a well-formed run over two mailboxes: APPEND with flags, STORE in another case, COPY onto itself, MOVE, stale COPY,
   EXPUNGE *)
Definition demo : list cmd := [
  CAppend 1 1 ["Foo"%string; "\Seen"%string]; CAppend 1 2 ["\Deleted"%string]; CAppend 1 3 [];
  CStore 1 SRemove ["foo"%string] [1; 3]; CStore 1 SAdd ["$Forwarded"%string; "\Deleted"%string] [3];
  CCopy 1 1 [1]; CCopy 1 2 [1; 2]; CMove 1 2 [1; 3]; CExpunge 1 [2]; CCopy 2 1 [2]; CStore 2 SSet [] [1] ].

Example C03_demo_wf : run_wf demo ref2 = true.
Proof. vm_compute. reflexivity. Qed.

Example C03_demo_result :
  map (fun x => (rb_id x, rb_last x, map (fun e => (rr_uid e, rr_msg e, rr_deleted e)) (rb_rows x))) (rf_boxes (run_spec demo ref2))
  = [(1, 5, [(5, 2, false)]); (2, 4, [(2, 2, false); (3, 1, false); (4, 3, false)])]
  /\ map tab_abs (d_tabs (run_impl stmt_facts remove_flag_nocase demo db2)) = rf_boxes (run_spec demo ref2).
Proof. vm_compute. split; reflexivity. Qed.

(* ---- the full statement is refuted by the faithful model ---- *)
(* A session that still sees the old, \Deleted instance of a message that was copied onto its own mailbox expunges the
   new, not \Deleted copy: EXPUNGE removes by message what the stale view marks (Mailbox.Expunge).  The targets are
   duplicate-free existing entities, only `expunge_view_ok` fails.  Replayed on the server:
   SELECT b; APPEND b (\Deleted); COPY 1 b; EXPUNGE  ->  b is empty (finding C03-expunge-removes-readded-message). *)
Definition readded : list cmd := [CAppend 1 1 ["\Deleted"%string]; CCopy 1 1 [1]; CExpunge 1 [1]].

Theorem C03_refines_refuted :
  run_wf readded ref2 = false /\
  forallb (fun c => match c with CExpunge _ ts | CCopy _ _ ts => nodupb ts | _ => true end) readded = true /\
  map (fun x => map rr_msg (rb_rows x)) (rf_boxes (run_spec readded ref2)) = [[1]; []] /\
  map (fun t => map r_msg (t_rows t)) (d_tabs (run_impl stmt_facts remove_flag_nocase readded db2)) = [[]; []].
Proof. vm_compute. repeat split; reflexivity. Qed.
Print Assumptions C03_refines_refuted.

(* with the case-sensitive comparison of the unrepaired RemoveFlagFromMessages (ci = false) the flag stays *)
Example C03_case_sensitive_removal_refuted :
  db_has_flag (run_impl stmt_facts false [CAppend 1 1 ["Foo"%string]; CStore 1 SRemove ["foo"%string] [1]] db2) 1 "Foo"%string = true
  /\ ref_has_flag (run_spec [CAppend 1 1 ["Foo"%string]; CStore 1 SRemove ["foo"%string] [1]] ref2) 1 "Foo"%string = false.
Proof. vm_compute. split; reflexivity. Qed.
