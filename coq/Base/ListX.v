(* Small list utilities shared by the Run files (canonicalisation before comparing). *)
From Coq Require Import List NArith Bool.
Import ListNotations.
Open Scope N_scope.

Fixpoint ninsert (x : N) (l : list N) : list N :=
  match l with [] => [x] | y :: t => if x <=? y then x :: l else y :: ninsert x t end.
Definition nsort (l : list N) : list N := fold_right ninsert [] l.

Fixpoint list_eqb {A} (eqb : A -> A -> bool) (a b : list A) : bool :=
  match a, b with
  | [], [] => true
  | x :: a', y :: b' => eqb x y && list_eqb eqb a' b'
  | _, _ => false
  end.

Definition nlist_eqb := list_eqb N.eqb.

Fixpoint ndedup_sorted (l : list N) : list N :=
  match l with
  | [] => []
  | x :: t => match t with
              | [] => [x]
              | y :: _ => if x =? y then ndedup_sorted t else x :: ndedup_sorted t
              end
  end.

(* indices (0-based) of the elements for which f is false *)
Fixpoint bad_indices {A} (f : A -> bool) (l : list A) (i : nat) : list nat :=
  match l with [] => [] | x :: t => if f x then bad_indices f t (S i) else i :: bad_indices f t (S i) end.
