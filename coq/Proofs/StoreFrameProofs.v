(* Lemmas for C09 (Model/StoreFrame.v). *)
From Coq Require Import List NArith Arith Bool Lia.
From Gluon Require Import Model.StoreFrame.
Import ListNotations.

(* ================= cut ================= *)
Section CutLemmas.
  Context {A : Type}.
  Implicit Types l : list A.

  Lemma cut_fuel_enough : forall f1 f2 n l, 0 < n -> length l <= f1 -> length l <= f2 ->
    cut_fuel f1 n l = cut_fuel f2 n l.
  Proof.
    induction f1 as [|f1 IH]; intros f2 n l Hn H1 H2.
    - destruct l as [|x l]; [|cbn in H1; lia]. destruct f2; reflexivity.
    - destruct l as [|x l].
      + destruct f2; reflexivity.
      + destruct f2 as [|f2]; [cbn in H2; lia|].
        cbn [cut_fuel]. f_equal. apply IH; auto.
        * rewrite skipn_length. cbn [length] in *. lia.
        * rewrite skipn_length. cbn [length] in *. lia.
  Qed.

  Lemma cut_nil : forall n, cut n (@nil A) = [].
  Proof. reflexivity. Qed.

  Lemma cut_cons : forall n l, 0 < n -> l <> [] -> cut n l = firstn n l :: cut n (skipn n l).
  Proof.
    intros n l Hn Hl. unfold cut. destruct l as [|x l]; [congruence|].
    cbn [length cut_fuel]. f_equal. apply cut_fuel_enough; auto.
    rewrite skipn_length. cbn [length]. lia.
  Qed.

  Lemma cut_small : forall n l, 0 < n -> l <> [] -> length l <= n -> cut n l = [l].
  Proof.
    intros n l Hn Hl Hlen. rewrite cut_cons by auto.
    rewrite firstn_all2 by lia. rewrite skipn_all2 by lia. reflexivity.
  Qed.

  Lemma cut_app_exact : forall n (b r : list A), 0 < n -> length b = n -> cut n (b ++ r) = b :: cut n r.
  Proof.
    intros n b r Hn Hb. rewrite cut_cons; auto.
    - rewrite firstn_app. replace (n - length b) with 0 by lia. rewrite firstn_O, app_nil_r.
      rewrite firstn_all2 by lia.
      rewrite skipn_app. replace (n - length b) with 0 by lia. rewrite skipn_O.
      rewrite skipn_all2 by lia. reflexivity.
    - destruct b; cbn in *; [lia|congruence].
  Qed.

  Lemma concat_cut : forall n l, 0 < n -> concat (cut n l) = l.
  Proof.
    intros n l Hn. remember (length l) as m eqn:Hm. revert l Hm.
    induction m as [m IH] using lt_wf_ind. intros l Hm.
    destruct l as [|x l]; [reflexivity|].
    rewrite cut_cons by (auto; congruence). cbn [concat].
    rewrite (IH (length (skipn n (x :: l)))); auto.
    - apply firstn_skipn.
    - rewrite skipn_length. cbn [length] in *. lia.
  Qed.

  (* well-formed block list for size n: no empty block, all blocks but the last have exactly n elements *)
  Fixpoint wf_blocks (n : nat) (bl : list (list A)) : Prop :=
    match bl with
    | [] => True
    | b :: t => 0 < length b /\ length b <= n /\ (t <> [] -> length b = n) /\ wf_blocks n t
    end.

  Lemma cut_wf : forall n l, 0 < n -> wf_blocks n (cut n l).
  Proof.
    intros n l Hn. remember (length l) as m eqn:Hm. revert l Hm.
    induction m as [m IH] using lt_wf_ind. intros l Hm.
    destruct l as [|x l]; [exact I|].
    rewrite cut_cons by (auto; congruence). cbn [wf_blocks].
    assert (Hf : length (firstn n (x :: l)) = Nat.min n (length (x :: l))) by apply firstn_length.
    repeat split.
    - rewrite Hf. cbn [length]. lia.
    - rewrite Hf. lia.
    - intros Hne. rewrite Hf.
      destruct (le_lt_dec (length (x :: l)) n) as [Hle|Hgt]; [|lia].
      exfalso. apply Hne. rewrite skipn_all2 by lia. reflexivity.
    - apply (IH (length (skipn n (x :: l)))); auto.
      rewrite skipn_length. cbn [length] in *. lia.
  Qed.

  Lemma cut_concat_wf : forall n bl, 0 < n -> wf_blocks n bl -> cut n (concat bl) = bl.
  Proof.
    intros n bl Hn. induction bl as [|b t IH]; intros Hwf; [reflexivity|].
    cbn [wf_blocks] in Hwf. destruct Hwf as (Hpos & Hle & Hfull & Hwt).
    cbn [concat]. destruct t as [|b2 t2].
    - cbn [concat]. rewrite app_nil_r. apply cut_small; auto. destruct b; cbn in *; [lia|congruence].
    - rewrite cut_app_exact; auto.
      + f_equal. apply IH. exact Hwt.
      + apply Hfull. congruence.
  Qed.

  Lemma cut_nonempty : forall n l, 0 < n -> l <> [] -> cut n l <> [].
  Proof. intros n l Hn Hl. rewrite cut_cons by auto. congruence. Qed.

  Lemma cut_length : forall n l, 0 < n -> length (cut n l) = (length l + n - 1) / n.
  Proof.
    intros n l Hn. remember (length l) as m eqn:Hm. revert l Hm.
    induction m as [m IH] using lt_wf_ind. intros l Hm.
    destruct l as [|x l].
    - cbn in Hm. subst m. cbn [cut cut_fuel length]. symmetry. apply Nat.div_small. lia.
    - rewrite cut_cons by (auto; congruence). cbn [length].
      rewrite (IH (length (skipn n (x :: l))) ltac:(rewrite skipn_length; cbn [length] in *; lia) _ eq_refl).
      rewrite skipn_length. rewrite <- Hm.
      destruct (le_lt_dec m n) as [Hle|Hgt].
      + replace (m - n) with 0 by lia. cbn [Nat.add]. rewrite (Nat.div_small (n - 1) n) by lia.
        apply (Nat.div_unique _ _ 1 (m - 1)); cbn [length] in Hm; lia.
      + replace (m + n - 1) with ((m - n + n - 1) + 1 * n) by lia.
        rewrite Nat.div_add by lia. lia.
  Qed.
End CutLemmas.

Lemma wf_blocks_map : forall {A B} (g : list A -> list B) n o bl,
  (forall b, length (g b) = length b + o) ->
  wf_blocks n bl -> wf_blocks (n + o) (map g bl).
Proof.
  intros A B g n o bl Hg. induction bl as [|b t IH]; intros Hwf; [exact I|].
  cbn [wf_blocks map] in *. destruct Hwf as (Hpos & Hle & Hfull & Hwt).
  rewrite Hg. repeat split; try lia.
  - intros Hne. rewrite Hfull; [lia|]. destruct t; cbn in *; congruence.
  - apply IH. exact Hwt.
Qed.

Lemma mapM_map_rt : forall {A B} (f : B -> option A) (g : A -> B) l,
  (forall x, f (g x) = Some x) -> mapM f (map g l) = Some l.
Proof.
  intros A B f g l H. induction l as [|x t IH]; [reflexivity|].
  cbn [map mapM]. rewrite H, IH. reflexivity.
Qed.

Lemma bytes_eqb_refl : forall a, bytes_eqb a a = true.
Proof. induction a as [|x a IH]; [reflexivity|]. cbn [bytes_eqb]. rewrite N.eqb_refl, IH. reflexivity. Qed.

Lemma bytes_eqb_eq : forall a b, bytes_eqb a b = true <-> a = b.
Proof.
  induction a as [|x a IH]; intros [|y b]; cbn [bytes_eqb]; split; intros H; try congruence; try discriminate.
  - apply andb_true_iff in H. destruct H as [H1 H2]. apply N.eqb_eq in H1. apply IH in H2. congruence.
  - inversion H; subst. rewrite N.eqb_refl. cbn [andb]. apply IH. reflexivity.
Qed.

(* ================= the store ================= *)

(* Everything that is assumed about AES-GCM and the LZ4 frame format, for one choice of the abstract functions. *)
Record store_assumptions (key : Type) (seal : key -> bytes -> bytes -> bytes)
  (open : key -> bytes -> bytes -> option bytes) (compress : bytes -> bytes) (dec : bytes -> dres)
  (bsz ovh nlen : nat) : Prop := {
  (* AES-GCM: round trip, ciphertext expansion; a truncated sealed block, or a block sealed under another key or another
     nonce, is not authentic (idealised: forgery probability 2^-128 counted as never) *)
  sa_seal_open : forall k n p, open k n (seal k n p) = Some p;
  sa_seal_length : forall k n p, length (seal k n p) = length p + ovh;
  sa_open_truncated : forall k n p c t, c <> [] -> t <> [] -> c ++ t = seal k n p -> open k n c = None;
  sa_open_other_key : forall k k' n p, k <> k' -> open k' n (seal k n p) = None;
  sa_open_other_nonce : forall k n n' p, length n = nlen -> length n' = nlen -> n <> n' ->
                        open k n' (seal k n p) = None;
  (* LZ4 frame: a complete frame is decoded whatever follows it; a frame is never empty; every strict prefix of a frame
     is "valid so far, incomplete" *)
  sa_dec_complete : forall d t, dec (compress d ++ t) = DDone d;
  sa_compress_nonempty : forall d, compress d <> [];
  sa_dec_prefix : forall d p t, t <> [] -> p ++ t = compress d -> dec p = DMore
}.

Section StoreProofs.
  Variable key : Type.
  Variable seal : key -> bytes -> bytes -> bytes.
  Variable open : key -> bytes -> bytes -> option bytes.
  Variable compress : bytes -> bytes.
  Variable dec : bytes -> dres.
  Variable hdr : bytes.
  Variable bsz ovh nlen : nat.

  Hypothesis bsz_pos : 0 < bsz.
  Hypothesis HA : store_assumptions key seal open compress dec bsz ovh nlen.

  Let seal_open := sa_seal_open _ _ _ _ _ _ _ _ HA.
  Let seal_length := sa_seal_length _ _ _ _ _ _ _ _ HA.
  Let open_truncated := sa_open_truncated _ _ _ _ _ _ _ _ HA.
  Let open_other_key := sa_open_other_key _ _ _ _ _ _ _ _ HA.
  Let open_other_nonce := sa_open_other_nonce _ _ _ _ _ _ _ _ HA.
  Let dec_complete := sa_dec_complete _ _ _ _ _ _ _ _ HA.
  Let compress_nonempty := sa_compress_nonempty _ _ _ _ _ _ _ _ HA.
  Let dec_prefix := sa_dec_prefix _ _ _ _ _ _ _ _ HA.

  Notation frame := (frame key seal bsz).
  Notation unframe := (unframe key open bsz ovh).
  Notation write_file := (write_file key seal compress hdr bsz).
  Notation read_file := (read_file key open dec hdr bsz ovh nlen).
  Notation pump := (pump key open dec).
  Notation plain_blocks := (plain_blocks bsz).

  Lemma sealed_wf : forall k n s, wf_blocks (bsz + ovh) (map (seal k n) (plain_blocks s)).
  Proof.
    intros. apply wf_blocks_map.
    - intros b. apply seal_length.
    - apply cut_wf. exact bsz_pos.
  Qed.

  Lemma cut_frame : forall k n s, cut (bsz + ovh) (frame k n s) = map (seal k n) (plain_blocks s).
  Proof. intros. unfold StoreFrame.frame. apply cut_concat_wf; [lia|apply sealed_wf]. Qed.

  Lemma unframe_frame : forall k n s, unframe k n (frame k n s) = Some s.
  Proof.
    intros. unfold StoreFrame.unframe. rewrite cut_frame.
    rewrite mapM_map_rt by (intros; apply seal_open). cbn [option_map].
    unfold StoreFrame.plain_blocks. rewrite concat_cut by exact bsz_pos. reflexivity.
  Qed.

  Lemma frame_length : forall k n s,
    length (frame k n s) = length s + ovh * ((length s + bsz - 1) / bsz).
  Proof.
    intros. unfold StoreFrame.frame. rewrite <- (cut_length bsz s bsz_pos).
    unfold StoreFrame.plain_blocks.
    rewrite <- (concat_cut bsz s bsz_pos) at 2.
    induction (cut bsz s) as [|b t IH]; [cbn; lia|].
    cbn [map concat length]. rewrite !app_length, seal_length, IH. lia.
  Qed.

  Lemma write_file_length : forall k n d, length n = nlen ->
    length (write_file k n d)
    = length hdr + nlen + length (compress d) + ovh * ((length (compress d) + bsz - 1) / bsz).
  Proof. intros. unfold StoreFrame.write_file. rewrite !app_length, frame_length. lia. Qed.

  (* ---- the pump over the sealed blocks of a genuine file ---- *)

  (* pre = plaintext blocks already handed over, post = those still sealed in `chunks` *)
  Lemma pump_genuine : forall k n d post pre,
    plain_blocks (compress d) = pre ++ post ->
    pump k n (concat pre) (map (seal k n) post) = ROk d.
  Proof.
    intros k n d post. induction post as [|b t IH]; intros pre Hsplit.
    - rewrite app_nil_r in Hsplit. rewrite <- Hsplit.
      unfold StoreFrame.plain_blocks. rewrite concat_cut by exact bsz_pos.
      cbn [map]. unfold StoreFrame.pump.
      rewrite <- (app_nil_r (compress d)). rewrite dec_complete. reflexivity.
    - cbn [map StoreFrame.pump].
      assert (Hcat : concat pre ++ concat (b :: t) = compress d).
      { pose proof (concat_cut bsz (compress d) bsz_pos) as Hc. unfold StoreFrame.plain_blocks in Hsplit.
        rewrite Hsplit in Hc. rewrite concat_app in Hc. exact Hc. }
      assert (Hb : b <> []).
      { pose proof (cut_wf bsz (compress d) bsz_pos) as Hwf. unfold StoreFrame.plain_blocks in Hsplit.
        rewrite Hsplit in Hwf. clear - Hwf. induction pre as [|p pre IHp]; cbn in Hwf.
        - destruct Hwf as (Hpos & _). destruct b; cbn in *; [lia|congruence].
        - apply IHp. tauto. }
      rewrite (dec_prefix d (concat pre) (concat (b :: t))); auto.
      + rewrite seal_open. specialize (IH (pre ++ [b])).
        rewrite concat_app in IH. cbn [concat] in IH. rewrite app_nil_r in IH.
        apply IH. rewrite <- app_assoc. exact Hsplit.
      + cbn [concat]. destruct b; [congruence|]. cbn. congruence.
  Qed.

  Lemma read_file_split : forall k n (body : bytes), length n = nlen ->
    read_file k (hdr ++ n ++ body) = pump k n [] (cut (bsz + ovh) body).
  Proof.
    intros k n body Hn. unfold StoreFrame.read_file.
    rewrite app_length.
    destruct (Nat.ltb_spec (length hdr + length (n ++ body)) (length hdr)) as [Hlt|_]; [lia|].
    rewrite firstn_app, Nat.sub_diag, firstn_O, app_nil_r, firstn_all. rewrite bytes_eqb_refl. cbn [negb].
    rewrite skipn_app, Nat.sub_diag, skipn_O, skipn_all. cbn [app].
    rewrite app_length.
    destruct (Nat.ltb_spec (length n + length body) nlen) as [Hlt|_]; [lia|].
    rewrite <- Hn.
    rewrite firstn_app, Nat.sub_diag, firstn_O, app_nil_r, firstn_all.
    rewrite skipn_app, Nat.sub_diag, skipn_O, skipn_all. reflexivity.
  Qed.

  Lemma read_write : forall k n d, length n = nlen -> read_file k (write_file k n d) = ROk d.
  Proof.
    intros k n d Hn. unfold StoreFrame.write_file. rewrite (read_file_split k n _ Hn).
    rewrite cut_frame. apply (pump_genuine k n d (plain_blocks (compress d)) []). reflexivity.
  Qed.

  (* ---- general facts about the walk over the blocks of a genuine file ---- *)

  Lemma blocks_concat : forall d pre post,
    plain_blocks (compress d) = pre ++ post -> concat pre ++ concat post = compress d.
  Proof.
    intros d pre post Hsplit. pose proof (concat_cut bsz (compress d) bsz_pos) as Hc.
    unfold StoreFrame.plain_blocks in Hsplit. rewrite Hsplit in Hc. rewrite concat_app in Hc. exact Hc.
  Qed.

  Lemma blocks_nonempty : forall d pre b post,
    plain_blocks (compress d) = pre ++ b :: post -> b <> [].
  Proof.
    intros d pre b post Hsplit.
    pose proof (cut_wf bsz (compress d) bsz_pos) as Hwf. unfold StoreFrame.plain_blocks in Hsplit.
    rewrite Hsplit in Hwf. clear - Hwf. induction pre as [|p pre IHp]; cbn in Hwf.
    - destruct Hwf as (Hpos & _). destruct b; cbn in *; [lia|congruence].
    - apply IHp. tauto.
  Qed.

  Lemma dec_before_end : forall d pre b post,
    plain_blocks (compress d) = pre ++ b :: post -> dec (concat pre) = DMore.
  Proof.
    intros d pre b post Hsplit.
    apply (dec_prefix d (concat pre) (concat (b :: post))).
    - pose proof (blocks_nonempty _ _ _ _ Hsplit) as Hb. cbn [concat]. destruct b; [congruence|]. cbn. congruence.
    - apply blocks_concat. exact Hsplit.
  Qed.

  (* the first blocks of a genuine file are accepted one after the other *)
  Lemma pump_steps : forall k n d post1 pre post2 rest,
    plain_blocks (compress d) = pre ++ post1 ++ post2 -> post2 <> [] ->
    pump k n (concat pre) (map (seal k n) post1 ++ rest) = pump k n (concat (pre ++ post1)) rest.
  Proof.
    intros k n d post1. induction post1 as [|b t IH]; intros pre post2 rest Hsplit Hne.
    - rewrite app_nil_r. reflexivity.
    - cbn [map app]. destruct post2 as [|b2 t2]; [congruence|].
      assert (Hd : dec (concat pre) = DMore).
      { apply (dec_before_end d pre b (t ++ b2 :: t2)). exact Hsplit. }
      cbn [StoreFrame.pump]. destruct rest as [|r0 rest']; cbn [StoreFrame.pump];
        rewrite Hd, seal_open.
      + specialize (IH (pre ++ [b]) (b2 :: t2) []).
        rewrite concat_app in IH. cbn [concat] in IH. rewrite app_nil_r in IH.
        rewrite IH.
        * rewrite <- app_assoc. reflexivity.
        * rewrite <- app_assoc. exact Hsplit.
        * congruence.
      + specialize (IH (pre ++ [b]) (b2 :: t2) (r0 :: rest')).
        rewrite concat_app in IH. cbn [concat] in IH. rewrite app_nil_r in IH.
        rewrite IH.
        * rewrite <- app_assoc. reflexivity.
        * rewrite <- app_assoc. exact Hsplit.
        * congruence.
  Qed.

  (* ---- truncation ---- *)

  Lemma cut_truncated : forall {A} n (bl : list (list A)) m, 0 < n -> wf_blocks n bl -> m < length (concat bl) ->
    exists q c b t, nth_error bl q = Some b /\ c ++ t = b /\ t <> [] /\
      cut n (firstn m (concat bl)) = firstn q bl ++ match c with [] => [] | _ => [c] end.
  Proof.
    intros A n bl. induction bl as [|b tl IH]; intros m Hn Hwf Hm.
    - cbn in Hm. lia.
    - cbn [wf_blocks] in Hwf. destruct Hwf as (Hpos & Hle & Hfull & Hwt).
      cbn [concat] in *. rewrite app_length in Hm.
      destruct (lt_dec m (length b)) as [Hlt|Hge].
      + exists 0, (firstn m b), b, (skipn m b). cbn [nth_error firstn app].
        repeat split.
        * apply firstn_skipn.
        * intros Hs. apply (f_equal (@length A)) in Hs. rewrite skipn_length in Hs. cbn in Hs. lia.
        * rewrite firstn_app. replace (m - length b) with 0 by lia. rewrite firstn_O, app_nil_r.
          destruct m as [|m'].
          -- cbn. reflexivity.
          -- assert (Hc : firstn (S m') b <> []).
             { destruct b; cbn in *; [lia|congruence]. }
             rewrite cut_small; auto.
             ++ destruct (firstn (S m') b); [congruence|reflexivity].
             ++ rewrite firstn_length. lia.
      + assert (Htl : tl <> []).
        { intros ->. cbn in Hm. lia. }
        specialize (Hfull Htl).
        destruct (IH (m - n) Hn Hwt ltac:(lia)) as (q & c & b' & t & Hnth & Hct & Ht & Hcut).
        exists (S q), c, b', t. cbn [nth_error firstn]. repeat split; auto.
        rewrite firstn_app. rewrite firstn_all2 by lia. rewrite Hfull.
        rewrite cut_app_exact by auto. rewrite Hcut. reflexivity.
  Qed.

  Lemma pump_truncated : forall k n d post pre q c b t,
    plain_blocks (compress d) = pre ++ post ->
    nth_error post q = Some b -> c ++ t = seal k n b -> t <> [] ->
    is_err (pump k n (concat pre)
              (map (seal k n) (firstn q post) ++ match c with [] => [] | _ => [c] end)) = true.
  Proof.
    intros k n d post. induction post as [|b0 tl IH]; intros pre q c b t Hsplit Hnth Hct Ht.
    - destruct q; discriminate.
    - assert (Hd : dec (concat pre) = DMore) by (apply (dec_before_end d pre b0 tl); exact Hsplit).
      destruct q as [|q'].
      + cbn [firstn map app]. cbn [nth_error] in Hnth. inversion Hnth; subst b0.
        destruct c as [|c0 c'].
        * cbn [StoreFrame.pump]. rewrite Hd. reflexivity.
        * cbn [StoreFrame.pump]. rewrite Hd.
          rewrite (open_truncated k n b (c0 :: c') t); auto. congruence.
      + cbn [firstn map app nth_error] in *.
        cbn [StoreFrame.pump]. rewrite Hd, seal_open.
        specialize (IH (pre ++ [b0]) q' c b t).
        rewrite concat_app in IH. cbn [concat] in IH. rewrite app_nil_r in IH.
        apply IH; auto. rewrite <- app_assoc. exact Hsplit.
  Qed.

  Lemma read_truncated : forall k n d m, length n = nlen ->
    m < length (write_file k n d) ->
    is_err (read_file k (firstn m (write_file k n d))) = true.
  Proof.
    intros k n d m Hn Hm. unfold StoreFrame.write_file in *.
    destruct (lt_dec m (length hdr)) as [H1|H1].
    - unfold StoreFrame.read_file. rewrite firstn_length.
      rewrite !app_length in *.
      destruct (Nat.ltb_spec (Nat.min m (length hdr + (length n + length (frame k n (compress d))))) (length hdr));
        [reflexivity|lia].
    - rewrite firstn_app. rewrite (firstn_all2 hdr) by lia.
      destruct (lt_dec (m - length hdr) nlen) as [H2|H2].
      + unfold StoreFrame.read_file. rewrite app_length.
        destruct (Nat.ltb_spec (length hdr + length (firstn (m - length hdr) (n ++ frame k n (compress d)))) (length hdr));
          [lia|].
        rewrite firstn_app, Nat.sub_diag, firstn_O, app_nil_r, firstn_all, bytes_eqb_refl. cbn [negb].
        rewrite skipn_app, Nat.sub_diag, skipn_O, skipn_all. cbn [app].
        rewrite firstn_length.
        destruct (Nat.ltb_spec (Nat.min (m - length hdr) (length (n ++ frame k n (compress d)))) nlen); [reflexivity|lia].
      + rewrite firstn_app. rewrite (firstn_all2 n) by lia.
        rewrite (read_file_split k n _ Hn).
        rewrite !app_length in Hm.
        set (m' := m - length hdr - length n).
        assert (Hm' : m' < length (frame k n (compress d))) by (unfold m'; lia).
        unfold StoreFrame.frame in *.
        destruct (cut_truncated (bsz + ovh) (map (seal k n) (plain_blocks (compress d))) m' ltac:(lia)
                    (sealed_wf k n (compress d)) Hm') as (q & c & sb & t & Hnth & Hct & Ht & Hcut).
        rewrite Hcut. rewrite firstn_map.
        rewrite nth_error_map in Hnth.
        destruct (nth_error (plain_blocks (compress d)) q) as [b|] eqn:Hq; [|discriminate].
        cbn [option_map] in Hnth. inversion Hnth; subst sb.
        apply (pump_truncated k n d (plain_blocks (compress d)) [] q c b t); auto.
  Qed.

  (* ---- other passphrase, altered header / nonce / block ---- *)

  Lemma first_block : forall d, exists b tl, plain_blocks (compress d) = b :: tl.
  Proof.
    intros d. pose proof (cut_nonempty bsz (compress d) bsz_pos (compress_nonempty d)) as Hne.
    unfold StoreFrame.plain_blocks. destruct (cut bsz (compress d)) as [|b tl]; [congruence|eauto].
  Qed.

  Lemma read_other_key : forall k k' n d, length n = nlen -> k <> k' ->
    read_file k' (write_file k n d) = RErrOpen.
  Proof.
    intros k k' n d Hn Hk. unfold StoreFrame.write_file. rewrite (read_file_split k' n _ Hn).
    rewrite cut_frame. destruct (first_block d) as (b & tl & Hb). rewrite Hb.
    cbn [map StoreFrame.pump].
    pose proof (dec_before_end d [] b tl Hb) as Hd. cbn [concat] in Hd. rewrite Hd.
    rewrite open_other_key by exact Hk. reflexivity.
  Qed.

  Lemma read_other_nonce : forall k n n' d, length n = nlen -> length n' = nlen -> n <> n' ->
    read_file k (hdr ++ n' ++ frame k n (compress d)) = RErrOpen.
  Proof.
    intros k n n' d Hn Hn' Hne. rewrite (read_file_split k n' _ Hn').
    rewrite cut_frame. destruct (first_block d) as (b & tl & Hb). rewrite Hb.
    cbn [map StoreFrame.pump].
    pose proof (dec_before_end d [] b tl Hb) as Hd. cbn [concat] in Hd. rewrite Hd.
    rewrite open_other_nonce by auto. reflexivity.
  Qed.

  Lemma read_other_header : forall k (hdr' rest : bytes), length hdr' = length hdr -> hdr' <> hdr ->
    read_file k (hdr' ++ rest) = RErrHeader.
  Proof.
    intros k hdr' rest Hl Hne. unfold StoreFrame.read_file. rewrite app_length.
    destruct (Nat.ltb_spec (length hdr' + length rest) (length hdr)); [reflexivity|].
    rewrite <- Hl. rewrite firstn_app, Nat.sub_diag, firstn_O, app_nil_r, firstn_all.
    destruct (bytes_eqb hdr' hdr) eqn:E; [|reflexivity].
    apply bytes_eqb_eq in E. congruence.
  Qed.

  Lemma wf_blocks_lengths : forall {A B} n (bl : list (list A)) (bl' : list (list B)),
    map (@length A) bl = map (@length B) bl' -> wf_blocks n bl -> wf_blocks n bl'.
  Proof.
    intros A B n bl. induction bl as [|b t IH]; intros [|b' t'] Hl Hwf; try discriminate; [exact I|].
    cbn [map] in Hl. inversion Hl as [[Hb Ht]]. cbn [wf_blocks] in *.
    destruct Hwf as (Hpos & Hle & Hfull & Hwt). repeat split; try lia.
    - intros Hne. rewrite <- Hb. apply Hfull. destruct t; [destruct t'; [congruence|discriminate]|congruence].
    - apply (IH t'); auto.
  Qed.

  Lemma read_altered_block : forall k n d pl1 b pl2 c', length n = nlen ->
    plain_blocks (compress d) = pl1 ++ b :: pl2 ->
    length c' = length (seal k n b) -> open k n c' = None ->
    read_file k (hdr ++ n ++ concat (map (seal k n) pl1 ++ c' :: map (seal k n) pl2)) = RErrOpen.
  Proof.
    intros k n d pl1 b pl2 c' Hn Hsplit Hlen Hopen.
    rewrite (read_file_split k n _ Hn).
    rewrite cut_concat_wf.
    - pose proof (pump_steps k n d pl1 [] (b :: pl2) (c' :: map (seal k n) pl2) Hsplit ltac:(congruence)) as Hs.
      cbn [concat app] in Hs. rewrite Hs. cbn [StoreFrame.pump].
      rewrite (dec_before_end d pl1 b pl2 Hsplit). rewrite Hopen. reflexivity.
    - lia.
    - apply (wf_blocks_lengths (bsz + ovh) (map (seal k n) (plain_blocks (compress d)))).
      + rewrite Hsplit. rewrite !map_app. cbn [map]. rewrite Hlen. reflexivity.
      + apply sealed_wf.
  Qed.

  (* ---- what the cipher layer does not see: any well-cut sequence of genuinely sealed blocks is accepted; the verdict
          is the decompressor's alone ---- *)
  Fixpoint feed (acc : bytes) (blocks : list bytes) : rres :=
    match dec acc with
    | DDone d => ROk d
    | DBad => RErrDecomp
    | DMore => match blocks with [] => RErrTrunc | b :: bs => feed (acc ++ b) bs end
    end.

  Lemma pump_sealed : forall k n pl acc, pump k n acc (map (seal k n) pl) = feed acc pl.
  Proof.
    intros k n pl. induction pl as [|b t IH]; intros acc.
    - reflexivity.
    - cbn [map StoreFrame.pump feed]. rewrite seal_open, IH. reflexivity.
  Qed.

  Lemma read_sealed_blocks : forall k n pl, length n = nlen -> wf_blocks bsz pl ->
    read_file k (hdr ++ n ++ concat (map (seal k n) pl)) = feed [] pl.
  Proof.
    intros k n pl Hn Hwf. rewrite (read_file_split k n _ Hn).
    rewrite cut_concat_wf.
    - apply pump_sealed.
    - lia.
    - apply wf_blocks_map; auto.
  Qed.

  (* ---- store level ---- *)
  Notation store_set := (store_set key seal compress hdr bsz).
  Notation store_get := (store_get key open dec hdr bsz ovh nlen).

  Lemma dir_get_remove_same : forall st id, dir_get (dir_remove st id) id = None.
  Proof.
    induction st as [|[i f] t IH]; intros id; [reflexivity|].
    cbn [dir_remove]. destruct (N.eqb_spec i id) as [->|Hne]; [apply IH|].
    cbn [dir_get]. destruct (N.eqb_spec i id); [congruence|apply IH].
  Qed.

  Lemma dir_get_remove_other : forall st id id', id <> id' -> dir_get (dir_remove st id) id' = dir_get st id'.
  Proof.
    induction st as [|[i f] t IH]; intros id id' Hne; [reflexivity|].
    cbn [dir_remove]. destruct (N.eqb_spec i id) as [->|Hi].
    - cbn [dir_get]. destruct (N.eqb_spec id id'); [congruence|]. apply IH. exact Hne.
    - cbn [dir_get]. destruct (N.eqb_spec i id'); [reflexivity|]. apply IH. exact Hne.
  Qed.

  Lemma dir_get_set_same : forall st id f, dir_get (dir_set st id f) id = Some f.
  Proof. intros. unfold dir_set. cbn [dir_get]. rewrite N.eqb_refl. reflexivity. Qed.

  Lemma dir_get_set_other : forall st id id' f, id <> id' -> dir_get (dir_set st id f) id' = dir_get st id'.
  Proof.
    intros st id id' f Hne. unfold dir_set. cbn [dir_get].
    destruct (N.eqb_spec id id'); [congruence|]. apply dir_get_remove_other. exact Hne.
  Qed.

  Lemma dir_list_in : forall st id, In id (dir_list st) <-> dir_get st id <> None.
  Proof.
    induction st as [|[i f] t IH]; intros id; cbn [dir_list map fst In dir_get].
    - split; [tauto|congruence].
    - destruct (N.eqb_spec i id) as [->|Hne].
      + split; [congruence|auto].
      + rewrite <- IH. unfold dir_list. split; [intros [H|H]; [congruence|exact H]|auto].
  Qed.

  Lemma dir_remove_list : forall st id x, In x (dir_list (dir_remove st id)) -> In x (dir_list st) /\ x <> id.
  Proof.
    induction st as [|[i f] t IH]; intros id x Hin; [destruct Hin|].
    cbn [dir_remove] in Hin. destruct (N.eqb_spec i id) as [->|Hne].
    - destruct (IH _ _ Hin). split; [right; assumption|assumption].
    - cbn [dir_list map fst In] in *. destruct Hin as [->|Hin]; [split; auto|].
      destruct (IH _ _ Hin). split; [right; assumption|assumption].
  Qed.

  Lemma dir_remove_nodup : forall st id, NoDup (dir_list st) -> NoDup (dir_list (dir_remove st id)).
  Proof.
    induction st as [|[i f] t IH]; intros id Hnd; [constructor|].
    cbn [dir_list map fst] in Hnd. inversion Hnd as [|? ? Hnin Hnd']; subst.
    cbn [dir_remove]. destruct (N.eqb_spec i id); [apply IH; exact Hnd'|].
    cbn [dir_list map fst]. constructor; [|apply IH; exact Hnd'].
    intros Hin. apply dir_remove_list in Hin. tauto.
  Qed.

  Lemma dir_set_nodup : forall st id f, NoDup (dir_list st) -> NoDup (dir_list (dir_set st id f)).
  Proof.
    intros st id f Hnd. unfold dir_set. cbn [dir_list map fst]. constructor.
    - intros Hin. apply dir_remove_list in Hin. tauto.
    - apply dir_remove_nodup. exact Hnd.
  Qed.

  Lemma store_get_set : forall k n st id d, length n = nlen ->
    store_get k (store_set k n st id d) id = GOk d.
  Proof.
    intros. unfold StoreFrame.store_get, StoreFrame.store_set. rewrite dir_get_set_same.
    rewrite read_write by assumption. reflexivity.
  Qed.

  Lemma store_get_set_other : forall k n st id id' d, id <> id' ->
    store_get k (store_set k n st id d) id' = store_get k st id'.
  Proof.
    intros. unfold StoreFrame.store_get, StoreFrame.store_set. rewrite dir_get_set_other by assumption. reflexivity.
  Qed.

  Lemma store_delete : forall k st st' id, dir_delete st id = Some st' ->
    store_get k st' id = GNoFile /\ (forall id', id <> id' -> store_get k st' id' = store_get k st id')
    /\ (forall x, In x (dir_list st') <-> In x (dir_list st) /\ x <> id).
  Proof.
    intros k st st' id Hd. unfold dir_delete in Hd. destruct (dir_get st id) eqn:E; [|discriminate].
    inversion Hd; subst st'. repeat split.
    - unfold StoreFrame.store_get. rewrite dir_get_remove_same. reflexivity.
    - intros id' Hne. unfold StoreFrame.store_get. rewrite dir_get_remove_other by assumption. reflexivity.
    - apply dir_remove_list in H. tauto.
    - apply dir_remove_list in H. tauto.
    - intros [Hin Hne]. apply dir_list_in. rewrite dir_get_remove_other by congruence. apply dir_list_in. exact Hin.
  Qed.

  (* Delete(ids...) *)
  Lemma delete_all_spec : forall ids st,
    let r := dir_delete_all st ids in
    (forall id, dir_get (fst r) id = dir_get st id \/ dir_get (fst r) id = None)
    /\ (snd r = true -> forall id, dir_get (fst r) id = if existsb (N.eqb id) ids then None else dir_get st id).
  Proof.
    induction ids as [|i t IH]; intros st; cbn [dir_delete_all].
    - split; [intros; left; reflexivity|]. intros _ id. reflexivity.
    - unfold dir_delete. destruct (dir_get st i) as [f|] eqn:E.
      + destruct (IH (dir_remove st i)) as [H1 H2]. split.
        * intros id. destruct (H1 id) as [H|H]; [|right; exact H].
          destruct (N.eq_dec i id) as [<-|Hne].
          -- right. rewrite H. apply dir_get_remove_same.
          -- left. rewrite H. apply dir_get_remove_other. exact Hne.
        * intros Hok id. rewrite (H2 Hok id). cbn [existsb].
          destruct (N.eqb_spec id i) as [->|Hne]; cbn [orb].
          -- destruct (existsb (N.eqb i) t); [reflexivity|apply dir_get_remove_same].
          -- destruct (existsb (N.eqb id) t); [reflexivity|]. apply dir_get_remove_other. congruence.
      + cbn [fst snd]. split; [intros; left; reflexivity|discriminate].
  Qed.

  Lemma store_delete_all : forall k ids st,
    let r := dir_delete_all st ids in
    (forall id, store_get k (fst r) id = store_get k st id \/ store_get k (fst r) id = GNoFile)
    /\ (snd r = true -> forall id, store_get k (fst r) id = if existsb (N.eqb id) ids then GNoFile else store_get k st id)
    /\ (forall id, In id (dir_list (fst r)) <-> dir_get (fst r) id <> None).
  Proof.
    intros k ids st r. destruct (delete_all_spec ids st) as [H1 H2]. fold r in H1, H2. repeat split.
    - intros id. unfold StoreFrame.store_get. destruct (H1 id) as [-> | ->]; [left|right]; reflexivity.
    - intros Hok id. unfold StoreFrame.store_get. rewrite (H2 Hok id). destruct (existsb (N.eqb id) ids); reflexivity.
    - apply dir_list_in.
    - apply dir_list_in.
  Qed.

  (* histories of Set/Delete on arbitrary IDs against the reference "last write wins" *)
  Inductive sop := OSet (id : N) (n : bytes) (d : bytes) | ODelete (id : N).

  Definition sop_apply (k : key) (st : dir) (o : sop) : dir :=
    match o with
    | OSet id n d => store_set k n st id d
    | ODelete id => match dir_delete st id with Some st' => st' | None => st end    (* os.Remove error: unchanged *)
    end.
  Definition sop_ref (r : N -> option bytes) (o : sop) : N -> option bytes :=
    match o with
    | OSet id _ d => fun x => if N.eqb id x then Some d else r x
    | ODelete id => fun x => if N.eqb id x then None else r x
    end.
  Definition sop_ok (o : sop) : Prop := match o with OSet _ n _ => length n = nlen | ODelete _ => True end.

  Definition agrees (k : key) (st : dir) (r : N -> option bytes) : Prop :=
    NoDup (dir_list st) /\
    forall id, store_get k st id = match r id with Some d => GOk d | None => GNoFile end.

  Lemma sop_step : forall k st r o, sop_ok o -> agrees k st r -> agrees k (sop_apply k st o) (sop_ref r o).
  Proof.
    intros k st r o Hok [Hnd Hag]. destruct o as [id n d|id]; cbn [sop_apply sop_ref sop_ok] in *.
    - split; [apply dir_set_nodup; exact Hnd|].
      intros x. destruct (N.eqb_spec id x) as [->|Hne].
      + apply store_get_set. exact Hok.
      + rewrite store_get_set_other by exact Hne. apply Hag.
    - destruct (dir_delete st id) as [st'|] eqn:E.
      + destruct (store_delete k st st' id E) as (H1 & H2 & H3). split.
        * unfold dir_delete in E. destruct (dir_get st id); [|discriminate]. inversion E. apply dir_remove_nodup. exact Hnd.
        * intros x. destruct (N.eqb_spec id x) as [->|Hne]; [exact H1|]. rewrite H2 by exact Hne. apply Hag.
      + split; [exact Hnd|]. intros x. destruct (N.eqb_spec id x) as [->|Hne]; [|apply Hag].
        unfold dir_delete in E. unfold StoreFrame.store_get. destruct (dir_get st x); [discriminate|reflexivity].
  Qed.

  Lemma sop_run : forall k ops st r, Forall sop_ok ops -> agrees k st r ->
    agrees k (fold_left (sop_apply k) ops st) (fold_left sop_ref ops r).
  Proof.
    intros k ops. induction ops as [|o t IH]; intros st r Hok Hag; [exact Hag|].
    inversion Hok; subst. cbn [fold_left]. apply IH; auto. apply sop_step; auto.
  Qed.

  Lemma sop_run_empty : forall k ops, Forall sop_ok ops ->
    agrees k (fold_left (sop_apply k) ops []) (fold_left sop_ref ops (fun _ => None)).
  Proof.
    intros. apply sop_run; auto. split; [constructor|]. intros id. reflexivity.
  Qed.

  Lemma list_exact : forall k st r, agrees k st r ->
    NoDup (dir_list st) /\ forall id, In id (dir_list st) <-> r id <> None.
  Proof.
    intros k st r [Hnd Hag]. split; [exact Hnd|]. intros id. rewrite dir_list_in.
    specialize (Hag id). unfold StoreFrame.store_get in Hag.
    destruct (dir_get st id) as [f|]; destruct (r id) as [d|]; split; intros H; try congruence.
    all: try (destruct (read_file k f); discriminate).
    all: try discriminate.
  Qed.
End StoreProofs.
