package main

// Extractor "Tokens" (properties C10, C11) -> coq/Gen/FactsTokens.v
//
//   - byte -> TokenType table of rfcparser.Scanner.ScanToken: obtained by RUNNING the scanner of <repo> on every
//     one-byte input (this program is linked against <repo>), plus the token produced at end of input;
//   - the token predicates used by the parsers (IsAtomChar, IsAStringChar, IsQuotedChar, IsQuotedSpecial, IsRespSpecial,
//     IsCTL) tabulated over the whole TokenType enum by calling the real functions;
//   - ByteToLower tabulated over all bytes;
//   - constants and guards read with go/ast: maxSessionError, the literal cap and the `<= 0` guard of ParseLiteral and
//     whether those two guards produce a parser error (p.MakeError -> tagged BAD) or a plain error (reader ends
//     silently); whether command.Parser.Parse keeps the tag on the trailing CR/LF errors; whether the command reader
//     returns without a response on Error.IsEOF(); whether handleStartTLS sends its NO response; the TLS record prefixes
//     on which the reader closes the connection; the command keyword -> builder tables of command.Parser and the UID parser.
//
// NOTE: when bin/check is run with VERIF_REPO=<other tree> the driver copies this module and rewrites the replace
// directive, so the executed functions are those of that tree.

import (
	"bytes"
	"fmt"
	"go/ast"
	"go/token"
	"path/filepath"
	"sort"
	"strconv"
	"strings"

	"github.com/ProtonMail/gluon/rfcparser"
)

func init() { register("Tokens", factsTokens) }

// number of TokenType values: TokenTypeZero is the last constant of the enum.
const nTokenTypes = int(rfcparser.TokenTypeZero) + 1

func boolTable(f func(rfcparser.TokenType) bool) string {
	s := make([]string, nTokenTypes)
	for i := 0; i < nTokenTypes; i++ {
		if f(rfcparser.TokenType(i)) {
			s[i] = "true"
		} else {
			s[i] = "false"
		}
	}
	return "[" + strings.Join(s, "; ") + "]"
}

// evalIntExpr evaluates constant integer expressions built from literals, * + - and parentheses.
func evalIntExpr(e ast.Expr) (int64, bool) {
	switch x := e.(type) {
	case *ast.BasicLit:
		if x.Kind != token.INT {
			return 0, false
		}
		v, err := strconv.ParseInt(x.Value, 0, 64)
		return v, err == nil
	case *ast.ParenExpr:
		return evalIntExpr(x.X)
	case *ast.BinaryExpr:
		a, ok1 := evalIntExpr(x.X)
		b, ok2 := evalIntExpr(x.Y)
		if !ok1 || !ok2 {
			return 0, false
		}
		switch x.Op {
		case token.MUL:
			return a * b, true
		case token.ADD:
			return a + b, true
		case token.SUB:
			return a - b, true
		case token.SHL:
			return a << uint(b), true
		}
	}
	return 0, false
}

// returnsMakeError reports whether the (single) return statement of the block returns p.MakeError*(...) as error value.
func returnsMakeError(b *ast.BlockStmt) (bool, bool) {
	for _, st := range b.List {
		r, ok := st.(*ast.ReturnStmt)
		if !ok || len(r.Results) == 0 {
			continue
		}
		last := r.Results[len(r.Results)-1]
		if c, ok := last.(*ast.CallExpr); ok {
			if sel, ok := c.Fun.(*ast.SelectorExpr); ok {
				return strings.HasPrefix(sel.Sel.Name, "MakeError"), true
			}
		}
		return false, true
	}
	return false, false
}

func factsTokens(t *T) (string, error) {
	var sb strings.Builder
	sb.WriteString("(* Facts for C10/C11: scanner and token-predicate tables obtained by running rfcparser of the working tree,\n   constants and guards read from the source with go/ast. *)\n")
	sb.WriteString("From Coq Require Import List NArith Bool.\nImport ListNotations.\nOpen Scope N_scope.\n\n")

	// ---- token enum ----
	names := []struct {
		n string
		v rfcparser.TokenType
	}{
		{"EOF", rfcparser.TokenTypeEOF}, {"Error", rfcparser.TokenTypeError}, {"SP", rfcparser.TokenTypeSP},
		{"Exclamation", rfcparser.TokenTypeExclamation}, {"DQuote", rfcparser.TokenTypeDQuote}, {"Hash", rfcparser.TokenTypeHash},
		{"Dollar", rfcparser.TokenTypeDollar}, {"Percent", rfcparser.TokenTypePercent}, {"Ampersand", rfcparser.TokenTypeAmpersand},
		{"SQuote", rfcparser.TokenTypeSQuote}, {"LParen", rfcparser.TokenTypeLParen}, {"RParen", rfcparser.TokenTypeRParen},
		{"Asterisk", rfcparser.TokenTypeAsterisk}, {"Plus", rfcparser.TokenTypePlus}, {"Comma", rfcparser.TokenTypeComma},
		{"Minus", rfcparser.TokenTypeMinus}, {"Period", rfcparser.TokenTypePeriod}, {"Slash", rfcparser.TokenTypeSlash},
		{"Semicolon", rfcparser.TokenTypeSemicolon}, {"Colon", rfcparser.TokenTypeColon}, {"Less", rfcparser.TokenTypeLess},
		{"Equal", rfcparser.TokenTypeEqual}, {"Greater", rfcparser.TokenTypeGreater}, {"Question", rfcparser.TokenTypeQuestion},
		{"At", rfcparser.TokenTypeAt}, {"LBracket", rfcparser.TokenTypeLBracket}, {"RBracket", rfcparser.TokenTypeRBracket},
		{"Caret", rfcparser.TokenTypeCaret}, {"Underscore", rfcparser.TokenTypeUnderscore}, {"Backtick", rfcparser.TokenTyeBacktick},
		{"LCurly", rfcparser.TokenTypeLCurly}, {"Pipe", rfcparser.TokenTypePipe}, {"RCurly", rfcparser.TokenTypeRCurly},
		{"Tilde", rfcparser.TokenTypeTilde}, {"Backslash", rfcparser.TokenTypeBackslash}, {"Digit", rfcparser.TokenTypeDigit},
		{"Char", rfcparser.TokenTypeChar}, {"ExtendedChar", rfcparser.TokenTypeExtendedChar}, {"CR", rfcparser.TokenTypeCR},
		{"LF", rfcparser.TokenTypeLF}, {"CTL", rfcparser.TokenTypeCTL}, {"Tab", rfcparser.TokenTypeTab},
		{"Delete", rfcparser.TokenTypeDelete}, {"Zero", rfcparser.TokenTypeZero},
	}
	sb.WriteString("(* rfcparser.TokenType constants *)\n")
	for _, n := range names {
		fmt.Fprintf(&sb, "Definition TT_%s : N := %d.\n", n.n, int(n.v))
	}
	fmt.Fprintf(&sb, "Definition token_type_count : N := %d.\n\n", nTokenTypes)

	// ---- scanner table ----
	tbl := make([]string, 256)
	for b := 0; b < 256; b++ {
		sc := rfcparser.NewScanner(bytes.NewReader([]byte{byte(b)}))
		tok, err := sc.ScanToken()
		if err != nil {
			// the scanner refuses this byte: recorded as the Error token (the model treats it as a parse error)
			tbl[b] = fmt.Sprint(int(rfcparser.TokenTypeError))
			continue
		}
		if tok.Value != byte(b) {
			return "", fmt.Errorf("ScanToken(%d) returned value %d", b, tok.Value)
		}
		tbl[b] = fmt.Sprint(int(tok.TType))
	}
	sb.WriteString("(* Scanner.ScanToken on the one-byte input [b], b = 0..255 *)\nDefinition scan_table : list N :=\n  [")
	for i := 0; i < 256; i += 16 {
		sb.WriteString(strings.Join(tbl[i:i+16], "; "))
		if i+16 < 256 {
			sb.WriteString(";\n   ")
		}
	}
	sb.WriteString("].\n")
	{
		sc := rfcparser.NewScanner(bytes.NewReader(nil))
		tok, err := sc.ScanToken()
		if err != nil {
			return "", fmt.Errorf("ScanToken at end of input: %v", err)
		}
		tok2, _ := sc.ScanToken()
		fmt.Fprintf(&sb, "(* token type and value produced at end of input (and again on the next call) *)\nDefinition scan_eof : N := %d.\nDefinition scan_eof_value : N := %d.\nDefinition scan_eof_again : N := %d.\n\n", int(tok.TType), int(tok.Value), int(tok2.TType))
	}

	// ---- predicates over the token enum ----
	sb.WriteString("(* token predicates tabulated over TokenType 0 .. token_type_count-1 *)\n")
	fmt.Fprintf(&sb, "Definition tbl_IsAtomChar : list bool :=\n  %s.\n", boolTable(rfcparser.IsAtomChar))
	fmt.Fprintf(&sb, "Definition tbl_IsAStringChar : list bool :=\n  %s.\n", boolTable(rfcparser.IsAStringChar))
	fmt.Fprintf(&sb, "Definition tbl_IsQuotedChar : list bool :=\n  %s.\n", boolTable(rfcparser.IsQuotedChar))
	fmt.Fprintf(&sb, "Definition tbl_IsQuotedSpecial : list bool :=\n  %s.\n", boolTable(rfcparser.IsQuotedSpecial))
	fmt.Fprintf(&sb, "Definition tbl_IsRespSpecial : list bool :=\n  %s.\n", boolTable(rfcparser.IsRespSpecial))
	fmt.Fprintf(&sb, "Definition tbl_IsCTL : list bool :=\n  %s.\n\n", boolTable(rfcparser.IsCTL))

	low := make([]string, 256)
	for b := 0; b < 256; b++ {
		low[b] = fmt.Sprint(int(rfcparser.ByteToLower(byte(b))))
	}
	sb.WriteString("(* rfcparser.ByteToLower *)\nDefinition tbl_ByteToLower : list N :=\n  [" + strings.Join(low, "; ") + "].\n\n")

	// ---- constants and guards (go/ast) ----
	unknown := func(name, why string) {
		fmt.Fprintf(&sb, "(* srcfacts: %s not found: %s *)\nDefinition %s : False := tt.\n", name, why, name)
	}

	// maxSessionError
	if f, err := t.ParseFile("internal/session/session.go"); err == nil {
		found := false
		for _, d := range f.Decls {
			gd, ok := d.(*ast.GenDecl)
			if !ok || gd.Tok != token.CONST {
				continue
			}
			for _, sp := range gd.Specs {
				vs := sp.(*ast.ValueSpec)
				for i, n := range vs.Names {
					if n.Name == "maxSessionError" && i < len(vs.Values) {
						if v, ok := evalIntExpr(vs.Values[i]); ok {
							fmt.Fprintf(&sb, "Definition max_session_error : N := %d.\n", v)
							found = true
						}
					}
				}
			}
		}
		if !found {
			unknown("max_session_error", "const maxSessionError in internal/session/session.go")
		}
		// the serve loop closes when the counter reaches the maximum: `if s.errorCount += 1; s.errorCount >= maxSessionError`
		src, _ := t.ReadFile("internal/session/session.go")
		norm := strings.Join(strings.Fields(src), " ")
		switch {
		case strings.Contains(norm, "s.errorCount += 1; s.errorCount >= maxSessionError"):
			sb.WriteString("Definition session_error_close_cmp_ge : bool := true.  (* closes when count >= max *)\n")
		case strings.Contains(norm, "s.errorCount += 1; s.errorCount > maxSessionError"):
			sb.WriteString("Definition session_error_close_cmp_ge : bool := false. (* closes when count > max *)\n")
		default:
			unknown("session_error_close_cmp_ge", "errorCount comparison in serve()")
		}
		if strings.Contains(norm, "} else { s.errorCount = 0 }") {
			sb.WriteString("Definition session_error_reset_on_success : bool := true.\n")
		} else {
			sb.WriteString("Definition session_error_reset_on_success : bool := false.\n")
		}
		// BAD is tagged with the tag of the command value delivered by the reader
		sb.WriteString(fmt.Sprintf("Definition session_bad_uses_command_tag : bool := %v.\n", strings.Contains(norm, "response.Bad(res.command.Tag)")))
	} else {
		return "", err
	}

	// ParseLiteral guards
	if f, err := t.ParseFile("rfcparser/parser.go"); err == nil {
		fd := FuncDecl(f, "Parser", "ParseLiteral")
		if fd == nil {
			return "", fmt.Errorf("ParseLiteral not found")
		}
		var minFound, capFound bool
		ast.Inspect(fd.Body, func(n ast.Node) bool {
			is, ok := n.(*ast.IfStmt)
			if !ok {
				return true
			}
			be, ok := is.Cond.(*ast.BinaryExpr)
			if !ok {
				return true
			}
			id, ok := be.X.(*ast.Ident)
			if !ok || id.Name != "literalSize" {
				return true
			}
			v, okv := evalIntExpr(be.Y)
			if !okv {
				return true
			}
			mk, okr := returnsMakeError(is.Body)
			if !okr {
				return true
			}
			switch be.Op {
			case token.LEQ, token.LSS:
				// rejected when literalSize <= v (or < v): smallest accepted size
				min := v + 1
				if be.Op == token.LSS {
					min = v
				}
				if min < 0 {
					min = 0
				}
				fmt.Fprintf(&sb, "Definition literal_min_size : N := %d.   (* guard `literalSize %s %d` *)\n", min, be.Op, v)
				fmt.Fprintf(&sb, "Definition literal_min_guard_is_parser_error : bool := %v.\n", mk)
				minFound = true
			case token.GEQ, token.GTR:
				lim := v
				if be.Op == token.GTR {
					lim = v + 1
				}
				fmt.Fprintf(&sb, "Definition literal_cap : N := %d.   (* sizes >= this are rejected; guard `literalSize %s %s` *)\n", lim, be.Op, t.Src("rfcparser/parser.go", be.Y))
				fmt.Fprintf(&sb, "Definition literal_cap_guard_is_parser_error : bool := %v.\n", mk)
				capFound = true
			}
			return true
		})
		if !minFound {
			// no lower guard: every size (also 0) is accepted
			sb.WriteString("Definition literal_min_size : N := 0.   (* no lower guard found *)\nDefinition literal_min_guard_is_parser_error : bool := true.\n")
		}
		if !capFound {
			unknown("literal_cap", "upper guard on literalSize in ParseLiteral")
		}
		// ParseQuoted: the character after a backslash must be a quoted-special
		if fq := FuncDecl(f, "Parser", "ParseQuoted"); fq == nil {
			unknown("quoted_escape_requires_special", "func ParseQuoted")
		} else {
			nq := strings.Join(strings.Fields(t.Src("rfcparser/parser.go", fq.Body)), " ")
			fmt.Fprintf(&sb, "Definition quoted_escape_requires_special : bool := %v.   (* `p.ConsumeWith(IsQuotedSpecial, …)` after a backslash *)\n",
				strings.Contains(nq, "p.Matches(TokenTypeBackslash)") && strings.Contains(nq, "p.ConsumeWith(IsQuotedSpecial,"))
		}
		// the continuation request ("+") is asked for every literal whose header is complete, whatever its size
		{
			found, uncond := false, false
			ast.Inspect(fd.Body, func(n ast.Node) bool {
				is, ok := n.(*ast.IfStmt)
				if !ok {
					return true
				}
				body := strings.Join(strings.Fields(t.Src("rfcparser/parser.go", is.Body)), " ")
				if strings.Contains(body, "p.literalContinuationCb()") {
					found = true
					cond := strings.Join(strings.Fields(t.Src("rfcparser/parser.go", is.Cond)), " ")
					uncond = cond == "p.Check(TokenTypeLF) && p.literalContinuationCb != nil" || cond == "p.literalContinuationCb != nil && p.Check(TokenTypeLF)"
				}
				return true
			})
			if !found {
				unknown("literal_continuation_unconditional", "call of p.literalContinuationCb() in ParseLiteral")
			} else {
				fmt.Fprintf(&sb, "Definition literal_continuation_unconditional : bool := %v.   (* the callback does not depend on the literal size *)\n", uncond)
			}
		}
		// does ParseLiteral special-case size 0 (return before Scanner.ConsumeBytes)?
		src := t.Src("rfcparser/parser.go", fd.Body)
		norm := strings.Join(strings.Fields(src), " ")
		fmt.Fprintf(&sb, "Definition literal_zero_returns_early : bool := %v.\n", strings.Contains(norm, "if literalSize == 0 {"))
	} else {
		return "", err
	}

	// command.Parser.Parse: trailing CR / LF errors keep the tag?
	if f, err := t.ParseFile("imap/command/parser.go"); err == nil {
		fd := FuncDecl(f, "Parser", "Parse")
		if fd == nil {
			return "", fmt.Errorf("command.Parser.Parse not found")
		}
		// look at the return statements lexically after the assignment `result.Payload = payload`
		var afterPayload token.Pos
		ast.Inspect(fd.Body, func(n ast.Node) bool {
			if as, ok := n.(*ast.AssignStmt); ok && len(as.Lhs) == 1 {
				if sel, ok := as.Lhs[0].(*ast.SelectorExpr); ok && sel.Sel.Name == "Payload" {
					if id, ok := as.Rhs[0].(*ast.Ident); ok && id.Name == "payload" {
						afterPayload = as.End()
					}
				}
			}
			return true
		})
		keeps, total := 0, 0
		if afterPayload != token.NoPos {
			ast.Inspect(fd.Body, func(n ast.Node) bool {
				r, ok := n.(*ast.ReturnStmt)
				if !ok || r.Pos() < afterPayload || len(r.Results) != 2 {
					return true
				}
				if id, ok := r.Results[1].(*ast.Ident); ok && id.Name == "nil" {
					return true // the success return
				}
				total++
				txt := strings.Join(strings.Fields(t.Src("imap/command/parser.go", r.Results[0])), "")
				if txt == "result" || strings.Contains(txt, "Tag:result.Tag") || strings.Contains(txt, "Tag:tag.Value") {
					keeps++
				}
				return true
			})
		}
		if total == 0 {
			unknown("parse_trailing_error_keeps_tag", "error returns after the payload in command.Parser.Parse")
		} else {
			fmt.Fprintf(&sb, "Definition parse_trailing_error_keeps_tag : bool := %v.   (* %d of %d trailing error returns carry the tag *)\n", keeps == total, keeps, total)
		}

		// command keyword tables
		keys := func(fn string, recv string) []string {
			var out []string
			var body ast.Node
			if recv == "" {
				if d := FuncDecl(f, "", fn); d != nil {
					body = d.Body
				}
			}
			if body == nil {
				return nil
			}
			ast.Inspect(body, func(n ast.Node) bool {
				kv, ok := n.(*ast.KeyValueExpr)
				if !ok {
					return true
				}
				if bl, ok := kv.Key.(*ast.BasicLit); ok && bl.Kind == token.STRING {
					if s, err := strconv.Unquote(bl.Value); err == nil {
						out = append(out, s)
					}
				}
				return true
			})
			sort.Strings(out)
			return out
		}
		top := keys("NewParserWithLiteralContinuationCb", "")
		if len(top) == 0 {
			unknown("command_keywords", "commands map in NewParserWithLiteralContinuationCb")
		} else {
			q := make([]string, len(top))
			for i, s := range top {
				q[i] = bytesCoq(s)
			}
			sb.WriteString("(* keys of the commands map of command.Parser (lower case), sorted *)\nDefinition command_keywords : list (list N) :=\n  [" + strings.Join(q, ";\n   ") + "].\n")
		}
		if fu, err := t.ParseFile("imap/command/uid.go"); err == nil {
			var out []string
			if d := FuncDecl(fu, "", "NewUIDCommandParser"); d != nil {
				ast.Inspect(d.Body, func(n ast.Node) bool {
					if kv, ok := n.(*ast.KeyValueExpr); ok {
						if bl, ok := kv.Key.(*ast.BasicLit); ok && bl.Kind == token.STRING {
							if s, err := strconv.Unquote(bl.Value); err == nil {
								out = append(out, s)
							}
						}
					}
					return true
				})
			}
			sort.Strings(out)
			if len(out) == 0 {
				unknown("uid_command_keywords", "commands map in NewUIDCommandParser")
			} else {
				q := make([]string, len(out))
				for i, s := range out {
					q[i] = bytesCoq(s)
				}
				sb.WriteString("Definition uid_command_keywords : list (list N) :=\n  [" + strings.Join(q, "; ") + "].\n")
			}
		}
	} else {
		return "", err
	}

	// command reader: IsEOF return, TLS prefixes
	if f, err := t.ParseFile("internal/session/command.go"); err == nil {
		fd := FuncDecl(f, "Session", "startCommandReader")
		if fd == nil {
			return "", fmt.Errorf("startCommandReader not found")
		}
		src := t.Src("internal/session/command.go", fd.Body)
		norm := strings.Join(strings.Fields(src), " ")
		fmt.Fprintf(&sb, "Definition reader_returns_on_iseof : bool := %v.   (* `if parserError.IsEOF() { return }` present *)\n", strings.Contains(norm, ".IsEOF() { return }"))
		fmt.Fprintf(&sb, "Definition reader_ends_on_non_parser_error : bool := %v.\n", strings.Contains(norm, "if !errors.As(err, &parserError) { return }"))
		fmt.Fprintf(&sb, "Definition reader_skips_rest_of_line : bool := %v.\n", strings.Contains(norm, "parser.ConsumeInvalidInput()"))
		var prefixes []string
		ast.Inspect(fd.Body, func(n ast.Node) bool {
			as, ok := n.(*ast.AssignStmt)
			if !ok || len(as.Lhs) != 1 {
				return true
			}
			if id, ok := as.Lhs[0].(*ast.Ident); !ok || id.Name != "tlsHeaders" {
				return true
			}
			if cl, ok := as.Rhs[0].(*ast.CompositeLit); ok {
				for _, el := range cl.Elts {
					if inner, ok := el.(*ast.CompositeLit); ok {
						var bs []string
						for _, b := range inner.Elts {
							if v, ok := evalIntExpr(b); ok {
								bs = append(bs, fmt.Sprint(v))
							}
						}
						prefixes = append(prefixes, "["+strings.Join(bs, "; ")+"]")
					}
				}
			}
			return true
		})
		sb.WriteString("(* byte prefixes of a rejected line on which the reader closes the connection without a response (raw TLS hello) *)\n")
		sb.WriteString("Definition tls_prefixes : list (list N) :=\n  [" + strings.Join(prefixes, "; ") + "].\n")
	} else {
		return "", err
	}

	// ParseFlag: "\\Recent" is refused, the keyword atom "recent" (no backslash) is an ordinary flag-keyword
	if f, err := t.ParseFile("imap/command/flags.go"); err == nil {
		fd := FuncDecl(f, "", "ParseFlag")
		if fd == nil {
			unknown("recent_rejected_only_with_backslash", "func ParseFlag in imap/command/flags.go")
		} else {
			total, inside := 0, 0
			var walk func(n ast.Node, underBackslash bool)
			walk = func(n ast.Node, under bool) {
				ast.Inspect(n, func(m ast.Node) bool {
					if m == nil || m == n {
						return true
					}
					if is, ok := m.(*ast.IfStmt); ok {
						cond := strings.Join(strings.Fields(t.Src("imap/command/flags.go", is.Cond)), " ")
						if strings.Contains(cond, "EqualFold") && strings.Contains(strings.ToLower(cond), "\"recent\"") {
							total++
							if under {
								inside++
							}
						}
						walk(is.Body, under || cond == "hasBackslash")
						if is.Else != nil {
							walk(is.Else, under)
						}
						return false
					}
					return true
				})
			}
			walk(fd.Body, false)
			if total == 0 {
				unknown("recent_rejected_only_with_backslash", "the EqualFold(flag, \"recent\") test in ParseFlag")
			} else {
				fmt.Fprintf(&sb, "Definition recent_rejected_only_with_backslash : bool := %v.   (* %d of %d \"recent\" tests are inside `if hasBackslash` *)\n", total == inside, inside, total)
			}
		}
	} else {
		return "", err
	}

	// the command builders take data characters through checked calls (Consume/Matches/Collect…): the only bare
	// Parser.Advance() in imap/command is the one at the start of Parser.Parse (it loads the first token of a line)
	{
		files, _ := filepath.Glob(filepath.Join(t.Repo, "imap/command/*.go"))
		sort.Strings(files)
		bare, inParse := 0, 0
		var where []string
		for _, fp := range files {
			if strings.HasSuffix(fp, "_test.go") {
				continue
			}
			rel, _ := filepath.Rel(t.Repo, fp)
			f, err := t.ParseFile(rel)
			if err != nil {
				return "", err
			}
			for _, d := range f.Decls {
				fd, ok := d.(*ast.FuncDecl)
				if !ok || fd.Body == nil {
					continue
				}
				ast.Inspect(fd.Body, func(n ast.Node) bool {
					c, ok := n.(*ast.CallExpr)
					if !ok {
						return true
					}
					if sel, ok := c.Fun.(*ast.SelectorExpr); ok && sel.Sel.Name == "Advance" && len(c.Args) == 0 {
						if rel == "imap/command/parser.go" && fd.Name.Name == "Parse" {
							inParse++
						} else {
							bare++
							where = append(where, rel+":"+fd.Name.Name)
						}
					}
					return true
				})
			}
		}
		fmt.Fprintf(&sb, "Definition builders_bare_advance_calls : N := %d.   (* Advance() outside Parser.Parse in imap/command: %s *)\n", bare, strings.Join(where, " "))
		fmt.Fprintf(&sb, "Definition parse_initial_advance_calls : N := %d.\n", inParse)
	}

	// parseListMailbox: is a string (quoted / literal) recognised before the list-char atom?
	if f, err := t.ParseFile("imap/command/list.go"); err == nil {
		fd := FuncDecl(f, "", "parseListMailbox")
		if fd == nil {
			unknown("list_mailbox_string_first", "func parseListMailbox in imap/command/list.go")
		} else {
			norm := strings.Join(strings.Fields(t.Src("imap/command/list.go", fd.Body)), " ")
			i := strings.Index(norm, "p.TryParseString()")
			j := strings.Index(norm, "p.MatchesWith(isListChar)")
			fmt.Fprintf(&sb, "Definition list_mailbox_string_first : bool := %v.\n", i >= 0 && j >= 0 && i < j)
		}
	} else {
		return "", err
	}

	// handleStartTLS sends the NO response when TLS is not configured?
	if src, err := t.ReadFile("internal/session/handle_starttls.go"); err == nil {
		norm := strings.Join(strings.Fields(src), " ")
		sent := strings.Contains(norm, "if s.tlsConfig == nil { return response.No(tag).WithError(ErrTLSUnavailable).Send(s) }")
		fmt.Fprintf(&sb, "Definition starttls_unavailable_sends_no : bool := %v.\n", sent)
	} else {
		return "", err
	}

	return sb.String(), nil
}

func bytesCoq(s string) string {
	p := make([]string, len(s))
	for i := 0; i < len(s); i++ {
		p[i] = fmt.Sprint(int(s[i]))
	}
	return "[" + strings.Join(p, "; ") + "]"
}
