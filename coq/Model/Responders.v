(* Session-side model for C01 / C02 / C05.
   Models (internal/state): snapMsgList.{insert,insertOutOfOrder,remove,get,has}, snapshot.setMessageFlags,
   responders targetedExists / expunge / fetch (.handle), State.popResponders, State.flushResponses,
   Mailbox.ExpungeIssued, State.PushResponder (queue vs. idle), and internal/response Merge.
   Flags are finite sets of flag ids (lower-cased names renamed to numbers by the harness):
   0 = \Recent, 1 = \Deleted, others arbitrary. No proofs in this file. *)
From Coq Require Import List NArith Bool.
Import ListNotations.
Open Scope N_scope.

Definition msgid := N.
Definition uid := N.
Definition flagset := list N.

Definition fl_recent : N := 0.
Definition fl_deleted : N := 1.

Definition fl_mem (x : N) (a : flagset) : bool := existsb (N.eqb x) a.
Definition fl_add (a b : flagset) : flagset := a ++ filter (fun x => negb (fl_mem x a)) b.
Definition fl_rem (a b : flagset) : flagset := filter (fun x => negb (fl_mem x b)) a.
Definition fl_subset (a b : flagset) : bool := forallb (fun x => fl_mem x b) a.
Definition fl_eq (a b : flagset) : bool := fl_subset a b && fl_subset b a.
Definition fl_set (x : N) (on : bool) (a : flagset) : flagset :=
  if on then fl_add a [x] else fl_rem a [x].

(* ---------- snapshot ---------- *)
Record smsg := mkSmsg { sm_id : msgid; sm_uid : uid; sm_flags : flagset }.
Definition snap := list smsg.           (* position k-1 <-> sequence number k *)

Definition snap_has (m : msgid) (s : snap) : bool := existsb (fun x => sm_id x =? m) s.
Fixpoint snap_seq_of (m : msgid) (s : snap) (k : N) : option N :=
  match s with [] => None | x :: r => if sm_id x =? m then Some k else snap_seq_of m r (k + 1) end.
Fixpoint snap_remove (m : msgid) (s : snap) : snap :=
  match s with [] => [] | x :: r => if sm_id x =? m then r else x :: snap_remove m r end.
Fixpoint snap_insert_by_uid (x : smsg) (s : snap) : snap :=          (* insertOutOfOrder *)
  match s with [] => [x] | y :: r => if sm_uid x <? sm_uid y then x :: y :: r else y :: snap_insert_by_uid x r end.
Definition snap_last_uid (s : snap) : N := match rev s with [] => 0 | x :: _ => sm_uid x end.
Definition snap_append_in_order (x : smsg) (s : snap) : option snap :=  (* insert: error unless ascending *)
  match s with
  | [] => Some [x]
  | _ => if snap_last_uid s <? sm_uid x then Some (s ++ [x]) else None
  end.
Fixpoint snap_get_flags (m : msgid) (s : snap) : flagset :=
  match s with [] => [] | x :: r => if sm_id x =? m then sm_flags x else snap_get_flags m r end.
Fixpoint snap_get_uid (m : msgid) (s : snap) : uid :=
  match s with [] => 0 | x :: r => if sm_id x =? m then sm_uid x else snap_get_uid m r end.
(* snapshot.setMessageFlags: \Recent is preserved *)
Fixpoint snap_set_flags (m : msgid) (f : flagset) (s : snap) : snap :=
  match s with
  | [] => []
  | x :: r => if sm_id x =? m
              then mkSmsg m (sm_uid x) (if fl_mem fl_recent (sm_flags x) then fl_add f [fl_recent] else f) :: r
              else x :: snap_set_flags m f r
  end.
Definition snap_recent_count (s : snap) : N :=
  N.of_nat (length (filter (fun x => fl_mem fl_recent (sm_flags x)) s)).

(* ---------- responders ---------- *)
Inductive fop := FAdd | FRem | FSet.
Inductive responder :=
| RExists (m : msgid) (u : uid) (f : flagset) (is_target : bool) (is_origin : bool)
    (* targetedExists seen from the handling state: is_target = (targetStateID == stateID),
       is_origin = originStateSet && originStateID == stateID *)
| RExpunge (m : msgid)
| RFetch (m : msgid) (f : flagset) (op : fop) (as_uid : bool) (silent : bool) (foreign_mbox : bool).

Inductive resp :=
| PExists (n : N)
| PRecent (n : N)
| PExpunge (k : N)
| PFetch (k : N) (f : flagset) (u : option uid).

Definition rid (r : responder) : msgid :=
  match r with RExists m _ _ _ _ => m | RExpunge m => m | RFetch m _ _ _ _ _ => m end.

Definition is_rexpunge (r : responder) : bool := match r with RExpunge _ => true | _ => false end.
Definition is_pexpunge (r : resp) : bool := match r with PExpunge _ => true | _ => false end.

(* responder.handle : None = the Go code returns an error (out-of-order own append) *)
Definition handle (r : responder) (s : snap) : option (snap * list resp) :=
  match r with
  | RExists m u f is_target is_origin =>
      if snap_has m s then Some (s, []) else
      let f' := if is_target then f else fl_rem f [fl_recent] in
      let x := mkSmsg m u f' in
      let ins := if is_origin then snap_append_in_order x s else Some (snap_insert_by_uid x s) in
      match ins with
      | None => None
      | Some s' =>
          let rc := snap_recent_count s' in
          Some (s', PExists (N.of_nat (length s')) :: (if 0 <? rc then [PRecent rc] else []))
      end
  | RExpunge m =>
      match snap_seq_of m s 1 with
      | None => Some (s, [])
      | Some k => Some (snap_remove m s, [PExpunge k])
      end
  | RFetch m f op as_uid silent foreign_mbox =>
      match snap_seq_of m s 1 with
      | None => Some (s, [])
      | Some k =>
          let cur := snap_get_flags m s in
          let nf0 := match op with FAdd => fl_add cur f | FRem => fl_rem cur f | FSet => f end in
          let nf := if foreign_mbox then fl_set fl_deleted (fl_mem fl_deleted cur) nf0 else nf0 in
          let s' := snap_set_flags m nf s in
          let newf := snap_get_flags m s' in
          if fl_eq cur newf || silent then Some (s', [])
          else Some (s', [PFetch k newf (if as_uid then Some (snap_get_uid m s') else None)])
      end
  end.

(* State.popResponders. skip: messages whose EXPUNGE is held and whose re-adding EXISTS has not been seen yet;
   readd: messages whose EXISTS is held — the first one re-adds a message whose EXPUNGE is held; once an EXISTS is
   held every later EXISTS is held too (messages are announced and inserted in UID order), and later flag changes of
   such a message concern an instance the session does not have yet and wait behind that EXISTS *)
Definition nonempty (l : list msgid) : bool := match l with [] => false | _ => true end.
Fixpoint pop_go (permit : bool) (skip readd : list msgid) (rs : list responder) : list responder * list responder :=
  match rs with
  | [] => ([], [])
  | r :: t =>
      if permit then let '(p, q) := pop_go permit skip readd t in (r :: p, q) else
      match r with
      | RExpunge m => let '(p, q) := pop_go permit (m :: skip) readd t in (p, r :: q)
      | RExists m _ _ _ _ =>
          if existsb (N.eqb m) skip || nonempty readd
          then let '(p, q) := pop_go permit (filter (fun x => negb (x =? m)) skip) (m :: readd) t in (p, r :: q)
          else let '(p, q) := pop_go permit skip readd t in (r :: p, q)
      | RFetch m _ _ _ _ _ =>
          if existsb (N.eqb m) readd
          then let '(p, q) := pop_go permit skip readd t in (p, r :: q)
          else let '(p, q) := pop_go permit skip readd t in (r :: p, q)
      end
  end.
Definition pop_responders (permit : bool) (rs : list responder) := pop_go permit [] [] rs.

(* the policy before the repairs (flag changes were never held; an EXISTS behind a held one was not held): kept for the
   refutations in Props/C02.v and Props/C01.v *)
Fixpoint pop_go_old (skip : list msgid) (rs : list responder) : list responder * list responder :=
  match rs with
  | [] => ([], [])
  | r :: t =>
      match r with
      | RExpunge m => let '(p, q) := pop_go_old (m :: skip) t in (p, r :: q)
      | RExists m _ _ _ _ =>
          if existsb (N.eqb m) skip
          then let '(p, q) := pop_go_old (filter (fun x => negb (x =? m)) skip) t in (p, r :: q)
          else let '(p, q) := pop_go_old skip t in (r :: p, q)
      | RFetch _ _ _ _ _ _ => let '(p, q) := pop_go_old skip t in (r :: p, q)
      end
  end.

Fixpoint run_responders (rs : list responder) (s : snap) : option (snap * list resp) :=
  match rs with
  | [] => Some (s, [])
  | r :: t => match handle r s with
              | None => None
              | Some (s1, o1) => match run_responders t s1 with
                                 | None => None
                                 | Some (s2, o2) => Some (s2, o1 ++ o2) end
              end
  end.

(* ---------- response.Merge ---------- *)
(* can_skip r x : may the newer response r look past the older response x *)
Definition can_skip (r x : resp) : bool :=
  match r, x with
  | PExists _, PRecent _ | PExists _, PFetch _ _ _ => true
  | PRecent _, PExists _ | PRecent _, PFetch _ _ _ => true
  | PFetch k _ _, PExists c => k <? c
  | PFetch _ _ _, PRecent _ => true
  | PFetch k _ _, PFetch k' _ _ => negb (k =? k')
  | _, _ => false
  end.

Inductive mres := MNo | MPanic | MYes (r : resp).
(* merge_with r x : result of r.mergeWith(x), r newer *)
Definition merge_with (r x : resp) : mres :=
  match r, x with
  | PExists n, PExists o => if n <? o then MPanic else MYes (PExists n)
  | PRecent n, PRecent o => if n <? o then MPanic else MYes (PRecent n)
  | PFetch k f u, PFetch k' f' u' =>
      if k =? k' then MYes (PFetch k f (match u with Some _ => u | None => u' end)) else MNo
  | _, _ => MNo
  end.

Definition mergeable (r : resp) : bool := match r with PExpunge _ => false | _ => true end.

(* works on the REVERSED accumulated list (newest first). None = not merged; Some None = panic *)
Fixpoint merge_into (racc : list resp) (r : resp) : option (option (list resp)) :=
  match racc with
  | [] => None
  | x :: t =>
      match merge_with r x with
      | MYes m => Some (Some (m :: t))
      | MPanic => Some None
      | MNo => if can_skip r x
               then match merge_into t r with
                    | Some (Some t') => Some (Some (x :: t'))
                    | Some None => Some None
                    | None => None end
               else None
      end
  end.

Definition append_or_merge (racc : list resp) (r : resp) : option (list resp) :=
  if mergeable r then
    match merge_into racc r with
    | Some res => res
    | None => Some (r :: racc)
    end
  else Some (r :: racc).

Fixpoint merge_fold (racc : list resp) (rs : list resp) : option (list resp) :=
  match rs with
  | [] => Some racc
  | r :: t => match append_or_merge racc r with None => None | Some a => merge_fold a t end
  end.

(* response.Merge: None = the Go code panics *)
Definition merge (rs : list resp) : option (list resp) :=
  match rs with
  | [] | [_] => Some rs
  | _ => match merge_fold [] rs with None => None | Some a => Some (rev a) end
  end.

(* ---------- per-session state and flush ---------- *)
Record sstate := mkS { s_snap : snap; s_res : list responder }.

Inductive fres := FErr | FPanic | FOk (st : sstate) (out : list resp).

(* State.flushResponses *)
Definition flush (permit : bool) (st : sstate) : fres :=
  let '(p, q) := pop_responders permit (s_res st) in
  match run_responders p (s_snap st) with
  | None => FErr
  | Some (s', out) => match merge out with
                      | None => FPanic
                      | Some out' => FOk (mkS s' q) out' end
  end.

(* flush without merging (the raw response list) *)
Definition flush_raw (permit : bool) (st : sstate) : option (sstate * list resp) :=
  let '(p, q) := pop_responders permit (s_res st) in
  match run_responders p (s_snap st) with
  | None => None
  | Some (s', out) => Some (mkS s' q, out)
  end.

(* Mailbox.ExpungeIssued *)
Definition expunge_issued (st : sstate) : bool := existsb is_rexpunge (s_res st).

(* State.PushResponder when not idling *)
Definition push (rs : list responder) (st : sstate) : sstate := mkS (s_snap st) (s_res st ++ rs).

(* A command seen from the session: pushes of responders (by its own work or by deliveries that happened before it)
   interleaved with flushes; script element = (responders pushed before the flush, permitExpunge of the flush). *)
Definition script := list (list responder * bool).

Fixpoint run_script (sc : script) (st : sstate) : option (sstate * list resp) :=
  match sc with
  | [] => Some (st, [])
  | (rs, p) :: t =>
      match flush_raw p (push rs st) with
      | None => None
      | Some (st1, o1) => match run_script t st1 with
                          | None => None
                          | Some (st2, o2) => Some (st2, o1 ++ o2) end
      end
  end.

(* ---------- client mirror (MirrorSpec) ---------- *)
Definition mcell := (option uid * option flagset)%type.
Definition mirror := list mcell.

Fixpoint mpad (m : mirror) (n : nat) : mirror := match n with O => m | S k => mpad (m ++ [(None, None)]) k end.
Fixpoint rm_nth {A} (k : nat) (l : list A) : list A :=
  match l, k with [], _ => [] | _ :: r, O => r | x :: r, S k' => x :: rm_nth k' r end.
Fixpoint upd_nth {A} (k : nat) (f : A -> A) (l : list A) : list A :=
  match l, k with [], _ => [] | x :: r, O => f x :: r | x :: r, S k' => x :: upd_nth k' f r end.

(* None = the response stream is not a legal stream for that mirror *)
Definition mstep (m : mirror) (r : resp) : option mirror :=
  match r with
  | PExists n => let n' := N.to_nat n in
                 if Nat.ltb n' (length m) then None else Some (mpad m (n' - length m))
  | PRecent _ => Some m
  | PExpunge k => let k' := N.to_nat k in
                  if Nat.leb 1 k' && Nat.leb k' (length m) then Some (rm_nth (k' - 1) m) else None
  | PFetch k f u => let k' := N.to_nat k in
                    if Nat.leb 1 k' && Nat.leb k' (length m)
                    then Some (upd_nth (k' - 1) (fun c => (match u with Some _ => u | None => fst c end, Some f)) m)
                    else None
  end.

Fixpoint msteps (m : mirror) (rs : list resp) : option mirror :=
  match rs with [] => Some m | r :: t => match mstep m r with None => None | Some m' => msteps m' t end end.

Definition cell_ok (c : mcell) (x : smsg) : bool :=
  match fst c with None => true | Some u => u =? sm_uid x end &&
  match snd c with None => true | Some f => fl_eq f (sm_flags x) end.
Fixpoint agree (m : mirror) (s : snap) : bool :=
  match m, s with [], [] => true | c :: m', x :: s' => cell_ok c x && agree m' s' | _, _ => false end.

(* sortedness of a snapshot *)
Fixpoint all_lt (u : N) (s : snap) : Prop := match s with [] => True | y :: r => sm_uid y < u /\ all_lt u r end.
Fixpoint all_gt (u : N) (s : snap) : Prop := match s with [] => True | y :: r => u < sm_uid y /\ all_gt u r end.
Fixpoint srt (s : snap) : Prop := match s with [] => True | x :: r => all_gt (sm_uid x) r /\ srt r end.

(* in-order arrival guard: an exists for a message not yet in the snapshot carries a UID above every UID in it *)
Definition inorder (r : responder) (s : snap) : Prop :=
  match r with RExists m u _ _ _ => snap_has m s = false -> all_lt u s | _ => True end.
