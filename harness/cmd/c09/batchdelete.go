package main

// Delete(ids...) with several IDs (C09: "deleted IDs are gone and listing yields exactly the stored IDs").
//  * batches over stored and never-stored IDs in every position (first, middle, last, repeated) through the on-disk store,
//    WriteControlledStore.Delete and WriteControlledStore.DeleteUnchecked; oracle: a Delete that reports success has
//    removed EVERY ID of the batch; whatever it reports, every ID that was stored is afterwards either gone or still
//    reads back its exact bytes, and List yields exactly the IDs that can be read;
//  * a forced schedule on a gated inner store: Delete(a, b) is inside the store deleting b, Set(a) stores a again and is
//    inside, the Delete returns, a Get(a) must not get inside together with the writer.

import (
	"bytes"
	"errors"
	"fmt"
	"io"
	"os"
	"path/filepath"
	"sort"
	"strings"
	"sync"
	"time"

	"github.com/ProtonMail/gluon/imap"
	"github.com/ProtonMail/gluon/store"
)

func (x *h) batchDeletes(thorough bool) error {
	ctx, res := x.ctx, x.ctx.Res
	// E = an ID that is stored, M = an ID that never was, e = the same stored ID as the previous E (repeated)
	patterns := []string{"E", "EE", "EEE", "M", "ME", "EM", "EME", "MEE", "EEM", "MM", "MEM", "EMME", "EeE", "EEe", "MEeE", "EMEME"}
	if thorough {
		patterns = append(patterns, "EEEEEEEE", "EEEMEEEE", "MEEEEEEE", "EEEEEEEM", "EeEeEe", "MMME", "EMMM")
	}
	vias := []string{"disk", "wcs", "unchecked"}
	n := 0
	for _, via := range vias {
		for _, pat := range patterns {
			n++
			dir := filepath.Join(filepath.Dir(x.dir), fmt.Sprintf("batch-%d", n))
			rawBase, err := store.NewOnDiskStore(dir, x.pass)
			if err != nil {
				return err
			}
			wcs := store.NewWriteControlledStore(rawBase)
			base := x.watch(rawBase, "on-disk")
			canon := fmt.Sprintf("batch-delete via=%s pattern=%s", via, pat)
			ctx.Current(canon, nil)
			x.sit = situation{Scenario: canon}
			// two bystanders plus the IDs of the batch
			content := map[string][]byte{}
			var batch []imap.InternalMessageID
			bnd := append([]imap.InternalMessageID{x.newID(), x.newID()}, x.boundaryIDs()...) // bystanders random, then nil, ff, …
			nput := 0
			put := func() imap.InternalMessageID {
				id := x.newID()
				if nput < len(bnd) {
					id = bnd[nput]
				}
				nput++
				d := x.content([]string{"text", "rand"}[ctx.Rng.Intn(2)], []int{0, 10, 5000}[ctx.Rng.Intn(3)])
				content[id.String()] = d
				if err := base.Set(id, bytes.NewReader(d)); err != nil {
					res.Infra("batch delete setup: %v", err)
				}
				return id
			}
			put()
			put()
			for _, c := range pat {
				switch c {
				case 'E':
					batch = append(batch, put())
				case 'e':
					batch = append(batch, batch[len(batch)-1])
				case 'M':
					batch = append(batch, x.newID())
				}
			}
			var derr error
			switch via {
			case "disk":
				derr = base.Delete(batch...)
			case "wcs":
				derr = x.watch(wcs, "write-controlled").Delete(batch...)
			case "unchecked":
				derr = wcs.DeleteUnchecked(batch...)
			}
			res.Evaluations++
			res.Count("batch-delete")
			res.Nontrivial("batch-delete/" + via + "/" + pat)
			fail := func(what, detail string) {
				res.Fail(canon+" "+what, detail, map[string]interface{}{"via": via, "pattern": pat, "delete_error": fmt.Sprint(derr)})
			}
			inBatch := map[string]bool{}
			for _, id := range batch {
				inBatch[id.String()] = true
			}
			readable := map[string]bool{}
			for ids, want := range content {
				id, _ := imap.InternalMessageIDFromString(ids)
				got, gerr := base.Get(id)
				if gerr == nil {
					readable[ids] = true
					if !bytes.Equal(got, want) {
						fail("result=other-bytes", fmt.Sprintf("after Delete(%s) an ID reads back %d bytes that are not the %d stored ones", pat, len(got), len(want)))
					}
				}
				switch {
				case !inBatch[ids] && gerr != nil:
					fail("result=bystander-lost", fmt.Sprintf("an ID that was not in the batch cannot be read any more: %v", gerr))
				case inBatch[ids] && gerr == nil && derr == nil:
					fail("result=success-but-id-still-stored", fmt.Sprintf("Delete of the batch %s returned no error but an ID of the batch is still readable (%d bytes)", pat, len(got)))
				}
			}
			l, lerr := base.List()
			if lerr != nil {
				fail("result=list-error", lerr.Error())
			}
			var listed, want []string
			for _, id := range l {
				listed = append(listed, id.String())
			}
			for ids := range readable {
				want = append(want, ids)
			}
			sort.Strings(listed)
			sort.Strings(want)
			if strings.Join(listed, ",") != strings.Join(want, ",") {
				fail("result=list-differs", fmt.Sprintf("List yields %d IDs, %d IDs can be read", len(listed), len(want)))
			}
			_ = os.RemoveAll(dir)
		}
	}
	return nil
}

// ---- a forced schedule on a gated inner store ----
type gate struct{ entered, release chan struct{} }

func newGate() *gate { return &gate{entered: make(chan struct{}, 1), release: make(chan struct{})} }

type gatedStore struct {
	mu         sync.Mutex
	data       map[imap.InternalMessageID][]byte
	writers    map[imap.InternalMessageID]int
	readers    map[imap.InternalMessageID]int
	violations []string
	setGate    map[imap.InternalMessageID]*gate
	delGate    map[imap.InternalMessageID]*gate
}

func newGatedStore() *gatedStore {
	return &gatedStore{data: map[imap.InternalMessageID][]byte{}, writers: map[imap.InternalMessageID]int{}, readers: map[imap.InternalMessageID]int{},
		setGate: map[imap.InternalMessageID]*gate{}, delGate: map[imap.InternalMessageID]*gate{}}
}

func (s *gatedStore) enter(id imap.InternalMessageID, write bool, what string) {
	s.mu.Lock()
	defer s.mu.Unlock()
	if s.writers[id] > 0 || (write && s.readers[id] > 0) {
		s.violations = append(s.violations, what+" entered the wrapped store while another writer/reader of the same ID was inside")
	}
	if write {
		s.writers[id]++
	} else {
		s.readers[id]++
	}
}

func (s *gatedStore) leave(id imap.InternalMessageID, write bool) {
	s.mu.Lock()
	defer s.mu.Unlock()
	if write {
		s.writers[id]--
	} else {
		s.readers[id]--
	}
}

func (s *gatedStore) Get(id imap.InternalMessageID) ([]byte, error) {
	s.enter(id, false, "Get")
	defer s.leave(id, false)
	s.mu.Lock()
	defer s.mu.Unlock()
	b, ok := s.data[id]
	if !ok {
		return nil, errors.New("no such message")
	}
	return b, nil
}

func (s *gatedStore) Set(id imap.InternalMessageID, r io.Reader) error {
	s.enter(id, true, "Set")
	defer s.leave(id, true)
	s.mu.Lock()
	s.data[id] = []byte("half-writ") // the value is half written while the writer is held at the gate
	g := s.setGate[id]
	s.mu.Unlock()
	if g != nil {
		g.entered <- struct{}{}
		<-g.release
	}
	b, err := io.ReadAll(r)
	if err != nil {
		return err
	}
	s.mu.Lock()
	s.data[id] = b
	s.mu.Unlock()
	return nil
}

func (s *gatedStore) Delete(ids ...imap.InternalMessageID) error {
	for _, id := range ids {
		s.enter(id, true, "Delete")
		s.mu.Lock()
		g := s.delGate[id]
		s.mu.Unlock()
		if g != nil {
			g.entered <- struct{}{}
			<-g.release
		}
		s.mu.Lock()
		delete(s.data, id)
		s.mu.Unlock()
		s.leave(id, true)
	}
	return nil
}

func (s *gatedStore) Close() error                            { return nil }
func (s *gatedStore) List() ([]imap.InternalMessageID, error) { return nil, nil }

// waitFor waits for a gate signal; an infrastructure timeout is not a verdict about the property.
func waitFor(ch <-chan struct{}, what string) error {
	select {
	case <-ch:
		return nil
	case <-time.After(30 * time.Second):
		return fmt.Errorf("forced schedule: timeout waiting for %s", what)
	}
}

func (x *h) batchDeleteForced() error {
	ctx, res := x.ctx, x.ctx.Res
	// position of the held ID in the batch: the release of every later ID must not touch the first one
	for _, batchLen := range []int{2, 3} {
		canon := fmt.Sprintf("concurrent batch-delete forced-schedule batch=%d", batchLen)
		ctx.Current(canon, nil)
		impl := newGatedStore()
		st := store.NewWriteControlledStore(impl)
		ids := make([]imap.InternalMessageID, batchLen)
		for i := range ids {
			ids[i] = x.newID()
			if err := st.Set(ids[i], bytes.NewReader([]byte(fmt.Sprintf("old value %d", i)))); err != nil {
				return err
			}
		}
		a, last := ids[0], ids[batchLen-1]
		impl.mu.Lock()
		impl.delGate[last], impl.setGate[a] = newGate(), newGate()
		delLast, setA := impl.delGate[last], impl.setGate[a]
		impl.mu.Unlock()
		// 1. D: Delete(a, ..., last) is done with a and is inside the store deleting the last ID
		deleteDone := make(chan error, 1)
		go func() { deleteDone <- st.Delete(ids...) }()
		if err := waitFor(delLast.entered, "the Delete to reach its last ID"); err != nil {
			return err
		}
		// 2. W: Set(a) stores a again and is inside the store, half way through
		newValue := []byte("the complete new value of a")
		setDone := make(chan error, 1)
		go func() { setDone <- st.Set(a, bytes.NewReader(newValue)) }()
		if err := waitFor(setA.entered, "the Set to get inside"); err != nil {
			return err
		}
		// 3. D finishes
		close(delLast.release)
		select {
		case <-deleteDone:
		case <-time.After(30 * time.Second):
			return errors.New("forced schedule: Delete did not return")
		}
		// 4. R: Get(a) has to wait for W.  Give it time to get in if the lock does not hold it back (only needed to
		// SEE a failure; on a correct lock table it cannot get in however long we wait).
		type result struct {
			b   []byte
			err error
		}
		getDone := make(chan result, 1)
		go func() { b, err := st.Get(a); getDone <- result{b, err} }()
		var early *result
		select {
		case r := <-getDone:
			early = &r
		case <-time.After(150 * time.Millisecond):
		}
		close(setA.release)
		select {
		case <-setDone:
		case <-time.After(30 * time.Second):
			return errors.New("forced schedule: Set did not return")
		}
		var got result
		if early != nil {
			got = *early
		} else {
			select {
			case got = <-getDone:
			case <-time.After(30 * time.Second):
				return errors.New("forced schedule: Get did not return")
			}
		}
		res.Evaluations++
		res.Count("forced-schedule")
		res.Nontrivial(canon)
		impl.mu.Lock()
		viol := append([]string{}, impl.violations...)
		impl.mu.Unlock()
		if len(viol) > 0 || early != nil || got.err != nil || !bytes.Equal(got.b, newValue) {
			res.Fail("concurrent batch-delete reader-inside-with-writer",
				fmt.Sprintf("Delete(ids[0..%d]) inside on its last ID, Set(ids[0]) inside, Delete returns, Get(ids[0]): returned before the Set finished=%v value=%q err=%v violations=%v", batchLen-1, early != nil, got.b, got.err, viol),
				map[string]interface{}{"batch": batchLen})
		}
	}
	return nil
}
