package tests

import (
	"fmt"
	"strings"
	"testing"
)

// A partial <o.n> of a section is exactly the bytes [o, o+n) of that section (cut at the section's end). The case that
// matters here is a partial that starts at the LAST octet of the section (o == len-1): it must answer that one octet,
// and the chunks of a chunked fetch whose last chunk is that single octet must concatenate to the whole section.
func TestC13DemoPartialStartingAtLastOctetOfSection(t *testing.T) {
	const text = "0123456789ABCDEFG" // 17 octets, no trailing line break: BODY[TEXT] is exactly this.

	const literal = "To: a@b.c\r\n" +
		"From: x@y.z\r\n" +
		"Date: Mon, 7 Feb 1994 21:52:25 -0800\r\n" +
		"Subject: partial\r\n" +
		"\r\n" +
		text

	runOneToOneTestWithAuth(t, defaultServerOptions(t), func(c *testConnection, _ *testSession) {
		c.doAppend(`INBOX`, literal, `\Seen`).expect("OK")

		c.C(`A002 SELECT INBOX`)
		c.Se(`A002 OK [READ-WRITE] SELECT`)

		// The whole section, for reference.
		c.C(`A003 FETCH 1 (BODY.PEEK[TEXT])`)
		c.S(fmt.Sprintf("* 1 FETCH (BODY[TEXT] {%d}\r\n%s)", len(text), text))
		c.OK("A003")

		// A partial in the middle and one that reaches past the end.
		c.C(`A004 FETCH 1 (BODY.PEEK[TEXT]<4.4>)`)
		c.S("* 1 FETCH (BODY[TEXT]<4> {4}\r\n4567)")
		c.OK("A004")

		c.C(`A005 FETCH 1 (BODY.PEEK[TEXT]<12.100>)`)
		c.S("* 1 FETCH (BODY[TEXT]<12> {5}\r\nCDEFG)")
		c.OK("A005")

		// The partial that starts at the last octet of the section.
		c.C(`A006 FETCH 1 (BODY.PEEK[TEXT]<16.1>)`)
		c.S("* 1 FETCH (BODY[TEXT]<16> {1}\r\nG)")
		c.OK("A006")

		c.C(`A007 FETCH 1 (BODY.PEEK[TEXT]<16.8>)`)
		c.S("* 1 FETCH (BODY[TEXT]<16> {1}\r\nG)")
		c.OK("A007")

		// One past the end is empty (the test connection hands out an empty literal as a line of its own).
		c.C(`A008 FETCH 1 (BODY.PEEK[TEXT]<17.8>)`)
		c.S("* 1 FETCH (BODY[TEXT]<17> {0}")
		c.OK("A008")

		// Chunked fetch with chunks of 8 octets: 8 + 8 + 1. The chunks must concatenate to the section.
		var chunks []string

		for offset := 0; offset < len(text); offset += 8 {
			end := offset + 8
			if end > len(text) {
				end = len(text)
			}

			tag := fmt.Sprintf("B%03d", offset)

			c.Cf(`%v FETCH 1 (BODY.PEEK[TEXT]<%d.8>)`, tag, offset)
			c.S(fmt.Sprintf("* 1 FETCH (BODY[TEXT]<%d> {%d}\r\n%s)", offset, end-offset, text[offset:end]))
			c.OK(tag)

			chunks = append(chunks, text[offset:end])
		}

		if strings.Join(chunks, "") != text {
			t.Fatalf("chunks do not cover the section")
		}
	})
}
