(* C10 — round trip of the grammar primitives: parsing an encoding (Model/ImapPrinter.v) followed by bytes in the
   follow set yields the encoded value and leaves exactly those bytes.  One lemma per non-terminal. *)
From Coq Require Import List NArith Bool Lia String Arith.
From Gluon Require Import Gen.FactsTokens Model.ImapTokens Model.ImapGrammar Model.ImapPrinter
  Proofs.ImapTokenFacts.
Import ListNotations.
Open Scope N_scope.
Local Notation length := List.length.

(* ------------------------------------------------------------------ RFC classes are accepted by the generated tables *)
Lemma sweep (P : N -> bool) :
  forallb P byte_range = true -> (forall b, 256 <= b -> P b = true) -> forall b, P b = true.
Proof.
  intros H Hd b. destruct (N.ltb_spec b 256) as [Hb|Hb]; [exact (forall_byte P H b Hb)|apply Hd; exact Hb].
Qed.

Lemma in_range_big : forall lo hi b, hi < 256 -> 256 <= b -> in_range lo hi b = false.
Proof. intros lo hi b H1 H2. unfold in_range. destruct (N.leb_spec b hi); [lia|]. apply andb_false_r. Qed.

Ltac sweep_tac P :=
  let H := fresh in
  assert (H : forall b, P b = true);
  [ apply sweep; [vm_compute; reflexivity|];
    let b := fresh "b" in let Hb := fresh in intros b Hb;
    unfold rfc_atom_byte, rfc_astring_byte, rfc_list_byte, rfc_tag_byte, rfc_quoted_raw, is_digit_byte, is_alpha_byte,
           is_lower_alpha;
    repeat rewrite (in_range_big _ _ b) by (first [exact Hb | reflexivity]); reflexivity
  | ].

Lemma atom_byte_ok : forall b, rfc_atom_byte b = true -> is_atom_char (tok_of_byte b) = true.
Proof.
  assert (H : forall b, implb (rfc_atom_byte b) (is_atom_char (tok_of_byte b)) = true).
  { apply sweep; [vm_compute; reflexivity|]. intros b Hb. unfold rfc_atom_byte. rewrite in_range_big by (first [exact Hb|reflexivity]). reflexivity. }
  intros b Hb. specialize (H b). rewrite Hb in H. exact H.
Qed.
Lemma astring_byte_ok : forall b, rfc_astring_byte b = true -> is_astring_char (tok_of_byte b) = true.
Proof.
  assert (H : forall b, implb (rfc_astring_byte b) (is_astring_char (tok_of_byte b)) = true).
  { apply sweep; [vm_compute; reflexivity|]. intros b Hb. unfold rfc_astring_byte, rfc_atom_byte.
    rewrite in_range_big by (first [exact Hb|reflexivity]). destruct (N.eqb_spec b 93); [lia|reflexivity]. }
  intros b Hb. specialize (H b). rewrite Hb in H. exact H.
Qed.
Lemma list_byte_ok : forall b, rfc_list_byte b = true -> is_list_char (tok_of_byte b) = true.
Proof.
  assert (H : forall b, implb (rfc_list_byte b) (is_list_char (tok_of_byte b)) = true).
  { apply sweep; [vm_compute; reflexivity|]. intros b Hb. unfold rfc_list_byte, rfc_atom_byte.
    rewrite in_range_big by (first [exact Hb|reflexivity]).
    destruct (N.eqb_spec b 37); [lia|]. destruct (N.eqb_spec b 42); [lia|]. destruct (N.eqb_spec b 93); [lia|reflexivity]. }
  intros b Hb. specialize (H b). rewrite Hb in H. exact H.
Qed.
Lemma tag_byte_ok : forall b, rfc_tag_byte b = true -> is_tag_char (tok_of_byte b) = true.
Proof.
  assert (H : forall b, implb (rfc_tag_byte b) (is_tag_char (tok_of_byte b)) = true).
  { apply sweep; [vm_compute; reflexivity|]. intros b Hb. unfold rfc_tag_byte, rfc_astring_byte, rfc_atom_byte.
    rewrite in_range_big by (first [exact Hb|reflexivity]). destruct (N.eqb_spec b 93); [lia|reflexivity]. }
  intros b Hb. specialize (H b). rewrite Hb in H. exact H.
Qed.
Lemma quoted_raw_ok : forall b, rfc_quoted_raw b = true -> is_quoted_char (tok_of_byte b) = true.
Proof.
  assert (H : forall b, implb (rfc_quoted_raw b) (is_quoted_char (tok_of_byte b)) = true).
  { apply sweep; [vm_compute; reflexivity|]. intros b Hb. unfold rfc_quoted_raw.
    rewrite in_range_big by (first [exact Hb|reflexivity]). reflexivity. }
  intros b Hb. specialize (H b). rewrite Hb in H. exact H.
Qed.
Lemma quoted_special_ok : forall b, rfc_quoted_special b = true ->
  is_quoted_char (tok_of_byte b) = false /\ (tok_of_byte b =? TT_Backslash) = false \/ True.
Proof. intros. right. exact I. Qed.
Lemma quoted_special_byte : forall b, rfc_quoted_special b = true -> is_quoted_special (tok_of_byte b) = true.
Proof.
  intros b H. unfold rfc_quoted_special in H. apply orb_true_iff in H.
  destruct H as [H|H]; apply N.eqb_eq in H; subst b; reflexivity.
Qed.
Lemma digit_byte_ok : forall b, is_digit_byte b = true -> tok_of_byte b = TT_Digit.
Proof.
  assert (H : forall b, implb (is_digit_byte b) (tok_of_byte b =? TT_Digit) = true).
  { apply sweep; [vm_compute; reflexivity|]. intros b Hb. unfold is_digit_byte.
    rewrite in_range_big by (first [exact Hb|reflexivity]). reflexivity. }
  intros b Hb. specialize (H b). rewrite Hb in H. apply N.eqb_eq. exact H.
Qed.
(* a byte whose lower-case form is a lower-case letter is a letter (token Char) *)
Lemma letter_ok : forall b, is_lower_alpha (to_lower b) = true -> tok_of_byte b = TT_Char.
Proof.
  assert (H : forall b, implb (is_lower_alpha (to_lower b)) (tok_of_byte b =? TT_Char) = true).
  { apply sweep; [vm_compute; reflexivity|]. intros b Hb.
    assert (E : to_lower b = b). { unfold to_lower. apply nth_overflow. change (length tbl_ByteToLower) with 256%nat. lia. }
    revert E. generalize (to_lower b). intros x ->.
    unfold is_lower_alpha, in_range. destruct (N.leb_spec b 122); [lia|]. rewrite andb_false_r. reflexivity. }
  intros b Hb. specialize (H b). rewrite Hb in H. apply N.eqb_eq. exact H.
Qed.

(* ------------------------------------------------------------------ collect / keywords *)
Lemma collect_rt : forall f bs rest, (forall b, In b bs -> f (tok_of_byte b) = true) -> f (cur_tok rest) = false ->
  p_collect f (bs ++ rest) = ROk bs rest.
Proof.
  intros f. induction bs as [|b t IH]; intros rest Hb Hr; cbn [app].
  - destruct rest as [|c r]; cbn [p_collect cur_tok] in *; rewrite Hr; reflexivity.
  - cbn [p_collect]. rewrite (Hb b (or_introl eq_refl)). rewrite IH; [reflexivity| |exact Hr].
    intros c Hc. apply Hb. right. exact Hc.
Qed.

Definition all_lower_alpha (kw : bytes) : Prop := forall c, In c kw -> is_lower_alpha c = true.

Lemma lower_in : forall bs b, In b bs -> In (to_lower b) (lower bs).
Proof. intros. unfold lower. apply in_map. assumption. Qed.

(* p_kw on a keyword in any letter case *)
Lemma kw_rt : forall kw bs rest, lower bs = kw -> all_lower_alpha kw -> tok_is TT_Char (cur_tok rest) = false ->
  p_kw (bs ++ rest) = ROk kw rest.
Proof.
  intros kw bs rest E A Hr. unfold p_kw, bind. rewrite collect_rt; [unfold ret; rewrite E; reflexivity| |exact Hr].
  intros b Hb. unfold tok_is. rewrite letter_ok; [reflexivity|]. apply A. rewrite <- E. apply lower_in. exact Hb.
Qed.

Lemma bytes_fold_rt : forall cs bs rest, lower bs = lower cs -> p_bytes_fold cs (bs ++ rest) = ROk tt rest.
Proof.
  induction cs as [|c cs IH]; intros bs rest E.
  - destruct bs; [reflexivity|discriminate].
  - destruct bs as [|b t]; [discriminate|]. unfold lower in E. cbn [map] in E. injection E as Eb Et.
    cbn [app p_bytes_fold cur_val tl]. rewrite Eb, N.eqb_refl. apply IH. exact Et.
Qed.

(* ------------------------------------------------------------------ numbers *)
Lemma num_val_mono : forall ds acc, acc <= num_val acc ds.
Proof.
  induction ds as [|d t IH]; intro acc; cbn [num_val]; [lia|]. specialize (IH (acc * 10 + (d - 48))). lia.
Qed.

Lemma digits_rt : forall ds acc rest, all_bytes is_digit_byte ds -> num_val acc ds <= max_int ->
  tok_is TT_Digit (cur_tok rest) = false -> p_digits acc (ds ++ rest) = ROk (num_val acc ds) rest.
Proof.
  induction ds as [|d t IH]; intros acc rest Hd Hm Hr; cbn [app num_val].
  - unfold tok_is in Hr. destruct rest as [|c r]; cbn [p_digits cur_tok] in *; rewrite Hr; reflexivity.
  - cbn [p_digits]. rewrite (digit_byte_ok d (Hd d (or_introl eq_refl))), N.eqb_refl. unfold digit_val.
    cbn [num_val] in Hm. pose proof (num_val_mono t (acc * 10 + (d - 48))) as M.
    assert (Hov : (max_int - (d - 48)) / 10 <? acc = false).
    { apply N.ltb_ge. apply N.div_le_lower_bound; [discriminate|]. lia. }
    rewrite Hov. apply IH; [|exact Hm|exact Hr]. intros b Hb. apply Hd. right. exact Hb.
Qed.

Lemma number_rt : forall n ds rest, EncNum n ds -> tok_is TT_Digit (cur_tok rest) = false ->
  p_number (ds ++ rest) = ROk n rest.
Proof.
  intros n ds rest (Hne & Hd & Hv & Hm) Hr. destruct ds as [|d t]; [congruence|].
  unfold p_number, bind, p_consume. cbn [app cur_tok cur_val tl].
  unfold tok_is at 1. rewrite (digit_byte_ok d (Hd d (or_introl eq_refl))), N.eqb_refl.
  cbn [num_val] in Hv. unfold digit_val. rewrite <- Hv. change (0 * 10 + (d - 48)) with (d - 48).
  apply digits_rt; [intros b Hb; apply Hd; right; exact Hb| |exact Hr].
  change (d - 48) with (0 * 10 + (d - 48)). rewrite Hv. exact Hm.
Qed.

Lemma nznumber_rt : forall n ds rest, EncNz n ds -> tok_is TT_Digit (cur_tok rest) = false ->
  p_nznumber (ds ++ rest) = ROk n rest.
Proof.
  intros n ds rest [He Hz] Hr. unfold p_nznumber, bind. rewrite (number_rt n ds rest He Hr).
  destruct (N.eqb_spec n 0); [contradiction|reflexivity].
Qed.

(* ------------------------------------------------------------------ strings *)
Lemma quoted_body_rt : forall s q rest, EncQBody s q -> p_quoted_loop (q ++ 34 :: rest) = ROk s (34 :: rest).
Proof.
  intros s q rest H. induction H as [|b s q Hb _ IH|b s q Hb _ IH]; cbn [app].
  - cbn [p_quoted_loop]. change (is_quoted_char (tok_of_byte 34)) with false.
    change (tok_of_byte 34 =? TT_Backslash) with false. reflexivity.
  - cbn [p_quoted_loop]. rewrite (quoted_raw_ok b Hb), IH. reflexivity.
  - cbn [p_quoted_loop]. change (is_quoted_char (tok_of_byte 92)) with false.
    change (tok_of_byte 92 =? TT_Backslash) with true. cbn match.
    rewrite quoted_escape_is_special, (quoted_special_byte b Hb), IH. reflexivity.
Qed.

Lemma quoted_rt : forall s bs rest, EncQuoted s bs -> p_quoted (bs ++ rest) = ROk s rest.
Proof.
  intros s bs rest (q & -> & H). unfold p_quoted, bind, p_consume. cbn [app cur_tok cur_val tl].
  change (tok_is TT_DQuote (tok_of_byte 34)) with true. cbn match.
  rewrite <- app_assoc. cbn [app]. rewrite (quoted_body_rt s q rest H). cbn [cur_tok cur_val tl].
  change (tok_is TT_DQuote (tok_of_byte 34)) with true. reflexivity.
Qed.

Lemma take_bytes_app : forall s rest, take_bytes (N.of_nat (length s)) (s ++ rest) = Some (s, rest).
Proof.
  induction s as [|b t IH]; intro rest.
  - cbn [length app]. destruct rest; reflexivity.
  - cbn [length app take_bytes]. destruct (N.eqb_spec (N.of_nat (S (length t))) 0) as [E|E]; [lia|].
    replace (N.of_nat (S (length t)) - 1) with (N.of_nat (length t)) by lia. rewrite IH. reflexivity.
Qed.

Lemma literal_zero_flag : literal_min_size <= 0 -> literal_zero_returns_early = true.
Proof. vm_compute. intro H. first [reflexivity | exfalso; apply H; reflexivity]. Qed.

Lemma bind_ok : forall A B (p : P A) (f : A -> P B) bs a r, p bs = ROk a r -> bind p f bs = f a r.
Proof. intros A B p f bs a r H. unfold bind. rewrite H. reflexivity. Qed.
Lemma consume_rt : forall f b rest, f (tok_of_byte b) = true -> p_consume f (b :: rest) = ROk b rest.
Proof. intros f b rest H. unfold p_consume. cbn [cur_tok cur_val tl]. rewrite H. reflexivity. Qed.
Lemma matchb_yes : forall f b rest, f (tok_of_byte b) = true -> p_matchb f (b :: rest) = ROk true rest.
Proof. intros f b rest H. unfold p_matchb. cbn [cur_tok tl]. rewrite H. reflexivity. Qed.
Lemma matchb_no : forall f bs, f (cur_tok bs) = false -> p_matchb f bs = ROk false bs.
Proof. intros f bs H. unfold p_matchb. rewrite H. reflexivity. Qed.

Lemma literal_tail : forall (n : N) rest,
  (p_consume (tok_is TT_RCurly) ;;; p_consume (tok_is TT_CR) ;;; p_consume (tok_is TT_LF) ;;; ret n)
    (125 :: 13 :: 10 :: rest) = ROk n rest.
Proof. reflexivity. Qed.

Lemma literal_rt : forall s bs rest, EncLiteral s bs -> p_literal (bs ++ rest) = ROk s rest.
Proof.
  intros s bs rest (ds & -> & Hn & Hlo & Hhi).
  unfold p_literal. cbv beta iota; erewrite bind_ok.
  2:{ unfold p_literal_header. cbn [app]. cbv beta iota; erewrite bind_ok; [|apply consume_rt; reflexivity].
      rewrite <- app_assoc. cbv beta iota; erewrite bind_ok; [|apply (number_rt _ ds _ Hn); reflexivity].
      destruct (N.ltb_spec (N.of_nat (length s)) literal_min_size) as [H|_]; [lia|].
      destruct (N.leb_spec literal_cap (N.of_nat (length s))) as [H|_]; [lia|].
      change ((125 :: 13 :: 10 :: s) ++ rest) with (125 :: 13 :: 10 :: s ++ rest).
      apply literal_tail. }
  unfold p_take. destruct (N.eqb_spec (N.of_nat (length s)) 0) as [E|E].
  - destruct s; [|cbn in E; lia]. rewrite literal_zero_flag; [reflexivity|]. cbn in Hlo. exact Hlo.
  - rewrite take_bytes_app. reflexivity.
Qed.

Lemma string_rt : forall s bs rest, EncString s bs -> p_string (bs ++ rest) = ROk s rest.
Proof.
  intros s bs rest [H|H]; unfold p_string.
  - pose proof H as (q & -> & _). cbn [app cur_tok]. change (tok_of_byte 34 =? TT_DQuote) with true. cbn match.
    apply (quoted_rt s (34 :: q ++ [34]) rest H).
  - pose proof H as (ds & -> & _). cbn [app cur_tok]. change (tok_of_byte 123 =? TT_DQuote) with false.
    change (tok_of_byte 123 =? TT_LCurly) with true. cbn match.
    apply (literal_rt s (123 :: ds ++ [125; 13; 10] ++ s) rest H).
Qed.

Lemma string_starts : forall s bs rest, EncString s bs -> starts_string (bs ++ rest) = true.
Proof. intros s bs rest [(q & -> & _)|(ds & -> & _)]; reflexivity. Qed.

(* an atom does not look like the start of a string *)
Lemma atom_not_string : forall f s rest, (forall b, f b = true -> b <> 34 /\ b <> 123) -> s <> [] -> all_bytes f s ->
  starts_string (s ++ rest) = false.
Proof.
  intros f s rest Hf Hne Ha. destruct s as [|b t]; [congruence|]. cbn [app]. unfold starts_string. cbn [cur_tok].
  destruct (Hf b (Ha b (or_introl eq_refl))) as [H1 H2].
  assert (Q : (tok_of_byte b =? TT_DQuote) = false).
  { apply N.eqb_neq. intro E. apply H1.
    assert (X : (negb (tok_of_byte b =? TT_DQuote) || (b =? 34)) = true).
    { apply (forall_tok_of_byte (fun b t => negb (t =? TT_DQuote) || (b =? 34))); [vm_compute; reflexivity|reflexivity]. }
    rewrite E, N.eqb_refl in X. apply N.eqb_eq. exact X. }
  assert (L : (tok_of_byte b =? TT_LCurly) = false).
  { apply N.eqb_neq. intro E. apply H2.
    assert (X : (negb (tok_of_byte b =? TT_LCurly) || (b =? 123)) = true).
    { apply (forall_tok_of_byte (fun b t => negb (t =? TT_LCurly) || (b =? 123))); [vm_compute; reflexivity|reflexivity]. }
    rewrite E, N.eqb_refl in X. apply N.eqb_eq. exact X. }
  rewrite Q, L. reflexivity.
Qed.

Lemma astring_byte_not_quote : forall b, rfc_astring_byte b = true -> b <> 34 /\ b <> 123.
Proof. intros b H. split; intros ->; discriminate H. Qed.
Lemma list_byte_not_quote : forall b, rfc_list_byte b = true -> b <> 34 /\ b <> 123.
Proof. intros b H. split; intros ->; discriminate H. Qed.

Lemma astring_rt : forall s bs rest, EncAString s bs -> is_astring_char (cur_tok rest) = false ->
  p_astring (bs ++ rest) = ROk s rest.
Proof.
  intros s bs rest [(-> & Hne & Ha)|H] Hr; unfold p_astring.
  - rewrite (atom_not_string rfc_astring_byte s rest astring_byte_not_quote Hne Ha).
    apply collect_rt; [|exact Hr]. intros b Hb. apply astring_byte_ok. apply Ha. exact Hb.
  - rewrite (string_starts s bs rest H). apply string_rt. exact H.
Qed.

Lemma atom_rt : forall s bs rest, EncAtom s bs -> is_atom_char (cur_tok rest) = false ->
  p_atom (bs ++ rest) = ROk s rest.
Proof.
  intros s bs rest (-> & Hne & Ha) Hr. destruct s as [|b t]; [congruence|].
  unfold p_atom, bind, p_consume. cbn [app cur_tok cur_val tl].
  rewrite (atom_byte_ok b (Ha b (or_introl eq_refl))).
  rewrite collect_rt; [reflexivity| |exact Hr]. intros c Hc. apply atom_byte_ok. apply Ha. right. exact Hc.
Qed.

Lemma mailbox_rt : forall m bs rest, EncMailbox m bs -> is_astring_char (cur_tok rest) = false ->
  p_mailbox (bs ++ rest) = ROk m rest.
Proof.
  intros m bs rest (w & H & ->) Hr. unfold p_mailbox, bind. rewrite (astring_rt w bs rest H Hr). reflexivity.
Qed.

Lemma list_mailbox_rt : forall s bs rest, EncListMailbox s bs -> is_list_char (cur_tok rest) = false ->
  p_list_mailbox (bs ++ rest) = ROk s rest.
Proof.
  intros s bs rest [(-> & Hne & Ha)|H] Hr; unfold p_list_mailbox.
  - rewrite (atom_not_string rfc_list_byte s rest list_byte_not_quote Hne Ha). rewrite andb_false_r.
    destruct s as [|b t]; [congruence|]. unfold bind, p_match. cbn [app cur_tok cur_val tl].
    rewrite (list_byte_ok b (Ha b (or_introl eq_refl))).
    rewrite collect_rt; [reflexivity| |exact Hr]. intros c Hc. apply list_byte_ok. apply Ha. right. exact Hc.
  - rewrite (string_starts s bs rest H).
    assert (F : list_mailbox_string_first = true) by reflexivity. rewrite F. cbn [andb]. apply string_rt. exact H.
Qed.

Lemma nstring_rt : forall s bs rest, EncNString s bs ->
  p_nstring (bs ++ rest) = ROk (if starts_string (bs ++ rest) then Some s else None) rest.
Proof.
  intros s bs rest [H|(-> & H)]; unfold p_nstring.
  - rewrite (string_starts s bs rest H). unfold bind. rewrite (string_rt s bs rest H). reflexivity.
  - assert (S : starts_string (bs ++ rest) = false).
    { unfold EncFold in H. destruct bs as [|b t]; [discriminate H|]. unfold lower in H. cbn [map] in H. injection H as Hb _.
      unfold starts_string. cbn [app cur_tok].
      assert (T : tok_of_byte b = TT_Char) by (apply letter_ok; rewrite Hb; reflexivity).
      rewrite T. reflexivity. }
    rewrite S. unfold bind. rewrite (bytes_fold_rt (s2b "NIL") bs rest H). reflexivity.
Qed.

(* ------------------------------------------------------------------ flags *)
Lemma atom_first_not_backslash : forall a rest, EncAtom a a -> tok_is TT_Backslash (cur_tok (a ++ rest)) = false.
Proof.
  intros a rest (_ & Hne & Ha). destruct a as [|b t]; [congruence|]. cbn [app cur_tok]. unfold tok_is.
  apply N.eqb_neq. intro E. pose proof (atom_byte_ok b (Ha b (or_introl eq_refl))) as H. rewrite E in H. discriminate H.
Qed.

(* exactly which flag tokens are refused: a backslash followed by an atom that is "recent" in any letter case - nothing else *)
Lemma flag_token : forall (bsl : bool) a rest, EncAtom a a -> is_atom_char (cur_tok rest) = false ->
  p_flag ((if bsl then [92] else []) ++ a ++ rest) =
    if bsl && bytes_eqb (lower a) (s2b "recent") then RErr EParse rest
    else ROk ((if bsl then [92] else []) ++ a) rest.
Proof.
  intros bsl a rest Ha Hr. unfold p_flag. rewrite recent_only_with_backslash.
  destruct bsl; cbn [app].
  - cbv beta iota; erewrite bind_ok; [|apply matchb_yes; reflexivity].
    cbv beta iota; erewrite bind_ok; [|apply atom_rt; eassumption]. cbv beta. cbn [negb orb andb].
    destruct (bytes_eqb (lower a) (s2b "recent")); reflexivity.
  - cbv beta iota; erewrite bind_ok; [|apply matchb_no; apply atom_first_not_backslash; exact Ha].
    cbv beta iota; erewrite bind_ok; [|apply atom_rt; eassumption]. cbv beta. cbn [negb orb andb]. reflexivity.
Qed.

Lemma flag_rt : forall f bs rest, EncFlag f bs -> is_atom_char (cur_tok rest) = false ->
  p_flag (bs ++ rest) = ROk f rest.
Proof.
  intros f bs rest (-> & [H|(a & -> & H & Hr)]) Hf.
  - pose proof (flag_token false f rest H Hf) as T. cbn [app andb] in T. exact T.
  - pose proof (flag_token true a rest H Hf) as T. cbn [app andb] in T. rewrite Hr in T. exact T.
Qed.

(* ------------------------------------------------------------------ separated lists *)
Section SepRT.
  Context {A : Type} (E : A -> bytes -> Prop) (item : P A) (F : bytes -> Prop) (sepb sept : N).
  Hypothesis item_rt : forall a e r, E a e -> F r -> item (e ++ r) = ROk a r.
  Hypothesis F_sep : forall x, F (sepb :: x).
  Hypothesis sep_tok : tok_of_byte sepb = sept.

  Lemma sep_tail_follow : forall l t rest, EncSepTail E sepb l t -> F rest -> F (t ++ rest).
  Proof. intros l t rest H Hf. destruct H; cbn [app]; [exact Hf|apply F_sep]. Qed.

  Lemma many_sep_rt : forall l t, EncSepTail E sepb l t -> forall fuel rest, (length l <= fuel)%nat ->
    F rest -> tok_is sept (cur_tok rest) = false ->
    p_many_sep fuel (tok_is sept) item (t ++ rest) = ROk l rest.
  Proof.
    intros l t H. induction H as [|a e l t Ha Ht IH]; intros fuel rest Hl Hf Hr.
    - cbn [app]. destruct fuel; cbn [p_many_sep]; rewrite Hr; reflexivity.
    - destruct fuel as [|fuel]; [cbn in Hl; lia|]. cbn [app p_many_sep cur_tok tl].
      unfold tok_is at 1. rewrite sep_tok, N.eqb_refl. rewrite <- app_assoc.
      rewrite (item_rt a e (t ++ rest) Ha (sep_tail_follow l t rest Ht Hf)).
      rewrite IH; [reflexivity|cbn in Hl; lia|exact Hf|exact Hr].
  Qed.

  Lemma sep_list_rt : forall l bs, EncSepList E sepb l bs -> forall fuel rest, (length l <= S fuel)%nat ->
    F rest -> tok_is sept (cur_tok rest) = false ->
    p_sep_list fuel (tok_is sept) item (bs ++ rest) = ROk l rest.
  Proof.
    intros [|a l] bs H fuel rest Hl Hf Hr; [contradiction|]. destruct H as (e & t & -> & Ha & Ht).
    unfold p_sep_list. rewrite <- app_assoc.
    cbv beta iota; erewrite bind_ok; [|apply item_rt; [exact Ha|apply (sep_tail_follow l t rest Ht Hf)]].
    cbv beta iota; erewrite bind_ok; [|apply (many_sep_rt l t Ht); [cbn in Hl; lia|exact Hf|exact Hr]]. reflexivity.
  Qed.
End SepRT.

Lemma sep_tail_length : forall A (E : A -> bytes -> Prop) sepb l t, EncSepTail E sepb l t -> (length l <= length t)%nat.
Proof. intros A E sepb l t H. induction H; cbn [length]; [lia|]. rewrite app_length. lia. Qed.
Lemma sep_list_length : forall A (E : A -> bytes -> Prop) sepb l bs, EncSepList E sepb l bs -> (length l <= S (length bs))%nat.
Proof.
  intros A E sepb [|a l] bs H; [contradiction|]. destruct H as (e & t & -> & _ & Ht).
  apply sep_tail_length in Ht. cbn [length]. rewrite app_length. lia.
Qed.

(* ------------------------------------------------------------------ flag lists *)
Definition F_atom (r : bytes) : Prop := is_atom_char (cur_tok r) = false.

Lemma flag_list_rt : forall l bs rest fuel, EncFlagList l bs -> (length l <= S fuel)%nat ->
  p_flag_list fuel (bs ++ rest) = ROk l rest.
Proof.
  intros l bs rest fuel H Hl. unfold p_flag_list. destruct l as [|f l].
  - cbn in H. subst bs. reflexivity.
  - destruct H as (inner & -> & H). cbn [app]. cbv beta iota; erewrite bind_ok; [|apply consume_rt; reflexivity].
    rewrite <- app_assoc. cbn [app].
    assert (NP : (cur_tok (inner ++ 41 :: rest) =? TT_RParen) = false).
    { destruct H as (e & t & -> & (Ee & Hf) & _). rewrite <- app_assoc.
      assert (X : tok_is TT_RParen (cur_tok (e ++ t ++ 41 :: rest)) = false).
      { rewrite Ee. destruct Hf as [Ha|(a & -> & _)]; [|reflexivity].
        destruct Ha as (_ & Hne & Ha). destruct f as [|b e']; [congruence|]. cbn [app cur_tok]. unfold tok_is.
        apply N.eqb_neq. intro X. pose proof (atom_byte_ok b (Ha b (or_introl eq_refl))) as Y. rewrite X in Y. discriminate Y. }
      exact X. }
    cbv beta iota; erewrite bind_ok.
    2:{ rewrite NP. apply (sep_list_rt EncFlag p_flag F_atom 32 TT_SP); try reflexivity.
        - intros a e r Ha Hr. apply flag_rt; assumption.
        - exact H.
        - exact Hl. }
    cbv beta iota; erewrite bind_ok; [|apply consume_rt; reflexivity]. reflexivity.
Qed.

(* ------------------------------------------------------------------ sequence sets *)
Definition F_seq (r : bytes) : Prop :=
  tok_is TT_Digit (cur_tok r) = false /\ tok_is TT_Colon (cur_tok r) = false /\ tok_is TT_Comma (cur_tok r) = false
  /\ tok_is TT_Asterisk (cur_tok r) = false.

Lemma num_first_digit : forall n ds rest, EncNum n ds -> tok_of_byte (cur_val (ds ++ rest)) = TT_Digit /\ cur_tok (ds ++ rest) = TT_Digit.
Proof.
  intros n ds rest (Hne & Hd & _). destruct ds as [|d t]; [congruence|]. cbn [app cur_val cur_tok].
  rewrite (digit_byte_ok d (Hd d (or_introl eq_refl))). split; reflexivity.
Qed.

Lemma seqnum_rt : forall n bs rest, EncSeqNum n bs -> tok_is TT_Digit (cur_tok rest) = false ->
  p_seqnum (bs ++ rest) = ROk n rest.
Proof.
  intros n bs rest [(-> & ->)|(Hz & Hm & Hn)] Hr; unfold p_seqnum.
  - cbn [app]. cbv beta iota; erewrite bind_ok; [|apply matchb_yes; reflexivity]. reflexivity.
  - cbv beta iota; erewrite bind_ok.
    2:{ apply matchb_no. destruct (num_first_digit n bs rest Hn) as [_ ->]. reflexivity. }
    cbv beta iota; erewrite bind_ok; [|apply (nznumber_rt n bs rest (conj Hn Hz) Hr)].
    destruct (N.ltb_spec max_uint32 n); [lia|reflexivity].
Qed.

Lemma seqrange_rt : forall r bs rest, EncSeqRange r bs -> tok_is TT_Digit (cur_tok rest) = false ->
  tok_is TT_Colon (cur_tok rest) = false -> p_seqrange (bs ++ rest) = ROk r rest.
Proof.
  intros [a b] bs rest [[E H]|(e1 & e2 & -> & H1 & H2)] Hd Hc; unfold p_seqrange; cbn [fst snd] in *.
  - subst b. cbv beta iota; erewrite bind_ok; [|apply seqnum_rt; eassumption].
    cbv beta iota; erewrite bind_ok; [|apply matchb_no; exact Hc]. reflexivity.
  - rewrite <- app_assoc. cbn [app]. cbv beta iota; erewrite bind_ok; [|apply seqnum_rt; [exact H1|reflexivity]].
    cbv beta iota; erewrite bind_ok; [|apply matchb_yes; reflexivity].
    cbv beta iota; erewrite bind_ok; [|apply seqnum_rt; eassumption]. reflexivity.
Qed.

Lemma seqset_rt : forall s bs rest fuel, EncSeqSet s bs -> (length s <= S fuel)%nat -> F_seq rest ->
  p_seqset fuel (bs ++ rest) = ROk s rest.
Proof.
  intros s bs rest fuel H Hl (Hd & Hc & Hm & _). unfold p_seqset.
  apply (sep_list_rt EncSeqRange p_seqrange (fun r => tok_is TT_Digit (cur_tok r) = false /\ tok_is TT_Colon (cur_tok r) = false) 44 TT_Comma);
    try reflexivity; try assumption.
  - intros a e r Ha [H1 H2]. apply seqrange_rt; assumption.
  - intro x. split; reflexivity.
  - split; assumption.
Qed.

(* ------------------------------------------------------------------ fixed-width numbers (dates) *)
Lemma digits_n_rt : forall ds k acc rest, all_bytes is_digit_byte ds -> (length ds <= k)%nat ->
  (length ds = k \/ tok_is TT_Digit (cur_tok rest) = false) ->
  p_digits_n k acc (ds ++ rest) = ROk (num_val acc ds) rest.
Proof.
  induction ds as [|d t IH]; intros k acc rest Hd Hl Hr; cbn [app num_val].
  - destruct k as [|k]; [reflexivity|]. cbn [p_digits_n]. destruct Hr as [Hr|Hr]; [discriminate Hr|].
    unfold tok_is in Hr. rewrite Hr. reflexivity.
  - destruct k as [|k]; [cbn in Hl; lia|]. cbn [p_digits_n cur_tok cur_val tl].
    rewrite (digit_byte_ok d (Hd d (or_introl eq_refl))), N.eqb_refl. unfold digit_val.
    apply IH; [intros b Hb; apply Hd; right; exact Hb|cbn in Hl; lia|].
    destruct Hr as [Hr|Hr]; [left; cbn in Hr; lia|right; exact Hr].
Qed.

Lemma number_n_rt : forall k n ds rest, EncNumUpTo k n ds -> tok_is TT_Digit (cur_tok rest) = false ->
  p_number_n k (ds ++ rest) = ROk n rest.
Proof.
  intros k n ds rest (Hne & Hl & Hd & Hv) Hr. destruct ds as [|d t]; [congruence|].
  destruct k as [|k]; [cbn in Hl; lia|]. cbn [p_number_n app].
  cbv beta iota; erewrite bind_ok; [|apply consume_rt; unfold tok_is; rewrite (digit_byte_ok d (Hd d (or_introl eq_refl))); reflexivity].
  cbn [num_val] in Hv. unfold digit_val. rewrite <- Hv. change (0 * 10 + (d - 48)) with (d - 48).
  apply digits_n_rt; [intros b Hb; apply Hd; right; exact Hb|cbn in Hl; lia|right; exact Hr].
Qed.

Lemma number_n_exact_rt : forall k n ds rest, EncNumExact k n ds -> p_number_n k (ds ++ rest) = ROk n rest.
Proof.
  intros k n ds rest (Hl & Hk & Hd & Hv). destruct ds as [|d t]; [cbn in Hl; congruence|].
  destruct k as [|k]; [congruence|]. cbn [p_number_n app].
  cbv beta iota; erewrite bind_ok; [|apply consume_rt; unfold tok_is; rewrite (digit_byte_ok d (Hd d (or_introl eq_refl))); reflexivity].
  cbn [num_val] in Hv. unfold digit_val. rewrite <- Hv. change (0 * 10 + (d - 48)) with (d - 48).
  apply digits_n_rt; [intros b Hb; apply Hd; right; exact Hb|cbn in Hl; lia|left; cbn in Hl; lia].
Qed.

(* ------------------------------------------------------------------ dates *)
Lemma month_rt : forall m bs rest, EncMonth m bs -> p_month (bs ++ rest) = ROk m rest.
Proof.
  intros m bs rest ([Hlo Hhi] & H).
  assert (L3 : length bs = 3%nat).
  { assert (X : length (lower bs) = 3%nat).
    { rewrite H. assert (C : m = 1 \/ m = 2 \/ m = 3 \/ m = 4 \/ m = 5 \/ m = 6 \/ m = 7 \/ m = 8 \/ m = 9 \/ m = 10 \/ m = 11 \/ m = 12) by lia.
      repeat (destruct C as [->|C]; [reflexivity|]). subst m. reflexivity. }
    unfold lower in X. rewrite map_length in X. exact X. }
  destruct bs as [|a [|b [|c [|? ?]]]]; try discriminate L3.
  assert (TA : forall x, In x [a; b; c] -> tok_of_byte x = TT_Char).
  { intros x Hx. apply letter_ok.
    assert (Y : In (to_lower x) (s2b (month_name m))) by (rewrite <- H; apply lower_in; exact Hx).
    assert (C : m = 1 \/ m = 2 \/ m = 3 \/ m = 4 \/ m = 5 \/ m = 6 \/ m = 7 \/ m = 8 \/ m = 9 \/ m = 10 \/ m = 11 \/ m = 12) by lia.
    assert (K : forall k, In (to_lower x) (s2b (month_name k)) -> (k = 1 \/ k = 2 \/ k = 3 \/ k = 4 \/ k = 5 \/ k = 6 \/ k = 7 \/ k = 8 \/ k = 9 \/ k = 10 \/ k = 11 \/ k = 12) ->
                is_lower_alpha (to_lower x) = true).
    { intros k Yk Ck.
      repeat (destruct Ck as [->|Ck];
              [match type of Yk with In _ (s2b (month_name ?j)) =>
                 let v := eval vm_compute in (s2b (month_name j)) in change (s2b (month_name j)) with v in Yk end;
               repeat (destruct Yk as [Yk|Yk]; [rewrite <- Yk; reflexivity|]); contradiction|]).
      subst k.
      match type of Yk with In _ (s2b (month_name ?j)) =>
        let v := eval vm_compute in (s2b (month_name j)) in change (s2b (month_name j)) with v in Yk end.
      repeat (destruct Yk as [Yk|Yk]; [rewrite <- Yk; reflexivity|]). contradiction. }
    exact (K m Y C). }
  unfold p_month. cbn [app].
  cbv beta iota; erewrite bind_ok; [|apply consume_rt; unfold tok_is; rewrite (TA a); [reflexivity|cbn; tauto]].
  cbv beta iota; erewrite bind_ok; [|apply consume_rt; unfold tok_is; rewrite (TA b); [reflexivity|cbn; tauto]].
  cbv beta iota; erewrite bind_ok; [|apply consume_rt; unfold tok_is; rewrite (TA c); [reflexivity|cbn; tauto]].
  cbv beta. rewrite H.
  assert (C : m = 1 \/ m = 2 \/ m = 3 \/ m = 4 \/ m = 5 \/ m = 6 \/ m = 7 \/ m = 8 \/ m = 9 \/ m = 10 \/ m = 11 \/ m = 12) by lia.
  repeat (destruct C as [->|C]; [reflexivity|]). subst m. reflexivity.
Qed.

Lemma day_fixed_rt : forall d bs rest, EncDayFixed d bs -> p_day_fixed (bs ++ rest) = ROk d rest.
Proof.
  intros d bs rest [(c & -> & Hc & ->)|H]; unfold p_day_fixed.
  - cbn [app]. cbv beta iota; erewrite bind_ok; [|apply matchb_yes; reflexivity].
    cbv beta iota; erewrite bind_ok; [|apply consume_rt; unfold tok_is; rewrite (digit_byte_ok c Hc); reflexivity].
    reflexivity.
  - cbv beta iota; erewrite bind_ok.
    2:{ apply matchb_no. destruct H as (Hl & _ & Hd & _). destruct bs as [|x t]; [discriminate Hl|].
        cbn [app cur_tok]. rewrite (digit_byte_ok x (Hd x (or_introl eq_refl))). reflexivity. }
    cbv beta iota. apply number_n_exact_rt. exact H.
Qed.

Lemma zone_rt : forall sign neg zh zm ezh ezm rest,
  ((sign = 43 /\ neg = false) \/ (sign = 45 /\ neg = true)) -> EncNumExact 2 zh ezh -> EncNumExact 2 zm ezm ->
  p_zone (sign :: ezh ++ ezm ++ rest) = ROk (neg, zh * 3600 + zm * 60) rest.
Proof.
  intros sign neg zh zm ezh ezm rest Hsg Hzh Hzm. unfold p_zone. destruct Hsg as [[-> ->]|[-> ->]].
  - cbv beta iota; erewrite bind_ok; [|apply matchb_yes; reflexivity].
    cbv beta iota; erewrite bind_ok; [|reflexivity].
    cbv beta iota; erewrite bind_ok; [|apply number_n_exact_rt; exact Hzh].
    cbv beta iota; erewrite bind_ok; [|apply number_n_exact_rt; exact Hzm]. reflexivity.
  - cbv beta iota; erewrite bind_ok; [|apply matchb_no; reflexivity].
    cbv beta iota; erewrite bind_ok.
    2:{ cbv beta iota; erewrite bind_ok; [|apply matchb_yes; reflexivity]. reflexivity. }
    cbv beta iota; erewrite bind_ok; [|apply number_n_exact_rt; exact Hzh].
    cbv beta iota; erewrite bind_ok; [|apply number_n_exact_rt; exact Hzm]. reflexivity.
Qed.

Lemma date_time_rt : forall dt bs rest, EncDateTime dt bs -> p_date_time (bs ++ rest) = ROk dt rest.
Proof.
  intros [[d m y] h mi s zneg zone] bs rest
    (ed & em & ey & eh & emi & es & sign & ezh & ezm & zh & zm & -> & Hd & Hm & Hy & Hh & Hmi & Hs & Hsg & Hzh & Hzm & Hz).
  cbn [dt_date d_day d_month d_year dt_hour dt_min dt_sec dt_zneg dt_zone] in *.
  unfold p_date_time. cbn [app]. repeat (rewrite <- app_assoc; cbn [app]).
  cbv beta iota; erewrite bind_ok; [|apply consume_rt; reflexivity].
  cbv beta iota; erewrite bind_ok; [|apply day_fixed_rt; exact Hd].
  cbv beta iota; erewrite bind_ok; [|apply consume_rt; reflexivity].
  cbv beta iota; erewrite bind_ok; [|apply month_rt; exact Hm].
  cbv beta iota; erewrite bind_ok; [|apply consume_rt; reflexivity].
  cbv beta iota; erewrite bind_ok; [|apply number_n_exact_rt; exact Hy].
  cbv beta iota; erewrite bind_ok; [|apply consume_rt; reflexivity].
  cbv beta iota; erewrite bind_ok.
  2:{ unfold p_time.
      cbv beta iota; erewrite bind_ok; [|apply number_n_exact_rt; exact Hh].
      cbv beta iota; erewrite bind_ok; [|apply consume_rt; reflexivity].
      cbv beta iota; erewrite bind_ok; [|apply number_n_exact_rt; exact Hmi].
      cbv beta iota; erewrite bind_ok; [|apply consume_rt; reflexivity].
      cbv beta iota; erewrite bind_ok; [|apply number_n_exact_rt; exact Hs]. reflexivity. }
  cbv beta iota; erewrite bind_ok; [|apply consume_rt; reflexivity].
  cbv beta iota; erewrite bind_ok; [|apply (zone_rt sign zneg zh zm ezh ezm _ Hsg Hzh Hzm)].
  cbv beta iota; erewrite bind_ok; [|apply consume_rt; reflexivity].
  cbv beta iota. unfold ret. cbn [fst snd]. rewrite Hz. reflexivity.
Qed.
