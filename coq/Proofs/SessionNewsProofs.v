(* C03 — proofs about Model/SessionNews.v *)
From Coq Require Import String Ascii.
From Coq Require Import List NArith Bool PeanoNat.
From Gluon Require Import Model.SessionNews.
Import ListNotations.
Open Scope list_scope.
Open Scope N_scope.

(* ---- Part 1 ---- *)

(* with the copy, every session computes the specified function of the update, whatever the order of the flushes and
   whatever mailboxes the sessions before it have selected: the shared set is never changed *)
Lemma flush_set_spec : forall (fl : Type) clones, clones = true -> forall from (u : mflags fl) ss,
  flush_set clones from u ss = map (handle_set from u) ss.
Proof.
  intros fl clones -> from u ss. induction ss as [|s r IH]; [reflexivity|].
  cbn [flush_set map]. unfold handle_set_impl at 1 2, handle_set at 1.
  destruct (s_has s); cbn [fst snd]; rewrite IH; reflexivity.
Qed.

(* the result of a session does not depend on which sessions flushed before it *)
Lemma flush_set_independent : forall (fl : Type) clones, clones = true -> forall from (u : mflags fl) before before' s,
  nth_error (flush_set clones from u (before ++ [s])) (length before) =
  nth_error (flush_set clones from u (before' ++ [s])) (length before') /\
  nth_error (flush_set clones from u (before ++ [s])) (length before) = Some (handle_set from u s).
Proof.
  intros fl clones H from u before before' s.
  assert (E : forall l, nth_error (flush_set clones from u (l ++ [s])) (length l) = Some (handle_set from u s)).
  { intro l. rewrite (flush_set_spec fl clones H), map_app, nth_error_app2; rewrite map_length; [|apply Nat.le_refl].
    rewrite Nat.sub_diag. reflexivity. }
  split; [rewrite !E; reflexivity | apply E].
Qed.

(* what the snapshot then marks \Deleted is what the mailbox of the session marks \Deleted in the index: the EXPUNGE view
   condition (`expunge_view_ok`) survives a STORE FLAGS issued through any mailbox *)
Lemma handle_set_deleted_agrees : forall (fl : Type) from (u : mflags fl) s old,
  s_has s = true -> snd (s_cur s) = old ->
  snd (s_cur (handle_set from u s)) = box_deleted_after from u (s_box s) old.
Proof.
  intros fl from u s old H E. unfold handle_set, box_deleted_after. rewrite H. cbn. rewrite E. reflexivity.
Qed.

Lemma flush_set_deleted_agrees : forall (fl : Type) clones, clones = true -> forall from (u : mflags fl) ss i s,
  nth_error ss i = Some s -> s_has s = true ->
  exists s', nth_error (flush_set clones from u ss) i = Some s' /\ s_box s' = s_box s /\
    snd (s_cur s') = box_deleted_after from u (s_box s) (snd (s_cur s)).
Proof.
  intros fl clones H from u ss i s E Hs. rewrite (flush_set_spec fl clones H).
  exists (handle_set from u s). split; [apply map_nth_error; exact E|].
  split; [unfold handle_set; rewrite Hs; reflexivity | apply handle_set_deleted_agrees; [exact Hs | reflexivity]].
Qed.

(* without the copy the statement is false: a session of another mailbox in which the message is \Deleted flushes first,
   then a session of the mailbox the STORE was issued in: it marks the message \Deleted although the STORE and the index
   say it is not *)
Definition shared_demo : list (snap1 unit) := [mkSnap1 2 true (tt, true); mkSnap1 1 true (tt, false)].

Lemma flush_set_shared_refuted :
  map (fun s => snd (s_cur s)) (flush_set false 1 (tt, false) shared_demo) = [true; true] /\
  map (fun s => snd (s_cur s)) (map (handle_set 1 (tt, false)) shared_demo) = [true; false] /\
  map (fun s => box_deleted_after 1 (tt, false) (s_box s) (snd (s_cur s))) shared_demo = [true; false] /\
  (* and the other way round: told in the other order nothing goes wrong *)
  map (fun s => snd (s_cur s)) (flush_set false 1 (tt, false) (rev shared_demo)) = [false; true].
Proof. vm_compute. repeat split; reflexivity. Qed.

(* ---- Part 2 ---- *)

Lemma close_wf : forall s, sess_wf (close_impl true s).
Proof. intros s _. reflexivity. Qed.

Lemma select_wf : forall resets load b s, sess_wf (select_impl resets load b s).
Proof. intros resets load b s H. discriminate H. Qed.

Lemma push_wf : forall n s, sess_wf s -> sess_wf (push_news n s).
Proof.
  intros n s W. unfold push_news. destruct (ss_snap s) eqn:E; [intro H; cbn in H; discriminate H|exact W].
Qed.

Lemma flush_wf : forall s, sess_wf s -> sess_wf (flush_news s).
Proof.
  intros s W. unfold flush_news. destruct (ss_snap s) as [[b r]|] eqn:E; [intro H; discriminate H|exact W].
Qed.

(* a session that selects a mailbox — with whatever news of the mailbox it leaves still pending — is, at its next flush,
   shown exactly the rows of the mailbox as read from the index: message sets denote messages of that mailbox *)
Lemma select_then_flush : forall resets, resets = true -> forall load b s, sess_wf s ->
  flush_news (select_impl resets load b s) = mkSess (Some (b, load b)) [].
Proof.
  intros resets -> load b s W. unfold select_impl, flush_news, close_impl.
  destruct (ss_snap s) eqn:E; cbn; [reflexivity|]. rewrite (W E). reflexivity.
Qed.

(* news pushed while the old mailbox is selected do not matter *)
Lemma pushes_then_select_then_flush : forall resets, resets = true -> forall load b ns s, sess_wf s ->
  flush_news (select_impl resets load b (fold_right push_news s ns)) = mkSess (Some (b, load b)) [].
Proof.
  intros resets H load b ns s W. apply select_then_flush; [exact H|].
  induction ns as [|n r IH]; [exact W | cbn; apply push_wf; exact IH].
Qed.

(* without the reset the statement is false: the message that joined the mailbox that was left shows up in the other one *)
Lemma select_without_reset_refuted :
  let s := push_news (NExists 11 2) (mkSess (Some (1, [(1, 10)])) []) in
  let load := fun b => if N.eqb b 2 then [(1, 20)] else [(1, 10); (2, 11)] in
  ss_snap (flush_news (select_impl false load 2 s)) = Some (2, [(1, 20); (2, 11)]) /\
  ss_snap (flush_news (select_impl true load 2 s)) = Some (2, [(1, 20)]).
Proof. vm_compute. split; reflexivity. Qed.
